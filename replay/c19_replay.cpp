// Native replay for C19: the real ll_l2cap_sdu_buffer<..., MTUSize>::add_to_receive_buffer with the verifier's witness.
// The object lives in the middle of a guarded arena: every byte outside receive_buffer_ and the two receive counters is
// compared before/after (an overflow that stays inside the object is invisible to ASan).
#include <cassert>
#include <algorithm>
#include <iterator>
#include <new>
#include <vector>
#include <bluetoe/ll_l2cap_sdu_buffer.hpp>
#include <bluetoe/default_pdu_layout.hpp>
#include "replay_util.hpp"

template < std::size_t LO >
struct mock_radio {
    struct layout : bluetoe::link_layer::default_pdu_layout {};
    static constexpr std::size_t header_size = 2, layout_overhead = LO;
};
struct callbacks {};

template < std::size_t MTU, std::size_t LO >
static int run( const replay_args& a )
{
    using buf_t = bluetoe::link_layer::ll_l2cap_sdu_buffer< mock_radio< LO >, callbacks, MTU >;
    static std::uint8_t arena[ 8192 ];
    std::fill( std::begin( arena ), std::end( arena ), 0x5a );
    buf_t* obj = new ( &arena[ 2048 ] ) buf_t;
    std::fill( std::begin( obj->transmit_buffer_ ), std::end( obj->transmit_buffer_ ), 0x77 );
    obj->receive_buffer_used_ = a.unum( "W_used" );
    obj->receive_size_        = a.unum( "W_rsize" );
    const std::size_t n = a.unum( "W_n" );
    std::vector< std::uint8_t > in( n + 1, 0xee );
    std::vector< std::uint8_t > before( std::begin( arena ), std::end( arena ) );
    obj->add_to_receive_buffer( in.data(), in.data() + n );
    const std::uint8_t* rb = obj->receive_buffer_;
    const std::uint8_t* rb_end = rb + sizeof( obj->receive_buffer_ );
    int touched = 0; std::ptrdiff_t first = -1;
    for ( std::size_t i = 0; i != sizeof( arena ); ++i ) {
        const std::uint8_t* p = &arena[ i ];
        const bool allowed = ( p >= rb && p < rb_end )
            || ( p >= reinterpret_cast< std::uint8_t* >( &obj->receive_size_ ) && p < reinterpret_cast< std::uint8_t* >( &obj->receive_size_ + 1 ) )
            || ( p >= reinterpret_cast< std::uint8_t* >( &obj->receive_buffer_used_ ) && p < reinterpret_cast< std::uint8_t* >( &obj->receive_buffer_used_ + 1 ) );
        if ( !allowed && arena[ i ] != before[ i ] ) { ++touched; if ( first < 0 ) first = p - rb; }
    }
    std::printf( "MTUSize %zu (receive_buffer_ %zu bytes), used %llu, expected %llu, fragment of %zu bytes: %d byte(s) outside the receive buffer changed, first at receive_buffer_+%td\n",
        MTU, sizeof( obj->receive_buffer_ ), a.unum( "W_used" ), a.unum( "W_rsize" ), n, touched, first );
    REPLAY_CHECK( touched == 0 );
    std::printf( "not reproduced\n" );
    return 0;
}

template < std::size_t MTU > struct dispatch {
    static int go( std::size_t mtu, std::size_t lo, const replay_args& a ) {
        return mtu == MTU ? ( lo ? run< MTU, 1 >( a ) : run< MTU, 0 >( a ) ) : dispatch< MTU - 1 >::go( mtu, lo, a ); }
};
template <> struct dispatch< 23 > { static int go( std::size_t, std::size_t, const replay_args& ) { std::printf( "MTUSize out of menu\n" ); return 2; } };

int main( int argc, char** argv )
{
    replay_args a( argc, argv );
    return dispatch< 128 >::go( a.unum( "W_MTU" ), a.unum( "W_lo" ), a );
}
