// Native replay for C39: the real bootloader controller with a recording hardware handler; every memory operation the controller asks for is
// checked against the white list [0x1000, 0x1100) u [0x2000, 0x2040), page size 16.
#include <cassert>
#include <iterator>
#include <algorithm>
#include <vector>
#include <bluetoe/services/bootloader.hpp>
#include "replay_util.hpp"

namespace bl = bluetoe::bootloader;
static bool inside( std::uintptr_t s, std::uintptr_t e ) { return s <= e && ( ( s >= 0x1000 && e <= 0x1100 ) || ( s >= 0x2000 && e <= 0x2040 ) ); }
static int violations = 0;
static void touch( const char* what, std::uintptr_t a, std::size_t n )
{
    if ( n && !inside( a, a + n ) ) { ++violations; std::printf( "REPRODUCED: %s touches [0x%lx, 0x%lx) which is not inside the white list\n", what, (unsigned long)a, (unsigned long)( a + n ) ); }
}
struct handler_t {
    int indications = 0, notifications = 0;
    bl::error_codes start_flash( std::uintptr_t address, const std::uint8_t*, std::size_t size ) { touch( "start_flash", address, size ); return bl::error_codes::success; }
    bl::error_codes run( std::uintptr_t ) { return bl::error_codes::success; }
    bl::error_codes reset() { return bl::error_codes::success; }
    std::pair< const std::uint8_t*, std::size_t > get_version() { static const std::uint8_t v[] = { 1 }; return { v, 1 }; }
    void read_mem( std::uintptr_t address, std::size_t size, std::uint8_t* d ) { touch( "read_mem", address, size ); std::fill( d, d + size, 0 ); }
    std::uint32_t checksum32( std::uintptr_t, std::size_t ) { return 0; }
    std::uint32_t checksum32( const std::uint8_t*, std::size_t, std::uint32_t c ) { return c + 1; }
    std::uint32_t checksum32( std::uintptr_t ) { return 7; }
    bl::error_codes public_read_mem( std::uintptr_t address, std::size_t size, std::uint8_t* d ) { touch( "public_read_mem", address, size ); std::fill( d, d + size, 0 ); return bl::error_codes::success; }
    std::uint32_t public_checksum32( std::uintptr_t a, std::size_t n ) { touch( "public_checksum32", a, n ); return 0; }
    void control_point_notification_call_back() { ++notifications; }
    void data_indication_call_back() { ++indications; }
};
using ctl_t = bl::controller< handler_t, bl::white_list< bl::memory_region< 0x1000, 0x1100 >, bl::memory_region< 0x2000, 0x2040 > >, 16 >;
static std::vector< std::uint8_t > with_addr( std::uint8_t op, std::initializer_list< std::uintptr_t > as )
{
    std::vector< std::uint8_t > v{ op };
    for ( auto a : as ) for ( std::size_t i = 0; i < sizeof( void* ); ++i ) v.push_back( a >> ( 8 * i ) );
    return v;
}
int main( int argc, char** argv )
{
    replay_args a( argc, argv );
    // 1. data that runs over the end of a white listed region
    for ( std::uintptr_t start : { std::uintptr_t( 0x10f0 ), std::uintptr_t( 0x10f8 ), std::uintptr_t( 0x1100 ), std::uintptr_t( 0x2030 ), std::uintptr_t( 0xfff ), ~std::uintptr_t( 0 ) } ) {
        ctl_t c;
        const auto req = with_addr( 3, { start } );
        const auto r = c.bootloader_write_control_point( req.size(), req.data() );
        std::uint8_t data[ 48 ]; std::fill( std::begin( data ), std::end( data ), 0x55 );
        std::uint8_t rc = 0xff;
        if ( r.first == 0 ) { rc = c.bootloader_write_data( sizeof data, data ); std::uint8_t o[ 20 ]; std::size_t os = 20; c.bootloader_progress_data( 20, o, os ); rc = c.bootloader_write_data( sizeof data, data ); }
        std::printf( "Start Flash at 0x%lx: %s; 2 x 48 octets of data: rc 0x%02x\n", (unsigned long)start, r.first == 0 ? "accepted" : "refused", rc );
        if ( violations ) return 1;
    }
    // 2. a Read request that is shorter than opcode + two addresses: the addresses would come from octets behind the written value
    {
        ctl_t c;
        std::vector< std::uint8_t > behind = with_addr( 8, { 0x1000, 0x1010 } );   // what happens to lie behind a one octet value
        const auto r = c.bootloader_write_control_point( 1, behind.data() );
        std::printf( "Read request of 1 octet: result 0x%02x, data indications requested: %d\n", r.first, c.indications );
        if ( r.first == 0 ) { std::printf( "REPRODUCED: the one octet Read request was accepted: start / end address were taken from %zu octets behind the written value\n", behind.size() - 1 ); return 1; }
    }
    std::printf( "not reproduced\n" );
    return 0;
}
