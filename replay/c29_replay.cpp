// Native replay for C29: the real link_layer with the repository's test radio and connection_callbacks< T, obj >. The central sends, within one
// connection event, n LL_UNKNOWN_RSP PDUs followed by LL_TERMINATE_IND; every PDU produces one event for the application. The reference:
// every connection that was reported established is reported closed exactly once.
#define BOOST_TEST_NO_MAIN
#define BOOST_TEST_ALTERNATIVE_INIT_API
#include <boost/test/included/unit_test.hpp>
#include "connected.hpp"
#include "replay_util.hpp"

struct app_t {
    int requested = 0, established = 0, closed = 0, unknown = 0, order_errors = 0;
    template < typename C > void ll_connection_requested( const bluetoe::link_layer::connection_details&, const bluetoe::link_layer::connection_addresses&, const C& ) { ++requested; }
    template < typename C > void ll_connection_established( const bluetoe::link_layer::connection_details&, const bluetoe::link_layer::connection_addresses&, const C& ) { if ( requested != established + 1 ) ++order_errors; ++established; }
    template < typename C > void ll_connection_closed( std::uint8_t, const C& ) { if ( established != closed + 1 ) ++order_errors; ++closed; }
    template < typename C > void ll_unknown( std::uint8_t, const C& ) { ++unknown; }
} app;
using ll_t = unconnected_base< bluetoe::link_layer::connection_callbacks< app_t, app >, bluetoe::link_layer::buffer_sizes< 200u, 200u > >;

static int play( unsigned n, bool verbose )
{
    app = app_t();
    ll_t ll;
    ll.respond_to( 37, valid_connection_request_pdu );
    ll.ll_empty_pdu();
    // one connection event: n x LL_UNKNOWN_RSP( unknown type 0x14 ), then LL_TERMINATE_IND( remote user terminated connection ); SN / NESN are set by the test radio
    test::pdu_list_t pdus;
    for ( unsigned i = 0; i != n; ++i ) pdus.push_back( { 0x03, 0x02, 0x07, 0x14 } );
    pdus.push_back( { 0x03, 0x02, 0x02, 0x13 } );
    ll.add_connection_event_respond( test::connection_event_response( pdus ) );
    ll.run( 8 );
    if ( verbose ) std::printf( "%u x LL_UNKNOWN_RSP + LL_TERMINATE_IND in one connection event: requested %d, established %d, unknown %d, closed %d\n", n, app.requested, app.established, app.unknown, app.closed );
    if ( app.established == 1 && app.closed != 1 ) {
        std::printf( "REPRODUCED: connection established, then %u x LL_UNKNOWN_RSP followed by LL_TERMINATE_IND within one connection event: ll_unknown reported %d times, "
                     "ll_connection_closed reported %d times (the event ring of 4 was full, try_push's result is ignored)\n", n, app.unknown, app.closed );
        return 1;
    }
    return 0;
}
int main( int argc, char** argv )
{
    replay_args a( argc, argv );
    if ( a.has( "n" ) ) return play( a.unum( "n" ), true );
    for ( unsigned n = 0; n <= 8; ++n ) if ( play( n, false ) ) return 1;
    std::printf( "not reproduced\n" );
    return 0;
}
bool init_unit_test() { return true; }
