// Native replay for C27 (response time out): the real link_layer with the repository's test radio. The peripheral starts a procedure (connection parameter request,
// PHY request, version exchange), the central never answers and goes on sending empty PDUs for 60 s. The reference: the link is ended by the peripheral after 40 s.
#define BOOST_TEST_NO_MAIN
#define BOOST_TEST_ALTERNATIVE_INIT_API
#include <boost/test/included/unit_test.hpp>
#include "connected.hpp"
#include "replay_util.hpp"

using ll_t = unconnected_base_t< test::small_temperature_service, test::radio_with_2mbit, bluetoe::link_layer::buffer_sizes< 200u, 200u > >;

static int play( int procedure, bool verbose )
{
    static const char* const names[] = { "connection parameter request", "PHY request", "version exchange" };
    ll_t ll;
    ll.respond_to( 37, valid_connection_request_pdu );
    ll.ll_empty_pdus( 3 );
    bool requested = false;
    ll.ll_function_call( [&]{
        requested = procedure == 0 ? ll.connection_parameter_update_request( 10, 20, 3, 2 * 20 * 4 ) : procedure == 1 ? ll.phy_update_request_to_2mbit() : ll.remote_versions_request(); } );
    const unsigned interval_ms = 30, events = 60000 / interval_ms;
    ll.end_of_simulation( bluetoe::link_layer::delta_time::seconds( 70 ) );
    ll.ll_empty_pdus( events );
    ll.run( 4 );
    std::size_t with_traffic = 0; bool request_sent = false;
    const std::uint8_t opcode = procedure == 0 ? 0x0f : procedure == 1 ? 0x16 : 0x0c;
    for ( const auto& ev : ll.connection_events() ) {
        if ( !ev.received_data.empty() ) ++with_traffic;
        for ( const auto& pdu : ev.transmitted_data ) if ( pdu.size() >= 3 && ( pdu[ 0 ] & 3 ) == 3 && pdu[ 2 ] == opcode ) request_sent = true;
    }
    const double alive_s = with_traffic * interval_ms / 1000.0;
    if ( verbose ) std::printf( "%s: accepted %d, request sent %d, connection events with traffic afterwards: %zu (%.1f s)\n", names[ procedure ], requested, request_sent, with_traffic, alive_s );
    if ( requested && request_sent && alive_s > 45.0 ) {
        std::printf( "REPRODUCED: %s sent by the peripheral, never answered by the central: the link is still up after %.1f s (response time out is 40 s)\n", names[ procedure ], alive_s );
        return 1;
    }
    return 0;
}
// one LL_VERSION_IND per connection: the peripheral asks for the versions, the central answers; later the application asks again
static int versions( bool verbose )
{
    ll_t ll;
    ll.respond_to( 37, valid_connection_request_pdu );
    ll.ll_empty_pdus( 3 );
    ll.ll_function_call( [&]{ ll.remote_versions_request(); } );
    ll.ll_empty_pdus( 3 );
    ll.ll_control_pdu( { 0x0C, 0x08, 0x47, 0x11, 0x08, 0x15 } );
    ll.ll_empty_pdus( 3 );
    ll.ll_function_call( [&]{ ll.remote_versions_request(); } );
    ll.ll_empty_pdus( 6 );
    ll.run( 4 );
    std::size_t indications = 0;
    for ( const auto& ev : ll.connection_events() ) for ( const auto& pdu : ev.transmitted_data ) if ( pdu.size() >= 3 && ( pdu[ 0 ] & 3 ) == 3 && pdu[ 2 ] == 0x0c ) ++indications;
    if ( verbose ) std::printf( "version exchange started by the peripheral, answered, started again: %zu LL_VERSION_IND sent\n", indications );
    if ( indications > 1 ) { std::printf( "REPRODUCED: the peripheral sent %zu LL_VERSION_IND PDUs on one connection\n", indications ); return 1; }
    return 0;
}
// one LL_VERSION_IND per connection, also when the response time out of the unanswered version exchange was stopped by the instant of a connection update
static int versions_after_update( bool verbose )
{
    ll_t ll;
    ll.respond_to( 37, valid_connection_request_pdu );
    ll.ll_empty_pdus( 3 );
    ll.ll_function_call( [&]{ ll.remote_versions_request(); } );
    ll.ll_empty_pdus( 2 );
    ll.ll_control_pdu( { 0x00, 0x01, 0x02, 0x00, 0x18, 0x00, 0x00, 0x00, 0x48, 0x00, 12, 0 } );   // LL_CONNECTION_UPDATE_IND, instant 12
    ll.ll_empty_pdus( 10 );
    bool again = false;
    ll.ll_function_call( [&]{ again = ll.remote_versions_request(); } );
    ll.ll_empty_pdus( 6 );
    ll.run( 4 );
    std::size_t indications = 0;
    for ( const auto& ev : ll.connection_events() ) for ( const auto& pdu : ev.transmitted_data ) if ( pdu.size() >= 3 && ( pdu[ 0 ] & 3 ) == 3 && pdu[ 2 ] == 0x0c ) ++indications;
    if ( verbose ) std::printf( "version exchange (unanswered), connection update at its instant, version exchange requested again (accepted: %d): %zu LL_VERSION_IND sent\n", again, indications );
    if ( indications > 1 ) { std::printf( "REPRODUCED: the peripheral sent %zu LL_VERSION_IND PDUs on one connection (second request after a connection update stopped the response time out)\n", indications ); return 1; }
    return 0;
}
// the central's version indication / PHY update is not the answer to a running connection parameter request
static int foreign( bool verbose, int phy = 0 )
{
    ll_t ll;
    ll.respond_to( 37, valid_connection_request_pdu );
    ll.ll_empty_pdus( 3 );
    ll.ll_function_call( [&]{ ll.connection_parameter_update_request( 10, 20, 3, 2 * 20 * 4 ); } );
    ll.ll_empty_pdus( 3 );
    if ( phy == 2 ) ll.ll_control_pdu( { 0x11, 0x12, 0x1a } );   // LL_REJECT_EXT_IND naming LL_PING_REQ
    else if ( phy ) ll.ll_control_pdu( { 0x18, 0x00, 0x00, 0x00, 0x00 } );
    else       ll.ll_control_pdu( { 0x0C, 0x08, 0x47, 0x11, 0x08, 0x15 } );
    ll.end_of_simulation( bluetoe::link_layer::delta_time::seconds( 70 ) );
    ll.ll_empty_pdus( 2000 );
    ll.run( 4 );
    std::size_t with_traffic = 0;
    for ( const auto& ev : ll.connection_events() ) if ( !ev.received_data.empty() ) ++with_traffic;
    const char* const what = phy == 2 ? "LL_REJECT_EXT_IND( LL_PING_REQ )" : phy ? "LL_PHY_UPDATE_IND" : "LL_VERSION_IND";
    if ( verbose ) std::printf( "connection parameter request, then %s of the central, no answer to the request: %.1f s\n", what, with_traffic * 0.03 );
    if ( with_traffic * 0.03 > 45.0 ) { std::printf( "REPRODUCED: connection parameter request never answered, the central's %s stopped the response time out: link still up after %.1f s\n", what, with_traffic * 0.03 ); return 1; }
    return 0;
}
// a second procedure started while the first one is not answered must not take the first one's response time out away
static int shared( bool verbose )
{
    ll_t ll;
    ll.respond_to( 37, valid_connection_request_pdu );
    ll.ll_empty_pdus( 3 );
    ll.ll_function_call( [&]{ ll.connection_parameter_update_request( 10, 20, 3, 2 * 20 * 4 ); } );
    ll.ll_empty_pdus( 3 );
    bool accepted = false;
    ll.ll_function_call( [&]{ accepted = ll.phy_update_request_to_2mbit(); } );
    ll.ll_empty_pdus( 3 );
    ll.ll_control_pdu( { 0x18, 0x00, 0x00, 0x00, 0x00 } );   // the central answers the PHY request (if one was sent), never the connection parameter request
    ll.end_of_simulation( bluetoe::link_layer::delta_time::seconds( 70 ) );
    ll.ll_empty_pdus( 2000 );
    ll.run( 4 );
    std::size_t with_traffic = 0;
    for ( const auto& ev : ll.connection_events() ) if ( !ev.received_data.empty() ) ++with_traffic;
    if ( verbose ) std::printf( "connection parameter request, then a PHY request (accepted: %d) that is answered, the first request never: %.1f s\n", accepted, with_traffic * 0.03 );
    if ( with_traffic * 0.03 > 45.0 ) { std::printf( "REPRODUCED: connection parameter request never answered; a PHY request started and answered meanwhile stopped its response time out: link still up after %.1f s\n", with_traffic * 0.03 ); return 1; }
    return 0;
}
// an answered PHY request does not end the link
using ll_no_2mbit_t = unconnected_base_t< test::small_temperature_service, test::radio, bluetoe::link_layer::buffer_sizes< 200u, 200u > >;
template < class LL >
static int answered( bool verbose, const char* radio )
{
    LL ll;
    ll.respond_to( 37, valid_connection_request_pdu );
    ll.ll_empty_pdus( 3 );
    ll.ll_function_call( [&]{ ll.phy_update_request_to_2mbit(); } );
    ll.ll_empty_pdus( 3 );
    ll.ll_control_pdu( { 0x18, 0x00, 0x00, 0x00, 0x00 } );
    ll.end_of_simulation( bluetoe::link_layer::delta_time::seconds( 70 ) );
    ll.ll_empty_pdus( 2000 );
    ll.run( 4 );
    std::size_t with_traffic = 0;
    for ( const auto& ev : ll.connection_events() ) if ( !ev.received_data.empty() ) ++with_traffic;
    if ( verbose ) std::printf( "PHY request answered with LL_PHY_UPDATE_IND( unchanged ), %s: link up for %.1f s\n", radio, with_traffic * 0.03 );
    if ( with_traffic * 0.03 < 55.0 ) { std::printf( "REPRODUCED: PHY request answered by the central (%s), the link was ended after %.1f s anyway\n", radio, with_traffic * 0.03 ); return 1; }
    return 0;
}
int main( int argc, char** argv )
{
    replay_args a( argc, argv );
    if ( a.has( "procedure" ) ) return play( (int)a.num( "procedure" ), true );
    int rc = 0;
    for ( int p = 0; p != 3; ++p ) rc |= play( p, true );
    rc |= versions( true );
    rc |= versions_after_update( true );
    rc |= foreign( true );
    rc |= foreign( true, 1 );
    rc |= foreign( true, 2 );
    rc |= answered< ll_t >( true, "radio with 2 MBit support" );
    rc |= answered< ll_no_2mbit_t >( true, "radio without 2 MBit support (the answer itself gets LL_UNKNOWN_RSP)" );
    rc |= shared( true );
    if ( !rc ) std::printf( "not reproduced\n" );
    return rc;
}
bool init_unit_test() { return true; }
