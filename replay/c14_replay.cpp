// Native replay for C14: advertising_data() / scan_response_data() of real servers from a menu (name, appearance, 16 / 128 bit service lists,
// connection interval range), for every buffer size 0..31 (and the witness size): fits, tiles, flags first, guard byte untouched.
#include <cassert>
#include <iterator>
#include <algorithm>
#include <vector>
#include <bluetoe/server.hpp>
#include <bluetoe/service.hpp>
#include <bluetoe/characteristic.hpp>
#include <bluetoe/appearance.hpp>
#include <bluetoe/peripheral_connection_interval_range.hpp>
#include <bluetoe/adv_service_list.hpp>
#include <bluetoe/server_name.hpp>
#include "replay_util.hpp"

static std::uint8_t v;
using chr = bluetoe::characteristic< bluetoe::characteristic_uuid16< 0x1000 >, bluetoe::bind_characteristic_value< std::uint8_t, &v > >;
static constexpr char long_name[] = "a rather long device name, longer than 31";
static constexpr char short_name[] = "abc";
using s16a = bluetoe::service< bluetoe::service_uuid16< 0x180F >, chr >;
using s16b = bluetoe::service< bluetoe::service_uuid16< 0x1816 >, chr >;
using s128 = bluetoe::service< bluetoe::service_uuid< 0xD7E08435, 0xA713, 0x4A51, 0x92DB, 0x004A8C63B6F8 >, chr >;
using srv_a = bluetoe::server< s16a >;
using srv_b = bluetoe::server< bluetoe::server_name< long_name >, s16a, s16b, s128 >;
using srv_c = bluetoe::server< bluetoe::server_name< short_name >, bluetoe::appearance::keyboard, bluetoe::advertise_appearance, bluetoe::peripheral_connection_interval_range< 6, 100 >, s16a, s128 >;
using srv_d = bluetoe::server< bluetoe::list_of_16_bit_service_uuids< bluetoe::service_uuid16< 0x1801 >, bluetoe::service_uuid16< 0x1802 >, bluetoe::service_uuid16< 0x1803 >, bluetoe::service_uuid16< 0x1804 >,
    bluetoe::service_uuid16< 0x1805 >, bluetoe::service_uuid16< 0x1806 >, bluetoe::service_uuid16< 0x1807 >, bluetoe::service_uuid16< 0x1808 >, bluetoe::service_uuid16< 0x1809 >,
    bluetoe::service_uuid16< 0x180A >, bluetoe::service_uuid16< 0x180B >, bluetoe::service_uuid16< 0x180C >, bluetoe::service_uuid16< 0x180D >, bluetoe::service_uuid16< 0x180E > >, s16a >;

static bool tiles( const std::uint8_t* b, std::size_t n )
{
    std::size_t p = 0;
    while ( p < n ) {
        if ( b[ p ] == 0 ) return p + 2 == n && b[ p + 1 ] == 0;
        if ( p + 1 + b[ p ] > n ) return false;
        p += 1 + b[ p ];
    }
    return p == n;
}
template < class S >
static int one( const char* what, std::size_t room, bool scan )
{
    S srv;
    std::vector< std::uint8_t > buf( room + 2, 0xEE );
    const std::size_t r = scan ? srv.scan_response_data( buf.data(), room ) : srv.advertising_data( buf.data(), room );
    bool ok = r <= room && buf[ room ] == 0xEE && buf[ room + 1 ] == 0xEE && ( r > room || tiles( buf.data(), r ) );
    if ( !scan && room >= 3 ) ok = ok && buf[ 0 ] == 2 && buf[ 1 ] == 1 && buf[ 2 ] == 6;
    if ( !ok ) {
        std::printf( "REPRODUCED: %s %s with a buffer of %zu octets returns %zu:", what, scan ? "scan_response_data" : "advertising_data", room, r );
        for ( std::size_t i = 0; i < room + 2 && i < 34; ++i ) std::printf( " %02x", buf[ i ] );
        std::printf( "%s\n", buf[ room ] != 0xEE || buf[ room + 1 ] != 0xEE ? "  (octet behind the buffer overwritten)" : "" );
        return 1;
    }
    return 0;
}
int main( int argc, char** argv )
{
    replay_args a( argc, argv );
    std::vector< std::size_t > rooms; rooms.push_back( a.unum( "W_room" ) <= 64 ? a.unum( "W_room" ) : 31 );
    for ( std::size_t r = 0; r <= 31; ++r ) rooms.push_back( r );
    for ( std::size_t room : rooms ) for ( int scan = 0; scan < 2; ++scan ) {
        if ( one< srv_a >( "server< one 16 bit service >", room, scan ) ) return 1;
        if ( one< srv_b >( "server< long name, two 16 bit and one 128 bit service >", room, scan ) ) return 1;
        if ( one< srv_c >( "server< short name, appearance, interval range, 16 + 128 bit service >", room, scan ) ) return 1;
        if ( one< srv_d >( "server< list of fourteen 16 bit UUIDs >", room, scan ) ) return 1;
    }
    std::printf( "not reproduced\n" );
    return 0;
}
