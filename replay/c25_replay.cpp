// Native replay for C25 (scan requests, nRF52 binding): the real nrf52_radio_base<>::is_valid_scan_request() with a mocked Hardware and
// mocked call backs; the object lives in zeroed raw storage (its constructor would start clocks and the radio).
#include <cstdint>
static inline std::uint32_t __get_PRIMASK() { return 0; } static inline void __disable_irq() {} static inline void __set_PRIMASK( std::uint32_t ) {}
#include <bluetoe/nrf52.hpp>
#include "replay_util.hpp"
#include "c25_oracle.hpp"

struct hw52 {
    struct lock_guard {};
    static bool invalid; static int gap;
    static bool resolving_address_invalid() { return invalid; }
    static int  pdu_gap_required_by_encryption() { return gap; }
};
bool hw52::invalid; int hw52::gap;
struct buf52 {};
struct cb52 : bluetoe::nrf52_details::nrf52_radio_base< cb52, hw52, buf52 > {
    bool is_scan_request_in_filter( const bluetoe::link_layer::device_address& a ) const { filter_asked( a ); return filter_answer; }
};
int main( int argc, char** argv )
{
    replay_args a( argc, argv );
    return run_scan_request_cases( a, []( const scan_case& c ) -> bool {
        alignas( cb52 ) static unsigned char mem[ sizeof( cb52 ) ];
        std::memset( mem, 0, sizeof( mem ) );
        cb52& r = *reinterpret_cast< cb52* >( mem );
        hw52::invalid = c.resolving_invalid; hw52::gap = c.gap;
        static std::uint8_t rx[ 16 ], rsp[ 16 ];
        c.fill( rx, rsp );
        r.receive_buffer_ = bluetoe::link_layer::read_buffer{ rx, 15 };
        r.response_data_  = c.has_response ? bluetoe::link_layer::write_buffer{ rsp, 9 } : bluetoe::link_layer::write_buffer{ nullptr, 0 };
        return r.is_valid_scan_request();
    }, true );
}
