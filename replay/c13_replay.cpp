// Native replay for C13: the real notification_queue_impl<Size> (built with -DBLUETOE_VERIF so that the byte
// update in add()/remove() is a load, a yield and a store) and a deterministic "other context" that runs the real
// queue operations at the yield point, as chosen by the verifier's counterexample.
#include <cassert>
#include <tuple>
#include <functional>
#include <bluetoe/notification_queue.hpp>
#include "replay_util.hpp"

static std::function< void() > at_yield;
static bool in_yield = false;
extern "C" void bluetoe_verif_yield()
{
    if ( in_yield || !at_yield ) return;      // the other context is not interrupted itself
    in_yield = true; at_yield(); in_yield = false;
}

template < int Size >
static int run( const replay_args& a )
{
    using queue_t = bluetoe::details::notification_queue_impl< Size, 0 >;
    queue_t q;
    const std::size_t index = a.unum( "W_index" );
    const int bits = a.num( "W_bits" );
    const std::size_t byte = index / 4;
    const std::uint8_t other_new = a.unum( "W_other_new" );
    q.queue_[ byte ] = a.unum( "W_byte" );
    std::uint8_t set_by_other = 0, cleared_by_other = 0;

    if ( a.is( "remove_under_interference.remove_" ) ) {
        at_yield = [&]{
            const std::uint8_t before = q.queue_[ byte ];
            for ( int b = 0; b != 8; ++b )
                if ( ( other_new & ~before ) & ( 1 << b ) ) { q.add( byte * 4 + b / 2, 1 << ( b % 2 ) ); }   // notify()/indicate() from the ISR
            set_by_other = q.queue_[ byte ] & ~before;
        };
        q.remove( index, bits );
        std::printf( "byte before=0x%02x, ISR queued 0x%02x during remove(%zu,%d), byte after=0x%02x\n", (unsigned)a.unum( "W_byte" ), set_by_other, index, bits, q.queue_[ byte ] );
        REPLAY_CHECK( ( q.queue_[ byte ] & set_by_other ) == set_by_other );
    } else if ( a.is( "add_under_interference.add" ) ) {
        at_yield = [&]{
            const std::uint8_t before = q.queue_[ byte ];
            for ( int b = 0; b != 8; ++b )
                if ( ( before & ~other_new ) & ( 1 << b ) ) { q.remove( byte * 4 + b / 2, 1 << ( b % 2 ) ); }  // the link layer dequeues
            cleared_by_other = before & ~q.queue_[ byte ];
        };
        q.add( index, bits );
        std::printf( "byte before=0x%02x, consumer dequeued 0x%02x during add(%zu,%d), byte after=0x%02x\n", (unsigned)a.unum( "W_byte" ), cleared_by_other, index, bits, q.queue_[ byte ] );
        REPLAY_CHECK( ( q.queue_[ byte ] & cleared_by_other & ~( bits << ( ( index % 4 ) * 2 ) ) ) == 0 );
    } else {
        std::printf( "no replay for unit %s\n", a.str( "unit" ).c_str() ); return 2;
    }
    std::printf( "not reproduced\n" );
    return 0;
}

template < int Size > struct dispatch {
    static int go( int size, const replay_args& a ) { return size == Size ? run< Size >( a ) : dispatch< Size - 1 >::go( size, a ); }
};
template <> struct dispatch< 1 > { static int go( int, const replay_args& ) { std::printf( "Size out of menu\n" ); return 2; } };

int main( int argc, char** argv )
{
    replay_args a( argc, argv );
    return dispatch< 64 >::go( a.num( "W_Size" ), a );
}
