// Native replay for C25 (scan requests, nRF51 binding): the real scheduled_radio_base::is_valid_scan_request() of nrf51.cpp, compiled for the
// host against the generated register stub replay/nrf51_stub/nrf.h; the object lives in zeroed raw storage (its constructor would wait for
// clock events), the call back reference (first member) is planted by hand.
#include <cstdint>
static inline std::uint32_t __get_PRIMASK() { return 0; } static inline void __disable_irq() {} static inline void __set_PRIMASK( std::uint32_t ) {}
#include <bluetoe/bindings/nordic/nrf51/nrf51.cpp>
#include "replay_util.hpp"
#include "c25_oracle.hpp"
#include <sys/wait.h>
#include <unistd.h>

struct cb51 : bluetoe::nrf51_details::adv_callbacks {
    void adv_received( const bluetoe::link_layer::read_buffer& ) override {}
    void adv_timeout() override {}
    void timeout() override {}
    void end_event() override {}
    bluetoe::link_layer::write_buffer received_data( const bluetoe::link_layer::read_buffer& ) override { return bluetoe::link_layer::write_buffer{ nullptr, 0 }; }
    bluetoe::link_layer::write_buffer next_transmit() override { return bluetoe::link_layer::write_buffer{ nullptr, 0 }; }
    bluetoe::link_layer::read_buffer allocate_receive_buffer() override { return bluetoe::link_layer::read_buffer{ nullptr, 0 }; }
    void load_transmit_counter() override {}
    bool is_scan_request_in_filter_callback( const bluetoe::link_layer::device_address& a ) const override { filter_asked( a ); return filter_answer; }
};
int main( int argc, char** argv )
{
    replay_args a( argc, argv );
    using radio_t = bluetoe::nrf51_details::scheduled_radio_base;
    return run_scan_request_cases( a, []( const scan_case& c ) -> bool {
        static cb51 cbs;
        alignas( radio_t ) static unsigned char mem[ sizeof( radio_t ) ];
        std::memset( mem, 0, sizeof( mem ) );
        bluetoe::nrf51_details::adv_callbacks* p = &cbs;
        std::memcpy( mem, &p, sizeof( p ) );                      // adv_callbacks& callbacks_ is the first member
        radio_t& r = *reinterpret_cast< radio_t* >( mem );
        if ( c.gap || c.resolving_invalid ) return false;          // not reachable with the register stub (PCNF0 / AAR are plain memory)
        static std::uint8_t rx[ 16 ], rsp[ 16 ];
        c.fill( rx, rsp );
        r.receive_buffer_ = bluetoe::link_layer::read_buffer{ rx, 15 };
        if ( !c.has_response ) {
            // advertising types without scan response hand { nullptr, 0 } to the radio; the call runs in a child, a fault there is the reproduction
            r.response_data_ = bluetoe::link_layer::write_buffer{ nullptr, 0 };
            std::fflush( stdout );
            const pid_t pid = fork();
            if ( pid == 0 ) { const bool v = r.is_valid_scan_request(); _exit( v ? 1 : 0 ); }
            int st = 0; waitpid( pid, &st, 0 );
            if ( WIFSIGNALED( st ) ) {
                std::printf( "REPRODUCED: advertising without scan response data (response_data_ == { nullptr, 0 }), SCAN_REQ header %02x %02x received: is_valid_scan_request() "
                             "reads the local address through the null pointer (signal %d on the host; flash address 2..8 on the target)\n", c.rx[ 0 ], c.rx[ 1 ], WTERMSIG( st ) );
                std::exit( 1 );
            }
            return WEXITSTATUS( st ) != 0;
        }
        r.response_data_  = bluetoe::link_layer::write_buffer{ rsp, 9 };
        return r.is_valid_scan_request();
    }, false );
}
