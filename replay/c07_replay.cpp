// Native replay for C07: a real server with shared_write_queue<64> and a characteristic that requires encryption, on connections in the witness
// security state: a Prepare Write is accepted exactly when a Write Request to the same attribute on the same connection is.
#include <cassert>
#include <iterator>
#include <algorithm>
#include <vector>
#include <bluetoe/server.hpp>
#include <bluetoe/service.hpp>
#include <bluetoe/characteristic.hpp>
#include <bluetoe/write_queue.hpp>
#include "replay_util.hpp"

static std::uint8_t plain[ 8 ], secret[ 8 ];
using srv_t = bluetoe::server< bluetoe::shared_write_queue< 64 >, bluetoe::service< bluetoe::service_uuid16< 0x1234 >,
    bluetoe::characteristic< bluetoe::characteristic_uuid16< 0x1000 >, bluetoe::bind_characteristic_value< decltype( plain ), &plain > >,
    bluetoe::characteristic< bluetoe::characteristic_uuid16< 0x1001 >, bluetoe::bind_characteristic_value< decltype( secret ), &secret >, bluetoe::requires_encryption > > >;
struct conn_t : srv_t::connection_data {
    bluetoe::connection_security_attributes sec;
    std::pair< bluetoe::details::notification_queue_entry_type, std::size_t > dequeue_indication_or_confirmation() { return { bluetoe::details::notification_queue_entry_type::empty, 0 }; }
    bluetoe::connection_security_attributes security_attributes() const { return sec; }
};
static std::vector< std::uint8_t > request( srv_t& srv, conn_t& c, std::vector< std::uint8_t > req )
{
    std::uint8_t out[ 23 ]; std::size_t os = sizeof out;
    srv.l2cap_input( req.data(), req.size(), out, os, c );
    return std::vector< std::uint8_t >( out, out + os );
}
int main( int argc, char** argv )
{
    replay_args a( argc, argv );
    for ( int enc = 0; enc < 2; ++enc ) for ( int ps = 0; ps < 4; ++ps ) for ( std::uint8_t handle : { 3, 5 } ) {
        srv_t srv; conn_t c; c.sec = bluetoe::connection_security_attributes( enc, static_cast< bluetoe::device_pairing_status >( ps ) );
        const auto w = request( srv, c, { 0x12, handle, 0x00, 0xaa } );
        request( srv, c, { 0x18, 0x00 } );
        const auto p = request( srv, c, { 0x16, handle, 0x00, 0x00, 0x00, 0xbb } );
        const bool write_ok = !w.empty() && w[ 0 ] == 0x13, prepare_ok = !p.empty() && p[ 0 ] == 0x17;
        std::printf( "handle %u, link %s, pairing status %d: Write Request -> %02x%s, Prepare Write -> %02x%s\n", handle, enc ? "encrypted" : "unencrypted", ps, w[ 0 ], write_ok ? "" : " (error)", p[ 0 ], prepare_ok ? "" : " (error)" );
        if ( write_ok != prepare_ok ) { std::printf( "REPRODUCED: Prepare Write and Write Request disagree: write %s, prepare %s (error code %02x)\n", write_ok ? "accepted" : "refused", prepare_ok ? "accepted" : "refused", p.size() == 5 ? p[ 4 ] : w.size() == 5 ? w[ 4 ] : 0 ); return 1; }
        request( srv, c, { 0x18, 0x00 } );
    }
    std::printf( "not reproduced\n" );
    return 0;
}
