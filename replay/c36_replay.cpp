// Native replay for C36: the real security manager's pairing method selection for the witness configuration.
#include <cassert>
#include <iterator>
#include <bluetoe/security_manager.hpp>
struct sec_funcs {};
namespace test { template < std::size_t, typename ... Options > struct security_manager : bluetoe::security_manager::impl< sec_funcs, Options... > {}; }
#include "replay_util.hpp"

struct out_t { void sm_pairing_numeric_output( int ) {} } out_obj;
struct yn_t  { template < class S > void sm_pairing_yes_no( S& ) {} } yn_obj;
struct kb_t  { int sm_pairing_passkey() { return 0; } } kb_obj;
using O = bluetoe::pairing_numeric_output< out_t, out_obj >;
using Y = bluetoe::pairing_yes_no< yn_t, yn_obj >;
using K = bluetoe::pairing_keyboard< kb_t, kb_obj >;
using M = bluetoe::require_man_in_the_middle_protection;

static const int LEG[5][5]  = { {0,0,2,0,2}, {0,0,2,0,2}, {3,3,3,0,3}, {0,0,0,0,0}, {3,3,2,0,3} };
static const int LESC[5][5] = { {0,0,2,0,2}, {0,4,2,0,4}, {3,3,3,0,3}, {0,0,0,0,0}, {3,4,2,0,4} };

template < class Mgr >
static int run( const replay_args& a, int local_io, bool local_mitm )
{
    Mgr m;
    const unsigned io = a.unum( "W_io" ), oob = a.unum( "W_oob_flag" ), auth = a.unum( "W_auth_req" );
    const bool has = a.unum( "W_has_oob" );
    const bool mitm = local_mitm || ( auth & 4 );
    if ( a.is( "select.legacy_select_pairing_algorithm" ) ) {
        const int r = static_cast< int >( m.legacy_select_pairing_algorithm( io, oob, auth, has ) );
        const int expected = ( oob && has ) ? 1 : !mitm ? 0 : LEG[ local_io ][ io ];
        std::printf( "legacy: local io %d (MITM %d), remote io %u oob %u auth 0x%02x has_oob %d -> method %d, specification says %d\n", local_io, local_mitm, io, oob, auth, has, r, expected );
        REPLAY_CHECK( r == expected );
    } else {
        const int r = static_cast< int >( m.lesc_select_pairing_algorithm( io, oob, auth, has ) );
        const int expected = ( oob || has ) ? 1 : !mitm ? 0 : LESC[ local_io ][ io ];
        std::printf( "lesc: local io %d (MITM %d), remote io %u oob %u auth 0x%02x has_oob %d -> method %d, specification says %d\n", local_io, local_mitm, io, oob, auth, has, r, expected );
        REPLAY_CHECK( r == expected );
    }
    std::printf( "not reproduced\n" );
    return 0;
}

int main( int argc, char** argv )
{
    replay_args a( argc, argv );
    const int local_io = a.num( "W_local_io" );
    const bool mitm = a.unum( "W_local_auth" ) & 4;
    switch ( local_io * 2 + mitm ) {
    case 0: return run< test::security_manager< 65, O > >( a, 0, false );
    case 1: return run< test::security_manager< 65, O, M > >( a, 0, true );
    case 2: return run< test::security_manager< 65, O, Y > >( a, 1, false );
    case 3: return run< test::security_manager< 65, O, Y, M > >( a, 1, true );
    case 4: return run< test::security_manager< 65, K > >( a, 2, false );
    case 5: return run< test::security_manager< 65, K, M > >( a, 2, true );
    case 6: return run< test::security_manager< 65 > >( a, 3, false );
    case 7: return run< test::security_manager< 65, M > >( a, 3, true );
    case 8: return run< test::security_manager< 65, O, K > >( a, 4, false );
    case 9: return run< test::security_manager< 65, O, K, M > >( a, 4, true );
    }
    return 2;
}
