// Native replay for C15 (consumer side): the real link_layer (default MTU, no L2CAP reassembly) with the repository's test radio. The central sends PDUs of every LLID with payload,
// then an ATT Read Request. Reference: whatever cannot be handed to anybody is dropped, the request behind it is still processed.
#define BOOST_TEST_NO_MAIN
#define BOOST_TEST_ALTERNATIVE_INIT_API
#include <boost/test/included/unit_test.hpp>
#include "connected.hpp"
#include "replay_util.hpp"
using ll_t = unconnected_base_t< test::small_temperature_service, test::radio, bluetoe::link_layer::buffer_sizes< 200u, 200u > >;
static int play( std::uint8_t llid, bool verbose )
{
    ll_t ll;
    ll.respond_to( 37, valid_connection_request_pdu );
    ll.ll_empty_pdus( 3 );
    if ( llid == 3 ) ll.ll_control_pdu( { 0x12 } );   // LL_PING_REQ
    else             ll.ll_pdu( llid, { 0xaa, 0xbb, 0xcc } );
    ll.ll_empty_pdus( 2 );
    ll.ll_data_pdu( { 0x03, 0x00, 0x04, 0x00, 0x0A, 0x03, 0x00 } );   // ATT Read Request
    ll.ll_empty_pdus( 6 );
    ll.run( 4 );
    bool answered = false;
    for ( const auto& ev : ll.connection_events() ) for ( const auto& pdu : ev.transmitted_data )
        if ( pdu.size() >= 7 && ( pdu[ 0 ] & 3 ) == 2 && pdu[ 4 ] == 0x04 && pdu[ 5 ] == 0x00 ) answered = true;
    if ( verbose ) std::printf( "a PDU with LLID %u and payload, then an ATT Read Request: %s\n", llid, answered ? "answered" : "NEVER answered" );
    if ( !answered ) { std::printf( "REPRODUCED: a data channel PDU with LLID %u (3 octets of payload) blocks the receive queue: an ATT Read Request sent 3 connection events later is never answered\n", llid ); return 1; }
    return 0;
}
int main( int argc, char** argv )
{
    replay_args a( argc, argv );
    int rc = 0;
    for ( std::uint8_t llid = 1; llid <= 3 && !rc; ++llid ) rc = play( llid, a.has( "verbose" ) );
    if ( !rc ) std::printf( "not reproduced\n" );
    return rc;
}
bool init_unit_test() { return true; }
