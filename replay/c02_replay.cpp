// Native replay for C02: Read By Type / Find Information on real servers with gaps in the handle space (attribute_handle<>), for every (start, end)
// pair and the types present: only attributes with start <= handle <= end and matching type, ascending, Attribute Not Found iff there is none.
#include <cassert>
#include <iterator>
#include <algorithm>
#include <vector>
#include <bluetoe/server.hpp>
#include <bluetoe/service.hpp>
#include <bluetoe/characteristic.hpp>
#include <bluetoe/attribute_handle.hpp>
#include "replay_util.hpp"

static std::uint8_t a1, a2, a3;
using srv_t = bluetoe::server<
    bluetoe::service< bluetoe::service_uuid16< 0x1801 >, bluetoe::characteristic< bluetoe::characteristic_uuid16< 0x1000 >, bluetoe::bind_characteristic_value< std::uint8_t, &a1 >, bluetoe::notify > >,
    bluetoe::service< bluetoe::attribute_handle< 0x10 >, bluetoe::service_uuid16< 0x1802 >, bluetoe::characteristic< bluetoe::characteristic_uuid16< 0x1001 >, bluetoe::bind_characteristic_value< std::uint8_t, &a2 > > >,
    bluetoe::service< bluetoe::attribute_handle< 0x40 >, bluetoe::service_uuid16< 0x1803 >, bluetoe::characteristic< bluetoe::characteristic_uuid16< 0x1002 >, bluetoe::bind_characteristic_value< std::uint8_t, &a3 >, bluetoe::indicate > > >;
// the same services, but the first one does not start at handle 1
using srv_gap_t = bluetoe::server<
    bluetoe::service< bluetoe::attribute_handle< 0x10 >, bluetoe::service_uuid16< 0x1801 >, bluetoe::characteristic< bluetoe::characteristic_uuid16< 0x1000 >, bluetoe::bind_characteristic_value< std::uint8_t, &a1 >, bluetoe::notify > >,
    bluetoe::service< bluetoe::attribute_handle< 0x40 >, bluetoe::service_uuid16< 0x1803 >, bluetoe::characteristic< bluetoe::characteristic_uuid16< 0x1002 >, bluetoe::bind_characteristic_value< std::uint8_t, &a3 >, bluetoe::indicate > > >;
struct conn_t : srv_t::connection_data {
    std::pair< bluetoe::details::notification_queue_entry_type, std::size_t > dequeue_indication_or_confirmation() { return { bluetoe::details::notification_queue_entry_type::empty, 0 }; }
    bluetoe::connection_security_attributes security_attributes() const { return bluetoe::connection_security_attributes(); }
};
template < std::uint16_t U > using wc_t = bluetoe::characteristic< bluetoe::characteristic_uuid16< U >, bluetoe::bind_characteristic_value< std::uint8_t, &a1 > >;
using wide_t = bluetoe::server< bluetoe::max_mtu_size< 400 >, bluetoe::service< bluetoe::service_uuid16< 0x1801 >,
    wc_t< 0x1000 >, wc_t< 0x1001 >, wc_t< 0x1002 >, wc_t< 0x1003 >, wc_t< 0x1004 >, wc_t< 0x1005 >, wc_t< 0x1006 >, wc_t< 0x1007 >, wc_t< 0x1008 >, wc_t< 0x1009 >,
    wc_t< 0x100a >, wc_t< 0x100b >, wc_t< 0x100c >, wc_t< 0x100d >, wc_t< 0x100e >, wc_t< 0x100f >, wc_t< 0x1010 >, wc_t< 0x1011 >, wc_t< 0x1012 >, wc_t< 0x1013 >,
    wc_t< 0x1014 >, wc_t< 0x1015 >, wc_t< 0x1016 >, wc_t< 0x1017 >, wc_t< 0x1018 >, wc_t< 0x1019 >, wc_t< 0x101a >, wc_t< 0x101b >, wc_t< 0x101c >, wc_t< 0x101d >,
    wc_t< 0x101e >, wc_t< 0x101f >, wc_t< 0x1020 >, wc_t< 0x1021 >, wc_t< 0x1022 >, wc_t< 0x1023 >, wc_t< 0x1024 >, wc_t< 0x1025 >, wc_t< 0x1026 >, wc_t< 0x1027 > > >;
struct wide_conn_t : wide_t::connection_data {
    std::pair< bluetoe::details::notification_queue_entry_type, std::size_t > dequeue_indication_or_confirmation() { return { bluetoe::details::notification_queue_entry_type::empty, 0 }; }
    bluetoe::connection_security_attributes security_attributes() const { return bluetoe::connection_security_attributes(); }
};
template < class srv_t, class conn_t >
static int sweep()
{
    srv_t srv; conn_t c;
    using map = bluetoe::details::handle_index_mapping< srv_t >;
    // the table as the server itself reports it
    std::vector< std::pair< unsigned, unsigned > > table;   // handle, 16 bit type
    for ( std::size_t i = 0; i < srv_t::number_of_attributes; ++i ) table.push_back( { map::handle_by_index( i ), srv.attribute_at( i ).uuid } );
    const unsigned types[] = { 0x2800, 0x2803, 0x2902, 0x1000, 0x1001, 0x1002, 0x2a00 };
    for ( unsigned start = 1; start <= 0x48; ++start ) for ( unsigned end = start; end <= 0x48; ++end ) for ( unsigned type : types ) {
        const std::uint8_t req[] = { 0x08, std::uint8_t( start ), std::uint8_t( start >> 8 ), std::uint8_t( end ), std::uint8_t( end >> 8 ), std::uint8_t( type ), std::uint8_t( type >> 8 ) };
        std::uint8_t out[ 24 ]; out[ 23 ] = 0xEE; std::size_t os = 23;
        srv.l2cap_input( req, sizeof req, out, os, c );
        std::vector< unsigned > expected; for ( auto& t : table ) if ( t.first >= start && t.first <= end && t.second == type ) expected.push_back( t.first );
        bool ok = out[ 23 ] == 0xEE && os <= 23;
        if ( expected.empty() ) ok = ok && os == 5 && out[ 0 ] == 0x01 && out[ 4 ] == 0x0a;
        else {
            ok = ok && os >= 4 && out[ 0 ] == 0x09 && out[ 1 ] >= 2 && ( os - 2 ) % out[ 1 ] == 0;
            unsigned last = 0;
            for ( std::size_t p = 2; ok && p + out[ 1 ] <= os; p += out[ 1 ] ) {
                const unsigned h = out[ p ] | ( out[ p + 1 ] << 8 );
                ok = h > last && std::find( expected.begin(), expected.end(), h ) != expected.end(); last = h;
            }
            if ( ok ) ok = ( out[ 2 ] | ( out[ 3 ] << 8 ) ) == expected[ 0 ];
        }
        if ( !ok ) { std::printf( "REPRODUCED: Read By Type %04x..%04x type %04x ->", start, end, type ); for ( std::size_t i = 0; i < os && i < 23; ++i ) std::printf( " %02x", out[ i ] );
                     std::printf( "   expected handles:" ); for ( unsigned h : expected ) std::printf( " %04x", h ); std::printf( "\n" ); return 1; }
    }

    // Find Information for every range: every returned handle lies in start..end, ascending; Attribute Not Found only if no attribute lies in the range
    for ( unsigned start = 1; start <= 0x48; ++start ) for ( unsigned end = start; end <= 0x48; ++end ) {
        const std::uint8_t req[] = { 0x04, std::uint8_t( start ), std::uint8_t( start >> 8 ), std::uint8_t( end ), std::uint8_t( end >> 8 ) };
        std::uint8_t out[ 24 ]; out[ 23 ] = 0xEE; std::size_t os = 23;
        srv.l2cap_input( req, sizeof req, out, os, c );
        std::vector< unsigned > in_range; for ( auto& t : table ) if ( t.first >= start && t.first <= end ) in_range.push_back( t.first );
        bool ok = out[ 23 ] == 0xEE && os <= 23;
        if ( os >= 2 && out[ 0 ] == 0x05 ) {
            const std::size_t tuple = out[ 1 ] == 1 ? 4 : 18; unsigned last = 0;
            for ( std::size_t p = 2; ok && p + tuple <= os; p += tuple ) { const unsigned h = out[ p ] | ( out[ p + 1 ] << 8 ); ok = h > last && h >= start && h <= end && std::find( in_range.begin(), in_range.end(), h ) != in_range.end(); last = h; }
        } else ok = ok && os == 5 && out[ 0 ] == 0x01 && out[ 4 ] == 0x0a && in_range.empty();
        if ( !ok ) { std::printf( "REPRODUCED: Find Information %04x..%04x ->", start, end ); for ( std::size_t i = 0; i < os && i < 23; ++i ) std::printf( " %02x", out[ i ] );
                     std::printf( "   handles in the range:" ); for ( unsigned h : in_range ) std::printf( " %04x", h ); std::printf( "\n" ); return 1; }
    }
    return 0;
}
struct gap_conn_t : srv_gap_t::connection_data {
    std::pair< bluetoe::details::notification_queue_entry_type, std::size_t > dequeue_indication_or_confirmation() { return { bluetoe::details::notification_queue_entry_type::empty, 0 }; }
    bluetoe::connection_security_attributes security_attributes() const { return bluetoe::connection_security_attributes(); }
};
int main( int argc, char** argv )
{
    replay_args a( argc, argv );
    if ( sweep< srv_t, conn_t >() || sweep< srv_gap_t, gap_conn_t >() ) return 1;
    // every MTU 23..64 on the server with 42 characteristics: the response fits the MTU, consists of whole tuples, nothing behind the buffer is written
    for ( unsigned mtu = 23; mtu <= 64; ++mtu ) for ( unsigned type : { 0x2803u, 0x2800u, 0x1005u, 0x2a00u } ) {
        wide_t wide; wide_conn_t wc; wc.client_mtu( mtu );
        const std::uint8_t req[] = { 0x08, 0x01, 0x00, 0xff, 0xff, std::uint8_t( type ), std::uint8_t( type >> 8 ) };
        std::vector< std::uint8_t > out( mtu + 8, 0xEE ); std::size_t os = mtu;
        wide.l2cap_input( req, sizeof req, out.data(), os, wc );
        bool ok = os <= mtu && std::count( out.begin() + mtu, out.end(), 0xEE ) == 8 && ( out[ 0 ] == 0x01 || ( out[ 0 ] == 0x09 && os >= 4 && out[ 1 ] >= 2 && ( os - 2 ) % out[ 1 ] == 0 ) );
        if ( !ok ) { std::printf( "REPRODUCED: MTU %u, Read By Type %04x on 42 characteristics: %zu octets returned, tuple size %u%s\n", mtu, type, os, out[ 1 ],
                                  std::count( out.begin() + mtu, out.end(), 0xEE ) != 8 ? ", octets behind the buffer overwritten" : "" ); return 1; }
    }
    // a response longer than 257 octets: 40 characteristics (plus the GAP service's), Read By Type <<Characteristic>> with an MTU of 400
    {
        wide_t wide; wide_conn_t wc; wc.client_mtu( 400 );
        const std::uint8_t req[] = { 0x08, 0x01, 0x00, 0xff, 0xff, 0x03, 0x28 };
        std::uint8_t out[ 401 ]; out[ 400 ] = 0xEE; std::size_t os = 400;
        wide.l2cap_input( req, sizeof req, out, os, wc );
        std::printf( "40 characteristics, MTU 400, Read By Type 0x2803: %zu octets, tuple size %u\n", os, out[ 1 ] );
        std::size_t n = 0; for ( std::size_t i = 0; i < wide_t::number_of_attributes; ++i ) if ( wide.attribute_at( i ).uuid == 0x2803 ) ++n;
        if ( !( os == 2 + n * 7 && out[ 0 ] == 0x09 && out[ 1 ] == 7 && out[ 400 ] == 0xEE ) ) { std::printf( "REPRODUCED: %zu characteristic declarations, the response should be %zu octets long\n", n, 2 + n * 7 ); return 1; }
    }
    std::printf( "not reproduced\n" );
    return 0;
}
