// Native replay for C33: the three real security connection data classes; find_key for the witness (EDIV, Rand, state) and for all states.
#include <cassert>
#include <iterator>
#include <algorithm>
#include <array>
#include <bluetoe/address.hpp>
#include <bluetoe/pairing_status.hpp>
#include <bluetoe/io_capabilities.hpp>
#include <bluetoe/security_connection_data.hpp>
#include "replay_util.hpp"

struct base_t {};
namespace bd = bluetoe::details;
template < class D >
static int check( const char* what, D& d, const bd::uint128_t& stored, unsigned ediv, unsigned long long rnd, int state_value )
{
    d.state_ = static_cast< bd::sm_pairing_state >( state_value );
    const auto r = d.find_key( ediv, rnd );
    const bool want = ediv == 0 && rnd == 0 && state_value == (int)bd::sm_pairing_state::pairing_completed;
    if ( r.first != want || ( r.first && r.second != stored ) ) {
        std::printf( "REPRODUCED: %s find_key( ediv=%u, rand=%llu ) in state %d: offered=%d (expected %d)%s\n", what, ediv, rnd, state_value, r.first, want, r.first && r.second != stored ? ", and not the key pairing stored" : "" );
        return 1;
    }
    return 0;
}
int main( int argc, char** argv )
{
    replay_args a( argc, argv );
    bd::uint128_t key; for ( std::size_t i = 0; i < 16; ++i ) key[ i ] = 0x10 + i;
    std::vector< std::pair< unsigned, unsigned long long > > reqs = { { (unsigned)a.unum( "W_ediv" ), a.unum( "W_rand" ) }, { 0, 0 }, { 1, 0 }, { 0, 1 }, { 0xffff, ~0ull } };
    for ( auto& q : reqs ) for ( int st = 0; st <= (int)bd::sm_pairing_state::lesc_pairing_random_exchanged; ++st ) {
        bd::legacy_security_connection_data< base_t > l; l.state_ = bd::sm_pairing_state::legacy_pairing_confirmed; l.legacy_pairing_completed( key );
        if ( check( "legacy_security_connection_data", l, key, q.first, q.second, st ) ) return 1;
        bd::lesc_security_connection_data< base_t > s; s.state_ = bd::sm_pairing_state::lesc_pairing_random_exchanged; s.lesc_pairing_completed( key );
        if ( check( "lesc_security_connection_data", s, key, q.first, q.second, st ) ) return 1;
        bd::security_connection_data< base_t > c; c.state_ = bd::sm_pairing_state::legacy_pairing_confirmed; c.legacy_pairing_completed( key );
        if ( check( "security_connection_data (legacy pairing)", c, key, q.first, q.second, st ) ) return 1;
        bd::security_connection_data< base_t > c2; c2.state_ = bd::sm_pairing_state::user_response_success; c2.lesc_pairing_completed( key );
        if ( check( "security_connection_data (LESC pairing)", c2, key, q.first, q.second, st ) ) return 1;
    }
    std::printf( "not reproduced\n" );
    return 0;
}
