// Native replay for C38: the real nRF52 security_tool_box::create_passkey (security_tool_box.cpp compiled for the host against
// replay/nrf_stub/nrf.h) fed with the RNG byte stream of the verifier's witness.
#include <nrf.h>
#include <bluetoe/security_tool_box.hpp>
#include <bluetoe/bits.hpp>
#include "replay_util.hpp"

NRF_RNG_Type verif_nrf_rng;
NRF_ECB_Type verif_nrf_ecb;

static std::vector< std::uint8_t > stream;
static std::size_t                 draws = 0;

// W_rng is the ring of the last 8 bytes the RNG delivered in the counterexample; where the ring starts is not part of the
// witness, so every rotation is tried.  The bytes are repeated a few times in case the implementation rejects a draw and
// draws again; then zeros follow, so that every rejection loop ends.
static std::size_t rotation = 0;
extern "C" uint32_t verif_rng_next( void )
{
    const std::size_t n = draws++;
    return ( !stream.empty() && n < 64 * stream.size() ) ? stream[ ( n + rotation ) % stream.size() ] : 0;
}

int main( int argc, char** argv )
{
    replay_args a( argc, argv );
    stream = a.bytes( "W_rng" );
    if ( !a.is( "nrf52_create_passkey.create_passkey" ) ) { std::printf( "no replay for unit %s\n", a.str( "unit" ).c_str() ); return 2; }

    for ( rotation = 0; rotation != 8; ++rotation )
    {
        draws = 0;
        bluetoe::nrf52_details::security_tool_box box;
        const auto key = box.create_passkey();
        const std::uint32_t passkey = bluetoe::details::read_32bit( key.data() );
        std::printf( "RNG bytes" );
        for ( std::size_t i = 0; i != stream.size(); ++i ) std::printf( " %02x", stream[ ( i + rotation ) % stream.size() ] );
        std::printf( " ... -> passkey %u (%zu RNG bytes drawn), key bytes 4..15:", (unsigned)passkey, draws );
        bool upper_zero = true;
        for ( std::size_t i = 4; i != key.size(); ++i ) { std::printf( " %02x", key[ i ] ); upper_zero = upper_zero && key[ i ] == 0; }
        std::printf( "\n" );
        REPLAY_CHECK( passkey <= 999999u );
        REPLAY_CHECK( upper_zero );
    }
    std::printf( "not reproduced\n" );
    return 0;
}
