// Native replay for C09: the real client_characteristic_configuration and the real CCCD attribute of a server with nine
// notifying characteristics (three bytes of packed configuration), driven with the verifier's witness.
#include <cassert>
#include <iterator>
#include <algorithm>
#include <vector>
#include <bluetoe/server.hpp>
#include <bluetoe/service.hpp>
#include <bluetoe/characteristic.hpp>
#include "replay_util.hpp"

static std::uint8_t v0, v1, v2, v3, v4, v5, v6, v7, v8;
template < std::uint16_t U, std::uint8_t* P >
using chr = bluetoe::characteristic< bluetoe::characteristic_uuid16< U >, bluetoe::bind_characteristic_value< std::uint8_t, P >, bluetoe::notify, bluetoe::indicate >;
template < typename ... Enc >
using srv_t = bluetoe::server< Enc..., bluetoe::service< bluetoe::service_uuid16< 0x1234 >,
    chr< 0x1000, &v0 >, chr< 0x1001, &v1 >, chr< 0x1002, &v2 >, chr< 0x1003, &v3 >, chr< 0x1004, &v4 >,
    chr< 0x1005, &v5 >, chr< 0x1006, &v6 >, chr< 0x1007, &v7 >, chr< 0x1008, &v8 > > >;
static const std::size_t N = 9;

static unsigned view( const std::uint8_t* d, std::size_t i ) { return ( d[ i >> 2 ] >> ( ( i & 3 ) << 1 ) ) & 3; }

template < class Server >
static int access_replay( const replay_args& a )
{
    Server srv;
    std::size_t pos = a.unum( "W_pos" ), j = a.unum( "W_j" );
    if ( pos >= N || j >= N ) std::printf( "note: witness position %zu / %zu not realisable with %zu CCCDs, reduced modulo\n", pos, j, N );
    pos %= N; j %= N;
    std::uint8_t store[ 3 ] = { 0, 0, 0 };
    bluetoe::details::client_characteristic_configuration cc( store, N );
    cc.flags( pos, a.unum( "W_old_pos" ) & 3 );
    if ( j != pos ) cc.flags( j, a.unum( "W_old_j" ) & 3 );
    const unsigned old_pos = view( store, pos ), old_j = view( store, j );
    const int type = a.num( "W_type" );
    std::size_t size = a.unum( "W_size" ); const std::size_t off = a.unum( "W_off" );
    if ( size > 600 ) return 0;
    std::vector< std::uint8_t > buf( size + 1, 0xAA );
    const auto in = a.bytes( "W_in" );
    for ( std::size_t k = 0; k < size && k < in.size(); ++k ) buf[ k ] = in[ k ];
    bluetoe::connection_security_attributes sec( a.num( "W_enc" ), static_cast< bluetoe::device_pairing_status >( a.num( "W_ps" ) ) );
    bluetoe::details::attribute_access_arguments args{ static_cast< bluetoe::details::attribute_access_type >( type ), buf.data(), size, off, cc, sec, &srv };
    const std::size_t idx = 1 + 3 * pos + 2;
    const auto attr = srv.attribute_at( idx );
    if ( attr.uuid != 0x2902 ) { std::printf( "attribute %zu is not a CCCD (uuid %04x)\n", idx, attr.uuid ); return 2; }
    const auto rc = attr.access( args, idx );
    const unsigned new_pos = view( store, pos );
    std::printf( "type=%d off=%zu size=%zu pos=%zu old=%u -> rc=0x%x new=%u buffer_size=%zu other(%zu) %u -> %u\n", type, off, size, pos, old_pos, (unsigned)rc, new_pos, args.buffer_size, j, old_j, view( store, j ) );
    const bool refused = a.num( "W_req" ) && !a.num( "W_enc" );
    using R = bluetoe::details::attribute_access_result;
    if ( j != pos ) REPLAY_CHECK( view( store, j ) == old_j );
    if ( refused ) { REPLAY_CHECK( rc != R::success && new_pos == old_pos ); REPLAY_CHECK( rc == ( a.num( "W_ps" ) == 0 ? R::insufficient_authentication : R::insufficient_encryption ) ); }
    else if ( type == 0 ) {
        REPLAY_CHECK( new_pos == old_pos );
        if ( off > 2 ) REPLAY_CHECK( rc == R::invalid_offset );
        else { REPLAY_CHECK( rc == R::success && args.buffer_size == std::min< std::size_t >( size, 2 - off ) );
               if ( off == 0 && size >= 1 ) REPLAY_CHECK( buf[ 0 ] == old_pos );
               if ( off == 0 && size >= 2 ) REPLAY_CHECK( buf[ 1 ] == 0 );
               if ( off == 1 && size >= 1 ) REPLAY_CHECK( buf[ 0 ] == 0 ); }
    } else if ( type == 1 ) {
        if ( off <= 2 && size + off > 2 ) REPLAY_CHECK( rc == R::invalid_attribute_value_length && new_pos == old_pos );
        else if ( off > 2 ) REPLAY_CHECK( rc != R::success && new_pos == old_pos );
        else if ( off == 0 && size >= 1 ) REPLAY_CHECK( rc == R::success && new_pos == ( in[ 0 ] & 3u ) );
        else REPLAY_CHECK( rc == R::success && new_pos == old_pos );
    } else REPLAY_CHECK( new_pos == old_pos && rc != R::success );
    REPLAY_CHECK( buf[ size ] == 0xAA );
    std::printf( "not reproduced (the subscription-changed callback count is not observable through the public interface)\n" );
    return 0;
}

int main( int argc, char** argv )
{
    replay_args a( argc, argv );
    if ( a.is( "cccd.cccd_access" ) )
        return a.num( "W_req" ) ? access_replay< srv_t< bluetoe::requires_encryption > >( a ) : access_replay< srv_t<> >( a );
    if ( a.is( "cccd.flags_set" ) || a.is( "cccd.flags_get" ) || a.is( "cccd.shift" ) || a.is( "cccd.mask" ) ) {
        // no inputs in the trace (fresh objects): search the neighbourhood exhaustively on the real class: every position below 64,
        // every value of the byte that holds it and of a neighbour byte, every 16 bit value's low byte
        for ( std::size_t i = 0; i < 64; ++i ) for ( unsigned b = 0; b < 256; ++b ) for ( unsigned f = 0; f < 8; ++f ) {
            std::uint8_t store[ 17 ]; std::memset( store, b, sizeof store ); std::uint8_t before[ 17 ]; std::memcpy( before, store, sizeof store );
            bluetoe::details::client_characteristic_configuration cc( store, 64 );
            if ( cc.flags( i ) != view( store, i ) ) { std::printf( "REPRODUCED: flags(%zu) with byte %02x returns %u\n", i, b, cc.flags( i ) ); return 1; }
            cc.flags( i, f | 0xfff8 );
            if ( cc.flags( i ) != ( f & 3 ) ) { std::printf( "REPRODUCED: flags(%zu, %u) reads back %u\n", i, f, cc.flags( i ) ); return 1; }
            for ( std::size_t k = 0; k < 64; ++k ) if ( k != i && view( store, k ) != view( before, k ) ) { std::printf( "REPRODUCED: flags(%zu, %u) changed configuration %zu\n", i, f, k ); return 1; }
            if ( store[ 16 ] != before[ 16 ] ) { std::printf( "REPRODUCED: write outside the store\n" ); return 1; }
        }
        std::printf( "not reproduced\n" ); return 0;
    }
    std::printf( "no replay for unit %s\n", a.str( "unit" ).c_str() ); return 2;
}
