// Native replay for C21: the real link_layer with the repository's test radio. In connection event n the central sends an LL_CHANNEL_MAP_REQ,
// LL_CONNECTION_UPDATE_IND or LL_PHY_UPDATE_IND whose instant is n + delta, afterwards an ATT request. The reference: the indication is applied at its instant, or the link ends
// ('instant passed'); it never leaves the peripheral deaf to further data.
#define BOOST_TEST_NO_MAIN
#define BOOST_TEST_ALTERNATIVE_INIT_API
#include <boost/test/included/unit_test.hpp>
#include "connected.hpp"
#include "replay_util.hpp"

using ll_t = unconnected_base_t< test::small_temperature_service, test::radio_with_2mbit, bluetoe::link_layer::buffer_sizes< 200u, 200u > >;

static int play( int map_req, int delta, bool verbose )
{
    ll_t ll;
    ll.respond_to( 37, valid_connection_request_pdu );
    const unsigned n = 4;                              // connection event in which the indication arrives (event counter n)
    for ( unsigned i = 0; i != n; ++i ) ll.ll_empty_pdu();
    const std::uint16_t instant = static_cast< std::uint16_t >( n + delta );
    if ( map_req == 2 )
        ll.ll_control_pdu( { 0x18, 0x02, 0x02, static_cast< std::uint8_t >( instant ), static_cast< std::uint8_t >( instant >> 8 ) } );
    else if ( map_req )
        ll.ll_control_pdu( { 0x01, 0xff, 0xff, 0xff, 0xff, 0x0f, static_cast< std::uint8_t >( instant ), static_cast< std::uint8_t >( instant >> 8 ) } );
    else
        ll.ll_control_pdu( { 0x00, 0x01, 0x02, 0x00, 0x18, 0x00, 0x00, 0x00, 0x48, 0x00, static_cast< std::uint8_t >( instant ), static_cast< std::uint8_t >( instant >> 8 ) } );
    ll.ll_empty_pdus( 3 );
    ll.ll_data_pdu( { 0x03, 0x00, 0x04, 0x00, 0x0A, 0x03, 0x00 } );   // ATT Read Request
    ll.ll_empty_pdus( 6 );
    ll.run( 4 );
    bool answered = false;
    std::size_t events_with_traffic = 0;
    for ( const auto& ev : ll.connection_events() ) {
        if ( !ev.received_data.empty() ) ++events_with_traffic;
        for ( const auto& pdu : ev.transmitted_data )
            if ( pdu.size() >= 7 && ( pdu[ 0 ] & 3 ) == 2 && pdu[ 4 ] == 0x04 && pdu[ 5 ] == 0x00 ) answered = true;
    }
    const bool link_alive = events_with_traffic >= n + 1 + 3 + 1 + 6;     // every scripted PDU was received: the link was not terminated
    if ( verbose ) std::printf( "%s in event %u with instant %u: link %s, ATT request %s\n", ( map_req == 2 ? "LL_PHY_UPDATE_IND" : map_req ? "LL_CHANNEL_MAP_REQ" : "LL_CONNECTION_UPDATE_IND" ), n, instant, link_alive ? "alive" : "ended", answered ? "answered" : "NOT answered" );
    if ( link_alive && !answered ) {
        std::printf( "REPRODUCED: %s received in connection event %u with instant %u: the link is neither terminated ('instant passed') nor is the indication applied; the pending indication blocks "
                     "handle_received_data() - an ATT Read Request sent 4 events later is never answered\n", ( map_req == 2 ? "LL_PHY_UPDATE_IND" : map_req ? "LL_CHANNEL_MAP_REQ" : "LL_CONNECTION_UPDATE_IND" ), n, instant );
        return 1;
    }
    return 0;
}
int main( int argc, char** argv )
{
    replay_args a( argc, argv );
    if ( a.has( "delta" ) ) return play( a.unum( "map", 1 ), (int)a.num( "delta" ), true );
    for ( int map = 0; map <= 2; ++map ) for ( int delta = -3; delta <= 8; ++delta ) if ( play( map, delta, false ) ) return 1;
    std::printf( "not reproduced\n" );
    return 0;
}
bool init_unit_test() { return true; }
