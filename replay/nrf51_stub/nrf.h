/* Host-side stand-in for the Nordic MDK <nrf.h> for bluetoe/bindings/nordic/nrf51/nrf51.cpp, used only by native replay drivers under /verif/replay.
 * GENERATED from the compiler's "no member / not declared" diagnostics: every peripheral is a static struct of plain 32 bit registers, every
 * constant is 0 (1 for *_Msk / *_Enabled). Nothing here emulates hardware; drivers may only call functions that do not depend on it. */
#ifndef VERIF_NRF51_STUB_H
#define VERIF_NRF51_STUB_H
#include <stdint.h>
typedef struct { volatile uint32_t dummy_; volatile uint32_t BASE0; volatile uint32_t BCC; volatile uint32_t CRCCNF; volatile uint32_t CRCINIT; volatile uint32_t CRCPOLY; volatile uint32_t CRCSTATUS; volatile uint32_t DATAWHITEIV; volatile uint32_t EVENTS_ADDRESS; volatile uint32_t EVENTS_CRCERROR; volatile uint32_t EVENTS_DISABLED; volatile uint32_t EVENTS_END; volatile uint32_t EVENTS_PAYLOAD; volatile uint32_t EVENTS_READY; volatile uint32_t FREQUENCY; volatile uint32_t INTENCLR; volatile uint32_t INTENSET; volatile uint32_t MODE; volatile uint32_t PACKETPTR; volatile uint32_t PCNF0; volatile uint32_t PCNF1; volatile uint32_t PREFIX0; volatile uint32_t RXADDRESSES; volatile uint32_t SHORTS; volatile uint32_t STATE; volatile uint32_t TASKS_DISABLE; volatile uint32_t TASKS_STOP; volatile uint32_t TASKS_TXEN; volatile uint32_t TIFS; volatile uint32_t TXADDRESS; } NRF_RADIO_Type;
typedef struct { volatile uint32_t dummy_; volatile uint32_t BITMODE; volatile uint32_t CC[32]; volatile uint32_t EVENTS_COMPARE[32]; volatile uint32_t INTENCLR; volatile uint32_t MODE; volatile uint32_t PRESCALER; volatile uint32_t TASKS_CAPTURE[32]; volatile uint32_t TASKS_CLEAR; volatile uint32_t TASKS_START; volatile uint32_t TASKS_STOP; } NRF_TIMER_Type;
typedef struct { volatile uint32_t dummy_; volatile uint32_t EVENTS_HFCLKSTARTED; volatile uint32_t EVENTS_LFCLKSTARTED; volatile uint32_t LFCLKSRC; volatile uint32_t TASKS_HFCLKSTART; volatile uint32_t TASKS_HFCLKSTOP; volatile uint32_t TASKS_LFCLKSTART; } NRF_CLOCK_Type;
typedef struct { volatile uint32_t dummy_; } NRF_TEMP_Type;
typedef struct { volatile uint32_t dummy_; volatile uint32_t EVTEN; volatile uint32_t TASKS_START; volatile uint32_t TASKS_STOP; } NRF_RTC_Type;
typedef struct { volatile uint32_t dummy_; volatile uint32_t CNFPTR; volatile uint32_t ENABLE; volatile uint32_t EVENTS_ENDCRYPT; volatile uint32_t EVENTS_ENDKSGEN; volatile uint32_t EVENTS_ERROR; volatile uint32_t INPTR; volatile uint32_t INTENCLR; volatile uint32_t MICSTATUS; volatile uint32_t MODE; volatile uint32_t OUTPTR; volatile uint32_t SCRATCHPTR; volatile uint32_t SHORTS; volatile uint32_t TASKS_KSGEN; volatile uint32_t TASKS_STOP; } NRF_CCM_Type;
typedef struct { volatile uint32_t dummy_; volatile uint32_t ADDRPTR; volatile uint32_t ENABLE; volatile uint32_t EVENTS_END; volatile uint32_t EVENTS_NOTRESOLVED; volatile uint32_t EVENTS_RESOLVED; volatile uint32_t IRKPTR; volatile uint32_t NIRK; volatile uint32_t SCRATCHPTR; } NRF_AAR_Type;
typedef struct { volatile uint32_t dummy_; volatile uint32_t CHENCLR; volatile uint32_t CHENSET; } NRF_PPI_Type;
typedef struct { volatile uint32_t dummy_; volatile uint32_t CONFIG; volatile uint32_t EVENTS_VALRDY; volatile uint32_t SHORTS; volatile uint32_t TASKS_START; volatile uint32_t VALUE; } NRF_RNG_Type;
typedef struct { volatile uint32_t dummy_; volatile uint32_t ECBDATAPTR; volatile uint32_t EVENTS_ENDECB; volatile uint32_t EVENTS_ERRORECB; volatile uint32_t TASKS_STARTECB; } NRF_ECB_Type;
typedef struct { volatile uint32_t dummy_; volatile uint32_t TASKS_SET[32]; } NRF_GPIOTE_Type;
typedef struct { volatile uint32_t dummy_; } NVIC_Type;
typedef struct { volatile uint32_t dummy_; volatile uint32_t DEVICEID[32]; } NRF_FICR_Type;
typedef struct { volatile uint32_t dummy_; } NRF_POWER_Type;
typedef int IRQn_Type;
#define AAR_ENABLE_ENABLE_Msk 1u
#define CCM_ENABLE_ENABLE_Disabled 0u
#define CCM_ENABLE_ENABLE_Enabled 1u
#define CCM_ENABLE_ENABLE_Msk 1u
#define CCM_ENABLE_ENABLE_Pos 0u
#define CCM_MICSTATUS_MICSTATUS_CheckFailed 0u
#define CCM_MICSTATUS_MICSTATUS_Msk 1u
#define CCM_MODE_LENGTH_Extended 0u
#define CCM_MODE_LENGTH_Pos 0u
#define CCM_MODE_MODE_Decryption 0u
#define CCM_MODE_MODE_Encryption 0u
#define CCM_MODE_MODE_Pos 0u
#define CCM_SHORTS_ENDKSGEN_CRYPT_Msk 1u
#define CLOCK_LFCLKSRCCOPY_SRC_Pos 0u
#define CLOCK_LFCLKSRCCOPY_SRC_RC 0u
#define CLOCK_LFCLKSRCCOPY_SRC_Synth 0u
#define CLOCK_LFCLKSRCCOPY_SRC_Xtal 0u
#define RADIO_CRCCNF_LEN_Pos 0u
#define RADIO_CRCCNF_LEN_Three 0u
#define RADIO_CRCCNF_SKIPADDR_Pos 0u
#define RADIO_CRCCNF_SKIPADDR_Skip 0u
#define RADIO_CRCSTATUS_CRCSTATUS_CRCOk 0u
#define RADIO_CRCSTATUS_CRCSTATUS_Msk 1u
#define RADIO_INTENSET_DISABLED_Msk 1u
#define RADIO_MODE_MODE_Ble_1Mbit 0u
#define RADIO_MODE_MODE_Pos 0u
#define RADIO_PCNF0_LFLEN_Pos 0u
#define RADIO_PCNF0_S0LEN_Pos 0u
#define RADIO_PCNF0_S1INCL_Automatic 0u
#define RADIO_PCNF0_S1INCL_Include 0u
#define RADIO_PCNF0_S1INCL_Pos 0u
#define RADIO_PCNF0_S1LEN_Pos 0u
#define RADIO_PCNF1_BALEN_Pos 0u
#define RADIO_PCNF1_ENDIAN_Little 0u
#define RADIO_PCNF1_ENDIAN_Pos 0u
#define RADIO_PCNF1_MAXLEN_Msk 1u
#define RADIO_PCNF1_MAXLEN_Pos 0u
#define RADIO_PCNF1_STATLEN_Pos 0u
#define RADIO_PCNF1_WHITEEN_Enabled 1u
#define RADIO_PCNF1_WHITEEN_Pos 0u
#define RADIO_PREFIX0_AP0_Msk 1u
#define RADIO_SHORTS_ADDRESS_BCSTART_Msk 1u
#define RADIO_SHORTS_DISABLED_RXEN_Msk 1u
#define RADIO_SHORTS_DISABLED_TXEN_Msk 1u
#define RADIO_SHORTS_END_DISABLE_Msk 1u
#define RADIO_SHORTS_READY_START_Msk 1u
#define RADIO_STATE_STATE_Disabled 0u
#define RADIO_STATE_STATE_Msk 1u
#define RNG_CONFIG_DERCEN_Msk 1u
#define RNG_SHORTS_VALRDY_STOP_Msk 1u
#define RTC_EVTEN_COMPARE0_Enabled 1u
#define RTC_EVTEN_COMPARE0_Pos 0u
#define RTC_EVTEN_COMPARE1_Enabled 1u
#define RTC_EVTEN_COMPARE1_Pos 0u
#define RTC_EVTEN_OVRFLW_Enabled 1u
#define RTC_EVTEN_OVRFLW_Pos 0u
#define TIMER_BITMODE_BITMODE_32Bit 0u
#define TIMER_MODE_MODE_Pos 0u
#define TIMER_MODE_MODE_Timer 0u
static NRF_AAR_Type verif_NRF_AAR; 
#define NRF_AAR (&verif_NRF_AAR)
static NRF_CCM_Type verif_NRF_CCM; 
#define NRF_CCM (&verif_NRF_CCM)
static NRF_CLOCK_Type verif_NRF_CLOCK; 
#define NRF_CLOCK (&verif_NRF_CLOCK)
static NRF_ECB_Type verif_NRF_ECB; 
#define NRF_ECB (&verif_NRF_ECB)
static NRF_FICR_Type verif_NRF_FICR; 
#define NRF_FICR (&verif_NRF_FICR)
static NRF_GPIOTE_Type verif_NRF_GPIOTE; 
#define NRF_GPIOTE (&verif_NRF_GPIOTE)
static NRF_PPI_Type verif_NRF_PPI; 
#define NRF_PPI (&verif_NRF_PPI)
static NRF_RADIO_Type verif_NRF_RADIO; 
#define NRF_RADIO (&verif_NRF_RADIO)
static NRF_RNG_Type verif_NRF_RNG; 
#define NRF_RNG (&verif_NRF_RNG)
static NRF_RTC_Type verif_NRF_RTC0; 
#define NRF_RTC0 (&verif_NRF_RTC0)
static NRF_TEMP_Type verif_NRF_TEMP; 
#define NRF_TEMP (&verif_NRF_TEMP)
static NRF_TIMER_Type verif_NRF_TIMER0; 
#define NRF_TIMER0 (&verif_NRF_TIMER0)
static NRF_TIMER_Type verif_NRF_TIMER1; 
#define NRF_TIMER1 (&verif_NRF_TIMER1)
static NVIC_Type verif_NVIC;
#define NVIC (&verif_NVIC)
#define RADIO_IRQn 0
#define TIMER0_IRQn 0
#define __NVIC_PRIO_BITS 3
static inline void NVIC_ClearPendingIRQ( ... ) {}
static inline void NVIC_EnableIRQ( ... ) {}
static inline void NVIC_SetPriority( ... ) {}
static inline void __WFI( ... ) {}
#endif
