// Native replay for C28: the real link_layer with the repository's encrypting test radio and a mocked security manager (as in
// tests/link_layer/ll_encryption_tests.cpp). Histories of LL encryption control PDUs are played, then an ATT Read Request for a
// characteristic that requires encryption; a reference model of the property says whether the link may be encrypted at that point.
#define BOOST_TEST_NO_MAIN
#define BOOST_TEST_ALTERNATIVE_INIT_API
#include <boost/test/included/unit_test.hpp>
#include "connected.hpp"
#include <bluetoe/pairing_status.hpp>
#include "replay_util.hpp"

namespace test {
    std::uint16_t secret_value = 0x4711;
    using secret_service = bluetoe::server< bluetoe::service< bluetoe::service_uuid< 0x8C8B4094, 0x0DE2, 0x499F, 0xA28A, 0x4EED5BC73CA9 >,
        bluetoe::characteristic< bluetoe::characteristic_uuid< 0x8C8B4094, 0x0DE2, 0x499F, 0xA28A, 0x4EED5BC73CAA >,
            bluetoe::bind_characteristic_value< decltype( secret_value ), &secret_value >, bluetoe::no_write_access >,
        bluetoe::requires_encryption > >;
    struct security_manager {
        template < typename ... > class impl {
        public:
            template < class OtherConnectionData > class channel_data_t : public OtherConnectionData {
            public:
                std::pair< bool, bluetoe::details::uint128_t > find_key( std::uint16_t ediv, std::uint64_t ) const { return std::make_pair( ediv == 1, bluetoe::details::uint128_t{ { 1, 2, 3 } } ); }   // the bond data base knows EDIV 1 only
                void remote_connection_created( const bluetoe::link_layer::device_address& ) {}
                bluetoe::device_pairing_status local_device_pairing_status() const { return bluetoe::device_pairing_status::no_key; }
                template < typename Connection > void restore_bonded_cccds( Connection& ) {}
            };
            template < class Connection > void l2cap_input( const std::uint8_t*, std::size_t, std::uint8_t*, std::size_t& out_size, Connection& ) { out_size = 0; }
            template < class Connection > bool security_manager_output_available( Connection& ) const { return false; }
            template < class Connection > void l2cap_output( std::uint8_t*, std::size_t& out_size, Connection& ) { out_size = 0; }
            static constexpr std::uint16_t channel_id = bluetoe::l2cap_channel_ids::sm;
            static constexpr std::size_t minimum_channel_mtu_size = bluetoe::details::default_att_mtu_size;
            static constexpr std::size_t maximum_channel_mtu_size = bluetoe::details::default_att_mtu_size;
        };
        struct meta_type : bluetoe::details::security_manager_meta_type, bluetoe::link_layer::details::valid_link_layer_option_meta_type {};
    };
}
// buffers of at least twice the largest PDU of the test layout (31 octets): with the 61 octets of the repository tests an empty ring at offset 31 cannot allocate
using ll_t = unconnected_base_t< test::secret_service, test::radio_with_encryption, test::security_manager, bluetoe::link_layer::buffer_sizes< 128u, 128u > >;

// steps: K = LL_ENC_REQ for a known key, U = LL_ENC_REQ for an unknown key, S = LL_START_ENC_RSP, P = LL_PAUSE_ENC_REQ, Q = LL_PAUSE_ENC_RSP
static int play( const std::string& h, bool verbose )
{
    ll_t ll;
    ll.respond_to( 37, valid_connection_request_pdu );
    // reference model of the property
    bool enc = false, start_req_sent = false;
    for ( char c : h ) {
        switch ( c ) {
        case 'K': case 'U': {
            const bool known = c == 'K';
            ll.ll_control_pdu( { 0x03, 0,0,0,0,0,0,0,0, static_cast< std::uint8_t >( known ? 1 : 0 ),0, 0x00,0x10,0x20,0x30,0x40,0x50,0x60,0x70, 0xab,0xbc,0x12,0x34 } );
            start_req_sent = known; break; }
        case 'S': ll.ll_control_pdu( { 0x06 } ); if ( start_req_sent ) enc = true; start_req_sent = false; break;
        case 'P': ll.ll_control_pdu( { 0x0A } ); enc = false; start_req_sent = false; break;
        case 'Q': ll.ll_control_pdu( { 0x0B } ); enc = false; start_req_sent = false; break;
        }
        ll.ll_empty_pdu();
    }
    ll.ll_data_pdu( { 0x03, 0x00, 0x04, 0x00, 0x0A, 0x03, 0x00 } );   // ATT Read Request, handle 3 (the protected value)
    ll.ll_empty_pdus( 3 );
    ll.run();
    bool leaked = false, refused = false;
    for ( const auto& ev : ll.connection_events() ) for ( const auto& pdu : ev.transmitted_data )
        if ( pdu.size() >= 7 && ( pdu[ 0 ] & 3 ) == 2 && pdu[ 4 ] == 0x04 && pdu[ 5 ] == 0x00 ) {
            if ( pdu[ 6 ] == 0x0B ) leaked = true;
            if ( pdu[ 6 ] == 0x01 ) refused = true;
        }
    if ( verbose ) std::printf( "history '%s': model encrypted=%d, protected value %s\n", h.c_str(), enc, leaked ? "READ" : refused ? "refused" : "no answer" );
    if ( leaked && !enc ) {
        std::printf( "REPRODUCED: after the LL control PDU history '%s' (K/U = LL_ENC_REQ known/unknown key, S = LL_START_ENC_RSP, P/Q = LL_PAUSE_ENC_REQ/RSP) "
                     "an unencrypted ATT Read Request for the encryption-protected characteristic is answered with the value; no long-term key was supplied "
                     "and no LL_START_ENC_REQ sent for it\n", h.c_str() );
        return 1;
    }
    return 0;
}
int main( int argc, char** argv )
{
    replay_args a( argc, argv );
    // the witness: LL_START_ENC_RSP arriving in state (has_key_, encryption_in_progress_)
    std::vector< std::string > hs;
    if ( a.has( "history" ) ) hs.push_back( a.str( "history" ) );
    else {
        hs = { "S", "US", "KSPS", "KSQS", "UUS", "KUS" };
        // every history up to length 4
        const char al[] = "KUSPQ";
        for ( int len = 1; len <= 4; ++len ) { int n = 1; for ( int i = 0; i < len; ++i ) n *= 5;
            for ( int x = 0; x < n; ++x ) { std::string s; int y = x; for ( int i = 0; i < len; ++i ) { s += al[ y % 5 ]; y /= 5; } hs.push_back( s ); } }
    }
    for ( const auto& h : hs ) if ( play( h, a.has( "history" ) ) ) return 1;
    std::printf( "not reproduced\n" );
    return 0;
}
bool init_unit_test() { return true; }
