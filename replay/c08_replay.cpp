// Native replay for C08 (and the framing clause of C01): a real server with max_mtu_size<65> and a 40 byte notifying characteristic;
// Exchange MTU requests and notifications driven with the verifier's witness.
#include <cassert>
#include <iterator>
#include <algorithm>
#include <vector>
#include <bluetoe/server.hpp>
#include <bluetoe/service.hpp>
#include <bluetoe/characteristic.hpp>
#include "replay_util.hpp"

static std::uint8_t big[ 40 ];
using srv_t = bluetoe::server< bluetoe::max_mtu_size< 65 >,
    bluetoe::service< bluetoe::service_uuid16< 0x1234 >,
        bluetoe::characteristic< bluetoe::characteristic_uuid16< 0x1000 >, bluetoe::bind_characteristic_value< decltype( big ), &big >, bluetoe::notify, bluetoe::indicate > > >;

struct conn_t : srv_t::connection_data {
    std::pair< bluetoe::details::notification_queue_entry_type, std::size_t > next{ bluetoe::details::notification_queue_entry_type::empty, 0 };
    std::pair< bluetoe::details::notification_queue_entry_type, std::size_t > dequeue_indication_or_confirmation() { auto r = next; next.first = bluetoe::details::notification_queue_entry_type::empty; return r; }
    bluetoe::connection_security_attributes security_attributes() const { return bluetoe::connection_security_attributes(); }
};

int main( int argc, char** argv )
{
    replay_args a( argc, argv );
    srv_t srv; conn_t c;
    const std::string u = a.str( "unit" );
    unsigned client = a.unum( "W_client_mtu" ); if ( client < 23 ) client = 23;
    if ( a.unum( "W_server_mtu" ) != 65 ) std::printf( "note: the replay server is configured with max_mtu_size<65> (witness server maximum %llu)\n", a.unum( "W_server_mtu" ) );
    c.client_mtu( client );
    if ( u == "l2cap_output.l2cap_output" ) {
        // subscribe, then ask for a notification / indication into a buffer of the witness size (at most what L2CAP would hand over: 65)
        const int kind = a.num( "W_kind" ) == 2 ? 2 : 1;
        c.client_configurations().flags( 0, 3 );
        c.next = { kind == 1 ? bluetoe::details::notification_queue_entry_type::notification : bluetoe::details::notification_queue_entry_type::indication, 0 };
        std::size_t room = a.unum( "W_out_size" ); if ( room > 65 ) room = 65; if ( room < 23 ) room = 23;
        std::vector< std::uint8_t > out( room + 1, 0xEE );
        std::size_t os = room;
        srv.l2cap_output( out.data(), os, c );
        std::printf( "negotiated MTU %u, buffer %zu: %s PDU of %zu bytes\n", (unsigned)c.negotiated_mtu(), room, kind == 1 ? "notification" : "indication", os );
        REPLAY_CHECK( os <= c.negotiated_mtu() );
        REPLAY_CHECK( out[ room ] == 0xEE );
        // the case the finding names: MTU never exchanged (23), buffer 65
        conn_t d; d.client_configurations().flags( 0, 3 ); d.next = c.next = { bluetoe::details::notification_queue_entry_type::notification, 0 };
        std::uint8_t o2[ 65 ]; std::size_t os2 = sizeof o2; srv.l2cap_output( o2, os2, d );
        std::printf( "default MTU 23, buffer 65: PDU of %zu bytes\n", os2 );
        REPLAY_CHECK( os2 <= 23 );
    } else if ( u == "mtu.l2cap_input" || u == "mtu.handle_exchange_mtu_request_" || u == "dispatch.l2cap_input" ) {
        const auto in = a.bytes( "W_in" ); std::size_t n = a.unum( "W_in_size" ); if ( n > 64 ) n = 64; if ( n < 1 ) n = 1;
        std::vector< std::uint8_t > pdu( n, 0 ); for ( std::size_t i = 0; i < n && i < in.size(); ++i ) pdu[ i ] = in[ i ];
        std::size_t room = a.unum( "W_out_size" ); if ( room > 600 ) room = 600; if ( room < 23 ) room = 23;
        std::vector< std::uint8_t > out( room + 1, 0xEE ); std::size_t os = room;
        const unsigned before = c.client_mtu(), neg = c.negotiated_mtu();
        srv.l2cap_input( pdu.data(), n, out.data(), os, c );
        std::printf( "request %02x (%zu bytes), client MTU %u: response %zu bytes, client MTU now %u\n", pdu[ 0 ], n, before, os, (unsigned)c.client_mtu() );
        REPLAY_CHECK( os <= std::min< std::size_t >( neg, room ) && out[ room ] == 0xEE );
        const unsigned req = n >= 3 ? pdu[ 1 ] | ( pdu[ 2 ] << 8 ) : 0;
        const bool valid = pdu[ 0 ] == 0x02 && n == 3 && req >= 23;
        REPLAY_CHECK( c.client_mtu() == ( valid ? req : before ) );
        if ( pdu[ 0 ] == 0x02 && !valid ) REPLAY_CHECK( os == 5 && out[ 0 ] == 0x01 && out[ 1 ] == 0x02 && out[ 4 ] == 0x04 );
        if ( valid ) REPLAY_CHECK( os == 3 && out[ 0 ] == 0x03 && out[ 1 ] == 65 && out[ 2 ] == 0 );
        // framing (C01)
        const unsigned op = pdu[ 0 ];
        const bool no_response = op == 0x01 || ( op & 0x40 ) || op == 0x1B || ( op == 0x1E && n == 1 );
        if ( u == "dispatch.l2cap_input" ) { if ( no_response ) REPLAY_CHECK( os == 0 ); else REPLAY_CHECK( ( os >= 1 && out[ 0 ] == op + 1 ) || ( os == 5 && out[ 0 ] == 1 && out[ 1 ] == op ) ); }
    } else { std::printf( "no replay for unit %s\n", u.c_str() ); return 2; }
    std::printf( "not reproduced\n" );
    return 0;
}
