// Native replay for C35 (finding F-C35b): the real LESC-only and legacy + LESC security managers (with the repository's test tool box: software AES / uECC).
// A central announces OOB data (or IO capabilities that select passkey entry), then simply carries out the plain public key / random / DHKey check exchange
// with r = 0 - no OOB or passkey value is ever involved. The reference: a key may only be reported authenticated after an exchange that authenticated the peer.
#include <cstdio>
#include <cstdlib>
#include <cstdint>
#include <cassert>
#include <array>
#include <vector>
#include <algorithm>
#include <initializer_list>
#include <tuple>
#define BOOST_REQUIRE( x ) do { if ( !( x ) ) { std::printf( "requirement failed: %s\n", #x ); std::exit( 2 ); } } while ( 0 )
#define BOOST_CHECK_EQUAL_COLLECTIONS( b1, e1, b2, e2 ) do { if ( !( ( ( e1 ) - ( b1 ) ) == ( ( e2 ) - ( b2 ) ) && std::equal( b1, e1, b2 ) ) ) { std::printf( "unexpected SM response (line %d)\n", __LINE__ ); std::exit( 2 ); } } while ( 0 )
#include <bluetoe/bits.hpp>
#include <bluetoe/codes.hpp>
#include <bluetoe/address.hpp>
#include <bluetoe/pairing_status.hpp>
#include <bluetoe/link_state.hpp>
#include <bluetoe/security_manager.hpp>
#include "test_sm.hpp"
#include "replay_util.hpp"

static const bluetoe::link_layer::device_address central = bluetoe::link_layer::random_device_address({ 0xa6, 0xa5, 0xa4, 0xa3, 0xa2, 0xa1 });
static const char* to_string( bluetoe::device_pairing_status s ) { return s == bluetoe::device_pairing_status::no_key ? "no_key" : s == bluetoe::device_pairing_status::unauthenticated_key ? "unauthenticated_key" : s == bluetoe::device_pairing_status::authenticated_key ? "authenticated_key" : "other"; }

template < class M > static std::vector< std::uint8_t > send( M& sm, const std::vector< std::uint8_t >& pdu ) { std::uint8_t b[ 65 ]; std::size_t n = sizeof( b ); sm.l2cap_input( pdu.data(), pdu.size(), b, n, sm.connection_data_ ); return std::vector< std::uint8_t >( &b[ 0 ], &b[ n ] ); }
template < class M > static std::vector< std::uint8_t > poll( M& sm ) { std::uint8_t b[ 65 ]; std::size_t n = sizeof( b ); sm.l2cap_output( b, n, sm.connection_data_ ); return std::vector< std::uint8_t >( &b[ 0 ], &b[ n ] ); }

// returns 1 when a key is reported authenticated after the plain exchange
template < class M > static int play( const char* what, std::uint8_t io_cap, std::uint8_t oob_flag )
{
    M sm;
    sm.remote_address( central );
    const std::uint8_t auth_req = 0x08;   // SC
    auto rsp = send( sm, { 0x01, io_cap, oob_flag, auth_req, 0x10, 0x00, 0x00 } );
    if ( rsp.size() != 7 || rsp[ 0 ] != 0x02 ) return 0;
    const auto algo = sm.connection_data().lesc_pairing_algorithm();
    rsp = send( sm, { 0x0C,
        0xe6, 0x9d, 0x35, 0x0e, 0x48, 0x01, 0x03, 0xcc, 0xdb, 0xfd, 0xf4, 0xac, 0x11, 0x91, 0xf4, 0xef, 0xb9, 0xa5, 0xf9, 0xe9, 0xa7, 0x83, 0x2c, 0x5e, 0x2c, 0xbe, 0x97, 0xf2, 0xd2, 0x03, 0xb0, 0x20,
        0x8b, 0xd2, 0x89, 0x15, 0xd0, 0x8e, 0x1c, 0x74, 0x24, 0x30, 0xed, 0x8f, 0xc2, 0x45, 0x63, 0x76, 0x5c, 0x15, 0x52, 0x5a, 0xbf, 0x9a, 0x32, 0x63, 0x6d, 0xeb, 0x2a, 0x65, 0x49, 0x9c, 0x80, 0xdc } );
    if ( rsp.size() != 65 || rsp[ 0 ] != 0x0C ) return 0;
    rsp = poll( sm );
    if ( rsp.size() != 17 || rsp[ 0 ] != 0x03 ) return 0;
    const bluetoe::details::uint128_t na = {{ 0 }};
    std::vector< std::uint8_t > random_pdu( 17, 0x00 ); random_pdu[ 0 ] = 0x04;
    rsp = send( sm, random_pdu );
    if ( rsp.size() != 17 || rsp[ 0 ] != 0x04 ) return 0;
    bluetoe::details::uint128_t nb; std::copy( rsp.begin() + 1, rsp.end(), nb.begin() );
    const auto dh_key = sm.p256( sm.connection_data().local_private_key(), sm.connection_data().remote_public_key() );
    bluetoe::details::uint128_t mac_key, ltk;
    std::tie( mac_key, ltk ) = sm.f5( dh_key, na, nb, central, sm.local_address() );
    const bluetoe::details::uint128_t zero = {{ 0 }};
    const bluetoe::details::io_capabilities_t io_caps = {{ io_cap, oob_flag, auth_req }};
    const auto ea = sm.f6( mac_key, na, nb, zero, io_caps, central, sm.local_address() );
    std::vector< std::uint8_t > dhkey( 17, 0x00 ); dhkey[ 0 ] = 0x0D; std::copy( ea.begin(), ea.end(), dhkey.begin() + 1 );
    rsp = send( sm, dhkey );
    if ( rsp.size() != 17 || rsp[ 0 ] != 0x0D ) return 0;
    const auto status = sm.connection_data().local_device_pairing_status();
    if ( status == bluetoe::device_pairing_status::authenticated_key ) {
        std::printf( "REPRODUCED: %s: Pairing Request with IO capability %u, OOB flag %u, SC: method selected %d (0 just works, 1 OOB, 2/3 passkey entry, 4 numeric comparison); the central then ran the plain "
                     "public key / random / DHKey check exchange with r = 0 (no OOB value, no passkey rounds): pairing completed, link key reported as %s\n", what, io_cap, oob_flag, (int)algo, to_string( status ) );
        return 1;
    }
    return 0;
}
struct keyboard_t { int sm_pairing_passkey() { return 0; } } keyboard;
int main( int, char** )
{
    for ( int io = 0; io <= 4; ++io ) for ( int oob = 0; oob <= 1; ++oob ) {
        if ( play< test::lesc_security_manager< 65 > >( "bluetoe::lesc_security_manager", io, oob ) ) return 1;
        if ( play< test::security_manager< 65 > >( "bluetoe::security_manager", io, oob ) ) return 1;
    }
    std::printf( "not reproduced\n" );
    return 0;
}
