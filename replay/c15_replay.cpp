// Native replay for C15/C16/C17: the real ll_data_pdu_buffer (default PDU layout) put into the witness state, then the step under
// contract is executed and the same postconditions are evaluated on the real object.
#include <cassert>
#include <iterator>
#include <algorithm>
#include <bluetoe/ll_data_pdu_buffer.hpp>
#include "replay_util.hpp"

struct lock_guard_t { lock_guard_t() {} };
struct radio_t : bluetoe::link_layer::ll_data_pdu_buffer< 200, 200, radio_t > {
    using lock_guard = lock_guard_t;
    int rxc = 0, txc = 0;
    void increment_receive_packet_counter() { ++rxc; }
    void increment_transmit_packet_counter() { ++txc; }
};
using layout = bluetoe::link_layer::default_pdu_layout;
static bool SN( unsigned h ) { return h & 8; } static bool NESN( unsigned h ) { return h & 4; }
static unsigned LLID( unsigned h ) { return h & 3; } static unsigned LEN( unsigned h ) { return h >> 8; }

int main( int argc, char** argv )
{
    replay_args a( argc, argv );
    if ( a.num( "W_lo" ) != 0 ) std::printf( "note: witness uses the nRF encrypted layout (one byte more per PDU); replayed with the default layout, the header logic is identical\n" );
    radio_t r;
    r.reset_pdu_buffer();
    const unsigned hr = a.unum( "W_hr" ), h0 = a.unum( "W_h0" ), h1 = a.unum( "W_h1" ), he = a.unum( "W_he" );
    const bool w_sn = a.num( "W_sn" ), w_nesn = a.num( "W_nesn" ), w_ne = a.num( "W_next_empty" ), w_esn = a.num( "W_empty_sn" );
    std::size_t txn = a.unum( "W_tx_n" ); if ( txn > 3 ) txn = 3;
    // transmit ring with txn PDUs whose headers are the witness headers (length field forced to the real payload size 1)
    const unsigned hs[ 3 ] = { h0, h1, 0x0102 };
    std::uint8_t* tx_ptr[ 3 ] = { nullptr, nullptr, nullptr };
    for ( std::size_t i = 0; i < txn; ++i ) {
        auto b = r.transmit_buffer_.alloc_front( r.transmit_buffer(), layout::data_channel_pdu_memory_size( 1 ) );
        layout::header( b, ( hs[ i ] & 0xff ) | 0x0100 );
        tx_ptr[ i ] = b.buffer;
        r.transmit_buffer_.push_front( r.transmit_buffer(), b );
    }
    r.sequence_number_ = w_sn; r.next_expected_sequence_number_ = w_nesn; r.next_empty_ = w_ne; r.empty_sequence_number_ = w_esn;
    layout::header( r.empty_, he );
    const bool head_acked = !w_ne && txn != 0 && SN( h0 ) != NESN( hr );
    auto pdu = r.allocate_receive_buffer();
    if ( pdu.size == 0 ) { std::printf( "no receive buffer\n" ); return 2; }
    layout::header( pdu, hr );
    const std::string u = a.str( "unit" );
    if ( u == "llbuf.received" || u == "llbuf.acknowledge_pdu" ) {
        const bool mic_ok = u == "llbuf.received";
        const auto out = mic_ok ? r.received( pdu ) : r.acknowledge( pdu );
        const unsigned ho = layout::header( out.buffer );
        const auto delivered = r.next_received();
        const bool is_new = SN( hr ) == w_nesn;
        std::printf( "%s: header 0x%04x (SN %d NESN %d LLID %u len %u), next expected SN %d -> %d, delivered %d, rx counter %d, tx counter %d, reply header 0x%04x (NESN %d)\n",
            mic_ok ? "received" : "acknowledge (MIC failure)", hr, SN( hr ), NESN( hr ), LLID( hr ), LEN( hr ), w_nesn, (int)r.next_expected_sequence_number_, delivered.size != 0, r.rxc, r.txc, ho, NESN( ho ) );
        if ( mic_ok ) {
            REPLAY_CHECK( r.next_expected_sequence_number_ == ( is_new ? !w_nesn : w_nesn ) );
            REPLAY_CHECK( ( delivered.size != 0 ) == ( is_new && LEN( hr ) != 0 && LLID( hr ) != 0 ) );
            REPLAY_CHECK( r.rxc == ( is_new && LEN( hr ) != 0 ? 1 : 0 ) );
        } else {
            // C17: a PDU that failed its integrity check is not acknowledged as received, not delivered, not counted
            REPLAY_CHECK( r.next_expected_sequence_number_ == w_nesn );
            REPLAY_CHECK( NESN( ho ) == w_nesn );
            REPLAY_CHECK( delivered.size == 0 && r.rxc == 0 );
        }
        REPLAY_CHECK( NESN( ho ) == r.next_expected_sequence_number_ );
        if ( mic_ok || r.txc ) REPLAY_CHECK( r.txc == ( head_acked ? 1 : 0 ) );
        if ( mic_ok ) {
            const bool after_ne = w_ne && w_esn == NESN( hr );
            const std::size_t left = txn - ( head_acked ? 1 : 0 );
            if ( after_ne ) REPLAY_CHECK( out.buffer == r.empty_ && SN( ho ) == w_esn );
            else if ( left == 0 ) REPLAY_CHECK( out.buffer == r.empty_ && SN( ho ) == w_sn && LEN( ho ) == 0 && r.sequence_number_ == !w_sn );
            else REPLAY_CHECK( out.buffer == tx_ptr[ head_acked ? 1 : 0 ] && SN( ho ) == SN( hs[ head_acked ? 1 : 0 ] ) );
        }
    } else if ( u == "llbuf.acknowledge_bool" ) {
        const bool nesn = a.num( "W_arg" );
        const bool acked = !w_ne && txn != 0 && SN( h0 ) != nesn;
        r.acknowledge( nesn );
        REPLAY_CHECK( r.txc == ( acked ? 1 : 0 ) && r.next_empty_ == ( w_ne && w_esn == nesn ) && r.sequence_number_ == w_sn );
        REPLAY_CHECK( ( r.transmit_buffer_.next_end().buffer == tx_ptr[ acked ? 1 : 0 ] ) || ( txn - acked == 0 ) );
    } else if ( u == "llbuf.next_transmit" ) {
        const auto out = r.next_transmit(); const unsigned ho = layout::header( out.buffer );
        REPLAY_CHECK( NESN( ho ) == w_nesn );
        if ( w_ne ) REPLAY_CHECK( out.buffer == r.empty_ && r.sequence_number_ == w_sn );
        else if ( txn == 0 ) REPLAY_CHECK( out.buffer == r.empty_ && SN( ho ) == w_sn && LLID( ho ) == 1 && LEN( ho ) == 0 && r.next_empty_ && r.empty_sequence_number_ == w_sn && r.sequence_number_ == !w_sn );
        else REPLAY_CHECK( out.buffer == tx_ptr[ 0 ] && SN( ho ) == SN( h0 ) && r.sequence_number_ == w_sn && ( txn < 2 || ( ho & 0x10 ) ) );
        REPLAY_CHECK( r.txc == 0 && r.rxc == 0 );
    } else if ( u == "llbuf.commit_transmit_buffer" ) {
        auto b = r.allocate_transmit_buffer( layout::data_channel_pdu_memory_size( 1 ) );
        layout::header( b, ( hr & 0x17 ) | 0x0100 );
        r.stopped_ = a.num( "W_stopped" );
        r.commit_transmit_buffer( b );
        if ( a.num( "W_stopped" ) ) REPLAY_CHECK( r.sequence_number_ == w_sn );
        else REPLAY_CHECK( r.sequence_number_ == !w_sn && SN( layout::header( b ) ) == w_sn && ( layout::header( b ) & ~8 ) == ( ( hr & 0x17 ) | 0x0100 ) );
    } else { std::printf( "no replay for unit %s\n", u.c_str() ); return 2; }
    std::printf( "not reproduced\n" );
    return 0;
}
