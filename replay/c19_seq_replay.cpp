// Native replay for C19 (sequences): the real ll_l2cap_sdu_buffer< radio, callbacks, 64 > on top of a mock radio whose receive queue is a list of LL PDUs. The consumer does what
// link_layer::handle_received_data does: next_ll_l2cap_received(), hand the PDU on, free_ll_l2cap_received(). Played: an L2CAP SDU in two fragments with LL control PDUs before,
// between and behind the fragments. Reference: every LL control PDU is delivered exactly once, the SDU exactly once and complete, in the order of arrival.
#include <cassert>
#include <algorithm>
#include <iterator>
#include <vector>
#include <deque>
#include <cstdio>
#include <bluetoe/ll_l2cap_sdu_buffer.hpp>
#include <bluetoe/default_pdu_layout.hpp>
#include "replay_util.hpp"

using pdu_t = std::vector< std::uint8_t >;
struct mock_radio {
    struct layout : bluetoe::link_layer::default_pdu_layout {};
    static constexpr std::size_t header_size = 2, layout_overhead = 0;
    std::deque< pdu_t > rx;
    bluetoe::link_layer::write_buffer next_received() const { return rx.empty() ? bluetoe::link_layer::write_buffer{ nullptr, 0 } : bluetoe::link_layer::write_buffer{ rx.front().data(), rx.front().size() }; }
    void free_received() { assert( !rx.empty() ); rx.pop_front(); }
    bluetoe::link_layer::read_buffer allocate_transmit_buffer( std::size_t ) { return { nullptr, 0 }; }
    void commit_transmit_buffer( bluetoe::link_layer::read_buffer ) {}
    std::size_t max_tx_size() const { return 29; }
};
template < class Buf > struct callbacks_t { void pdu_receive_data_callback( const bluetoe::link_layer::write_buffer& ) {} };
struct buf_t : bluetoe::link_layer::ll_l2cap_sdu_buffer< mock_radio, buf_t, 64 > { void pdu_receive_data_callback( const bluetoe::link_layer::write_buffer& ) {} };

static pdu_t ll( std::uint8_t llid, const pdu_t& body ) { pdu_t p = { llid, static_cast< std::uint8_t >( body.size() ) }; p.insert( p.end(), body.begin(), body.end() ); return p; }

static int play( unsigned where, bool verbose )
{
    // the SDU: 40 octets of ATT payload on channel 4
    pdu_t sdu = { 40, 0, 4, 0 }; for ( int i = 0; i < 40; ++i ) sdu.push_back( static_cast< std::uint8_t >( 0xA0 + i ) );
    const pdu_t first( sdu.begin(), sdu.begin() + 27 ), second( sdu.begin() + 27, sdu.end() );
    const pdu_t ping = ll( 3, { 0x12 } );
    buf_t b;
    std::vector< pdu_t > expected;
    if ( where == 0 ) { b.rx.push_back( ping ); expected.push_back( ping ); }
    b.rx.push_back( ll( 2, first ) );
    if ( where == 1 ) { b.rx.push_back( ping ); expected.push_back( ping ); }
    b.rx.push_back( ll( 1, second ) );
    expected.push_back( ll( 2, sdu ) );
    if ( where == 2 ) { b.rx.push_back( ping ); expected.push_back( ping ); }
    std::vector< pdu_t > delivered;
    for ( int guard = 0; guard < 10; ++guard ) {
        const auto p = b.next_ll_l2cap_received();
        if ( p.size == 0 ) break;
        delivered.push_back( pdu_t( p.buffer, p.buffer + p.size ) );
        b.free_ll_l2cap_received();
    }
    // the reassembled SDU carries an LL header whose length octet is not compared (it is the first fragment's)
    bool ok = delivered.size() == expected.size();
    for ( std::size_t i = 0; ok && i != delivered.size(); ++i )
        ok = delivered[ i ].size() == expected[ i ].size() && delivered[ i ][ 0 ] == expected[ i ][ 0 ] && std::equal( delivered[ i ].begin() + 2, delivered[ i ].end(), expected[ i ].begin() + 2 );
    if ( verbose || !ok ) {
        std::printf( "LL_PING_REQ %s the two fragments of a 40 octet SDU (MTU 64): delivered", where == 0 ? "in front of" : where == 1 ? "BETWEEN" : "behind" );
        for ( const auto& d : delivered ) { std::printf( " [" ); for ( std::size_t i = 0; i < d.size() && i < 6; ++i ) std::printf( "%02x ", d[ i ] ); std::printf( "%s%zu octets]", d.size() > 6 ? ".. " : "", d.size() ); }
        std::printf( "\n" );
    }
    if ( !ok ) { std::printf( "REPRODUCED: expected %zu deliveries (every LL control PDU once, the SDU once and complete), got %zu\n", expected.size(), delivered.size() ); return 1; }
    return 0;
}
// an unfragmented SDU arrives while another one is incomplete: the incomplete one is dropped for good - a continuation fragment that arrives later completes nothing
static int abandoned( bool verbose )
{
    pdu_t sdu = { 40, 0, 4, 0 }; for ( int i = 0; i < 40; ++i ) sdu.push_back( static_cast< std::uint8_t >( 0xA0 + i ) );
    const pdu_t first( sdu.begin(), sdu.begin() + 27 ), second( sdu.begin() + 27, sdu.end() );
    const pdu_t small = { 3, 0, 4, 0, 0x0a, 0x03, 0x00 };
    buf_t b;
    b.rx.push_back( ll( 2, first ) ); b.rx.push_back( ll( 2, small ) ); b.rx.push_back( ll( 1, second ) ); b.rx.push_back( ll( 1, second ) );
    std::vector< pdu_t > delivered;
    for ( int guard = 0; guard < 10; ++guard ) {
        const auto p = b.next_ll_l2cap_received();
        if ( p.size == 0 ) break;
        delivered.push_back( pdu_t( p.buffer, p.buffer + p.size ) );
        b.free_ll_l2cap_received();
    }
    const bool ok = delivered.size() == 1 && delivered[ 0 ] == ll( 2, small ) && b.receive_buffer_used_ == 0 && b.receive_size_ == 0;
    if ( verbose || !ok ) std::printf( "first fragment of a 40 octet SDU, an unfragmented 3 octet SDU, two stray continuation fragments: %zu PDU(s) delivered, reassembly state afterwards: used %zu, expected %u\n",
                                       delivered.size(), b.receive_buffer_used_, (unsigned)b.receive_size_ );
    if ( !ok ) { std::printf( "REPRODUCED: the abandoned SDU was not dropped completely\n" ); return 1; }
    return 0;
}
int main( int argc, char** argv )
{
    replay_args a( argc, argv );
    int rc = 0;
    for ( unsigned w = 0; w != 3; ++w ) rc |= play( w, a.has( "verbose" ) );
    rc |= abandoned( a.has( "verbose" ) );
    if ( !rc ) std::printf( "not reproduced\n" );
    return rc;
}
