// Shared helpers for native replay drivers: parse "name=value" / "name=v0,v1,..." arguments.
// A driver returns 1 when the violation is reproduced on the real code, 0 when it is not.
#ifndef VERIF_REPLAY_UTIL_HPP
#define VERIF_REPLAY_UTIL_HPP
#include <map>
#include <string>
#include <vector>
#include <cstdlib>
#include <cstdio>
#include <cstdint>
#include <cstring>

struct replay_args {
    std::map< std::string, std::string > kv;
    replay_args( int argc, char** argv ) {
        for ( int i = 1; i < argc; ++i ) {
            std::string a( argv[ i ] );
            auto p = a.find( '=' );
            if ( p != std::string::npos ) kv[ a.substr( 0, p ) ] = a.substr( p + 1 );
        }
    }
    bool has( const std::string& k ) const { return kv.count( k ) != 0; }
    std::string str( const std::string& k ) const { auto i = kv.find( k ); return i == kv.end() ? "" : i->second; }
    long long num( const std::string& k, long long dflt = 0 ) const {
        auto i = kv.find( k ); if ( i == kv.end() ) return dflt;
        return std::strtoll( i->second.c_str(), nullptr, 0 );
    }
    unsigned long long unum( const std::string& k, unsigned long long dflt = 0 ) const {
        auto i = kv.find( k ); if ( i == kv.end() ) return dflt;
        return std::strtoull( i->second.c_str(), nullptr, 0 );
    }
    std::vector< std::uint8_t > bytes( const std::string& k ) const {
        std::vector< std::uint8_t > r; auto i = kv.find( k ); if ( i == kv.end() ) return r;
        const char* s = i->second.c_str();
        while ( *s ) { r.push_back( static_cast< std::uint8_t >( std::strtoul( s, const_cast< char** >( &s ), 0 ) ) ); if ( *s == ',' ) ++s; }
        return r;
    }
    // unit=<unit>[.<function>]
    bool is( const char* name ) const { return str( "unit" ) == name; }
};

#define REPLAY_CHECK( cond ) do { if ( !( cond ) ) { std::printf( "REPRODUCED: %s is false on the real code\n", #cond ); return 1; } } while ( 0 )
#endif
