// Native replay for C10 (notification index): real servers with three notifying characteristics and every placement of higher / lower_outgoing_priority; a notification is requested by value
// and by UUID, and the queue index that reaches the link layer call back is resolved the way l2cap_output() does it (find_notification_data_by_index): it has to name the characteristic asked for.
#include <cassert>
#include <iterator>
#include <algorithm>
#include <cstdio>
#include <vector>
#include <bluetoe/server.hpp>
#include <bluetoe/service.hpp>
#include <bluetoe/characteristic.hpp>
#include <bluetoe/outgoing_priority.hpp>
#include "replay_util.hpp"
static std::uint8_t va = 0xa1, vb = 0xb2, vc = 0xc3;
using UA = bluetoe::characteristic_uuid16< 0xaaa1 >; using UB = bluetoe::characteristic_uuid16< 0xaaa2 >; using UC = bluetoe::characteristic_uuid16< 0xaaa3 >;
using A = bluetoe::characteristic< UA, bluetoe::bind_characteristic_value< std::uint8_t, &va >, bluetoe::notify >;
using B = bluetoe::characteristic< UB, bluetoe::bind_characteristic_value< std::uint8_t, &vb >, bluetoe::notify >;
using C = bluetoe::characteristic< UC, bluetoe::bind_characteristic_value< std::uint8_t, &vc >, bluetoe::notify >;
static std::vector< bluetoe::details::notification_data > queued;
static bool cb( const bluetoe::details::notification_data& item, void*, bluetoe::details::notification_type type ) { if ( type == bluetoe::details::notification_type::notification ) queued.push_back( item ); return true; }
template < class Server > static int check( const char* name )
{
    Server srv; srv.notification_callback( &cb, nullptr ); queued.clear();
    srv.notify( va ); srv.notify( vb ); srv.notify( vc );
    srv.template notify< UA >(); srv.template notify< UB >(); srv.template notify< UC >();
    static const char* const what[] = { "notify( a's value )", "notify( b's value )", "notify( c's value )", "notify< a >()", "notify< b >()", "notify< c >()" };
    if ( queued.size() != 6 ) { std::printf( "REPRODUCED: %s: %zu of 6 notifications reached the link layer\n", name, queued.size() ); return 1; }
    for ( std::size_t i = 0; i != 6; ++i ) {
        const auto sent = srv.find_notification_data_by_index( queued[ i ].client_characteristic_configuration_index() );
        if ( sent.attribute_table_index() != queued[ i ].attribute_table_index() || queued[ i ].attribute_table_index() != queued[ 3 + i % 3 ].attribute_table_index() ) {
            std::printf( "REPRODUCED: %s: %s queues ( value attribute %zu, index %zu ); l2cap_output() resolves index %zu to value attribute %zu - another characteristic is sent (and another CCCD is consulted)\n",
                name, what[ i ], queued[ i ].attribute_table_index(), queued[ i ].client_characteristic_configuration_index(), queued[ i ].client_characteristic_configuration_index(), sent.attribute_table_index() ); return 1; }
    }
    return 0;
}
template < typename ... P > using srv = bluetoe::server< bluetoe::no_gap_service_for_gatt_servers, bluetoe::service< bluetoe::service_uuid16< 0x1111 >, A, B, C, P... > >;
int main( int, char** )
{
    if ( check< srv<> >( "no priorities" ) ) return 1;
    if ( check< srv< bluetoe::higher_outgoing_priority< UC > > >( "higher_outgoing_priority< c >" ) ) return 1;
    if ( check< srv< bluetoe::higher_outgoing_priority< UB > > >( "higher_outgoing_priority< b >" ) ) return 1;
    if ( check< srv< bluetoe::higher_outgoing_priority< UB, UC > > >( "higher_outgoing_priority< b, c >" ) ) return 1;
    std::printf( "not reproduced\n" );
    return 0;
}
