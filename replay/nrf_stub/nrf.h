/* Host-side stand-in for the Nordic MDK <nrf.h>, used only by the native replay drivers under /verif/replay
 * (C37/C38): just enough for bluetoe/bindings/nordic/include/bluetoe/nrf.hpp and
 * bluetoe/bindings/nordic/nrf52/security_tool_box.cpp to compile on a PC. The RNG peripheral is emulated:
 * EVENTS_VALRDY always reads "ready" and every read of VALUE yields the next byte from verif_rng_next(),
 * which the replay driver defines (the byte stream of the counterexample). Not part of the library. */
#ifndef VERIF_NRF_STUB_H
#define VERIF_NRF_STUB_H

#include <stdint.h>

extern "C" uint32_t verif_rng_next( void );

typedef struct { volatile uint32_t dummy; } NRF_RADIO_Type;
typedef struct { volatile uint32_t dummy; } NRF_TIMER_Type;
typedef struct {
    volatile uint32_t TASKS_HFCLKSTART, TASKS_HFCLKSTOP, TASKS_LFCLKSTART;
    volatile uint32_t EVENTS_HFCLKSTARTED, EVENTS_LFCLKSTARTED;
    volatile uint32_t LFCLKSRC;
} NRF_CLOCK_Type;
typedef struct { volatile uint32_t dummy; } NRF_TEMP_Type;
typedef struct { volatile uint32_t TASKS_START, TASKS_STOP, EVTEN; } NRF_RTC_Type;
typedef struct { volatile uint32_t dummy; } NRF_CCM_Type;
typedef struct { volatile uint32_t dummy; } NRF_AAR_Type;
typedef struct { volatile uint32_t dummy; } NRF_PPI_Type;
typedef struct { volatile uint32_t dummy; } NRF_GPIOTE_Type;
typedef struct { volatile uint32_t dummy; } NVIC_Type;

struct verif_always_ready { operator uint32_t() const { return 1; } verif_always_ready& operator=( uint32_t ) { return *this; } };
struct verif_rng_value    { operator uint32_t() const { return verif_rng_next() & 0xff; } };
typedef struct {
    volatile uint32_t   TASKS_START, TASKS_STOP;
    verif_always_ready  EVENTS_VALRDY;
    verif_rng_value     VALUE;
} NRF_RNG_Type;
typedef struct {
    volatile uint32_t   TASKS_STARTECB, TASKS_STOPECB;
    verif_always_ready  EVENTS_ENDECB;
    volatile uint32_t   EVENTS_ERRORECB;
    volatile uint32_t   ECBDATAPTR;
} NRF_ECB_Type;

extern NRF_RNG_Type verif_nrf_rng;
extern NRF_ECB_Type verif_nrf_ecb;

#define NRF_RADIO   ((NRF_RADIO_Type*)0)
#define NRF_TIMER0  ((NRF_TIMER_Type*)0)
#define NRF_TIMER1  ((NRF_TIMER_Type*)0)
#define NRF_CLOCK   ((NRF_CLOCK_Type*)0)
#define NRF_TEMP    ((NRF_TEMP_Type*)0)
#define NRF_RTC0    ((NRF_RTC_Type*)0)
#define NRF_CCM     ((NRF_CCM_Type*)0)
#define NRF_AAR     ((NRF_AAR_Type*)0)
#define NRF_PPI     ((NRF_PPI_Type*)0)
#define NRF_RNG     (&verif_nrf_rng)
#define NRF_ECB     (&verif_nrf_ecb)
#define NRF_GPIOTE  ((NRF_GPIOTE_Type*)0)
#define NVIC        ((NVIC_Type*)0)

#define __NVIC_PRIO_BITS 3

#define RTC_EVTEN_COMPARE0_Enabled 1u
#define RTC_EVTEN_COMPARE0_Pos     16u
#define RTC_EVTEN_COMPARE1_Enabled 1u
#define RTC_EVTEN_COMPARE1_Pos     17u
#define RTC_EVTEN_OVRFLW_Enabled   1u
#define RTC_EVTEN_OVRFLW_Pos       1u

#define CLOCK_LFCLKSRCCOPY_SRC_Pos   0u
#define CLOCK_LFCLKSRCCOPY_SRC_RC    0u
#define CLOCK_LFCLKSRCCOPY_SRC_Xtal  1u
#define CLOCK_LFCLKSRCCOPY_SRC_Synth 2u

#endif
