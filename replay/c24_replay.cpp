// Native replay for C24: runs the real variable_advertising_channel_map with the verifier's witness.
#include <cassert>
#include <bluetoe/advertising.hpp>
#include "replay_util.hpp"

struct map_t : bluetoe::link_layer::variable_advertising_channel_map {};

static unsigned lowest( unsigned m ) { return ( m & 1 ) ? 0 : ( m & 2 ) ? 1 : 2; }
static bool inv( const map_t& m ) { return m.map_ >= 1 && m.map_ <= 7 && m.current_channel_index_ < 3 && ( ( m.map_ >> m.current_channel_index_ ) & 1 ); }

int main( int argc, char** argv )
{
    replay_args a( argc, argv );
    map_t m;
    m.map_ = a.unum( "W_map" );
    m.current_channel_index_ = a.unum( "W_idx" );
    const unsigned old_idx = m.current_channel_index_, old_map = m.map_, ch = a.unum( "W_channel" );

    if ( a.is( "next_channel.next_channel" ) ) {
        m.next_channel();
        std::printf( "map=%u idx %u -> %u (channel %u)\n", old_map, old_idx, m.current_channel_index_, m.current_channel() );
        REPLAY_CHECK( inv( m ) && m.map_ == old_map );
        for ( unsigned i = old_idx + 1; i < m.current_channel_index_ && m.current_channel_index_ > old_idx; ++i )
            REPLAY_CHECK( ( ( old_map >> i ) & 1 ) == 0 );
        if ( m.current_channel_index_ <= old_idx ) {
            REPLAY_CHECK( m.current_channel_index_ == lowest( old_map ) );
            REPLAY_CHECK( ( old_map >> ( old_idx + 1 ) ) == 0 );
        }
    } else if ( a.is( "first_channel_index.first_channel_index" ) ) {
        REPLAY_CHECK( m.first_channel_index() == lowest( old_map ) );
    } else if ( a.is( "add_channel.add_channel" ) ) {
        m.add_channel_to_advertising_channel_map( ch );
        REPLAY_CHECK( m.map_ == ( old_map | ( 1u << ( ch - 37 ) ) ) );
        REPLAY_CHECK( inv( m ) && m.current_channel_index_ == lowest( m.map_ ) );
    } else if ( a.is( "remove_channel.remove_channel" ) ) {
        m.remove_channel_from_advertsing_channel_map( ch );
        REPLAY_CHECK( m.map_ == ( old_map & ~( 1u << ( ch - 37 ) ) ) );
        if ( m.map_ ) REPLAY_CHECK( inv( m ) && m.current_channel_index_ == lowest( m.map_ ) );
    } else if ( a.is( "current_and_first_selected.current_channel" ) ) {
        REPLAY_CHECK( m.current_channel() == 37 + old_idx && ( ( old_map >> ( m.current_channel() - 37 ) ) & 1 ) );
    } else if ( a.is( "current_and_first_selected.first_channel_selected" ) ) {
        REPLAY_CHECK( m.first_channel_selected() == ( old_idx == lowest( old_map ) ) );
    } else {
        std::printf( "no replay for unit %s\n", a.str( "unit" ).c_str() );
        return 2;
    }
    std::printf( "not reproduced\n" );
    return 0;
}
