// Native replay for C06: real value access functions (bind_characteristic_value, fixed values, handler based values, the
// characteristic declaration) driven with the verifier's witness.  Template value parameters (sizeof(T), permission options,
// RequiresEncryption) are realised from a menu; when the witness size is not in the menu, the nearest menu entries are tried with
// the witness offset/length and with the boundary offsets/lengths around the value size (search seeded by the witness).
#include <cassert>
#include <iterator>
#include <algorithm>
#include <vector>
#include <array>
#include <bluetoe/server.hpp>
#include <bluetoe/service.hpp>
#include <bluetoe/characteristic.hpp>
#include "replay_util.hpp"

using R = bluetoe::details::attribute_access_result;
using T_ = bluetoe::details::attribute_access_type;
namespace bd = bluetoe::details;

struct req { int type; std::size_t off, size; bool enc_required, enc; int ps; };
static bool refused( const req& q ) { return q.enc_required && !q.enc; }
static R enc_code( const req& q ) { return q.ps == 0 ? R::insufficient_authentication : R::insufficient_encryption; }

// one concrete experiment on a bound value of N bytes; returns 1 if a clause of the contract is violated
template < std::size_t N, bool NoRead, bool NoWrite, bool Enc >
struct bound {
    using arr = std::array< std::uint8_t, N >;
    static arr value;
    struct dummy_server {};
    using impl = typename std::conditional< NoRead,
        typename std::conditional< NoWrite, typename bluetoe::bind_characteristic_value< arr, &value >::template value_impl< bluetoe::no_read_access, bluetoe::no_write_access >,
                                            typename bluetoe::bind_characteristic_value< arr, &value >::template value_impl< bluetoe::no_read_access > >::type,
        typename std::conditional< NoWrite, typename bluetoe::bind_characteristic_value< arr, &value >::template value_impl< bluetoe::no_write_access >,
                                            typename bluetoe::bind_characteristic_value< arr, &value >::template value_impl<> >::type >::type;
    static int run( const req& q ) {
        if ( q.size > 600 ) return 0;
        for ( std::size_t i = 0; i < N; ++i ) value[ i ] = static_cast< std::uint8_t >( 0x40 + i );
        const arr before = value;
        std::vector< std::uint8_t > buf( q.size + 1 ), in;
        for ( std::size_t i = 0; i <= q.size; ++i ) buf[ i ] = static_cast< std::uint8_t >( 0xA0 + i );
        in = buf;
        bd::attribute_access_arguments args{ static_cast< T_ >( q.type ), buf.data(), q.size, q.off, bd::client_characteristic_configuration(),
            bluetoe::connection_security_attributes( q.enc, static_cast< bluetoe::device_pairing_status >( q.ps ) ), nullptr };
        const R rc = impl::template characteristic_value_access< dummy_server, 0, Enc >( args, 0 );
        auto fail = [&]( const char* what ) { std::printf( "REPRODUCED: %s [sizeof(T)=%zu no_read=%d no_write=%d requires_encryption=%d type=%d offset=%zu size=%zu encrypted=%d] rc=0x%x\n",
            what, N, NoRead, NoWrite, Enc, q.type, q.off, q.size, q.enc, (unsigned)rc ); return 1; };
        if ( buf[ q.size ] != in[ q.size ] ) return fail( "byte behind the request buffer written" );
        const bool val_same = value == before, buf_same = std::equal( in.begin(), in.end() - 1, buf.begin() );
        if ( refused( q ) ) { if ( rc != enc_code( q ) || !val_same || !buf_same || args.buffer_size != q.size ) return fail( "access on unencrypted link not refused cleanly" ); return 0; }
        if ( q.type == 0 && NoRead ) { if ( rc != R::read_not_permitted || !buf_same || !val_same ) return fail( "no_read_access not enforced" ); return 0; }
        if ( q.type == 0 ) {
            if ( !val_same ) return fail( "read modified the value" );
            if ( q.off > N ) { if ( rc != R::invalid_offset ) return fail( "read past the end is not Invalid Offset" ); return 0; }
            if ( rc != R::success || args.buffer_size != std::min( q.size, N - q.off ) ) return fail( "read result / length wrong" );
            for ( std::size_t j = 0; j < args.buffer_size; ++j ) if ( buf[ j ] != before[ q.off + j ] ) return fail( "read returned wrong byte" );
            return 0;
        }
        if ( q.type == 1 && NoWrite ) { if ( rc != R::write_not_permitted || !val_same ) return fail( "no_write_access not enforced" ); return 0; }
        if ( q.type == 1 ) {
            if ( !buf_same ) return fail( "write modified the request" );
            const bool ok = q.off <= N && q.size <= N - q.off;
            if ( !ok ) { if ( rc == R::success || !val_same ) return fail( "rejected write changed the value or was accepted" );
                         if ( rc != ( q.off > N ? R::invalid_offset : R::invalid_attribute_value_length ) ) return fail( "wrong error for rejected write" ); return 0; }
            if ( rc != R::success ) return fail( "valid write rejected" );
            for ( std::size_t k = 0; k < N; ++k ) { const std::uint8_t want = ( k >= q.off && k < q.off + q.size ) ? in[ k - q.off ] : before[ k ];
                if ( value[ k ] != want ) return fail( "value after write is not 'written bytes at the position, rest unchanged'" ); }
            return 0;
        }
        if ( rc == R::success || !val_same || !buf_same ) return fail( "compare access on a bound value succeeded or changed something" );
        return 0;
    }
};
template < std::size_t N, bool A, bool B, bool C > typename bound< N, A, B, C >::arr bound< N, A, B, C >::value;

template < std::size_t N >
static int bound_flags( const req& q, bool nr, bool nw ) {
    const bool e = q.enc_required;
    if ( nr && nw ) return e ? bound< N, true, true, true >::run( q ) : bound< N, true, true, false >::run( q );
    if ( nr ) return e ? bound< N, true, false, true >::run( q ) : bound< N, true, false, false >::run( q );
    if ( nw ) return e ? bound< N, false, true, true >::run( q ) : bound< N, false, true, false >::run( q );
    return e ? bound< N, false, false, true >::run( q ) : bound< N, false, false, false >::run( q );
}
static int bound_n( std::size_t n, const req& q, bool nr, bool nw ) {
    switch ( n ) { case 1: return bound_flags< 1 >( q, nr, nw ); case 2: return bound_flags< 2 >( q, nr, nw ); case 3: return bound_flags< 3 >( q, nr, nw );
        case 4: return bound_flags< 4 >( q, nr, nw ); case 8: return bound_flags< 8 >( q, nr, nw ); case 16: return bound_flags< 16 >( q, nr, nw );
        case 20: return bound_flags< 20 >( q, nr, nw ); case 40: return bound_flags< 40 >( q, nr, nw ); }
    return -1;
}
static int bound_search( const replay_args& a ) {
    req q{ (int)a.num( "W_type" ), (std::size_t)a.unum( "W_off" ), (std::size_t)a.unum( "W_size" ), a.num( "W_req" ) != 0, a.num( "W_enc" ) != 0, (int)a.num( "W_ps" ) };
    bool nr = !a.num( "W_rd" ), nw = !a.num( "W_wr" );
    // the overloads selected by the permission flag are verified on their own: realise the configuration that selects them
    if ( a.is( "bind_value.bind_write_true" ) ) { nw = false; q.type = 1; q.enc_required = false; }
    if ( a.is( "bind_value.bind_read_true" ) ) { nr = false; q.type = 0; q.enc_required = false; }
    const std::size_t n = a.unum( "W_vsize" );
    int r = bound_n( n, q, nr, nw );
    if ( r == 1 ) return 1;
    if ( r == 0 ) std::printf( "witness configuration itself does not fail natively; searching around it\n" );
    else std::printf( "sizeof(T)=%zu is not in the replay menu; searching the menu with the witness request and boundary requests\n", n );
    for ( std::size_t m : { 1u, 2u, 3u, 4u, 8u, 16u, 20u, 40u } )
        for ( std::size_t off : { q.off, std::size_t( 0 ), m - 1, m, m + 1 } )
            for ( std::size_t size : { q.size, std::size_t( 0 ), std::size_t( 1 ), m - std::min( off, m ), m - std::min( off, m ) + 1, m, m + 1 } ) {
                req q2 = q; q2.off = off; q2.size = size;
                if ( bound_n( m, q2, nr, nw ) == 1 ) return 1;
            }
    return 0;
}

// handler based value (value_handler_base): free_read_handler [+ no_read_access] + notify
static int read_calls;
static std::uint8_t rd_handler( std::size_t, std::uint8_t* out, std::size_t& out_size ) { ++read_calls; out[ 0 ] = 0x42; out_size = 1; return bluetoe::error_codes::success; }
static int handler_replay( const replay_args& a ) {
    struct dummy_server {};
    using impl_nr = bluetoe::free_read_handler< &rd_handler >::value_impl< bluetoe::free_read_handler< &rd_handler >, bluetoe::no_read_access, bluetoe::notify >;
    using impl_r  = bluetoe::free_read_handler< &rd_handler >::value_impl< bluetoe::free_read_handler< &rd_handler >, bluetoe::notify >;
    if ( !a.num( "W_rh" ) || a.num( "W_type" ) != 0 ) { std::printf( "replay menu only covers the read path of a read handler\n" ); return 0; }
    std::uint8_t buf[ 23 ] = { 0 };
    bd::attribute_access_arguments args{ T_::read, buf, sizeof buf, 0, bd::client_characteristic_configuration(),
        bluetoe::connection_security_attributes( a.num( "W_enc" ), static_cast< bluetoe::device_pairing_status >( a.num( "W_ps" ) ) ), nullptr };
    read_calls = 0;
    R rc;
    const bool no_read = a.num( "W_nr" );
    if ( a.num( "W_req" ) ) rc = no_read ? impl_nr::characteristic_value_access< dummy_server, 0, true >( args, 0 ) : impl_r::characteristic_value_access< dummy_server, 0, true >( args, 0 );
    else rc = no_read ? impl_nr::characteristic_value_access< dummy_server, 0, false >( args, 0 ) : impl_r::characteristic_value_access< dummy_server, 0, false >( args, 0 );
    const bool published_readable = no_read ? impl_nr::has_read_access : impl_r::has_read_access;
    std::printf( "free_read_handler%s: has_read_access (published)=%d, read access rc=0x%x, handler calls=%d, first byte %02x\n", no_read ? " + no_read_access" : "", published_readable, (unsigned)rc, read_calls, buf[ 0 ] );
    if ( a.num( "W_req" ) && !a.num( "W_enc" ) ) { REPLAY_CHECK( rc != R::success && read_calls == 0 ); return 0; }
    if ( !published_readable ) REPLAY_CHECK( rc != R::success && read_calls == 0 );
    return 0;
}

// characteristic declaration: properties byte, value handle and (auto generated) UUID for every read offset
static std::uint8_t dv1; static const std::uint8_t dv2 = 1; static std::int64_t dv3, dv4;
static int declaration_replay( const replay_args& a ) {
    using svc = bluetoe::service< bluetoe::service_uuid< 0xD7E08435, 0xA713, 0x4A51, 0x92DB, 0x004A8C63B6F8 >,
        bluetoe::characteristic< bluetoe::bind_characteristic_value< std::uint8_t, &dv1 >, bluetoe::notify >,
        bluetoe::characteristic< bluetoe::bind_characteristic_value< const std::uint8_t, &dv2 >, bluetoe::indicate >,
        bluetoe::characteristic< bluetoe::bind_characteristic_value< std::int64_t, &dv3 >, bluetoe::no_read_access, bluetoe::write_without_response >,
        bluetoe::characteristic< bluetoe::characteristic_uuid16< 0x2A19 >, bluetoe::bind_characteristic_value< std::int64_t, &dv4 >, bluetoe::only_write_without_response > >;
    bluetoe::server< svc > srv;
    static const std::uint8_t su[ 16 ] = { 0xf8, 0xb6, 0x63, 0x8c, 0x4a, 0x00, 0xdb, 0x92, 0x51, 0x4a, 0x13, 0xa7, 0x35, 0x84, 0xe0, 0xd7 };
    struct { std::size_t idx; std::uint8_t props; unsigned vh; bool auto_uuid; unsigned number; } decl[] = {
        { 1, 0x02 | 0x08 | 0x10, 3, true, 1 }, { 4, 0x02 | 0x20, 6, true, 2 }, { 7, 0x08 | 0x04, 9, true, 3 }, { 9, 0x02 | 0x04, 11, false, 4 } };
    std::vector< std::size_t > offs = { (std::size_t)a.unum( "W_off" ), 0, 1, 2, 3, 4, 5, 6, 18, 19 };
    for ( auto& d : decl ) for ( std::size_t off : offs ) {
        std::vector< std::uint8_t > full( 3 + ( d.auto_uuid ? 16 : 2 ) );
        full[ 0 ] = d.props; full[ 1 ] = d.vh & 0xff; full[ 2 ] = d.vh >> 8;
        if ( d.auto_uuid ) { std::copy( su, su + 16, full.begin() + 3 ); full[ 3 ] ^= d.number; } else { full[ 3 ] = 0x19; full[ 4 ] = 0x2a; }
        std::uint8_t buf[ 24 ]; std::memset( buf, 0xEE, sizeof buf );
        bd::attribute_access_arguments args{ T_::read, buf, 23, off, bd::client_characteristic_configuration(), bluetoe::connection_security_attributes(), &srv };
        const auto attr = srv.attribute_at( d.idx );
        if ( attr.uuid != 0x2803 ) { std::printf( "attribute %zu is not a declaration\n", d.idx ); return 2; }
        const R rc = attr.access( args, d.idx );
        if ( off > full.size() ) { if ( rc != R::invalid_offset ) { std::printf( "REPRODUCED: declaration %zu offset %zu: rc 0x%x\n", d.idx, off, (unsigned)rc ); return 1; } continue; }
        bool ok = rc == R::success && args.buffer_size == full.size() - off && std::equal( full.begin() + off, full.end(), buf ) && buf[ 23 ] == 0xEE;
        if ( !ok ) { std::printf( "REPRODUCED: declaration attribute %zu read at offset %zu returns", d.idx, off ); for ( std::size_t i = 0; i < args.buffer_size && i < 23; ++i ) std::printf( " %02x", buf[ i ] );
                     std::printf( "  expected" ); for ( std::size_t i = off; i < full.size(); ++i ) std::printf( " %02x", full[ i ] ); std::printf( "\n" ); return 1; }
    }
    return 0;
}

static int read_access_replay( const replay_args& a ) {
    // attribute_value_read_access on a 0..40 byte memory block: the witness request, then boundary requests
    for ( std::size_t n : { (std::size_t)a.unum( "W_vsize" ), std::size_t( 0 ), std::size_t( 1 ), std::size_t( 7 ), std::size_t( 40 ) } )
        for ( std::size_t off : { (std::size_t)a.unum( "W_off" ), std::size_t( 0 ), n - std::min< std::size_t >( n, 1 ), n, n + 1 } )
            for ( std::size_t size : { (std::size_t)a.unum( "W_size" ), std::size_t( 0 ), n, n + 1 } ) {
                if ( n > 600 || size > 600 ) continue;
                std::vector< std::uint8_t > mem( n + 1 ), buf( size + 1, 0xEE );
                for ( std::size_t i = 0; i < n; ++i ) mem[ i ] = static_cast< std::uint8_t >( i + 1 );
                bd::attribute_access_arguments args{ T_::read, buf.data(), size, off, bd::client_characteristic_configuration(), bluetoe::connection_security_attributes(), nullptr };
                const R rc = a.is( "read_access.attribute_value_read_only_access" ) ? bd::attribute_value_read_only_access( args, mem.data(), n ) : bd::attribute_value_read_access( args, mem.data(), n );
                bool ok = buf[ size ] == 0xEE;
                if ( off > n ) ok = ok && rc == R::invalid_offset;
                else { ok = ok && rc == R::success && args.buffer_size == std::min( size, n - off ); for ( std::size_t j = 0; ok && j < args.buffer_size; ++j ) ok = buf[ j ] == mem[ off + j ]; }
                if ( !ok ) { std::printf( "REPRODUCED: read access value size %zu offset %zu buffer %zu: rc=0x%x length %zu\n", n, off, size, (unsigned)rc, args.buffer_size ); return 1; }
            }
    return 0;
}

int main( int argc, char** argv )
{
    replay_args a( argc, argv );
    const std::string u = a.str( "unit" );
    int r = 2;
    if ( u.rfind( "bind_value.", 0 ) == 0 ) r = bound_search( a );
    else if ( u == "handler_value.handler_value_access" ) r = handler_replay( a );
    else if ( u.rfind( "declaration.", 0 ) == 0 ) r = declaration_replay( a );
    else if ( u.rfind( "read_access.attribute_value", 0 ) == 0 ) r = read_access_replay( a );
    else { std::printf( "no replay for unit %s\n", u.c_str() ); return 2; }
    if ( r == 0 ) std::printf( "not reproduced\n" );
    return r;
}
