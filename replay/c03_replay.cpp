// Native replay for C03: real servers that declare primary and secondary services (16 and 128 bit UUIDs, secondary first / in the middle / last); 'Discover All Primary
// Services' (Read By Group Type, repeated until Attribute Not Found) and 'Discover Primary Service by Service UUID' (Find By Type Value) for every declared UUID are
// compared with the declaration.
#include <cassert>
#include <iterator>
#include <algorithm>
#include <cstdio>
#include <vector>
#include <bluetoe/server.hpp>
#include <bluetoe/service.hpp>
#include <bluetoe/characteristic.hpp>
#include "replay_util.hpp"

static std::uint8_t v1, v2, v3, v4;
template < std::uint16_t U, std::uint8_t* V > using chr = bluetoe::characteristic< bluetoe::characteristic_uuid16< U >, bluetoe::bind_characteristic_value< std::uint8_t, V > >;
using P1 = bluetoe::service< bluetoe::service_uuid16< 0x1111 >, chr< 0xaaa1, &v1 > >;
using S2 = bluetoe::service< bluetoe::service_uuid16< 0x2222 >, bluetoe::is_secondary_service, chr< 0xaaa2, &v2 > >;
using P3 = bluetoe::service< bluetoe::service_uuid16< 0x3333 >, chr< 0xaaa3, &v3 >, chr< 0xaaa5, &v1 > >;
using S4 = bluetoe::service< bluetoe::service_uuid< 0x8C8B4094, 0x0DE2, 0x499F, 0xA28A, 0x4EED5BC73CA9 >, bluetoe::is_secondary_service, chr< 0xaaa4, &v4 > >;
using P5 = bluetoe::service< bluetoe::service_uuid< 0x8C8B4094, 0x0DE2, 0x499F, 0xA28A, 0x4EED5BC73CAA >, chr< 0xaaa6, &v4 > >;

struct decl { bool primary; std::uint16_t first, last; std::vector< std::uint8_t > uuid; };
template < class Server > struct conn_of : Server::connection_data { bluetoe::connection_security_attributes security_attributes() const { return bluetoe::connection_security_attributes(); } };

template < class Server >
static std::vector< std::uint8_t > request( Server& srv, conn_of< Server >& cd, std::vector< std::uint8_t > req ) { std::uint8_t out[ 23 ]; std::size_t n = sizeof( out ); srv.l2cap_input( req.data(), req.size(), out, n, cd ); return std::vector< std::uint8_t >( out, out + n ); }

template < class Server >
static int check( const char* name, const std::vector< decl >& decls )
{
    Server srv; conn_of< Server > cd;
    // Discover All Primary Services
    std::vector< std::pair< std::uint16_t, std::uint16_t > > found;
    for ( std::uint16_t start = 1; start != 0; ) {
        const auto rsp = request( srv, cd, { 0x10, std::uint8_t( start ), std::uint8_t( start >> 8 ), 0xff, 0xff, 0x00, 0x28 } );
        if ( rsp.empty() || rsp[ 0 ] != 0x11 ) break;
        std::uint16_t last = 0;
        for ( std::size_t p = 2; p + rsp[ 1 ] <= rsp.size(); p += rsp[ 1 ] ) { found.push_back( { std::uint16_t( rsp[ p ] | rsp[ p + 1 ] << 8 ), std::uint16_t( rsp[ p + 2 ] | rsp[ p + 3 ] << 8 ) } ); last = found.back().second; }
        start = last == 0xffff ? 0 : last + 1;
    }
    for ( const auto& f : found ) for ( const auto& d : decls ) if ( d.first == f.first && !d.primary ) {
        std::printf( "REPRODUCED: %s: 'Discover All Primary Services' (Read By Group Type, type 0x2800) reports the range 0x%04x..0x%04x of a service declared with is_secondary_service\n", name, f.first, f.second ); return 1; }
    std::size_t n_primary = 0; for ( const auto& d : decls ) if ( d.primary ) { ++n_primary; if ( std::find( found.begin(), found.end(), std::make_pair( d.first, d.last ) ) == found.end() ) {
        std::printf( "REPRODUCED: %s: primary service 0x%04x..0x%04x is not reported by 'Discover All Primary Services'\n", name, d.first, d.last ); return 1; } }
    if ( found.size() != n_primary ) { std::printf( "REPRODUCED: %s: %zu services reported, %zu primary services declared\n", name, found.size(), n_primary ); return 1; }
    // Discover Primary Service by Service UUID
    for ( const auto& d : decls ) {
        std::vector< std::uint8_t > req = { 0x06, 0x01, 0x00, 0xff, 0xff, 0x00, 0x28 }; req.insert( req.end(), d.uuid.begin(), d.uuid.end() );
        const auto rsp = request( srv, cd, req );
        const bool reported = rsp.size() >= 5 && rsp[ 0 ] == 0x07 && std::uint16_t( rsp[ 1 ] | rsp[ 2 ] << 8 ) == d.first && std::uint16_t( rsp[ 3 ] | rsp[ 4 ] << 8 ) == d.last;
        if ( reported != d.primary ) { std::printf( "REPRODUCED: %s: 'Discover Primary Service by Service UUID' for the UUID of the %s service 0x%04x..0x%04x: %s\n", name, d.primary ? "primary" : "secondary", d.first, d.last, reported ? "reported" : "not reported" ); return 1; }
    }

    // the same two procedures restricted to every handle range start..end (C02: only services whose declaration handle lies inside the range)
    const std::uint16_t top = decls.back().last + 2;
    for ( std::uint16_t start = 1; start <= top; ++start ) for ( std::uint16_t end = start; end <= top; ++end ) {
        std::vector< std::uint16_t > got;
        for ( std::uint16_t from = start; from != 0 && from <= end; ) {
            const auto rsp = request( srv, cd, { 0x10, std::uint8_t( from ), std::uint8_t( from >> 8 ), std::uint8_t( end ), std::uint8_t( end >> 8 ), 0x00, 0x28 } );
            if ( rsp.empty() || rsp[ 0 ] != 0x11 ) break;
            std::uint16_t last = 0;
            for ( std::size_t p = 2; p + rsp[ 1 ] <= rsp.size(); p += rsp[ 1 ] ) { got.push_back( std::uint16_t( rsp[ p ] | rsp[ p + 1 ] << 8 ) ); last = std::uint16_t( rsp[ p + 2 ] | rsp[ p + 3 ] << 8 ); }
            from = last == 0xffff ? 0 : last + 1;
        }
        std::vector< std::uint16_t > want;
        for ( const auto& d : decls ) if ( d.primary && d.first >= start && d.first <= end ) want.push_back( d.first );
        if ( got != want ) { std::printf( "REPRODUCED: %s: Read By Group Type <<Primary Service>> for the range 0x%04x..0x%04x reports %zu service(s)%s, %zu primary service declaration(s) lie in that range\n", name, start, end, got.size(),
            !got.empty() && ( got.back() > end || got.front() < start ) ? " (one of them outside the range)" : "", want.size() ); return 1; }
        for ( const auto& d : decls ) {
            std::vector< std::uint8_t > req = { 0x06, std::uint8_t( start ), std::uint8_t( start >> 8 ), std::uint8_t( end ), std::uint8_t( end >> 8 ), 0x00, 0x28 }; req.insert( req.end(), d.uuid.begin(), d.uuid.end() );
            const auto rsp = request( srv, cd, req );
            const bool reported = rsp.size() >= 5 && rsp[ 0 ] == 0x07 && std::uint16_t( rsp[ 1 ] | rsp[ 2 ] << 8 ) == d.first;
            const bool expected = d.primary && d.first >= start && d.first <= end;
            if ( reported != expected ) { std::printf( "REPRODUCED: %s: Find By Type Value for the range 0x%04x..0x%04x and the UUID of the service at 0x%04x: %s\n", name, start, end, d.first, reported ? "reported" : "not reported" ); return 1; }
        }
    }
    return 0;
}
// 64 primary services with one UUID, MTU 400: Find By Type Value has 256 octets of handle information to return
template < int N > using many_svc = bluetoe::service< bluetoe::service_uuid16< 0x1234 >, chr< 0x1000 + N, &v1 > >;
template < int... N > struct many { using type = bluetoe::server< bluetoe::max_mtu_size< 400 >, bluetoe::no_gap_service_for_gatt_servers, many_svc< N >... >; };
using many_t = many< 0,1,2,3,4,5,6,7,8,9,10,11,12,13,14,15,16,17,18,19,20,21,22,23,24,25,26,27,28,29,30,31,32,33,34,35,36,37,38,39,40,41,42,43,44,45,46,47,48,49,50,51,52,53,54,55,56,57,58,59,60,61,62,63 >::type;
static int long_response()
{
    many_t srv; conn_of< many_t > cd; cd.client_mtu( 400 );
    const std::uint8_t req[] = { 0x06, 0x01, 0x00, 0xff, 0xff, 0x00, 0x28, 0x34, 0x12 };
    std::uint8_t out[ 401 ]; out[ 400 ] = 0xEE; std::size_t n = 400;
    srv.l2cap_input( req, sizeof( req ), out, n, cd );
    if ( !( n == 1 + 64 * 4 && out[ 0 ] == 0x07 && out[ 400 ] == 0xEE ) ) {
        std::printf( "REPRODUCED: 64 primary services 0x1234, MTU 400: Find By Type Value returned %zu octets (%02x ..), 64 groups are %d octets\n", n, out[ 0 ], 1 + 64 * 4 ); return 1; }
    return 0;
}
int main( int, char** )
{
    if ( long_response() ) return 1;
    const std::vector< std::uint8_t > u1 = { 0x11, 0x11 }, u2 = { 0x22, 0x22 }, u3 = { 0x33, 0x33 };
    const std::vector< std::uint8_t > u4 = { 0xA9, 0x3C, 0xC7, 0x5B, 0xED, 0x4E, 0x8A, 0xA2, 0x9F, 0x49, 0xE2, 0x0D, 0x94, 0x40, 0x8B, 0x8C }, u5 = { 0xAA, 0x3C, 0xC7, 0x5B, 0xED, 0x4E, 0x8A, 0xA2, 0x9F, 0x49, 0xE2, 0x0D, 0x94, 0x40, 0x8B, 0x8C };
    using G = bluetoe::no_gap_service_for_gatt_servers;
    if ( check< bluetoe::server< G, P1, S2 > >( "server< primary 0x1111, secondary 0x2222 >", { { true, 1, 3, u1 }, { false, 4, 6, u2 } } ) ) return 1;
    if ( check< bluetoe::server< G, S2, P1 > >( "server< secondary 0x2222, primary 0x1111 >", { { false, 1, 3, u2 }, { true, 4, 6, u1 } } ) ) return 1;
    if ( check< bluetoe::server< G, P1, S2, P3 > >( "server< primary, secondary, primary >", { { true, 1, 3, u1 }, { false, 4, 6, u2 }, { true, 7, 11, u3 } } ) ) return 1;
    if ( check< bluetoe::server< G, S4, P1, P3 > >( "server< secondary (128 bit), primary, primary >", { { false, 1, 3, u4 }, { true, 4, 6, u1 }, { true, 7, 11, u3 } } ) ) return 1;
    if ( check< bluetoe::server< G, P1, S4, P5 > >( "server< primary (16 bit), secondary (128 bit), primary (128 bit) >", { { true, 1, 3, u1 }, { false, 4, 6, u4 }, { true, 7, 9, u5 } } ) ) return 1;
    using PG1 = bluetoe::service< bluetoe::attribute_handle< 0x10 >, bluetoe::service_uuid16< 0x1111 >, chr< 0xaaa1, &v1 > >; using PG2 = bluetoe::service< bluetoe::attribute_handle< 0x20 >, bluetoe::service_uuid16< 0x3333 >, chr< 0xaaa3, &v3 > >;
    if ( check< bluetoe::server< G, PG1, PG2 > >( "server< primary at 0x10, primary at 0x20 >", { { true, 0x10, 0x12, u1 }, { true, 0x20, 0x22, u3 } } ) ) return 1;
    if ( check< bluetoe::server< G, P1, P3 > >( "server< primary, primary >", { { true, 1, 3, u1 }, { true, 4, 8, u3 } } ) ) return 1;
    std::printf( "not reproduced\n" );
    return 0;
}
