// Native replay for C22: the real link_layer (with the repository's test radio) for the timing parameter validation, and the real
// delta_time for ppm.
// the repository's test radio reports through Boost.Test: the framework is compiled in (header-only variant), main() is ours
#define BOOST_TEST_NO_MAIN
#define BOOST_TEST_ALTERNATIVE_INIT_API
#include <boost/test/included/unit_test.hpp>
#include <cassert>
#include <iterator>
#include <algorithm>
#include <bluetoe/link_layer.hpp>
#include <bluetoe/server.hpp>
#include <bluetoe/delta_time.hpp>
#include "test_radio.hpp"
#include "replay_util.hpp"

static std::uint8_t v;
using srv_t = bluetoe::server< bluetoe::service< bluetoe::service_uuid16< 0x1234 >, bluetoe::characteristic< bluetoe::characteristic_uuid16< 0x1000 >, bluetoe::bind_characteristic_value< std::uint8_t, &v > > > >;
using ll_t = bluetoe::link_layer::link_layer< srv_t, test::radio >;

static bool spec_valid( unsigned long long iv, unsigned lat, unsigned long long to, unsigned long long ws )
{
    return iv >= 7500 && iv <= 4000000 && lat <= 499 && to >= 100000 && to <= 32000000 && to >= ( 1ull + lat ) * iv * 2 && ws <= 10000 && ws <= iv;
}
int main( int argc, char** argv )
{
    replay_args a( argc, argv );
    const std::string u = a.str( "unit" );
    if ( u == "delta_time.dt_ppm" ) {
        const std::uint32_t us = a.unum( "W_a" ); const unsigned part = a.unum( "W_part" );
        const std::uint32_t r = bluetoe::link_layer::delta_time( us ).ppm( part ).usec();
        std::printf( "delta_time( %u ).ppm( %u ) = %u, exact %.6f\n", us, part, r, us * (double)part / 1e6 );
        REPLAY_CHECK( (unsigned long long)r * 1000000ull >= (unsigned long long)us * part );
        REPLAY_CHECK( ( (unsigned long long)r + 2 ) * 1000000ull > (unsigned long long)us * part && (unsigned long long)r * 1000000ull <= (unsigned long long)us * part );
    } else if ( u.rfind( "timing.", 0 ) == 0 ) {
        static ll_t ll;
        // the witness of check_timing_paremeters is a state; the witness of the parse functions is a request body: both are replayed through the
        // real parse function (which ends in check_timing_paremeters) - for a state, the nearest body with the same values in 1.25 ms / 10 ms units
        std::uint8_t body[ 34 ] = { 0 };
        unsigned iv, lat, to, ws, wo;
        if ( u == "timing.check_timing_paremeters" ) { iv = a.unum( "W_interval" ) / 1250; lat = a.unum( "W_latency" ); to = a.unum( "W_timeout" ) / 10000; ws = a.unum( "W_win_size" ) / 1250; wo = 0; }
        else { const auto b = a.bytes( "W_body" ); auto le = [&]( int i ) { return unsigned( b.size() > (unsigned)i + 1 ? b[ i ] | ( b[ i + 1 ] << 8 ) : 0 ); };
               const int o = u == "timing.parse_timing_parameters_from_connect_request" ? 19 : 1; ws = b.size() > (unsigned)o ? b[ o ] : 0; wo = le( o + 1 ); iv = le( o + 3 ); lat = le( o + 5 ); to = le( o + 7 ); }
        iv &= 0xffff; to &= 0xffff; ws &= 0xff; lat &= 0xffff;
        body[ 19 ] = ws; body[ 20 ] = wo & 0xff; body[ 21 ] = wo >> 8; body[ 22 ] = iv & 0xff; body[ 23 ] = iv >> 8; body[ 24 ] = lat & 0xff; body[ 25 ] = lat >> 8; body[ 26 ] = to & 0xff; body[ 27 ] = to >> 8;
        const bool accepted = ll.parse_timing_parameters_from_connect_request( body );
        const bool valid = spec_valid( iv * 1250ull, lat, to * 10000ull, ws * 1250ull ) && wo <= iv;
        std::printf( "CONNECT_IND interval %u (%.2f ms) latency %u timeout %u (%u ms) winSize %u winOffset %u: %s, Core spec: %s\n", iv, iv * 1.25, lat, to, to * 10, ws, wo, accepted ? "accepted" : "rejected", valid ? "valid" : "invalid" );
        REPLAY_CHECK( !accepted || valid );
        REPLAY_CHECK( !valid || accepted );
        // the two named cases of the finding
        for ( auto c : { std::make_pair( 0u, 0u ), std::make_pair( 3436u, 499u ) } ) {
            std::uint8_t b2[ 34 ] = { 0 }; b2[ 22 ] = c.first & 0xff; b2[ 23 ] = c.first >> 8; b2[ 24 ] = c.second & 0xff; b2[ 25 ] = c.second >> 8; b2[ 26 ] = 0x80; b2[ 27 ] = 0x0c;
            const bool acc = ll.parse_timing_parameters_from_connect_request( b2 );
            std::printf( "CONNECT_IND interval %u latency %u timeout 32 s winSize 0: %s\n", c.first, c.second, acc ? "accepted" : "rejected" );
            REPLAY_CHECK( !acc );
        }
    } else { std::printf( "no replay for unit %s\n", u.c_str() ); return 2; }
    std::printf( "not reproduced\n" );
    return 0;
}
