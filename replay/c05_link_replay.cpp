// Native replay for C05 / C34 (link side): the real link_layer with the repository's encrypting test radio and a mocked security manager (as in
// tests/link_layer/ll_encryption_tests.cpp). The link is encrypted, the central reads a characteristic that requires encryption, and the local host
// calls disconnect() while the response is still waiting in the transmit buffer. The test radio records for every transmitted PDU whether transmit
// encryption was on: nothing that was queued on the encrypted link may go out in the clear.
#define BOOST_TEST_NO_MAIN
#define BOOST_TEST_ALTERNATIVE_INIT_API
#include <boost/test/included/unit_test.hpp>
#include "connected.hpp"
#include <bluetoe/pairing_status.hpp>
#include "replay_util.hpp"

namespace test {
    std::uint16_t secret_value = 0x4711;
    using secret_service = bluetoe::server< bluetoe::service< bluetoe::service_uuid< 0x8C8B4094, 0x0DE2, 0x499F, 0xA28A, 0x4EED5BC73CA9 >,
        bluetoe::characteristic< bluetoe::characteristic_uuid< 0x8C8B4094, 0x0DE2, 0x499F, 0xA28A, 0x4EED5BC73CAA >,
            bluetoe::bind_characteristic_value< decltype( secret_value ), &secret_value >, bluetoe::no_write_access >,
        bluetoe::requires_encryption > >;
    struct security_manager {
        template < typename ... > class impl {
        public:
            template < class OtherConnectionData > class channel_data_t : public OtherConnectionData {
            public:
                std::pair< bool, bluetoe::details::uint128_t > find_key( std::uint16_t ediv, std::uint64_t ) const { return std::make_pair( ediv == 1, bluetoe::details::uint128_t{ { 1, 2, 3 } } ); }   // the bond data base knows EDIV 1 only
                void remote_connection_created( const bluetoe::link_layer::device_address& ) {}
                bluetoe::device_pairing_status local_device_pairing_status() const { return bluetoe::device_pairing_status::no_key; }
                template < typename Connection > void restore_bonded_cccds( Connection& ) {}
            };
            template < class Connection > void l2cap_input( const std::uint8_t*, std::size_t, std::uint8_t*, std::size_t& out_size, Connection& ) { out_size = 0; }
            template < class Connection > bool security_manager_output_available( Connection& ) const { return false; }
            template < class Connection > void l2cap_output( std::uint8_t*, std::size_t& out_size, Connection& ) { out_size = 0; }
            static constexpr std::uint16_t channel_id = bluetoe::l2cap_channel_ids::sm;
            static constexpr std::size_t minimum_channel_mtu_size = bluetoe::details::default_att_mtu_size;
            static constexpr std::size_t maximum_channel_mtu_size = bluetoe::details::default_att_mtu_size;
        };
        struct meta_type : bluetoe::details::security_manager_meta_type, bluetoe::link_layer::details::valid_link_layer_option_meta_type {};
    };
}
// buffers of at least twice the largest PDU of the test layout (31 octets): with the 61 octets of the repository tests an empty ring at offset 31 cannot allocate
using ll_t = unconnected_base_t< test::secret_service, test::radio_with_encryption, test::security_manager, bluetoe::link_layer::buffer_sizes< 128u, 128u > >;


static int play( unsigned gap, bool verbose )
{
    ll_t ll;
    ll.respond_to( 37, valid_connection_request_pdu );
    ll.ll_control_pdu( { 0x03, 0,0,0,0,0,0,0,0, 1,0, 0x00,0x10,0x20,0x30,0x40,0x50,0x60,0x70, 0xab,0xbc,0x12,0x34 } );   // LL_ENC_REQ, known key
    ll.ll_empty_pdu();
    ll.ll_control_pdu( { 0x06 } );                                                                                            // LL_START_ENC_RSP
    ll.ll_empty_pdus( 2 );
    ll.ll_data_pdu( { 0x03, 0x00, 0x04, 0x00, 0x0A, 0x03, 0x00 } );   // ATT Read Request, handle 3 (the protected value), on the encrypted link
    ll.ll_empty_pdus( gap );
    ll.ll_function_call( [&]{ ll.disconnect(); } );
    ll.ll_empty_pdus( 4 );
    ll.run();
    int n = 0, rc = 0; bool was_encrypted = false;
    for ( const auto& ev : ll.connection_events() ) {
        for ( const auto& pdu : ev.transmitted_data ) {
            if ( verbose ) { std::printf( "event %d tx %s:", n, pdu.encrypted ? "encrypted" : "plain    " ); for ( auto b : pdu.data ) std::printf( " %02x", b ); std::printf( "\n" ); }
            was_encrypted = was_encrypted || pdu.encrypted;
            if ( was_encrypted && !pdu.encrypted && pdu.data.size() > 2 ) {
                std::printf( "REPRODUCED: link encrypted, ATT Read Request for the protected value, disconnect() %u event(s) later: PDU transmitted in the CLEAR in event %d:", gap, n );
                for ( auto b : pdu.data ) std::printf( " %02x", b );
                std::printf( "%s\n", pdu.data.size() >= 9 && pdu.data[ 6 ] == 0x0b ? "  <- ATT Read Response with the value that requires encryption" : "" ); rc = 1; }
        }
        ++n;
    }
    return rc;
}
int main( int argc, char** argv )
{
    replay_args a( argc, argv );
    int rc = 0;
    for ( unsigned gap = 0; gap <= 2 && !rc; ++gap ) rc = play( gap, a.has( "verbose" ) );
    if ( !rc ) std::printf( "not reproduced\n" );
    return rc;
}
bool init_unit_test() { return true; }
