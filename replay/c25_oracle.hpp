// Shared by the two C25 scan request replay drivers: cases, and the property's own words as the oracle.
#include <functional>
#include <vector>
#include <bluetoe/address.hpp>
static bluetoe::link_layer::device_address filter_arg; static int filter_calls; static bool filter_answer;
static void filter_asked( const bluetoe::link_layer::device_address& a ) { filter_arg = a; ++filter_calls; }
struct scan_case {
    bool gap, resolving_invalid, has_response, in_filter; std::uint8_t rx[ 14 ], rsp[ 8 ];   // header + ScanA + AdvA ; header + AdvA
    void fill( std::uint8_t* r, std::uint8_t* s ) const {
        std::memset( r, 0, 16 ); std::memset( s, 0, 16 ); const int g = gap ? 1 : 0;
        r[ 0 ] = rx[ 0 ]; r[ 1 ] = rx[ 1 ]; for ( int i = 0; i < 12; ++i ) r[ 2 + g + i ] = rx[ 2 + i ];
        s[ 0 ] = rsp[ 0 ]; s[ 1 ] = rsp[ 1 ]; for ( int i = 0; i < 6; ++i ) s[ 2 + g + i ] = rsp[ 2 + i ];
    }
    bool for_me() const { return ( rx[ 0 ] & 0x0f ) == 3 && rx[ 1 ] == 12 && std::equal( &rx[ 8 ], &rx[ 14 ], &rsp[ 2 ] ) && ( ( rx[ 0 ] & 0x80 ) != 0 ) == ( ( rsp[ 0 ] & 0x40 ) != 0 ); }
};
static int run_scan_request_cases( const replay_args& a, std::function< bool( const scan_case& ) > call, bool with_resolving )
{
    std::vector< scan_case > cases;
    if ( a.has( "W_rx" ) ) {
        scan_case c{}; c.gap = a.unum( "W_gap" ); c.resolving_invalid = a.unum( "W_resolving_invalid" ); c.has_response = a.unum( "W_has_response" ); c.in_filter = a.unum( "W_in_filter" );
        const auto rx = a.bytes( "W_rx" ), rsp = a.bytes( "W_rsp" );
        for ( std::size_t i = 0; i < 14 && i < rx.size(); ++i ) c.rx[ i ] = rx[ i ];
        for ( std::size_t i = 0; i < 8 && i < rsp.size(); ++i ) c.rsp[ i ] = rsp[ i ];
        cases.push_back( c );
    }
    // and a fixed family: SCAN_REQ / CONNECT_IND / garbage x address types x filter answers
    for ( int type : { 3, 5, 0 } ) for ( int tx = 0; tx < 2; ++tx ) for ( int rxa = 0; rxa < 2; ++rxa ) for ( int local_random = 0; local_random < 2; ++local_random )
    for ( int inf = 0; inf < 2; ++inf ) for ( int gap = 0; gap < 2; ++gap ) for ( int inv = 0; inv < ( with_resolving ? 2 : 1 ); ++inv ) for ( int adva_ok = 0; adva_ok < 2; ++adva_ok ) {
        scan_case c{}; c.gap = gap; c.resolving_invalid = inv; c.has_response = true; c.in_filter = inf;
        c.rx[ 0 ] = type | ( tx ? 0x40 : 0 ) | ( rxa ? 0x80 : 0 ); c.rx[ 1 ] = type == 5 ? 34 : 12;
        for ( int i = 0; i < 6; ++i ) { c.rx[ 2 + i ] = 0xa0 + i; c.rsp[ 2 + i ] = 0xc0 + i; c.rx[ 8 + i ] = adva_ok ? 0xc0 + i : 0x10 + i; }
        c.rsp[ 0 ] = 4 | ( local_random ? 0x40 : 0 ); c.rsp[ 1 ] = 6;
        cases.push_back( c );
        c.has_response = false; cases.push_back( c );   // the same request while an advertising type without scan response is used
    }
    for ( const auto& c : cases ) {
        filter_calls = 0; filter_answer = c.in_filter;
        const bool answered = call( c );
        const bool scanner_ok = filter_calls == 1 && std::equal( &c.rx[ 2 ], &c.rx[ 8 ], filter_arg.begin() ) && filter_arg.is_random() == ( ( c.rx[ 0 ] & 0x40 ) != 0 );
        if ( answered && !( c.has_response && c.for_me() && c.in_filter && scanner_ok ) ) {
            std::printf( "REPRODUCED: PDU header %02x %02x (type %d, TxAdd %d, RxAdd %d), AdvA %s the local address, local address %s, identity resolving %s, filter answer %d: "
                         "is_valid_scan_request() == true (scan response is transmitted); %s\n",
                c.rx[ 0 ], c.rx[ 1 ], c.rx[ 0 ] & 0xf, ( c.rx[ 0 ] >> 6 ) & 1, ( c.rx[ 0 ] >> 7 ) & 1, std::equal( &c.rx[ 8 ], &c.rx[ 14 ], &c.rsp[ 2 ] ) ? "==" : "!=",
                ( c.rsp[ 0 ] & 0x40 ) ? "random" : "public", c.resolving_invalid ? "failed" : "off/ok", c.in_filter,
                !c.for_me() ? "the PDU is not a scan request addressed to this device"
                            : filter_calls != 1 ? "the scan filter was not asked"
                            : "the scan filter was asked about the scanner address with the wrong address type (the local one instead of TxAdd)" );
            return 1;
        }
    }
    std::printf( "not reproduced\n" );
    return 0;
}
