// Native replay for C35: the three real security connection data classes; a pairing is completed through the classes' own functions with each
// pairing method, then local_device_pairing_status() is compared with the property's table.
#include <cassert>
#include <iterator>
#include <algorithm>
#include <array>
#include <bluetoe/address.hpp>
#include <bluetoe/pairing_status.hpp>
#include <bluetoe/io_capabilities.hpp>
#include <bluetoe/security_connection_data.hpp>
#include "replay_util.hpp"

struct base_t {};
namespace bd = bluetoe::details;
using bluetoe::device_pairing_status;
static const char* name( device_pairing_status s ) { return s == device_pairing_status::no_key ? "no_key" : s == device_pairing_status::unauthenticated_key ? "unauthenticated_key" : s == device_pairing_status::authenticated_key ? "authenticated_key" : "other"; }
static int fail( const char* cls, const char* method, device_pairing_status got, device_pairing_status want )
{
    std::printf( "REPRODUCED: %s, pairing completed with %s: local_device_pairing_status() == %s (the pairing performed gives %s)\n", cls, method, name( got ), name( want ) );
    return 1;
}
int main( int, char** )
{
    bd::uint128_t key; for ( std::size_t i = 0; i < 16; ++i ) key[ i ] = 0x10 + i;
    static const char* const lesc_names[] = { "just works", "OOB", "passkey entry (display)", "passkey entry (input)", "numeric comparison" };
    static const char* const leg_names[]  = { "just works", "OOB", "passkey entry (display)", "passkey entry (input)" };
    for ( int a = (int)bd::lesc_pairing_algorithm::just_works; a <= (int)bd::lesc_pairing_algorithm::numeric_comparison; ++a ) {
        const auto algo = static_cast< bd::lesc_pairing_algorithm >( a );
        const auto want = algo == bd::lesc_pairing_algorithm::numeric_comparison ? device_pairing_status::authenticated_key : device_pairing_status::unauthenticated_key;   // see F-C35b
        bd::lesc_security_connection_data< base_t > s; s.pairing_algorithm( algo );
        if ( s.local_device_pairing_status() != device_pairing_status::no_key ) return fail( "lesc_security_connection_data", "nothing (idle)", s.local_device_pairing_status(), device_pairing_status::no_key );
        s.state_ = algo == bd::lesc_pairing_algorithm::numeric_comparison ? bd::sm_pairing_state::user_response_success : bd::sm_pairing_state::lesc_pairing_random_exchanged;
        s.lesc_pairing_completed( key );
        if ( s.local_device_pairing_status() != want ) return fail( "lesc_security_connection_data (LESC only security manager)", lesc_names[ a ], s.local_device_pairing_status(), want );
        bd::security_connection_data< base_t > c; c.pairing_algorithm( algo );
        c.state_ = s.state_ = algo == bd::lesc_pairing_algorithm::numeric_comparison ? bd::sm_pairing_state::user_response_success : bd::sm_pairing_state::lesc_pairing_random_exchanged;
        c.lesc_pairing_completed( key );
        if ( c.local_device_pairing_status() != want ) return fail( "security_connection_data (LESC pairing)", lesc_names[ a ], c.local_device_pairing_status(), want );
    }
    for ( int a = (int)bd::legacy_pairing_algorithm::just_works; a <= (int)bd::legacy_pairing_algorithm::passkey_entry_input; ++a ) {
        const auto algo = static_cast< bd::legacy_pairing_algorithm >( a );
        const auto want = algo == bd::legacy_pairing_algorithm::just_works ? device_pairing_status::unauthenticated_key : device_pairing_status::authenticated_key;
        bd::legacy_security_connection_data< base_t > l; l.pairing_algorithm( algo ); l.state_ = bd::sm_pairing_state::legacy_pairing_confirmed; l.legacy_pairing_completed( key );
        if ( l.local_device_pairing_status() != want ) return fail( "legacy_security_connection_data", leg_names[ a ], l.local_device_pairing_status(), want );
        bd::security_connection_data< base_t > c; c.pairing_algorithm( algo ); c.state_ = bd::sm_pairing_state::legacy_pairing_confirmed; c.legacy_pairing_completed( key );
        if ( c.local_device_pairing_status() != want ) return fail( "security_connection_data (legacy pairing)", leg_names[ a ], c.local_device_pairing_status(), want );
    }
    std::printf( "not reproduced\n" );
    return 0;
}
