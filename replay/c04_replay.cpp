// Native replay for C04: real servers (with and without fixed handles, descriptors, CCCDs); the three mapping functions of handle_index_mapping< Server > are compared with each other:
// handles non-zero and strictly increasing, first_index_by_handle the least index with handle >= h for every 16 bit h, index_by_handle the exact inverse.
#include <cassert>
#include <iterator>
#include <algorithm>
#include <cstdio>
#include <bluetoe/server.hpp>
#include <bluetoe/service.hpp>
#include <bluetoe/characteristic.hpp>
#include "replay_util.hpp"
static std::uint8_t v;
template < std::uint16_t U, typename ... O > using chr = bluetoe::characteristic< bluetoe::characteristic_uuid16< U >, bluetoe::bind_characteristic_value< std::uint8_t, &v >, O... >;
template < class Server > static int check( const char* name )
{
    using map = bluetoe::details::handle_index_mapping< Server >;
    const std::size_t n = Server::number_of_attributes;
    for ( std::size_t i = 0; i != n; ++i ) {
        const std::uint16_t h = map::handle_by_index( i );
        if ( h == 0 || ( i + 1 < n && h >= map::handle_by_index( i + 1 ) ) ) { std::printf( "REPRODUCED: %s: handle_by_index( %zu ) == 0x%04x, handle_by_index( %zu ) == 0x%04x: not non-zero and strictly increasing\n", name, i, h, i + 1, map::handle_by_index( i + 1 ) ); return 1; }
        if ( map::index_by_handle( h ) != i ) { std::printf( "REPRODUCED: %s: index_by_handle( handle_by_index( %zu ) = 0x%04x ) == %zu\n", name, i, h, map::index_by_handle( h ) ); return 1; }
    }
    if ( map::handle_by_index( n ) != 0 ) { std::printf( "REPRODUCED: %s: handle_by_index( number_of_attributes ) != 0\n", name ); return 1; }
    for ( unsigned h = 0; h <= 0xffff; ++h ) {
        std::size_t want = bluetoe::details::invalid_attribute_index;
        for ( std::size_t i = 0; i != n; ++i ) if ( map::handle_by_index( i ) >= h ) { want = i; break; }
        const std::size_t got = map::first_index_by_handle( h );
        if ( got != want ) { std::printf( "REPRODUCED: %s: first_index_by_handle( 0x%04x ) == %zu, the least index with a handle >= 0x%04x is %zu\n", name, h, got, h, want ); return 1; }
        const std::size_t exact = map::index_by_handle( h );
        const bool exists = want != bluetoe::details::invalid_attribute_index && map::handle_by_index( want ) == h;
        if ( exists ? exact != want : exact != bluetoe::details::invalid_attribute_index ) { std::printf( "REPRODUCED: %s: index_by_handle( 0x%04x ) == %zu\n", name, h, exact ); return 1; }
    }
    return 0;
}
int main( int, char** )
{
    using G = bluetoe::no_gap_service_for_gatt_servers;
    if ( check< bluetoe::server< G, bluetoe::service< bluetoe::service_uuid16< 0x1801 >, chr< 0x1000 >, chr< 0x1001, bluetoe::notify > > > >( "one service, two characteristics (one with CCCD)" ) ) return 1;
    if ( check< bluetoe::server< G, bluetoe::service< bluetoe::attribute_handle< 0x10 >, bluetoe::service_uuid16< 0x1801 >, chr< 0x1000, bluetoe::notify > >,
                                    bluetoe::service< bluetoe::attribute_handle< 0x40 >, bluetoe::service_uuid16< 0x1803 >, chr< 0x1002, bluetoe::indicate >, chr< 0x1003 > > > >( "two services with fixed start handles" ) ) return 1;
    if ( check< bluetoe::server< G, bluetoe::service< bluetoe::service_uuid16< 0x1801 >, chr< 0x1000, bluetoe::attribute_handles< 0x20, 0x28, 0x30 >, bluetoe::notify >, chr< 0x1001, bluetoe::attribute_handle< 0x50 > >, chr< 0x1002 > > > >( "fixed declaration / value / CCCD handles" ) ) return 1;
    if ( check< bluetoe::server< G, bluetoe::service< bluetoe::service_uuid16< 0x1801 >, chr< 0x1000, bluetoe::attribute_handles< 0x20, 0x28 > >, chr< 0x1001 > >, bluetoe::service< bluetoe::service_uuid16< 0x1802 >, chr< 0x1002 > > > >( "fixed handles without CCCD, then defaults" ) ) return 1;
    std::printf( "not reproduced\n" );
    return 0;
}
