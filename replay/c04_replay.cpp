// Native replay for C04: real servers (with and without fixed handles, descriptors, CCCDs); the three mapping functions of handle_index_mapping< Server > are compared with each other:
// handles non-zero and strictly increasing, first_index_by_handle the least index with handle >= h for every 16 bit h, index_by_handle the exact inverse.
#include <cassert>
#include <iterator>
#include <algorithm>
#include <cstdio>
#include <bluetoe/server.hpp>
#include <bluetoe/service.hpp>
#include <bluetoe/characteristic.hpp>
#include <bluetoe/descriptor.hpp>
#include "replay_util.hpp"
static std::uint8_t v;
static const char name_a[] = "name"; static const std::uint8_t format[] = { 0x0E, 0xFE, 0x2F, 0x27, 0x01, 0x00, 0x00 };
template < std::uint16_t U, typename ... O > using chr = bluetoe::characteristic< bluetoe::characteristic_uuid16< U >, bluetoe::bind_characteristic_value< std::uint8_t, &v >, O... >;
template < class Server > static int check( const char* name )
{
    using map = bluetoe::details::handle_index_mapping< Server >;
    const std::size_t n = Server::number_of_attributes;
    for ( std::size_t i = 0; i != n; ++i ) {
        const std::uint16_t h = map::handle_by_index( i );
        if ( h == 0 || ( i + 1 < n && h >= map::handle_by_index( i + 1 ) ) ) { std::printf( "REPRODUCED: %s: handle_by_index( %zu ) == 0x%04x, handle_by_index( %zu ) == 0x%04x: not non-zero and strictly increasing\n", name, i, h, i + 1, map::handle_by_index( i + 1 ) ); return 1; }
        if ( map::index_by_handle( h ) != i ) { std::printf( "REPRODUCED: %s: index_by_handle( handle_by_index( %zu ) = 0x%04x ) == %zu\n", name, i, h, map::index_by_handle( h ) ); return 1; }
    }
    if ( map::handle_by_index( n ) != 0 ) { std::printf( "REPRODUCED: %s: handle_by_index( number_of_attributes ) != 0\n", name ); return 1; }
    for ( unsigned h = 0; h <= 0xffff; ++h ) {
        std::size_t want = bluetoe::details::invalid_attribute_index;
        for ( std::size_t i = 0; i != n; ++i ) if ( map::handle_by_index( i ) >= h ) { want = i; break; }
        const std::size_t got = map::first_index_by_handle( h );
        if ( got != want ) { std::printf( "REPRODUCED: %s: first_index_by_handle( 0x%04x ) == %zu, the least index with a handle >= 0x%04x is %zu\n", name, h, got, h, want ); return 1; }
        const std::size_t exact = map::index_by_handle( h );
        const bool exists = want != bluetoe::details::invalid_attribute_index && map::handle_by_index( want ) == h;
        if ( exists ? exact != want : exact != bluetoe::details::invalid_attribute_index ) { std::printf( "REPRODUCED: %s: index_by_handle( 0x%04x ) == %zu\n", name, h, exact ); return 1; }
    }
    return 0;
}
int main( int, char** )
{
    using G = bluetoe::no_gap_service_for_gatt_servers;
    if ( check< bluetoe::server< G, bluetoe::service< bluetoe::service_uuid16< 0x1801 >, chr< 0x1000 >, chr< 0x1001, bluetoe::notify > > > >( "one service, two characteristics (one with CCCD)" ) ) return 1;
    if ( check< bluetoe::server< G, bluetoe::service< bluetoe::attribute_handle< 0x10 >, bluetoe::service_uuid16< 0x1801 >, chr< 0x1000, bluetoe::notify > >,
                                    bluetoe::service< bluetoe::attribute_handle< 0x40 >, bluetoe::service_uuid16< 0x1803 >, chr< 0x1002, bluetoe::indicate >, chr< 0x1003 > > > >( "two services with fixed start handles" ) ) return 1;
    if ( check< bluetoe::server< G, bluetoe::service< bluetoe::service_uuid16< 0x1801 >, chr< 0x1000, bluetoe::attribute_handles< 0x20, 0x28, 0x30 >, bluetoe::notify >, chr< 0x1001, bluetoe::attribute_handle< 0x50 > >, chr< 0x1002 > > > >( "fixed declaration / value / CCCD handles" ) ) return 1;
    if ( check< bluetoe::server< G, bluetoe::service< bluetoe::service_uuid16< 0x1801 >, chr< 0x1000, bluetoe::attribute_handles< 0x20, 0x28 > >, chr< 0x1001 > >, bluetoe::service< bluetoe::service_uuid16< 0x1802 >, chr< 0x1002 > > > >( "fixed handles without CCCD, then defaults" ) ) return 1;
    if ( check< bluetoe::server< G, bluetoe::service< bluetoe::service_uuid16< 0x1801 >, chr< 0x1000, bluetoe::attribute_handles< 0x100, 0x101, 0x110 >, bluetoe::characteristic_name< name_a >, bluetoe::descriptor< 0x2904, format, sizeof( format ) >, bluetoe::notify >,
                                    chr< 0x1001 > > > >( "descriptors behind a CCCD with a fixed handle that does not follow the value" ) ) return 1;
    {   // a service with an include declaration: consistent handles, and the include declaration names the real range of the included service
        using inc_t = bluetoe::server< G, bluetoe::service< bluetoe::service_uuid16< 0x1111 >, bluetoe::include_service< bluetoe::service_uuid16< 0x2222 > >, chr< 0x1000 > >,
                                          bluetoe::service< bluetoe::service_uuid16< 0x2222 >, bluetoe::is_secondary_service, chr< 0x1001 >, chr< 0x1002 > > >;
        if ( check< inc_t >( "service with include_service<>, included secondary service" ) ) return 1;
        struct conn_t : inc_t::connection_data { bluetoe::connection_security_attributes security_attributes() const { return bluetoe::connection_security_attributes(); } } cd;
        inc_t srv; const std::uint8_t req[] = { 0x08, 0x01, 0x00, 0xff, 0xff, 0x02, 0x28 }; std::uint8_t out[ 23 ]; std::size_t n = sizeof( out );
        srv.l2cap_input( req, sizeof( req ), out, n, cd );
        using map = bluetoe::details::handle_index_mapping< inc_t >;
        const std::size_t first = 4, last = inc_t::number_of_attributes - 1;   // the included service: attributes 4 .. 8
        if ( !( n == 10 && out[ 0 ] == 0x09 && ( out[ 4 ] | out[ 5 ] << 8 ) == map::handle_by_index( first ) && ( out[ 6 ] | out[ 7 ] << 8 ) == map::handle_by_index( last ) ) ) {
            std::printf( "REPRODUCED: include declaration names 0x%04x..0x%04x, the included service's attributes have the handles 0x%04x..0x%04x\n", out[ 4 ] | out[ 5 ] << 8, out[ 6 ] | out[ 7 ] << 8, map::handle_by_index( first ), map::handle_by_index( last ) ); return 1; }
    }
    {   // the included service behind a gap: attribute_handle< 0x20 >
        using inc_t = bluetoe::server< G, bluetoe::service< bluetoe::service_uuid16< 0x1111 >, bluetoe::include_service< bluetoe::service_uuid16< 0x2222 > >, chr< 0x1000 > >,
                                          bluetoe::service< bluetoe::attribute_handle< 0x20 >, bluetoe::service_uuid16< 0x2222 >, bluetoe::is_secondary_service, chr< 0x1001 > > >;
        if ( check< inc_t >( "service with include_service<>, included service with a fixed handle" ) ) return 1;
        struct conn_t : inc_t::connection_data { bluetoe::connection_security_attributes security_attributes() const { return bluetoe::connection_security_attributes(); } } cd;
        inc_t srv; const std::uint8_t req[] = { 0x08, 0x01, 0x00, 0xff, 0xff, 0x02, 0x28 }; std::uint8_t out[ 23 ]; std::size_t n = sizeof( out );
        srv.l2cap_input( req, sizeof( req ), out, n, cd );
        using map = bluetoe::details::handle_index_mapping< inc_t >;
        const std::size_t first = 4, last = inc_t::number_of_attributes - 1;
        if ( !( n == 10 && out[ 0 ] == 0x09 && ( out[ 4 ] | out[ 5 ] << 8 ) == map::handle_by_index( first ) && ( out[ 6 ] | out[ 7 ] << 8 ) == map::handle_by_index( last ) && out[ 8 ] == 0x22 && out[ 9 ] == 0x22 ) ) {
            std::printf( "REPRODUCED: included service at attribute_handle< 0x20 >: include declaration names 0x%04x..0x%04x, the included service's attributes have the handles 0x%04x..0x%04x\n", out[ 4 ] | out[ 5 ] << 8, out[ 6 ] | out[ 7 ] << 8, map::handle_by_index( first ), map::handle_by_index( last ) ); return 1; }
    }
    std::printf( "not reproduced\n" );
    return 0;
}
