// Native replay for C11: the real link layer and server with two indicating characteristics. The client subscribes to b only; the application indicates a, then b.
// Reference: an indication that cannot be sent must not leave the connection waiting for a confirmation that will never come - b is indicated.
#define BOOST_TEST_NO_MAIN
#define BOOST_TEST_ALTERNATIVE_INIT_API
#include <boost/test/included/unit_test.hpp>
#include "connected.hpp"
#include "replay_util.hpp"
extern "C" void bluetoe_verif_yield() {}   // the interleaving hook of the notification queue (BLUETOE_VERIF builds): nothing interferes here
static std::uint8_t va = 0xa1, vb = 0xb2;
using srv_t = bluetoe::server< bluetoe::no_gap_service_for_gatt_servers, bluetoe::service< bluetoe::service_uuid16< 0x1111 >,
    bluetoe::characteristic< bluetoe::characteristic_uuid16< 0xaaa1 >, bluetoe::bind_characteristic_value< std::uint8_t, &va >, bluetoe::indicate >,
    bluetoe::characteristic< bluetoe::characteristic_uuid16< 0xaaa2 >, bluetoe::bind_characteristic_value< std::uint8_t, &vb >, bluetoe::indicate > > >;
using ll_t = unconnected_base_t< srv_t, test::radio, bluetoe::link_layer::buffer_sizes< 200u, 200u > >;
static std::uint8_t read_a_fails( std::size_t, std::uint8_t*, std::size_t& ) { return bluetoe::error_codes::unlikely_error; }
using srv2_t = bluetoe::server< bluetoe::no_gap_service_for_gatt_servers, bluetoe::service< bluetoe::service_uuid16< 0x1111 >,
    bluetoe::characteristic< bluetoe::characteristic_uuid16< 0xaaa1 >, bluetoe::free_read_handler< &read_a_fails >, bluetoe::indicate >,
    bluetoe::characteristic< bluetoe::characteristic_uuid16< 0xaaa2 >, bluetoe::bind_characteristic_value< std::uint8_t, &vb >, bluetoe::indicate > > >;
using ll2_t = unconnected_base_t< srv2_t, test::radio, bluetoe::link_layer::buffer_sizes< 200u, 200u > >;
template < class LL, class A >
static int play( bool subscribe_a, A indicate_a, const char* what )
{
    LL ll;
    ll.respond_to( 37, valid_connection_request_pdu );
    ll.ll_empty_pdus( 2 );
    if ( subscribe_a ) { ll.ll_data_pdu( { 0x05, 0x00, 0x04, 0x00, 0x12, 0x04, 0x00, 0x02, 0x00 } ); ll.ll_empty_pdus( 2 ); }   // Write Request: CCCD of a := indications
    ll.ll_data_pdu( { 0x05, 0x00, 0x04, 0x00, 0x12, 0x07, 0x00, 0x02, 0x00 } );                                                   // Write Request: CCCD of b := indications
    ll.ll_empty_pdus( 2 );
    ll.ll_function_call( [&]{ indicate_a( ll ); } );
    ll.ll_empty_pdus( 3 );
    ll.ll_function_call( [&]{ ll.indicate( vb ); } );
    ll.ll_empty_pdus( 6 );
    ll.run( 4 );
    bool b_indicated = false;
    for ( const auto& ev : ll.connection_events() ) for ( const auto& pdu : ev.transmitted_data )
        if ( pdu.size() >= 9 && ( pdu[ 0 ] & 3 ) == 2 && pdu[ 6 ] == 0x1d && pdu[ 7 ] == 0x06 ) b_indicated = true;
    if ( !b_indicated ) { std::printf( "REPRODUCED: %s; indicate( a ), then indicate( b ): b's indication is never sent (the unsent indication of a is waited for for ever)\n", what ); return 1; }
    return 0;
}
int main()
{
    int rc = play< ll_t >( false, []( ll_t& ll ){ ll.indicate( va ); }, "client subscribed to b only" );
    rc |= play< ll2_t >( true, []( ll2_t& ll ){ ll.template indicate< bluetoe::characteristic_uuid16< 0xaaa1 > >(); }, "client subscribed to a and b, a's read handler fails" );
    if ( !rc ) std::printf( "not reproduced\n" );
    return rc;
}
bool init_unit_test() { return true; }
