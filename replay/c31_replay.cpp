// Native replay for C31: the real l2cap::signaling_channel<> with the verifier's witness.
#include <cassert>
#include <bluetoe/l2cap_signaling_channel.hpp>
#include <bluetoe/bits.hpp>
#include "replay_util.hpp"

using channel_t = bluetoe::l2cap::signaling_channel<>;
struct connection_data {};

int main( int argc, char** argv )
{
    replay_args a( argc, argv );
    channel_t c;
    connection_data con;
    const unsigned status = a.unum( "W_status" ), ident = a.unum( "W_ident" );
    c.pending_status_ = static_cast< decltype( c.pending_status_ ) >( status );
    c.identifier_     = ident;
    c.interval_min_   = a.unum( "W_imin" ); c.interval_max_ = a.unum( "W_imax" ); c.latency_ = a.unum( "W_lat" ); c.timeout_ = a.unum( "W_to" );
    std::vector< std::uint8_t > in = a.bytes( "W_in" );
    const std::size_t in_size = a.unum( "W_in_size" );
    in.resize( std::max< std::size_t >( in_size, 2 ), 0 );
    std::uint8_t out[ 32 ] = { 0 };
    std::size_t out_size = a.unum( "W_out_size", 27 );
    const auto unchanged = [&]{ return c.pending_status_ == status && c.identifier_ == ident && c.interval_min_ == a.unum( "W_imin" )
        && c.interval_max_ == a.unum( "W_imax" ) && c.latency_ == a.unum( "W_lat" ) && c.timeout_ == a.unum( "W_to" ); };
    const bool rejectable = in_size >= 2 && in[ 1 ] != 0;
    const auto is_reject  = [&]{ return out_size == 6 && out[ 0 ] == 1 && out[ 1 ] == in[ 1 ] && out[ 2 ] == 2 && out[ 3 ] == 0 && out[ 4 ] == 0 && out[ 5 ] == 0; };

    if ( a.is( "signaling_channel.l2cap_input" ) ) {
        c.l2cap_input( in.data(), in_size, out, out_size, con );
        std::printf( "state %u identifier %u, input (%zu bytes) %02x %02x -> state %u identifier %u, %zu bytes output\n",
            status, ident, in_size, in[ 0 ], in[ 1 ], (unsigned)c.pending_status_, (unsigned)c.identifier_, out_size );
        const bool matching = status == 2 && in_size >= 2 && in[ 0 ] == 0x13 && in[ 1 ] == ident;
        if ( matching ) {
            REPLAY_CHECK( out_size == 0 && c.pending_status_ == 0 && c.identifier_ == ( ident == 0xff ? 1 : ident + 1 ) );
        } else {
            REPLAY_CHECK( unchanged() );
            REPLAY_CHECK( rejectable ? is_reject() : out_size == 0 );
        }
    } else if ( a.is( "signaling_channel.reject_command" ) ) {
        c.reject_command( in.data(), in_size, out, out_size );
        REPLAY_CHECK( unchanged() );
        REPLAY_CHECK( rejectable ? is_reject() : out_size == 0 );
    } else if ( a.is( "signaling_channel.l2cap_output" ) ) {
        c.l2cap_output( out, out_size, con );
        std::printf( "state %u -> state %u, %zu bytes output, identifier in PDU %u\n", status, (unsigned)c.pending_status_, out_size, out[ 1 ] );
        if ( status == 1 ) {
            REPLAY_CHECK( out_size == 12 && c.pending_status_ == 2 && out[ 0 ] == 0x12 && out[ 1 ] == ident && out[ 2 ] == 8 && out[ 3 ] == 0 );
            REPLAY_CHECK( bluetoe::details::read_16bit( out + 4 ) == a.unum( "W_imin" ) && bluetoe::details::read_16bit( out + 6 ) == a.unum( "W_imax" )
                && bluetoe::details::read_16bit( out + 8 ) == a.unum( "W_lat" ) && bluetoe::details::read_16bit( out + 10 ) == a.unum( "W_to" ) );
        } else {
            REPLAY_CHECK( out_size == 0 && c.pending_status_ == status );
        }
        REPLAY_CHECK( c.identifier_ == ident );
    } else if ( a.is( "signaling_channel.connection_parameter_update_request" ) ) {
        const bool r = c.connection_parameter_update_request( 6, 7, 8, 9 );
        REPLAY_CHECK( r == ( status == 0 ) );
        if ( status == 0 ) REPLAY_CHECK( c.pending_status_ == 1 && c.interval_min_ == 6 && c.interval_max_ == 7 && c.latency_ == 8 && c.timeout_ == 9 && c.identifier_ == ident );
        else REPLAY_CHECK( unchanged() );
    } else if ( a.is( "signaling_channel.sc_ctor" ) ) {
        channel_t fresh;
        REPLAY_CHECK( fresh.pending_status_ == 0 && fresh.identifier_ != 0 );
    } else { std::printf( "no replay for unit %s\n", a.str( "unit" ).c_str() ); return 2; }
    std::printf( "not reproduced\n" );
    return 0;
}
