// Native replay for C40: the real csc control_point_handler with the verifier's witness.
#include <cassert>
#include <bluetoe/services/csc.hpp>
#include "replay_util.hpp"

struct app_handler { int calls = 0; std::uint32_t arg = 0; void set_cumulative_wheel_revolutions( std::uint32_t v ) { ++calls; arg = v; } };
using cph_t = bluetoe::csc::details::control_point_handler< bluetoe::csc::details::no_sensor_position_handler >;

int main( int argc, char** argv )
{
    replay_args a( argc, argv );
    cph_t h;
    app_handler app;
    h.procedure_in_progress_ = a.num( "W_in_progress" );
    h.current_opcode_        = a.num( "W_opcode" );
    const auto value = a.bytes( "W_value" );
    const std::size_t n = a.unum( "W_write_size" );
    if ( a.is( "control_point.csc_write_control_point" ) ) {
        const bool was = h.procedure_in_progress_;
        const auto r = h.csc_write_control_point( n, value.data(), app );
        std::printf( "write size=%zu opcode=%u in_progress %d -> result (0x%02x,%d) in_progress %d\n", n, value.empty() ? 0u : value[0], was, r.first, r.second, (int)h.procedure_in_progress_ );
        const unsigned op = value.empty() ? 0 : value[ 0 ];
        const bool malformed = ( op == 1 && n != 5 ) || ( op == 4 && n != 1 ) || ( op == 3 && n != 2 );
        if ( n >= 1 && !was && malformed ) {
            REPLAY_CHECK( r.first == bluetoe::error_codes::invalid_pdu && !r.second && !h.procedure_in_progress_ );
            // and what the property is about: the next well-formed procedure is not refused
            const std::uint8_t req[] = { 4 };
            const auto r2 = h.csc_write_control_point( 1, req, app );
            std::printf( "next procedure: result 0x%02x\n", r2.first );
            REPLAY_CHECK( r2.first != bluetoe::error_codes::procedure_already_in_progress );
        }
        if ( n >= 1 && !was && !malformed ) REPLAY_CHECK( r.first == bluetoe::error_codes::success && h.procedure_in_progress_ && h.current_opcode_ == op );
        if ( n >= 1 && was ) REPLAY_CHECK( r.first == bluetoe::error_codes::procedure_already_in_progress );
    } else if ( a.is( "control_point.csc_read_control_point" ) ) {
        std::uint8_t out[ 23 ]; std::size_t os = 0;
        const auto op = h.current_opcode_;
        h.csc_read_control_point( a.unum( "W_read_size" ), out, os );
        REPLAY_CHECK( os == 3 && out[ 0 ] == 16 && out[ 1 ] == op && !h.procedure_in_progress_ );
    } else { std::printf( "no replay for unit %s\n", a.str( "unit" ).c_str() ); return 2; }
    std::printf( "not reproduced\n" );
    return 0;
}
