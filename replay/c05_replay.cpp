// Native replay for C05 (type-level part): characteristic_requires_encryption<> and encryption_default<> of the real encryption.hpp for all
// 2^6 placements of requires_encryption / no_encryption_required on server, service and characteristic, and the real encryption gate.
#include <cassert>
#include <iterator>
#include <algorithm>
#include <utility>
#include <bluetoe/server.hpp>
#include <bluetoe/service.hpp>
#include <bluetoe/characteristic.hpp>
#include "replay_util.hpp"

template < template < class... > class X, bool R, bool N, class ... Fixed >
struct with_opts {
    using type = typename std::conditional< R,
        typename std::conditional< N, X< Fixed..., bluetoe::requires_encryption, bluetoe::no_encryption_required >, X< Fixed..., bluetoe::requires_encryption > >::type,
        typename std::conditional< N, X< Fixed..., bluetoe::no_encryption_required >, X< Fixed... > >::type >::type;
};
static bool spec( bool dflt, bool r, bool n ) { return n ? false : r ? true : dflt; }
static int failures = 0;
template < unsigned Bits >
static void one() {
    constexpr bool sr = Bits & 1, sn = Bits & 2, vr = Bits & 4, vn = Bits & 8, cr = Bits & 16, cn = Bits & 32;
    using server_t  = typename with_opts< bluetoe::server, sr, sn >::type;
    using service_t = typename with_opts< bluetoe::service, vr, vn, bluetoe::service_uuid16< 0x1234 > >::type;
    using char_t    = typename with_opts< bluetoe::characteristic, cr, cn, bluetoe::characteristic_uuid16< 0x1000 > >::type;
    const bool got  = bluetoe::details::characteristic_requires_encryption< char_t, service_t, server_t >::value;
    const bool want = spec( spec( spec( false, sr, sn ), vr, vn ), cr, cn );
    if ( got != want ) { ++failures; std::printf( "REPRODUCED: server(req=%d,noreq=%d) service(req=%d,noreq=%d) characteristic(req=%d,noreq=%d): requires encryption = %d, inheritance rule says %d\n", sr, sn, vr, vn, cr, cn, got, want ); }
}
template < unsigned ... I > static void all( std::integer_sequence< unsigned, I... > ) { int d[] = { ( one< I >(), 0 )... }; (void)d; }

int main( int argc, char** argv )
{
    replay_args a( argc, argv );
    all( std::make_integer_sequence< unsigned, 64 >() );
    using R = bluetoe::details::attribute_access_result;
    for ( int enc = 0; enc < 2; ++enc ) for ( int ps = 0; ps < 4; ++ps ) {
        bluetoe::connection_security_attributes s( enc, static_cast< bluetoe::device_pairing_status >( ps ) );
        const R t = bluetoe::details::encryption_requirements< true >::check( s ), f = bluetoe::details::encryption_requirements< false >::check( s );
        const R want = enc ? R::success : ps == 0 ? R::insufficient_authentication : R::insufficient_encryption;
        if ( t != want || f != R::success ) { ++failures; std::printf( "REPRODUCED: encryption gate encrypted=%d pairing_status=%d: required -> 0x%x (expected 0x%x), not required -> 0x%x\n", enc, ps, (unsigned)t, (unsigned)want, (unsigned)f ); }
    }
    if ( failures ) return 1;
    std::printf( "not reproduced\n" );
    return 0;
}
