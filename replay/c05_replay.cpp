// Native replay for C05 (type-level part): characteristic_requires_encryption<> and encryption_default<> of the real encryption.hpp for all
// 2^6 placements of requires_encryption / no_encryption_required on server, service and characteristic, and the real encryption gate.
#include <cassert>
#include <iterator>
#include <algorithm>
#include <utility>
#include <tuple>
#include <bluetoe/server.hpp>
#include <bluetoe/service.hpp>
#include <bluetoe/characteristic.hpp>
#include "replay_util.hpp"

template < template < class... > class X, bool R, bool N, bool M, class ... Fixed >
struct with_opts {
    template < class ... O > using X_ = X< Fixed..., O... >;
    using rn = typename std::conditional< R,
        typename std::conditional< N, std::tuple< bluetoe::requires_encryption, bluetoe::no_encryption_required >, std::tuple< bluetoe::requires_encryption > >::type,
        typename std::conditional< N, std::tuple< bluetoe::no_encryption_required >, std::tuple<> >::type >::type;
    template < class T, bool > struct add_may;
    template < class ... O > struct add_may< std::tuple< O... >, true >  { using type = X< Fixed..., O..., bluetoe::may_require_encryption >; };
    template < class ... O > struct add_may< std::tuple< O... >, false > { using type = X< Fixed..., O... >; };
    using type = typename add_may< rn, M >::type;
};
static bool spec( bool dflt, bool r, bool n ) { return n ? false : r ? true : dflt; }
static int failures = 0;
template < unsigned Bits >
static void one() {
    constexpr bool sr = Bits & 1, sn = Bits & 2, vr = Bits & 4, vn = Bits & 8, cr = Bits & 16, cn = Bits & 32, sm = Bits & 64, vm = Bits & 128, cm = Bits & 256;
    using server_t  = typename with_opts< bluetoe::server, sr, sn, sm >::type;
    using service_t = typename with_opts< bluetoe::service, vr, vn, vm, bluetoe::service_uuid16< 0x1234 > >::type;
    using char_t    = typename with_opts< bluetoe::characteristic, cr, cn, cm, bluetoe::characteristic_uuid16< 0x1000 > >::type;
    const bool got  = bluetoe::details::characteristic_requires_encryption< char_t, service_t, server_t >::value;
    const bool want = spec( spec( spec( false, sr, sn ), vr, vn ), cr, cn );
    if ( got != want ) { ++failures; if ( failures <= 8 ) std::printf( "REPRODUCED: server(req=%d,noreq=%d,may=%d) service(req=%d,noreq=%d,may=%d) characteristic(req=%d,noreq=%d,may=%d): requires encryption = %d, inheritance rule says %d\n", sr, sn, sm, vr, vn, vm, cr, cn, cm, got, want ); }
}
template < unsigned ... I > static void all( std::integer_sequence< unsigned, I... > ) { int d[] = { ( one< I >(), 0 )... }; (void)d; }

int main( int argc, char** argv )
{
    replay_args a( argc, argv );
    all( std::make_integer_sequence< unsigned, 512 >() );
    using R = bluetoe::details::attribute_access_result;
    for ( int enc = 0; enc < 2; ++enc ) for ( int ps = 0; ps < 4; ++ps ) {
        bluetoe::connection_security_attributes s( enc, static_cast< bluetoe::device_pairing_status >( ps ) );
        const R t = bluetoe::details::encryption_requirements< true >::check( s ), f = bluetoe::details::encryption_requirements< false >::check( s );
        const R want = enc ? R::success : ps == 0 ? R::insufficient_authentication : R::insufficient_encryption;
        if ( t != want || f != R::success ) { ++failures; std::printf( "REPRODUCED: encryption gate encrypted=%d pairing_status=%d: required -> 0x%x (expected 0x%x), not required -> 0x%x\n", enc, ps, (unsigned)t, (unsigned)want, (unsigned)f ); }
    }
    if ( failures ) return 1;
    std::printf( "not reproduced\n" );
    return 0;
}
