"""C06 Reads and writes follow the attribute value semantics."""
import os, sys
sys.path.insert(0, os.path.dirname(__file__))
from common import COPY_RULE
from acc import *
CODES = 'bluetoe/utility/include/bluetoe/codes.hpp'
SCA = 'bluetoe/scattered_access.hpp'
BIND = [r'class bind_characteristic_value\s*(?=\{)', r'class value_impl : public details::value_impl_base< Options\.\.\. >']
FIXED = [r'struct fixed_value\s*(?=\{)', r'class value_impl : public details::value_impl_base< Options\.\.\. >']
CSTR = [r'struct cstring_wrapper\s*(?=\{)', r'class value_impl : public details::value_impl_base< Options\.\.\. >']
VHB = [r'struct value_handler_base\s*(?=\{)', r'class value_impl : public details::value_impl_base< Options\.\.\. >']
DECL = r'struct generate_attribute< std::tuple< characteristic_declaration_parameter, AttrOptions\.\.\. >, CCCDIndices, ClientCharacteristicIndex, service< ServiceOptions\.\.\.>, Server, Options\.\.\. >\s*(?=\{)'

VRULES = ACC_RULES + [
    (r'sizeof\( T \)', 'sizeof_T', '*'),
]
EX_COMMON = dict(ACC_EX)
for k in ('ccc_shift', 'ccc_mask', 'ccc_get', 'ccc_set'):
    pass

# ------------------------------------------------------------------ attribute_value_read_access / read_only_access
RA_EX = dict(ACC_EX,
    read_access=dict(file=ATTR, locate=r'inline attribute_access_result attribute_value_read_access\( attribute_access_arguments& args, const std::uint8_t\* memory, std::size_t size \)',
                     rules=ACC_RULES + [(r'std::equal\( memory, memory \+ size, args->buffer \)', 'bt_equal_u8( memory, size, args->buffer )', 1), COPY_RULE(1)]),
    read_only=dict(file=ATTR, locate=r'inline attribute_access_result attribute_value_read_only_access\( attribute_access_arguments& args, const std::uint8_t\* memory, std::size_t size \)',
                   rules=ACC_RULES),
)
GHOSTS = r'''
#include <stdlib.h>
#ifndef VAL_MAX
#define VAL_MAX 40
#endif
size_t G_j, G_k;   /* ghost indices: one transferred byte, one byte of the value */
size_t W_size, W_off, W_vsize, W_j, W_k; int W_type; bool W_req, W_enc, W_rd, W_wr; int W_ps;
/* std::equal on bytes: prelude function with a body of its own (enforced below) */
size_t G_eq_diff;
bool bt_equal_u8(const uint8_t* a, size_t n, const uint8_t* b)
__CPROVER_requires(n <= VAL_MAX && __CPROVER_r_ok(a, n) && __CPROVER_r_ok(b, n))
__CPROVER_ensures(__CPROVER_return_value ==> (G_pre_j < n ==> a[G_pre_j] == b[G_pre_j]))
__CPROVER_ensures(!__CPROVER_return_value ==> (G_eq_diff < n && a[G_eq_diff] != b[G_eq_diff]))
__CPROVER_assigns(G_eq_diff)
{
    for (size_t i = 0; i != n; ++i)
    __CPROVER_assigns(i, G_eq_diff)
    __CPROVER_loop_invariant(i <= n && (G_pre_j < i ==> a[G_pre_j] == b[G_pre_j]))
    __CPROVER_decreases(n - i)
        if (a[i] != b[i]) { G_eq_diff = i; return false; }
    return true;
}
#ifndef BUF_MAX
#define BUF_MAX 600
#endif
#define ARGS_OK(args) (__CPROVER_is_fresh(args, sizeof(*(args))) && (args)->buffer_size <= BUF_MAX && (args)->buffer_size == W_size && (args)->buffer_offset == W_off \
    && (int)(args)->type == W_type && W_type >= 0 && W_type <= 3 && __CPROVER_is_fresh((args)->buffer, (args)->buffer_size) \
    && (args)->connection_security.is_encrypted == W_enc && (int)(args)->connection_security.pairing_status == W_ps && W_ps >= 0 && W_ps <= 3)
#define GHOST_OK (G_j == W_j && G_k == W_k && G_pre_j == G_j)
/* read semantics of the statement: bytes from the requested offset, truncated to the room in the buffer, Invalid Offset past the end */
#define READ_POST(args, mem, vsize) ( \
      W_off > (vsize) ? (__CPROVER_return_value == attribute_access_result_invalid_offset) \
    : (__CPROVER_return_value == attribute_access_result_success && (args)->buffer_size == BT_MIN(W_size, (vsize) - W_off) \
       && (G_j < (args)->buffer_size ==> (args)->buffer[G_j] == (mem)[W_off + G_j])))
'''
READ_CONTRACT = r"""
enum attribute_access_result attribute_value_read_access(struct attribute_access_arguments* args, const uint8_t* memory, size_t size)
__CPROVER_requires(__CPROVER_rw_ok(args, sizeof(*args)) && args->buffer_size <= 600 && size <= VAL_MAX && __CPROVER_r_ok(memory, size) && __CPROVER_rw_ok(args->buffer, args->buffer_size))
__CPROVER_requires(args->type == attribute_access_type_read || args->type == attribute_access_type_compare_value)
__CPROVER_requires(G_pre_j == G_j)
__CPROVER_ensures(args->type == attribute_access_type_read ==> (
      __CPROVER_old(args->buffer_offset) > size ? (__CPROVER_return_value == attribute_access_result_invalid_offset && args->buffer_size == __CPROVER_old(args->buffer_size))
    : (__CPROVER_return_value == attribute_access_result_success && args->buffer_size == BT_MIN(__CPROVER_old(args->buffer_size), size - args->buffer_offset)
       && (G_j < args->buffer_size ==> args->buffer[G_j] == memory[args->buffer_offset + G_j]))))
__CPROVER_ensures(args->type == attribute_access_type_compare_value ==> (args->buffer_size == __CPROVER_old(args->buffer_size) && (
      (__CPROVER_return_value == attribute_access_result_value_equal && size == args->buffer_size && (G_j < size ==> args->buffer[G_j] == memory[G_j]))
   || (__CPROVER_return_value == attribute_access_result_read_not_permitted && (size != args->buffer_size || (G_eq_diff < size && args->buffer[G_eq_diff] != memory[G_eq_diff]))))))
__CPROVER_assigns(args->buffer_size, G_eq_diff) __CPROVER_assigns(args->type == attribute_access_type_read: __CPROVER_object_upto(args->buffer, args->buffer_size))
"""
RA_CODE = ACC_CODE + GHOSTS + r"""
""" + READ_CONTRACT + r"""{{read_access}}
enum attribute_access_result attribute_value_read_only_access(struct attribute_access_arguments* args, const uint8_t* memory, size_t size)
__CPROVER_requires(__CPROVER_rw_ok(args, sizeof(*args)) && args->buffer_size <= 600 && size <= VAL_MAX && __CPROVER_r_ok(memory, size) && __CPROVER_rw_ok(args->buffer, args->buffer_size) && G_pre_j == G_j)
__CPROVER_requires(WIT(attribute_value_read_only_access, args->buffer_size == W_size && args->buffer_offset == W_off && (int)args->type == W_type))
__CPROVER_ensures(W_type == attribute_access_type_read ==> READ_POST(args, memory, size))
/* a read-only value refuses every write and leaves the request untouched */
__CPROVER_ensures((W_type == attribute_access_type_write || W_type == attribute_access_type_compare_128bit_uuid) ==> (__CPROVER_return_value == attribute_access_result_write_not_permitted && args->buffer_size == W_size))
__CPROVER_assigns(args->buffer_size, G_eq_diff) __CPROVER_assigns(W_type == attribute_access_type_read: __CPROVER_object_upto(args->buffer, args->buffer_size))
{{read_only}}
#define SETUP W_size = nondet_size(); W_off = nondet_size(); W_vsize = nondet_size(); W_j = nondet_size(); W_k = nondet_size(); G_j = W_j; G_k = W_k; W_type = nondet_int(); \
  W_req = nondet_bool(); G_requires_encryption = W_req; W_enc = nondet_bool(); W_ps = nondet_int(); W_rd = nondet_bool(); W_wr = nondet_bool(); \
  G_pre_j = nondet_size(); G_pre_j2 = nondet_size(); G_pre_j3 = nondet_size(); G_eq_diff = nondet_size(); BT_KNOWN_EXCLUDE()
#define MKARGS struct attribute_access_arguments a; __CPROVER_assume(W_size <= 600 && W_vsize <= VAL_MAX && W_type >= 0 && W_type <= 3 && G_pre_j == G_j); a.buffer = malloc(W_size); a.buffer_size = W_size; \
   a.buffer_offset = W_off; a.type = W_type; uint8_t* m = malloc(W_vsize)
void h_attribute_value_read_access(void) { SETUP; MKARGS; __CPROVER_assume(W_type == attribute_access_type_read || W_type == attribute_access_type_compare_value); attribute_value_read_access(&a, m, W_vsize); BT_CANARY(); }
void h_attribute_value_read_only_access(void) { SETUP; MKARGS; attribute_value_read_only_access(&a, m, W_vsize); BT_CANARY(); }
void h_bt_copy_u8(void) { SETUP; size_t n = nondet_size(); __CPROVER_assume(n <= VAL_MAX); uint8_t a[VAL_MAX], b[VAL_MAX]; bt_copy_u8(a, n, b); BT_CANARY(); }
void h_bt_equal_u8(void) { SETUP; size_t n = nondet_size(); __CPROVER_assume(n <= VAL_MAX); uint8_t a[VAL_MAX], b[VAL_MAX]; bt_equal_u8(a, n, b); BT_CANARY(); }
"""

UNITS = [
    dict(name='read_access', extracts=RA_EX, code=RA_CODE, defines=['BT_NEED_COPY', 'BT_COPY_BODY', 'BT_BYTES_MAX=600', 'VAL_MAX=300'], thorough_defines=['VAL_MAX=600'], object_bits=10, replay=dict(src='replay/c06_replay.cpp'),
         extra_loops=2,
         enforce=['attribute_value_read_access', 'attribute_value_read_only_access', 'bt_copy_u8', 'bt_equal_u8'],
         replace=['attribute_value_read_access', 'bt_copy_u8', 'bt_equal_u8']),
]

# ------------------------------------------------------------------ bind_characteristic_value< T, Ptr >::value_impl
SIG = r'static (?:constexpr )?details::attribute_access_result '
BIND_EX = dict(ACC_EX,
    bind_access=dict(file=CV, scope=BIND, locate=SIG + r'characteristic_value_access\( details::attribute_access_arguments& args, std::size_t \)',
                     rules=VRULES + [(r'characteristic_value_read_access\( args, std::integral_constant< bool, has_read_access >\(\) \)', '( G_has_read_access ? bind_read_true( args ) : bind_read_false( args ) )', 1),
                                     (r'characteristic_value_write_access\( args, std::integral_constant< bool, has_write_access >\(\) \)', '( G_has_write_access ? bind_write_true( args ) : bind_write_false( args ) )', 1)]),
    bind_read_true=dict(file=CV, scope=BIND, locate=SIG + r'characteristic_value_read_access\( details::attribute_access_arguments& args, const std::true_type& \)',
                        rules=VRULES + [(r'details::attribute_value_read_access\(', 'attribute_value_read_access(', 1)]),
    bind_read_false=dict(file=CV, scope=BIND, locate=SIG + r'characteristic_value_read_access\( details::attribute_access_arguments&, const std::false_type& \)', rules=VRULES),
    bind_write_true=dict(file=CV, scope=BIND, locate=SIG + r'characteristic_value_write_access\( details::attribute_access_arguments& args, const std::true_type& \)', rules=VRULES + [COPY_RULE(1)]),
    bind_write_false=dict(file=CV, scope=BIND, locate=SIG + r'characteristic_value_write_access\( details::attribute_access_arguments&, const std::false_type& \)', rules=VRULES),
)

BIND_CODE = ACC_CODE + GHOSTS + READ_CONTRACT + ";" + r"""
size_t G_sizeof_T; bool G_has_read_access, G_has_write_access;    /* template parameters: sizeof( T ), option flags */
uint8_t G_value[VAL_MAX];                                        /* the bound variable *Ptr */
uint8_t W_val_k, W_in_j;
#define sizeof_T G_sizeof_T
#define Ptr (&G_value[0])
#define BIND_PRE(args) (ARGS_OK(args) && GHOST_OK && G_sizeof_T >= 1 && G_sizeof_T <= VAL_MAX && G_sizeof_T == W_vsize && G_k < VAL_MAX && G_value[G_k] == W_val_k \
    && G_has_read_access == W_rd && G_has_write_access == W_wr && G_requires_encryption == W_req && (G_j >= (args)->buffer_size || (args)->buffer[G_j] == W_in_j))
enum attribute_access_result bind_read_true(struct attribute_access_arguments* args)
__CPROVER_requires(BIND_PRE(args) && W_type == attribute_access_type_read)
__CPROVER_ensures(READ_POST(args, G_value, G_sizeof_T))
__CPROVER_assigns(args->buffer_size, __CPROVER_object_upto(args->buffer, args->buffer_size), G_eq_diff)
{{bind_read_true}}
enum attribute_access_result bind_read_false(struct attribute_access_arguments* args)
__CPROVER_ensures(__CPROVER_return_value == attribute_access_result_read_not_permitted)
__CPROVER_assigns()
{{bind_read_false}}
/* write semantics of the statement: exactly the written bytes at the given position and nothing else; a rejected write changes nothing */
#define WRITE_OK (W_off <= G_sizeof_T && W_size <= G_sizeof_T - W_off)
#define WRITE_POST(args) ( \
     (WRITE_OK ? __CPROVER_return_value == attribute_access_result_success \
               : __CPROVER_return_value == (W_off > G_sizeof_T ? attribute_access_result_invalid_offset : attribute_access_result_invalid_attribute_value_length)) \
  && ((WRITE_OK && G_j < W_size) ==> G_value[W_off + G_j] == W_in_j) \
  && ((!WRITE_OK || G_k < W_off || G_k >= W_off + W_size) ==> G_value[G_k] == W_val_k))
enum attribute_access_result bind_write_true(struct attribute_access_arguments* args)
__CPROVER_requires(BIND_PRE(args) && W_type == attribute_access_type_write && G_pre_j2 == G_k - W_off)
__CPROVER_ensures(WRITE_POST(args))
__CPROVER_assigns(args->buffer_size, __CPROVER_object_upto(G_value, G_sizeof_T))
{{bind_write_true}}
enum attribute_access_result bind_write_false(struct attribute_access_arguments* args)
__CPROVER_ensures(__CPROVER_return_value == attribute_access_result_write_not_permitted)
__CPROVER_assigns()
{{bind_write_false}}
enum attribute_access_result bind_value_access(struct attribute_access_arguments* args, size_t attribute_index)
__CPROVER_requires(BIND_PRE(args) && G_pre_j2 == G_k - W_off)
/* C05: protected value neither returned nor modified on an unencrypted link */
__CPROVER_ensures(ENC_REFUSED(args) ==> (__CPROVER_return_value == ENC_CODE(args) && G_value[G_k] == W_val_k && args->buffer_size == W_size
                                        && (G_j < W_size ==> args->buffer[G_j] == W_in_j)))
__CPROVER_ensures((!ENC_REFUSED(args) && W_type == attribute_access_type_read && G_has_read_access) ==> (READ_POST(args, G_value, G_sizeof_T) && G_value[G_k] == W_val_k))
/* permission options are enforced: no_read_access / no_write_access / const value */
__CPROVER_ensures((!ENC_REFUSED(args) && W_type == attribute_access_type_read && !G_has_read_access) ==>
    (__CPROVER_return_value == attribute_access_result_read_not_permitted && (G_j < W_size ==> args->buffer[G_j] == W_in_j) && G_value[G_k] == W_val_k))
__CPROVER_ensures((!ENC_REFUSED(args) && W_type == attribute_access_type_write && G_has_write_access) ==> WRITE_POST(args))
__CPROVER_ensures((!ENC_REFUSED(args) && W_type == attribute_access_type_write && !G_has_write_access) ==>
    (__CPROVER_return_value == attribute_access_result_write_not_permitted && G_value[G_k] == W_val_k))
__CPROVER_ensures((!ENC_REFUSED(args) && W_type != attribute_access_type_write && W_type != attribute_access_type_read) ==>
    (__CPROVER_return_value == attribute_access_result_write_not_permitted && G_value[G_k] == W_val_k))
__CPROVER_ensures(W_type != attribute_access_type_read ==> (G_j < W_size ==> args->buffer[G_j] == W_in_j))
__CPROVER_assigns(args->buffer_size, G_eq_diff)
__CPROVER_assigns(W_type == attribute_access_type_read && G_has_read_access && !ENC_REFUSED(args): __CPROVER_object_upto(args->buffer, args->buffer_size))
__CPROVER_assigns(W_type == attribute_access_type_write && G_has_write_access && !ENC_REFUSED(args): __CPROVER_object_upto(G_value, G_sizeof_T))
{{bind_access}}
#define SETUP W_size = nondet_size(); W_off = nondet_size(); W_vsize = nondet_size(); W_j = nondet_size(); W_k = nondet_size(); G_j = W_j; G_k = W_k; W_type = nondet_int(); \
  W_req = nondet_bool(); G_requires_encryption = W_req; W_enc = nondet_bool(); W_ps = nondet_int(); W_rd = nondet_bool(); W_wr = nondet_bool(); G_has_read_access = W_rd; G_has_write_access = W_wr; \
  G_sizeof_T = W_vsize; W_val_k = nondet_u8(); W_in_j = nondet_u8(); \
  G_pre_j = nondet_size(); G_pre_j2 = nondet_size(); G_pre_j3 = nondet_size(); G_eq_diff = nondet_size(); BT_KNOWN_EXCLUDE()
void h_bind_value_access(void) { SETUP; struct attribute_access_arguments* a; bind_value_access(a, nondet_size()); BT_CANARY(); }
void h_bind_read_true(void) { SETUP; struct attribute_access_arguments* a; bind_read_true(a); BT_CANARY(); }
void h_bind_read_false(void) { SETUP; struct attribute_access_arguments* a; bind_read_false(a); BT_CANARY(); }
void h_bind_write_true(void) { SETUP; struct attribute_access_arguments* a; bind_write_true(a); BT_CANARY(); }
void h_bind_write_false(void) { SETUP; struct attribute_access_arguments* a; bind_write_false(a); BT_CANARY(); }
"""
UNITS.append(dict(name='bind_value', replay=dict(src='replay/c06_replay.cpp'), extracts=BIND_EX, code=BIND_CODE, defines=['BT_NEED_COPY', 'BT_BYTES_MAX=600'], thorough_defines=['VAL_MAX=300'], object_bits=10,
         enforce=['bind_value_access', 'bind_read_true', 'bind_read_false', 'bind_write_true', 'bind_write_false'],
         replace=['attribute_value_read_access', 'bt_copy_u8', 'bind_read_true', 'bind_read_false', 'bind_write_true', 'bind_write_false', 'enc_check_true', 'enc_check_false']))

# ------------------------------------------------------------------ fixed_value< T, Value >, cstring_wrapper< Text >
FIXED_EX = dict(ACC_EX,
    fixed_access=dict(file=CV, scope=FIXED, locate=SIG + r'characteristic_value_access\( details::attribute_access_arguments& args, std::size_t \)',
                      rules=VRULES + [(r'(\*output = [^;]*;)', r'{ BT_GHOST_REBIND(output, args->buffer + (i - args->buffer_offset)); \1 }', 1)],
                      loops=[dict(header=r'for \( __auto_type i = args->buffer_offset; i != args->buffer_offset \+ args->buffer_size; \+\+i, \+\+output \)',
                                  contract="""__CPROVER_assigns(i, output, __CPROVER_object_upto(args->buffer, args->buffer_size))
                                  __CPROVER_loop_invariant(args->buffer_offset <= i && i <= args->buffer_offset + args->buffer_size && output == args->buffer + (i - args->buffer_offset)
                                      && (G_j < i - args->buffer_offset ==> args->buffer[G_j] == (uint8_t)(G_Value >> (8 * (args->buffer_offset + G_j)))))
                                  __CPROVER_decreases(args->buffer_offset + args->buffer_size - i)""")]),
    cstr_access=dict(file=CV, scope=CSTR, locate=SIG + r'characteristic_value_access\( details::attribute_access_arguments& args, std::size_t \)',
                     rules=VRULES + [(r'Text::value\(\)', 'G_text', 1), (r'Text::size\(\)', 'G_text_size', 1), (r'const char\* value', 'const uint8_t* value', 1),
                                     (r'\(\(const char\*\)\(', '((const uint8_t*)(', 1), COPY_RULE(1)]),
)
FIXED_CODE = ACC_CODE + GHOSTS + r"""
size_t G_sizeof_T; uint64_t G_Value; bool G_has_read_access;   /* template parameters T (an unsigned integer type), Value, option no_read_access */
const uint8_t* G_text; size_t G_text_size;                     /* Text::value(), Text::size() */
uint8_t W_in_j; uint64_t W_Value;
#define sizeof_T G_sizeof_T
#define Value G_Value
#define has_read_access G_has_read_access
#define VAL_PRE(args) (ARGS_OK(args) && GHOST_OK && G_requires_encryption == W_req && (G_j >= (args)->buffer_size || (args)->buffer[G_j] == W_in_j))
#define UNTOUCHED(args) (args->buffer_size == W_size && (G_j < W_size ==> args->buffer[G_j] == W_in_j))
enum attribute_access_result fixed_value_access(struct attribute_access_arguments* args, size_t attribute_index)
__CPROVER_requires(VAL_PRE(args) && (G_sizeof_T == 1 || G_sizeof_T == 2 || G_sizeof_T == 4 || G_sizeof_T == 8) && G_sizeof_T == W_vsize && G_Value == W_Value
                   && (G_sizeof_T == 8 || G_Value < ((uint64_t)1 << (8 * G_sizeof_T))) && G_has_read_access == W_rd)
__CPROVER_ensures(ENC_REFUSED(args) ==> (__CPROVER_return_value == ENC_CODE(args) && UNTOUCHED(args)))
__CPROVER_ensures((!ENC_REFUSED(args) && !G_has_read_access) ==> (__CPROVER_return_value == attribute_access_result_read_not_permitted && UNTOUCHED(args)))
/* a fixed value is never writable */
__CPROVER_ensures((!ENC_REFUSED(args) && G_has_read_access && W_type != attribute_access_type_read) ==> (__CPROVER_return_value == attribute_access_result_write_not_permitted && UNTOUCHED(args)))
/* read: the little endian bytes of Value from the requested offset */
__CPROVER_ensures((!ENC_REFUSED(args) && G_has_read_access && W_type == attribute_access_type_read) ==> (
      W_off > G_sizeof_T ? (__CPROVER_return_value == attribute_access_result_invalid_offset && UNTOUCHED(args))
    : (__CPROVER_return_value == attribute_access_result_success && args->buffer_size == BT_MIN(W_size, G_sizeof_T - W_off)
       && (G_j < args->buffer_size ==> args->buffer[G_j] == (uint8_t)(G_Value >> (8 * (W_off + G_j)))))))
__CPROVER_assigns(args->buffer_size)
__CPROVER_assigns(W_type == attribute_access_type_read && G_has_read_access && !ENC_REFUSED(args): __CPROVER_object_upto(args->buffer, args->buffer_size))
{{fixed_access}}
enum attribute_access_result cstring_value_access(struct attribute_access_arguments* args, size_t attribute_index)
__CPROVER_requires(VAL_PRE(args) && G_text_size <= VAL_MAX && G_text_size == W_vsize && __CPROVER_is_fresh(G_text, G_text_size))
__CPROVER_ensures(ENC_REFUSED(args) ==> (__CPROVER_return_value == ENC_CODE(args) && UNTOUCHED(args)))
__CPROVER_ensures((!ENC_REFUSED(args) && W_type != attribute_access_type_read) ==> (__CPROVER_return_value == attribute_access_result_write_not_permitted && UNTOUCHED(args)))
__CPROVER_ensures((!ENC_REFUSED(args) && W_type == attribute_access_type_read) ==> READ_POST(args, G_text, G_text_size))
__CPROVER_ensures((!ENC_REFUSED(args) && W_type == attribute_access_type_read && W_off > G_text_size) ==> UNTOUCHED(args))
__CPROVER_assigns(args->buffer_size)
__CPROVER_assigns(W_type == attribute_access_type_read && !ENC_REFUSED(args): __CPROVER_object_upto(args->buffer, args->buffer_size))
{{cstr_access}}
#define SETUP W_size = nondet_size(); W_off = nondet_size(); W_vsize = nondet_size(); W_j = nondet_size(); W_k = nondet_size(); G_j = W_j; G_k = W_k; W_type = nondet_int(); \
  W_req = nondet_bool(); G_requires_encryption = W_req; W_enc = nondet_bool(); W_ps = nondet_int(); W_rd = nondet_bool(); W_wr = nondet_bool(); G_has_read_access = W_rd; \
  G_sizeof_T = W_vsize; G_text_size = W_vsize; W_Value = nondet_u64(); G_Value = W_Value; W_in_j = nondet_u8(); \
  G_pre_j = nondet_size(); G_pre_j2 = nondet_size(); G_pre_j3 = nondet_size(); G_eq_diff = nondet_size(); BT_KNOWN_EXCLUDE()
void h_fixed_value_access(void) { SETUP; struct attribute_access_arguments* a; fixed_value_access(a, nondet_size()); BT_CANARY(); }
void h_cstring_value_access(void) { SETUP; struct attribute_access_arguments* a; cstring_value_access(a, nondet_size()); BT_CANARY(); }
"""
UNITS.append(dict(name='fixed_values', extracts=FIXED_EX, code=FIXED_CODE, defines=['BT_NEED_COPY', 'BT_BYTES_MAX=600', 'VAL_MAX=300'], thorough_defines=['VAL_MAX=600'], object_bits=10,
         enforce=['fixed_value_access', 'cstring_value_access'],
         replace=['bt_copy_u8', 'enc_check_true', 'enc_check_false']))

# ------------------------------------------------------------------ value_handler_base (free_read_handler, free_write_handler, ... mixin handlers)
INV_R_NONE = r'struct invoke_read_handler< no_such_type >\s*(?=\{)'
INV_W_NONE = r'struct invoke_write_handler< no_such_type >\s*(?=\{)'
HRULES = VRULES + [(r'error_codes::', 'error_codes_', '*')]
VHB_EX = dict(ACC_EX,
    error_codes=dict(kind='enum', file=CODES, name='error_codes'),
    vhb_access=dict(file=CV, scope=VHB, locate=r'static attribute_access_result characteristic_value_access\( attribute_access_arguments& args, std::size_t\s*\)',
                    rules=HRULES + [(r'invoke_read_handler< read_handler_type >::template call_read_handler< Server >\( args->buffer_offset, args->buffer_size, args->buffer, args->buffer_size, args->server \)',
                                     'invoke_read_handler( args->buffer_offset, args->buffer_size, args->buffer, &args->buffer_size, args->server )', 1),
                                    (r'invoke_write_handler< write_handler_type >::template call_write_handler< Server, ClientCharacteristicIndex >\( args->buffer_offset, args->buffer_size, args->buffer, args->client_config, args->server \)',
                                     'invoke_write_handler( args->buffer_offset, args->buffer_size, args->buffer, &args->client_config, args->server )', 1)]),
    inv_r_none=dict(file=CV, scope=INV_R_NONE, locate=r'static constexpr std::uint8_t call_read_handler\( std::size_t, std::size_t, std::uint8_t\*, std::size_t&, void\* \)', rules=HRULES),
    inv_w_none=dict(file=CV, scope=INV_W_NONE, locate=r'static constexpr std::uint8_t call_write_handler\( std::size_t, std::size_t, const std::uint8_t\*, const details::client_characteristic_configuration&, void\* \)', rules=HRULES),
    vhb_has_read_access=dict(kind='expr', file=CV, scope=VHB, locate=r'static constexpr bool has_read_access\s*='),
)
VHB_CODE = ACC_CODE + GHOSTS + r"""
{{error_codes}};
bool G_has_read_handler, G_has_write_handler, G_no_read;   /* type-level: a read / write handler option is present, no_read_access given */
#define has_read_handler G_has_read_handler
#define no_read G_no_read
#define VHB_HAS_READ_ACCESS ({{vhb_has_read_access}})     /* value_impl::has_read_access, the flag the characteristic declaration publishes */
int G_read_calls, G_write_calls; uint8_t G_handler_rc; uint8_t W_in_j; bool W_rh, W_wh, W_nr; uint8_t W_rc;
/* the application's handlers (call_read_handler / call_write_handler of the handler option): abstract */
uint8_t user_read_handler(size_t offset, size_t read_size, uint8_t* out_buffer, size_t* out_size, void* server)
__CPROVER_requires(__CPROVER_rw_ok(out_buffer, read_size) && __CPROVER_rw_ok(out_size, sizeof(size_t)))
__CPROVER_ensures(G_read_calls == __CPROVER_old(G_read_calls) + 1 && *out_size <= read_size && __CPROVER_return_value == G_handler_rc)
__CPROVER_assigns(G_read_calls, *out_size, __CPROVER_object_upto(out_buffer, read_size));
uint8_t user_write_handler(size_t offset, size_t write_size, const uint8_t* value, const struct ccc* config, void* server)
__CPROVER_requires(__CPROVER_r_ok(value, write_size))
__CPROVER_ensures(G_write_calls == __CPROVER_old(G_write_calls) + 1 && __CPROVER_return_value == G_handler_rc)
__CPROVER_assigns(G_write_calls);
uint8_t inv_r_none(size_t a, size_t b, uint8_t* c, size_t* d, void* e)
__CPROVER_ensures(__CPROVER_return_value == error_codes_read_not_permitted) __CPROVER_assigns()
{{inv_r_none}}
uint8_t inv_w_none(size_t a, size_t b, const uint8_t* c, const struct ccc* d, void* e)
__CPROVER_ensures(__CPROVER_return_value == error_codes_write_not_permitted) __CPROVER_assigns()
{{inv_w_none}}
/* template selection invoke_read_handler< read_handler_type > (glue) */
#define invoke_read_handler(o, n, b, os, s) (G_has_read_handler ? user_read_handler(o, n, b, os, s) : inv_r_none(o, n, b, os, s))
#define invoke_write_handler(o, n, b, c, s) (G_has_write_handler ? user_write_handler(o, n, b, c, s) : inv_w_none(o, n, b, c, s))
#define UNTOUCHED(args) (args->buffer_size == W_size && (G_j < W_size ==> args->buffer[G_j] == W_in_j))
enum attribute_access_result handler_value_access(struct attribute_access_arguments* args, size_t attribute_index)
__CPROVER_requires(ARGS_OK(args) && GHOST_OK && G_requires_encryption == W_req && (G_j >= args->buffer_size || args->buffer[G_j] == W_in_j))
__CPROVER_requires(G_has_read_handler == W_rh && G_has_write_handler == W_wh && G_no_read == W_nr && G_read_calls == 0 && G_write_calls == 0 && G_handler_rc == W_rc)
/* C05: no handler is invoked for a protected characteristic on an unencrypted link */
__CPROVER_ensures(ENC_REFUSED(args) ==> (__CPROVER_return_value == ENC_CODE(args) && UNTOUCHED(args) && G_read_calls == 0 && G_write_calls == 0))
/* permissions: a characteristic that publishes 'not readable' is not read; one without write handler is not written */
#ifndef ENCRYPTION_CLAUSES_ONLY   /* C05 runs this unit for the encryption clauses only */
__CPROVER_ensures((!ENC_REFUSED(args) && W_type == attribute_access_type_read && !VHB_HAS_READ_ACCESS) ==> (__CPROVER_return_value != attribute_access_result_success && G_read_calls == 0 && UNTOUCHED(args)))
#endif
__CPROVER_ensures((!ENC_REFUSED(args) && W_type == attribute_access_type_write && !G_has_write_handler) ==> (__CPROVER_return_value == attribute_access_result_write_not_permitted && G_write_calls == 0))
__CPROVER_ensures((!ENC_REFUSED(args) && W_type == attribute_access_type_read && VHB_HAS_READ_ACCESS) ==> (G_read_calls == 1 && G_write_calls == 0 && __CPROVER_return_value == (enum attribute_access_result)W_rc && args->buffer_size <= W_size))
__CPROVER_ensures((!ENC_REFUSED(args) && W_type == attribute_access_type_write && G_has_write_handler) ==> (G_write_calls == 1 && G_read_calls == 0 && __CPROVER_return_value == (enum attribute_access_result)W_rc && UNTOUCHED(args)))
__CPROVER_ensures((W_type != attribute_access_type_read && W_type != attribute_access_type_write) ==> (G_read_calls == 0 && G_write_calls == 0 && __CPROVER_return_value != attribute_access_result_success && UNTOUCHED(args)))
__CPROVER_assigns(G_read_calls, G_write_calls)
__CPROVER_assigns(W_type == attribute_access_type_read && !ENC_REFUSED(args): args->buffer_size, __CPROVER_object_upto(args->buffer, args->buffer_size))
{{vhb_access}}
#define SETUP W_size = nondet_size(); W_off = nondet_size(); W_vsize = nondet_size(); W_j = nondet_size(); W_k = nondet_size(); G_j = W_j; G_k = W_k; W_type = nondet_int(); \
  W_req = nondet_bool(); G_requires_encryption = W_req; W_enc = nondet_bool(); W_ps = nondet_int(); W_rd = nondet_bool(); W_wr = nondet_bool(); \
  W_rh = nondet_bool(); W_wh = nondet_bool(); W_nr = nondet_bool(); G_has_read_handler = W_rh; G_has_write_handler = W_wh; G_no_read = W_nr; W_rc = nondet_u8(); G_handler_rc = W_rc; W_in_j = nondet_u8(); \
  G_read_calls = 0; G_write_calls = 0; G_pre_j = nondet_size(); G_pre_j2 = nondet_size(); G_pre_j3 = nondet_size(); G_eq_diff = nondet_size(); BT_KNOWN_EXCLUDE()
void h_handler_value_access(void) { SETUP; struct attribute_access_arguments* a; handler_value_access(a, nondet_size()); BT_CANARY(); }
void h_inv_r_none(void) { SETUP; inv_r_none(0, 0, 0, 0, 0); BT_CANARY(); }
void h_inv_w_none(void) { SETUP; inv_w_none(0, 0, 0, 0, 0); BT_CANARY(); }
"""
UNITS.append(dict(name='handler_value', replay=dict(src='replay/c06_replay.cpp'), extracts=VHB_EX, code=VHB_CODE, object_bits=10,
         enforce=['handler_value_access', 'inv_r_none', 'inv_w_none'],
         replace=['user_read_handler', 'user_write_handler', 'inv_r_none', 'inv_w_none', 'enc_check_true', 'enc_check_false'],
         trusted=['application read/write handlers (user code): any return code, writes at most read_size bytes into the buffer handed to them']))

# ------------------------------------------------------------------ characteristic declaration (properties byte, value handle, UUID)
DRULES = ACC_RULES + [
    (r'value_type::has_only_write_without_response', 'G_only_wwr', '*'), (r'value_type::has_write_without_response', 'G_wwr', '*'),
    (r'value_type::has_write_access', 'G_has_write_access', '*'), (r'value_type::has_read_access', 'G_has_read_access', '*'),
    (r'value_type::has_notification', 'G_has_notification', '*'), (r'value_type::has_indication', 'G_has_indication', '*'),
    (r'details::gatt_characteristic_properties::', 'gatt_characteristic_properties_', '+'),
    (r'handle_index_mapping< Server >::handle_by_index\(', 'handle_by_index(', 1),
    (r'details::invalid_attribute_handle', 'invalid_attribute_handle', 1),
    (r'sizeof\( uuid::bytes \)', 'G_uuid_size', 1),
    (r'details::scattered_read_access\( args->buffer_offset, properties, value_handle, uuid::bytes, args->buffer, args->buffer_size \)',
     'scattered_read_access( args->buffer_offset, properties, sizeof( properties ), value_handle, sizeof( value_handle ), G_uuid_bytes, (int)G_uuid_size, args->buffer, args->buffer_size )', 1),
    (r'characteristic_or_service_uuid_t::auto_generated_uuid', 'G_auto_generated_uuid', 1),
]
DECL_EX = dict(ACC_EX,
    props=dict(kind='enum', file=CODES, name='gatt_characteristic_properties'),
    props_bits=dict(file=CODES, locate=r'constexpr std::uint8_t bits\( gatt_characteristic_properties c \)'),
    decl_access=dict(file=CH, scope=DECL, locate=r'static details::attribute_access_result char_declaration_access\( details::attribute_access_arguments& args, std::size_t attribute_index \)',
                     member_exclude=['has_write_attribute_'], rules=DRULES),
    fixup=dict(file=CH, scope=DECL, locate=r'static void fixup_auto_uuid\( details::attribute_access_arguments& args \)',
               pre=[(r'using characteristics_t = typename find_all_by_meta_type<\s*details::characteristic_meta_type,\s*ServiceOptions\.\.\. >::type;', '', 1),
                    (r'index_of< characteristic< Options\.\.\. >, characteristics_t >::value', 'G_char_index0', 1)],
               rules=ACC_RULES),
    sc_copy=dict(file=SCA, locate=r'std::uint8_t\* copy\( int offset, const std::uint8_t \(&source\)\[ Size \], std::uint8_t\* begin, std::uint8_t\* end \)',
                 rules=[(r'std::begin\( source \)', 'source', 2), COPY_RULE(1)]),
    sc_read=dict(file=SCA, locate=r'void scattered_read_access\(\s*int offset,\s*const std::uint8_t \(&a\)\[ a_size \], const std::uint8_t \(&b\)\[ b_size \], const std::uint8_t \(&c\)\[ c_size \],\s*std::uint8_t\* out_buffer, int out_buffer_size \)',
                 rules=[(r'copy\( (offset[^,]*),\s*([abc]), out, end \)', r'sc_copy( \1, \2, \2_size, out, end )', 3)]),
)
DECL_CODE = ACC_CODE + GHOSTS + r"""
{{props}};
static inline uint8_t bits(enum gatt_characteristic_properties c) {{props_bits}}
bool G_only_wwr, G_wwr, G_has_write_access, G_has_read_access, G_has_notification, G_has_indication, G_auto_generated_uuid;
size_t G_uuid_size; uint8_t G_uuid_bytes[16]; uint16_t G_value_handle, G_char_index0; size_t G_hbi_arg;
#define invalid_attribute_handle 0
uint8_t W_in_j; size_t W_us, W_ai; uint16_t W_vh, W_ci; uint8_t W_flags; uint8_t W_uuid[16];
uint16_t handle_by_index(size_t index) __CPROVER_ensures(__CPROVER_return_value == G_value_handle && G_hbi_arg == index) __CPROVER_assigns(G_hbi_arg);
/* scattered_access.hpp: array references become pointer + size (template value parameters) */
#define SC_N1(off, n) ((size_t)BT_MIN(BT_MAX(0, 1 - (int)(off)), (int)(n)))
#define SC_N2(off, n) ((size_t)BT_MIN(BT_MAX(0, 2 - BT_MAX(0, (int)(off) - 1)), (int)(n) - (int)SC_N1(off, n)))
uint8_t* sc_copy(int offset, const uint8_t* source, int Size, uint8_t* begin, uint8_t* end)
__CPROVER_requires(Size >= 1 && Size <= 16 && __CPROVER_r_ok(source, Size) && offset >= -40 && offset <= 40 && __CPROVER_same_object(begin, end) && begin <= end && end - begin <= BUF_MAX && __CPROVER_rw_ok(begin, end - begin))
__CPROVER_requires(G_pre_j < 16 && G_pre_j2 == G_pre_j && G_pre_j3 == G_pre_j)
__CPROVER_ensures(__CPROVER_return_value == begin + BT_MIN(BT_MAX(0, Size - BT_MAX(0, offset)), (int)(end - begin)))
__CPROVER_ensures((size_t)G_pre_j < (size_t)(__CPROVER_return_value - begin) ==> begin[G_pre_j] == source[BT_MAX(0, offset) + G_pre_j])
__CPROVER_assigns(__CPROVER_object_upto(begin, (size_t)(end - begin)))
{{sc_copy}}
void scattered_read_access(int offset, const uint8_t* a, int a_size, const uint8_t* b, int b_size, const uint8_t* c, int c_size, uint8_t* out_buffer, int out_buffer_size)
__CPROVER_requires(a_size == 1 && b_size == 2 && (c_size == 2 || c_size == 16) && __CPROVER_r_ok(a, 1) && __CPROVER_r_ok(b, 2) && __CPROVER_r_ok(c, c_size))
__CPROVER_requires(offset >= 0 && offset <= 3 + c_size && out_buffer_size >= 0 && out_buffer_size <= BUF_MAX && __CPROVER_rw_ok(out_buffer, out_buffer_size) && G_j < BUF_MAX)
/* ghost bookkeeping: the index of output byte G_j relative to each of the three copies */
__CPROVER_requires(G_pre_j == G_j && G_pre_j2 == G_j - SC_N1(offset, out_buffer_size) && G_pre_j3 == G_j - SC_N1(offset, out_buffer_size) - SC_N2(offset, out_buffer_size))
/* byte G_j of the output is byte offset + G_j of the concatenation a | b | c */
__CPROVER_ensures((G_j < (size_t)out_buffer_size && offset + G_j < 3 + c_size) ==>
    out_buffer[G_j] == (offset + G_j == 0 ? a[0] : offset + G_j <= 2 ? b[offset + G_j - 1] : c[offset + G_j - 3]))
__CPROVER_assigns(__CPROVER_object_upto(out_buffer, (size_t)out_buffer_size))
{{sc_read}}
/* inlined into char_declaration_access (two conditional xors): proved there for every offset and size */
static inline void fixup_auto_uuid(struct attribute_access_arguments* args)
{{fixup}}
/* what is actually permitted (value access functions above): read iff has_read_access; Write Request iff has_write_access and not
   only_write_without_response; Write Command iff write_without_response or only_write_without_response; notify / indicate as declared */
#define PROPS_SPEC ((uint8_t)((G_has_read_access ? 0x02 : 0) | ((G_has_write_access && !G_only_wwr) ? 0x08 : 0) | ((G_only_wwr || G_wwr) ? 0x04 : 0) \
                    | (G_has_notification ? 0x10 : 0) | (G_has_indication ? 0x20 : 0)))
#define UNTOUCHED(args) (args->buffer_size == W_size && (G_j < W_size ==> args->buffer[G_j] == W_in_j))
enum attribute_access_result char_declaration_access(struct attribute_access_arguments* args, size_t attribute_index)
__CPROVER_requires(W_off > 19 || W_size > BUF_MAX || (G_pre_j2 == G_j - SC_N1(W_off, W_size) && G_pre_j3 == G_j - SC_N1(W_off, W_size) - SC_N2(W_off, W_size)))
__CPROVER_requires(ARGS_OK(args) && GHOST_OK && G_j < BUF_MAX && (G_j >= args->buffer_size || args->buffer[G_j] == W_in_j) && attribute_index == W_ai && attribute_index < 65535)
__CPROVER_requires((G_uuid_size == 2 || G_uuid_size == 16) && G_uuid_size == W_us && G_value_handle != 0 && G_value_handle == W_vh && G_char_index0 == W_ci && G_char_index0 < 65535)
__CPROVER_requires(W_flags == (G_only_wwr | (G_wwr << 1) | (G_has_write_access << 2) | (G_has_read_access << 3) | (G_has_notification << 4) | (G_has_indication << 5) | (G_auto_generated_uuid << 6)))
__CPROVER_requires((W_off + G_j < 3 || W_off + G_j >= 19 || G_uuid_bytes[W_off + G_j - 3] == W_uuid[W_off + G_j - 3]))
__CPROVER_ensures(W_type != attribute_access_type_read ==> (__CPROVER_return_value == attribute_access_result_write_not_permitted && UNTOUCHED(args)))
__CPROVER_ensures((W_type == attribute_access_type_read && W_off > 3 + G_uuid_size) ==> (__CPROVER_return_value == attribute_access_result_invalid_offset && UNTOUCHED(args)))
__CPROVER_ensures((W_type == attribute_access_type_read && W_off <= 3 + G_uuid_size) ==> (__CPROVER_return_value == attribute_access_result_success && args->buffer_size == BT_MIN(W_size, 3 + G_uuid_size - W_off)))
/* byte 0: the declared properties match what is permitted; bytes 1..2: handle of the value attribute (the next attribute) */
__CPROVER_ensures((W_type == attribute_access_type_read && W_off <= 3 + G_uuid_size && G_j < args->buffer_size && W_off + G_j == 0) ==> args->buffer[G_j] == PROPS_SPEC)
__CPROVER_ensures((W_type == attribute_access_type_read && W_off <= 3 + G_uuid_size && G_j < args->buffer_size && W_off + G_j == 1) ==> (args->buffer[G_j] == (G_value_handle & 0xff) && G_hbi_arg == W_ai + 1))
__CPROVER_ensures((W_type == attribute_access_type_read && W_off <= 3 + G_uuid_size && G_j < args->buffer_size && W_off + G_j == 2) ==> args->buffer[G_j] == (G_value_handle >> 8))
__CPROVER_ensures((W_type == attribute_access_type_read && W_off <= 3 + G_uuid_size && G_j < args->buffer_size && W_off + G_j >= 3) ==>
    args->buffer[G_j] == (uint8_t)(W_uuid[W_off + G_j - 3] ^ (!G_auto_generated_uuid ? 0 : W_off + G_j == 3 ? ((G_char_index0 + 1) & 0xff) : W_off + G_j == 4 ? ((uint16_t)(G_char_index0 + 1) >> 8) : 0)))
__CPROVER_assigns(G_hbi_arg)
__CPROVER_assigns(W_type == attribute_access_type_read && W_off <= 3 + G_uuid_size: args->buffer_size, __CPROVER_object_upto(args->buffer, args->buffer_size))
{{decl_access}}
#define SETUP W_size = nondet_size(); W_off = nondet_size(); W_vsize = nondet_size(); W_j = nondet_size(); W_k = nondet_size(); G_j = W_j; G_k = W_k; W_type = nondet_int(); \
  W_req = nondet_bool(); W_enc = nondet_bool(); W_ps = nondet_int(); W_rd = nondet_bool(); W_wr = nondet_bool(); W_in_j = nondet_u8(); W_us = nondet_size(); G_uuid_size = W_us; W_ai = nondet_size(); \
  W_vh = nondet_u16(); G_value_handle = W_vh; W_ci = nondet_u16(); G_char_index0 = W_ci; W_flags = nondet_u8(); for (int q = 0; q < 16; ++q) W_uuid[q] = nondet_u8(); \
  G_only_wwr = nondet_bool(); G_wwr = nondet_bool(); G_has_write_access = nondet_bool(); G_has_read_access = nondet_bool(); G_has_notification = nondet_bool(); G_has_indication = nondet_bool(); G_auto_generated_uuid = nondet_bool(); \
  G_pre_j = nondet_size(); G_pre_j2 = nondet_size(); G_pre_j3 = nondet_size(); G_eq_diff = nondet_size(); BT_KNOWN_EXCLUDE()
void h_char_declaration_access(void) { SETUP; struct attribute_access_arguments* a; char_declaration_access(a, W_ai); BT_CANARY(); }
#define MKARGS struct attribute_access_arguments a; __CPROVER_assume(W_size <= BUF_MAX); a.buffer = malloc(W_size); a.buffer_size = W_size; a.buffer_offset = W_off; a.type = W_type
void h_scattered_read_access(void) { SETUP; MKARGS; uint8_t pa[1], pb[2]; int cs = nondet_int(); __CPROVER_assume(cs == 2 || cs == 16); uint8_t* pc = malloc(cs);
  scattered_read_access((int)W_off, pa, 1, pb, 2, pc, cs, a.buffer, (int)W_size); BT_CANARY(); }
void h_sc_copy(void) { SETUP; int n = nondet_int(); __CPROVER_assume(n >= 1 && n <= 16); uint8_t* src = malloc(n); size_t lo = nondet_size(); __CPROVER_assume(lo <= W_size && W_size <= BUF_MAX);
  uint8_t out[BUF_MAX]; sc_copy(nondet_int(), src, n, out + lo, out + W_size); BT_CANARY(); }
"""
UNITS.append(dict(name='declaration', replay=dict(src='replay/c06_replay.cpp'), extracts=DECL_EX, code=DECL_CODE, defines=['BT_NEED_COPY', 'BT_BYTES_MAX=40', 'BUF_MAX=40'], object_bits=10,
         enforce=['char_declaration_access', 'scattered_read_access', 'sc_copy'],
         ignore=[r'pointer arithmetic: pointer outside object bounds in source \+'],
         replace=['handle_by_index', 'scattered_read_access', 'bt_copy_u8']))

META = dict(
    level='proof',
    explanation="attribute_value_read_access / read_only_access (attribute.hpp), bind_characteristic_value::value_impl (access, read, write, both "
                "permission overloads), fixed_value and cstring_wrapper value access, value_handler_base value access with its invoke_*_handler "
                "fallbacks (characteristic_value.hpp), and the characteristic declaration (char_declaration_access, fixup_auto_uuid, "
                "scattered_read_access, copy; characteristic.hpp, scattered_access.hpp) are extracted and proved for every value size (symbolic "
                "sizeof(T) / length up to VAL_MAX), every offset, length, buffer content, access type, permission flag combination and link "
                "security state: a successful write stores exactly the written bytes at the given position and leaves every other byte of the "
                "value unchanged (ghost index + frame), a rejected write or a refused access changes nothing, a read returns the value bytes "
                "from the offset truncated to the buffer, Invalid Offset past the end; permission flags decide read_not_permitted / "
                "write_not_permitted; the declaration's properties byte equals the flags the access functions enforce, bytes 1..2 are the handle "
                "of the next attribute, the UUID bytes follow (auto-generated UUIDs patched at value positions 3 and 4 for every read offset).",
    assumptions=["known finding F-C06a (witness class excluded): a handler-based value with no_read_access is readable by a Read Request",
                 "the ATT request handlers in server.hpp that call these access functions (Read, Read Blob, Write, Write Command: offset and length "
                 "taken from the PDU, truncation to the MTU) are not under contract here (C01)",
                 "the option flags (has_read_access, has_write_access, only_write_without_response, ...) are results of has_option<> meta functions and "
                 "enter as symbolic booleans; sizeof(T), Value, Ptr, Text::value()/size(), uuid::bytes enter as symbolic constants / fresh arrays",
                 "scattered_access.hpp copy(): 'std::begin(source) + offset' forms a pointer beyond one-past-the-end when offset > Size (copy_size is 0 "
                 "then); that pointer-arithmetic obligation class is out of scope (ignored), no access happens through it",
                 "mixin_*_handler / free_*_handler wrappers that adapt user functions are represented by the abstract user_read_handler / user_write_handler"],
    trusted_base=["libstdc++ std::copy / std::equal represented by bt_copy_u8 / bt_equal_u8 (contracts enforced on their C bodies in unit read_access)"],
)
