"""C11 Indications are confirmed one at a time and never lost."""
import os, sys
sys.path.insert(0, os.path.dirname(__file__))
import importlib.util
from srv import *

def _load(name):
    sp = importlib.util.spec_from_file_location(name, os.path.join(os.path.dirname(__file__), name + '.py'))
    m = importlib.util.module_from_spec(sp); sp.loader.exec_module(m); return m

_c12 = _load('C12')
# the queue functions that decide when an indication may leave the queue (contracts stated in C12.py)
UNITS = [dict(u) for u in _c12.UNITS if u['name'] in ('dequeue', 'impl1', 'top', 'at_add_remove')]
for u in UNITS:
    if u['name'] == 'impl1':
        u['enforce'] = ['dequeue', 'queue_indication']
    if u['name'] == 'at_add_remove':
        u['enforce'] = ['remove_']

# server::l2cap_output, the consumer of the queue: one dequeue, no other queue operation (contract stated in C08.py)
UNITS += [dict(u, defines=list(u.get('defines', [])) + ['C11_CLAUSES'], replay=dict(src='replay/c11_replay.cpp', cxxflags=['-DNDEBUG', '-I/repo/tests/test_tools', '-I/repo/tests/link_layer'],
              repo_sources=['tests/test_tools/test_radio.cpp', 'tests/test_tools/test_servers.cpp', 'tests/test_tools/hexdump.cpp', 'tests/test_tools/buffer_io.cpp', 'tests/test_tools/address_io.cpp',
                            'bluetoe/link_layer/delta_time.cpp', 'bluetoe/link_layer/channel_map.cpp', 'bluetoe/link_layer/connection_details.cpp', 'bluetoe/utility/address.cpp']))
          for u in _load('C08').UNITS if u['name'] == 'l2cap_output']
UNITS += [
    dict(name='confirmation',
         extracts=dict(CODES_EX, **ERR_EX,
                       confirm=dict(file=SRV, locate=TS + r'void ' + SQ + r'handle_value_confirmation\( const std::uint8_t\* input, std::size_t in_size, std::uint8_t\* output, std::size_t& out_size, connection_data& \)',
                                    rules=SRV_RULES + [(r'self->l2cap_cb_\( details::notification_data\(\), self->l2cap_arg_, details::notification_type::confirmation \)', 'l2cap_cb_confirmation()', 1),
                                                       (r'if \( self->l2cap_cb_ \)', 'if ( G_cb_set )', 1)])),
         code=CODES_CODE + ERR_CODE + r'''
bool G_cb_set; int G_cb_confirm_calls;
size_t W_in_size, W_out_size; uint8_t W_in0; bool W_cb_set;
/* the link layer's callback: indication_confirmed() is reached through it */
void l2cap_cb_confirmation(void) __CPROVER_ensures(G_cb_confirm_calls == __CPROVER_old(G_cb_confirm_calls) + 1) __CPROVER_assigns(G_cb_confirm_calls);

void handle_value_confirmation(const uint8_t* input, size_t in_size, uint8_t* output, size_t* out_size)
__CPROVER_requires(in_size >= 1 && in_size <= 600 && in_size == W_in_size && __CPROVER_is_fresh(input, in_size) && input[0] == W_in0)
__CPROVER_requires(__CPROVER_is_fresh(out_size, sizeof(size_t)) && *out_size >= 23 && *out_size <= 600 && *out_size == W_out_size && __CPROVER_is_fresh(output, *out_size))
__CPROVER_requires(G_cb_confirm_calls == 0 && G_cb_set == W_cb_set)
/* a confirmation with a wrong length is rejected (Error Response naming the opcode, invalid PDU) and confirms nothing */
__CPROVER_ensures(in_size != 1 ==> (*out_size == 5 && output[0] == 0x01 && output[1] == W_in0 && output[4] == 0x04 && G_cb_confirm_calls == 0))
/* a well-formed one gets no response and is reported exactly once (when a link layer is attached) */
__CPROVER_ensures(in_size == 1 ==> (*out_size == 0 && G_cb_confirm_calls == (G_cb_set ? 1 : 0)))
__CPROVER_assigns(*out_size, __CPROVER_object_upto(output, 5), G_cb_confirm_calls)
{{confirm}}
void h_handle_value_confirmation(void) { uint8_t* i; uint8_t* o; size_t* os; W_in_size = nondet_size(); W_out_size = nondet_size(); W_in0 = nondet_u8();
  W_cb_set = nondet_bool(); G_cb_set = W_cb_set; G_cb_confirm_calls = 0; BT_KNOWN_EXCLUDE();
  handle_value_confirmation(i, W_in_size, o, os); BT_CANARY(); }
void h_error_response5_(void) { uint8_t* o; size_t os = nondet_size(); __CPROVER_assume(os <= 600); uint8_t buf[600]; 
  error_response5_(nondet_u8(), nondet_u8(), nondet_u16(), buf, &os); BT_CANARY(); }
void h_error_response4_(void) { size_t os = nondet_size(); __CPROVER_assume(os <= 600); uint8_t buf[600];
  error_response4_(nondet_u8(), nondet_u8(), buf, &os); BT_CANARY(); }
''', enforce=['handle_value_confirmation', 'error_response5_', 'error_response4_'], replace=['l2cap_cb_confirmation']),
]

UNITS.append(_load('C10rq').UNIT)
META = dict(
    level='proof',
    explanation="At most one indication outstanding: dequeue (general, single-entry and top-level wrapper, contracts in C12.py) hands out an "
                "indication only when no confirmation is outstanding and then records it as outstanding; a pending indication bit is only "
                "cleared when it is handed out; indication_confirmed() resets the marker; server::l2cap_output (the consumer) performs exactly one dequeue; an indication it dequeues but does not send (not subscribed, value not readable) it takes as confirmed - otherwise every later indication would wait for ever (F-C11) -, and it touches the queue in no other way. handle_value_confirmation rejects every length "
                "!= 1 with an Error Response and reports nothing to the link layer in that case, and reports a well-formed confirmation once. "
                "'Eventually transmitted' is covered by the one-step fairness clause of dequeue (nothing eligible before the returned entry "
                "is skipped, cursor advances): a ranking argument, not a liveness proof.",
    assumptions=["liveness ('eventually') is not a contract; replaced by the one-step ranking lemma",
                 "the path confirmation -> link layer call back -> indication_confirmed(): handle_value_confirmation calls the call back with kind 'confirmation' (unit confirmation), "
                 "queue_lcap_notification (real body, unit request of C10rq.py) answers that kind with indication_confirmed() and nothing else"],
    trusted_base=[],
)
