"""C13 Notification requests from interrupt context are never lost (rely/guarantee, DESIGN.md 4.5)."""
import os, sys, importlib.util
sys.path.insert(0, os.path.dirname(__file__))
def _load(name):
    sp = importlib.util.spec_from_file_location(name, os.path.join(os.path.dirname(__file__), name + '.py'))
    m = importlib.util.module_from_spec(sp); sp.loader.exec_module(m); return m
_c12 = _load('C12')
NQ, IMPL, IMPL_EX, IMPL_HEAD = _c12.NQ, _c12.IMPL, _c12.IMPL_EX, _c12.IMPL_HEAD

# A compound assignment to a shared byte is a load, an operation and a store (that is what a Cortex-M does; the
# byte accesses themselves are atomic).  The rule splits exactly that statement and puts the interference point
# between load and store.
SPLIT_AND = (r'self->queue_\[ byte_offset \] &= (.*?);',
             r'{ uint8_t rg_loaded = self->queue_[ byte_offset ]; interfere( self, byte_offset ); self->queue_[ byte_offset ] = rg_loaded & (\1); }', 1)
SPLIT_OR = (r'self->queue_\[ byte_offset \] \|= (.*?);',
            r'{ uint8_t rg_loaded = self->queue_[ byte_offset ]; interfere( self, byte_offset ); self->queue_[ byte_offset ] = rg_loaded | (\1); }', 1)
QB = (r'sizeof\( self->queue_ \) / sizeof\( self->queue_\[ 0 \] \)', 'QBYTES', 1)

RG = r'''
;
uint8_t G_set_by_other, G_cleared_by_other;   /* ghost: what the other context did to this byte while we ran */
size_t W_b; uint8_t W_byte, W_other_new; int W_mode;
/* rely: the other context may change this byte between our load and our store.
   mode 0 (we are the consumer, the other one is notify()/indicate() in an ISR): it only SETS bits.
   mode 1 (we are the producer, the other one is the dequeuing link layer): it only CLEARS bits. */
void interfere(struct nq* self, size_t b)
__CPROVER_requires(b < QBYTES)
__CPROVER_ensures(W_mode == 0 ? ((__CPROVER_old(self->queue_[b]) & ~self->queue_[b]) == 0) : ((self->queue_[b] & ~__CPROVER_old(self->queue_[b])) == 0))
__CPROVER_ensures(self->queue_[b] == W_other_new)
__CPROVER_ensures(G_set_by_other == (self->queue_[b] & ~__CPROVER_old(self->queue_[b])))
__CPROVER_ensures(G_cleared_by_other == (__CPROVER_old(self->queue_[b]) & ~self->queue_[b]))
__CPROVER_assigns(self->queue_[b], G_set_by_other, G_cleared_by_other);
#define SETUP struct nq* q; W_Size = nondet_int(); G_Size = W_Size; W_index = nondet_size(); W_bits = nondet_int(); W_byte = nondet_u8(); \
   W_other_new = nondet_u8(); G_set_by_other = 0; G_cleared_by_other = 0; BT_KNOWN_EXCLUDE()
'''

UNITS = [
    dict(name='remove_under_interference',
         extracts=dict(IMPL_EX, remove=dict(file=NQ, scope=IMPL, locate=r'void remove\( std::size_t index, int bits \)', rules=[QB, SPLIT_AND])),
         code=IMPL_HEAD + RG + r'''
/* consumer side: while remove() runs, an interrupt may queue requests in the same byte */
void remove_(struct nq* self, size_t index, int bits)
__CPROVER_requires(SIZE_OK && __CPROVER_is_fresh(self, sizeof(struct nq)) && index < (size_t)G_Size && (bits == 1 || bits == 2))
__CPROVER_requires(index == W_index && bits == W_bits && self->queue_[index / 4] == W_byte && W_mode == 0)
/* no request queued by the other context while we ran is lost */
__CPROVER_ensures((self->queue_[index / 4] & G_set_by_other) == G_set_by_other)
/* and we removed what we were asked to remove, unless it was queued again meanwhile */
__CPROVER_ensures(((self->queue_[index / 4] >> ((index % 4) * 2)) & bits & ~(G_set_by_other >> ((index % 4) * 2))) == 0)
__CPROVER_assigns(self->queue_[index / 4], G_set_by_other, G_cleared_by_other)
{{remove}}
void h_remove_(void) { SETUP; W_mode = 0; remove_(q, W_index, W_bits); BT_CANARY(); }
''', enforce=['remove_'], replace=['interfere'], replay=dict(src='replay/c13_replay.cpp')),

    dict(name='add_under_interference',
         extracts=dict(IMPL_EX, add=dict(file=NQ, scope=IMPL, locate=r'bool add\( std::size_t index, int bits \)', rules=[QB, SPLIT_OR])),
         code=IMPL_HEAD + RG + r'''
/* producer side (notify() from an ISR is not interrupted by the consumer on a single core, but from another thread it is):
   while add() runs the consumer may clear bits it dequeued */
bool add(struct nq* self, size_t index, int bits)
__CPROVER_requires(SIZE_OK && __CPROVER_is_fresh(self, sizeof(struct nq)) && index < (size_t)G_Size && (bits == 1 || bits == 2))
__CPROVER_requires(index == W_index && bits == W_bits && self->queue_[index / 4] == W_byte && W_mode == 1)
/* nothing the consumer dequeued meanwhile is resurrected (no duplicate), and our own request is pending */
__CPROVER_ensures((self->queue_[index / 4] & G_cleared_by_other & ~(bits << ((index % 4) * 2))) == 0)
__CPROVER_ensures(((self->queue_[index / 4] >> ((index % 4) * 2)) & bits) == bits)
__CPROVER_assigns(self->queue_[index / 4], G_set_by_other, G_cleared_by_other)
{{add}}
void h_add(void) { SETUP; W_mode = 1; add(q, W_index, W_bits); BT_CANARY(); }
''', enforce=['add'], replace=['interfere'], replay=dict(src='replay/c13_replay.cpp')),
]
# the consumer side without interference: dequeue clears exactly the bit it hands out, so a request of the other kind queued for the
# same characteristic is not lost (contract stated in C12.py)
UNITS += [dict(u, enforce=['dequeue']) for u in _c12.UNITS if u['name'] == 'dequeue']

META = dict(
    level='other',
    explanation="Rely/guarantee encoding of one producer and one consumer on one queue byte: the compound assignments in the real add()/remove() "
                "are split (by a declared extraction rule) into load / interference / store; interfere() is an abstract callee whose contract "
                "is the rely (the other context sets, resp. clears, arbitrary bits of that byte). The obligation 'no bit set by the other "
                "context between entry and exit is lost' (resp. 'no dequeued bit is resurrected') is checked for every interleaving at "
                "single-access granularity. On the current tree the obligation fails (lost update, marked 'TODO: Synchronization required' "
                "in the source): recorded as known finding F-C13; the sequential consumer (dequeue, C12 contract) clears exactly the bit it hands out; with that witness class excluded all remaining obligations are discharged.",
    assumptions=["byte loads and stores are individually atomic and sequentially consistent; one interference point between the load and the "
                 "store of each compound assignment (further interference before the load or after the store commutes with the operation)"],
    trusted_base=["interfere(): rely relation of the other context (assumed contract, it is the guarantee of add()/remove() themselves)"],
)
