"""C28 A link is encrypted only with a key supplied for it."""
import os, sys
sys.path.insert(0, os.path.dirname(__file__))
from common import BITS32_EXTRACTS, BITS32_CODE
LL = 'bluetoe/link_layer/include/bluetoe/link_layer.hpp'
LS = 'bluetoe/link_state.hpp'
BITS = 'bluetoe/utility/include/bluetoe/bits.hpp'
SEC = [r'struct link_layer_security_impl\s*(?=\{)', r'class impl\s*(?=\{)']
LST = r'class link_state\s*(?=\{)'
CONST = {k: dict(kind='expr', file=LL, locate=r'static constexpr std::uint8_t\s+%s\s*=' % k) for k in ('ll_control_pdu_code', 'LL_ENC_REQ', 'LL_ENC_RSP', 'LL_START_ENC_REQ', 'LL_START_ENC_RSP', 'LL_PAUSE_ENC_REQ', 'LL_PAUSE_ENC_RSP', 'err_pin_or_key_missing')}
R = [(r'using namespace ::bluetoe::details;', '', '*'), (r'using layout_t = typename pdu_layout_by_radio< typename LinkLayer::radio_t >::pdu_layout;', '', '*'),
     (r'LinkLayer::', '', '*'), (r'fill< layout_t >\( (\w+), \{\s*([^,}]*), ([^,}]*), ([^,}]*?)\s*\} \);', r'fill3( \1, \2, \3, \4 );', '*'),
     (r'layout_t::body\( pdu \)\.first', 'G_pdu_body', '*'), (r'layout_t::body\( write \)\.first', 'G_write_body', '*'),
     (r'bluetoe::details::uint128_t key;', 'struct u128 key;', '*'),
     (r'std::tie\( self->has_key_, key \) = that\(\)\.connection_data_\.find_key\( ediv, rand \);', '{ struct pair_bool_u128 t_ = cd_find_key( ediv, rand ); self->has_key_ = t_.first; key = t_.second; }', '*'),
     (r'std::tie\( skds, ivs \) = that\(\)\.setup_encryption\( key, skdm, ivm \);', '{ struct pair_u64_u32 t_ = radio_setup_encryption( key, skdm, ivm ); skds = t_.first; ivs = t_.second; }', '*'),
     (r'bluetoe::details::write_(64|32)bit\(', r'write_\1bit(', '*'),
     (r'that\(\)\.connection_data_\.is_encrypted\( (true|false) \)', r'cd_is_encrypted( \1 )', '*'),
     (r'that\(\)\.connection_data_\.restore_bonded_cccds\( that\(\)\.connection_data_ \)', 'cd_restore_bonded_cccds()', '*'),
     (r'that\(\)\.connection_data_\.pairing_status\(that\(\)\.connection_data_\.local_device_pairing_status\(\)\)', 'cd_update_pairing_status()', '*'),
     (r'that\(\)\.connection_changed\( that\(\)\.details\(\), that\(\)\.connection_data_, \(\(typename radio_t&\)\( that\(\) \)\) \)', 'll_connection_changed()', '*'),
     (r'that\(\)\.(start_transmit_encrypted|stop_receive_encrypted|stop_transmit_encrypted|start_receive_encrypted)\(\)', r'radio_\1()', '*'),
     (r'that\(\)\.allocate_ll_transmit_buffer\( maximum_ll_payload_size \)', 'll_allocate_ll_transmit_buffer()', '*'), (r'that\(\)\.commit_ll_transmit_buffer\( out_buffer \)', 'll_commit_ll_transmit_buffer( out_buffer )', '*'),
     (r'that\(\)\.reject\( LL_ENC_REQ, err_pin_or_key_missing, out_buffer \)', 'll_reject( LL_ENC_REQ, err_pin_or_key_missing, out_buffer )', '*'),
     (r'out_buffer\.empty\(\)', '( out_buffer.buffer == 0 && out_buffer.size == 0 )', '*'), (r'\bcommit\b', '(*commit)', '*')]
EX = dict(BITS32_EXTRACTS, **CONST,
    read_64=dict(file=BITS, locate=r'constexpr std::uint64_t read_64bit\( const std::uint8_t\* p \)'),
    write_64=dict(file=BITS, locate=r'inline std::uint8_t\* write_64bit\( std::uint8_t\* out, std::uint64_t bits64 \)'),
    sec_fields=dict(kind='fields', file=LL, scope=SEC, names=['has_key_', 'encryption_in_progress_']),
    sec_ctor=dict(file=LL, scope=SEC, locate=r'impl\(\)', init_list=True),
    handle=dict(file=LL, scope=SEC, locate=r'bool handle_encryption_pdus\( std::uint8_t opcode, std::uint8_t size, const write_buffer& pdu, read_buffer write, bool& commit \)', rules=R),
    transmit=dict(file=LL, scope=SEC, locate=r'void transmit_pending_security_pdus\(\)', rules=R),
    reset=dict(file=LL, scope=SEC, locate=r'void reset_encryption\(\)', rules=R),
    ls_fields=dict(kind='fields', file=LS, scope=LST, names=['encrypted_', 'pairing_status_'], type_map={'device_pairing_status': 'int'}),
    ls_get=dict(file=LS, scope=LST, locate=r'bool is_encrypted\(\) const'),
    ls_set=dict(file=LS, scope=LST, locate=r'bool is_encrypted\( bool encrypted \)'),
    ls_ctor=dict(file=LS, scope=LST, locate=r'link_state\(\)', init_list=True, rules=[(r'device_pairing_status::no_key', '0', 1)]),
)
CODE = BITS32_CODE + r'''
uint64_t read_64bit(const uint8_t* p) {{read_64}}
uint8_t* write_64bit(uint8_t* out, uint64_t bits64) {{write_64}}
#define ll_control_pdu_code ((uint8_t)({{ll_control_pdu_code}}))
#define LL_ENC_REQ ((uint8_t)({{LL_ENC_REQ}}))
#define LL_ENC_RSP ((uint8_t)({{LL_ENC_RSP}}))
#define LL_START_ENC_REQ ((uint8_t)({{LL_START_ENC_REQ}}))
#define LL_START_ENC_RSP ((uint8_t)({{LL_START_ENC_RSP}}))
#define LL_PAUSE_ENC_REQ ((uint8_t)({{LL_PAUSE_ENC_REQ}}))
#define LL_PAUSE_ENC_RSP ((uint8_t)({{LL_PAUSE_ENC_RSP}}))
#define err_pin_or_key_missing ((uint8_t)({{err_pin_or_key_missing}}))
struct rbuf { uint8_t* buffer; size_t size; }; struct wbuf { const uint8_t* buffer; size_t size; };
struct u128 { uint8_t b[16]; }; struct pair_bool_u128 { bool first; struct u128 second; }; struct pair_u64_u32 { uint64_t first; uint32_t second; };
struct sec { {{sec_fields}} };
/* ---- link_state (link_state.hpp) */
struct link_state { {{ls_fields}} };
bool ls_is_encrypted(const struct link_state* self) __CPROVER_requires(__CPROVER_r_ok(self, sizeof(*self))) __CPROVER_ensures(__CPROVER_return_value == self->encrypted_) __CPROVER_assigns()
{{ls_get}}
bool ls_set_encrypted(struct link_state* self, bool encrypted) __CPROVER_requires(__CPROVER_rw_ok(self, sizeof(*self)))
__CPROVER_ensures(self->encrypted_ == encrypted && __CPROVER_return_value == (__CPROVER_old(self->encrypted_) != encrypted)) __CPROVER_assigns(self->encrypted_)
{{ls_set}}
void ls_ctor(struct link_state* self) __CPROVER_requires(__CPROVER_rw_ok(self, sizeof(*self))) __CPROVER_ensures(!self->encrypted_ && self->pairing_status_ == 0) __CPROVER_assigns(self->encrypted_, self->pairing_status_)
{{ls_ctor}}
/* ---- the link layer / radio / connection data as seen by link_layer_security_impl::impl: abstract, calls recorded */
struct enc_rec { size_t set_enc_true, set_enc_false, start_rx, start_tx, stop_rx, stop_tx, commits, rejects, find_calls, changed; uint16_t find_ediv; uint64_t find_rand; uint8_t fill_a, fill_b, fill_c; uint8_t setup_key0; } G_e;
uint8_t* G_pdu_body; uint8_t* G_write_body; bool W_found, W_was_enc; uint8_t W_key0; struct rbuf G_out; bool W_alloc_ok;
static inline void fill3(struct rbuf b, uint8_t x, uint8_t y, uint8_t z) { G_e.fill_a = x; G_e.fill_b = y; G_e.fill_c = z; }
static inline struct pair_bool_u128 cd_find_key(uint16_t ediv, uint64_t rand) { struct pair_bool_u128 r; r.first = W_found; r.second.b[0] = W_key0; ++G_e.find_calls; G_e.find_ediv = ediv; G_e.find_rand = rand; return r; }
static inline struct pair_u64_u32 radio_setup_encryption(struct u128 key, uint64_t skdm, uint32_t ivm) { G_e.setup_key0 = key.b[0]; return (struct pair_u64_u32){ nondet_u64(), nondet_u32() }; }
static inline bool cd_is_encrypted(bool e) { if (e) ++G_e.set_enc_true; else ++G_e.set_enc_false; const bool ch = W_was_enc != e; return ch; }
static inline void cd_restore_bonded_cccds(void) {}
static inline void cd_update_pairing_status(void) {}
static inline void ll_connection_changed(void) { ++G_e.changed; }
static inline void radio_start_transmit_encrypted(void) { ++G_e.start_tx; }
static inline void radio_start_receive_encrypted(void) { ++G_e.start_rx; }
static inline void radio_stop_receive_encrypted(void) { ++G_e.stop_rx; }
static inline void radio_stop_transmit_encrypted(void) { ++G_e.stop_tx; }
static inline struct rbuf ll_allocate_ll_transmit_buffer(void) { return W_alloc_ok ? G_out : (struct rbuf){ 0, 0 }; }
static inline void ll_commit_ll_transmit_buffer(struct rbuf b) { ++G_e.commits; }
static inline void ll_reject(uint8_t opcode, uint8_t code, struct rbuf b) { ++G_e.rejects; }
uint8_t W_opcode, W_size; bool W_has_key, W_in_progress; uint8_t W_body[24];
/* READY: the central's LL_ENC_REQ was answered with a key found for its EDIV / Rand and LL_START_ENC_REQ has been sent */
#define READY(s) ((s)->has_key_ && !(s)->encryption_in_progress_)
#define SEC_PRE(self) (__CPROVER_is_fresh(self, sizeof(struct sec)) && (self)->has_key_ == W_has_key && (self)->encryption_in_progress_ == W_in_progress \
    && G_e.set_enc_true == 0 && G_e.set_enc_false == 0 && G_e.start_rx == 0 && G_e.start_tx == 0 && G_e.stop_rx == 0 && G_e.stop_tx == 0 && G_e.commits == 0 && G_e.rejects == 0 && G_e.find_calls == 0 && G_e.changed == 0)
void sec_ctor(struct sec* self) __CPROVER_requires(__CPROVER_is_fresh(self, sizeof(struct sec))) __CPROVER_ensures(!self->has_key_ && !self->encryption_in_progress_) __CPROVER_assigns(self->has_key_, self->encryption_in_progress_)
{{sec_ctor}}
bool handle_encryption_pdus(struct sec* self, uint8_t opcode, uint8_t size, const struct wbuf* pdu, struct rbuf write, bool* commit)
__CPROVER_requires(SEC_PRE(self) && opcode == W_opcode && size == W_size && __CPROVER_is_fresh(commit, sizeof(bool)) && __CPROVER_is_fresh(G_pdu_body, 24) && __CPROVER_is_fresh(G_write_body, 24)
    && G_pdu_body[1] == W_body[1] && G_pdu_body[8] == W_body[8] && G_pdu_body[9] == W_body[9] && G_pdu_body[10] == W_body[10])
/* the link is switched to 'encrypted' only by LL_START_ENC_RSP, and only when the encryption start procedure got that far */
__CPROVER_ensures(G_e.set_enc_true != 0 ==> (W_opcode == LL_START_ENC_RSP && W_size == 1 && W_has_key && !W_in_progress && G_e.set_enc_true == 1 && G_e.start_tx == 1))
/* LL_ENC_REQ: the key is looked up for the EDIV / Rand of the request; whether one was found decides has_key_; that key goes to the radio */
__CPROVER_ensures((W_opcode == LL_ENC_REQ && W_size == 23) ==> (__CPROVER_return_value && self->encryption_in_progress_ && self->has_key_ == W_found && G_e.find_calls == 1
    && G_e.find_ediv == (uint16_t)(W_body[9] | (W_body[10] << 8)) && (G_e.find_rand & 0xff) == W_body[1] && (G_e.find_rand >> 56) == W_body[8] && G_e.setup_key0 == W_key0
    && G_e.fill_c == LL_ENC_RSP && G_e.set_enc_true == 0 && G_e.set_enc_false == 0))
/* pausing returns the link to unencrypted and a new key has to be supplied before it can be encrypted again */
__CPROVER_ensures(((W_opcode == LL_PAUSE_ENC_REQ || W_opcode == LL_PAUSE_ENC_RSP) && W_size == 1) ==> (__CPROVER_return_value && G_e.set_enc_false == 1 && G_e.set_enc_true == 0 && !READY(self)))
/* everything else is not an encryption PDU: untouched state */
__CPROVER_ensures(!__CPROVER_return_value ==> (self->has_key_ == W_has_key && self->encryption_in_progress_ == W_in_progress && G_e.set_enc_true == 0 && G_e.set_enc_false == 0 && G_e.find_calls == 0))
/* READY is never established here */
__CPROVER_ensures(READY(self) ==> (W_has_key && !W_in_progress))
__CPROVER_assigns(self->has_key_, self->encryption_in_progress_, *commit, G_e, __CPROVER_object_upto(G_write_body, 24))
{{handle}}
void transmit_pending_security_pdus(struct sec* self)
__CPROVER_requires(SEC_PRE(self))
/* LL_START_ENC_REQ goes out only when a key was supplied for the pending request; an unknown key is rejected (PIN or key missing) and never gets READY */
__CPROVER_ensures((W_in_progress && W_alloc_ok && W_has_key) ==> (G_e.commits == 1 && G_e.rejects == 0 && G_e.start_rx == 1 && G_e.fill_c == LL_START_ENC_REQ && READY(self)))
__CPROVER_ensures((W_in_progress && W_alloc_ok && !W_has_key) ==> (G_e.commits == 1 && G_e.rejects == 1 && G_e.start_rx == 0 && !READY(self) && !self->encryption_in_progress_))
__CPROVER_ensures((!W_in_progress || !W_alloc_ok) ==> (G_e.commits == 0 && G_e.start_rx == 0 && self->has_key_ == W_has_key && self->encryption_in_progress_ == W_in_progress))
__CPROVER_ensures(G_e.set_enc_true == 0 && (READY(self) ==> W_has_key))
__CPROVER_assigns(self->encryption_in_progress_, G_e)
{{transmit}}
/* disconnect / new connection: unencrypted, and no stale 'key supplied' state survives */
void reset_encryption(struct sec* self)
__CPROVER_requires(SEC_PRE(self))
__CPROVER_ensures(G_e.set_enc_false == 1 && G_e.set_enc_true == 0 && G_e.stop_rx == 1 && G_e.stop_tx == 1 && !READY(self))
__CPROVER_assigns(self->has_key_, self->encryption_in_progress_, G_e)
{{reset}}
#define SETUP struct sec* s; W_opcode = nondet_u8(); W_size = nondet_u8(); W_has_key = nondet_bool(); W_in_progress = nondet_bool(); W_found = nondet_bool(); W_was_enc = nondet_bool(); W_key0 = nondet_u8(); W_alloc_ok = nondet_bool(); \
  for (int k = 0; k < 24; ++k) W_body[k] = nondet_u8(); static uint8_t outmem[32]; G_out.buffer = outmem; G_out.size = 29; G_e = (struct enc_rec){ 0 }; BT_KNOWN_EXCLUDE()
void h_sec_ctor(void) { SETUP; sec_ctor(s); BT_CANARY(); }
void h_handle_encryption_pdus(void) { SETUP; struct wbuf p; struct rbuf w; w.buffer = outmem; w.size = 29; bool* c; handle_encryption_pdus(s, W_opcode, W_size, &p, w, c); BT_CANARY(); }
void h_transmit_pending_security_pdus(void) { SETUP; transmit_pending_security_pdus(s); BT_CANARY(); }
void h_reset_encryption(void) { SETUP; reset_encryption(s); BT_CANARY(); }
void h_ls_is_encrypted(void) { SETUP; struct link_state l; l.encrypted_ = nondet_bool(); ls_is_encrypted(&l); BT_CANARY(); }
void h_ls_set_encrypted(void) { SETUP; struct link_state l; l.encrypted_ = nondet_bool(); ls_set_encrypted(&l, nondet_bool()); BT_CANARY(); }
void h_ls_ctor(void) { SETUP; struct link_state l; ls_ctor(&l); BT_CANARY(); }
'''
UNITS = [
    dict(name='encryption_control', extracts=EX, code=CODE,
         enforce=['sec_ctor', 'handle_encryption_pdus', 'transmit_pending_security_pdus', 'reset_encryption', 'ls_is_encrypted', 'ls_set_encrypted', 'ls_ctor'], replace=[],
         replay=dict(src='replay/c28_replay.cpp', cxxflags=['-DNDEBUG', '-I/repo/tests/test_tools', '-I/repo/tests/link_layer'],
                     repo_sources=['tests/test_tools/test_radio.cpp', 'tests/test_tools/hexdump.cpp', 'tests/test_tools/buffer_io.cpp', 'tests/test_tools/address_io.cpp',
                                   'bluetoe/link_layer/delta_time.cpp', 'bluetoe/link_layer/channel_map.cpp', 'bluetoe/link_layer/connection_details.cpp', 'bluetoe/utility/address.cpp'])),
]
META = dict(
    level='proof',
    explanation="link_layer_security_impl::impl (link_layer.hpp: constructor, handle_encryption_pdus, transmit_pending_security_pdus, reset_encryption) and "
                "link_state (is_encrypted getter / setter, constructor) are extracted and proved for every opcode, size, PDU content and state. With READY := "
                "has_key_ && !encryption_in_progress_: (1) connection_data_.is_encrypted( true ) is called only for LL_START_ENC_RSP of size 1 in state READY; "
                "(2) READY is established only by transmit_pending_security_pdus, only when has_key_ was set, and exactly then LL_START_ENC_REQ is committed and "
                "reception switched to encrypted; without a key LL_REJECT_EXT_IND( LL_ENC_REQ, PIN or key missing ) is committed and READY does not hold; (3) has_key_ is "
                "set only by LL_ENC_REQ (size 23) to the result of connection_data_.find_key( EDIV, Rand ) with EDIV / Rand decoded from octets 9..10 / 1..8 of that PDU, "
                "and that key is the one handed to the radio's setup_encryption; (4) LL_PAUSE_ENC_REQ / LL_PAUSE_ENC_RSP and reset_encryption() call is_encrypted( false ) "
                "and leave !READY; (5) any other PDU leaves the state untouched; a new link state starts unencrypted. Induction over any PDU history from (1)-(5): "
                "encrypted => a key was supplied for the last LL_ENC_REQ and LL_START_ENC_REQ was sent.",
    assumptions=["the induction over histories is the usual invariant argument over the four contracts (each establishes / preserves 'READY => key supplied for the pending "
                 "request'); it is not itself a CBMC obligation",
                 "connection_data_.find_key is the security manager's / bond data base's (C33); its result is a symbolic pair here",
                 "the link layer calls reset_encryption() on disconnect / new connection (call sites read, not proved)",
                 "that encryption protected attributes consult link_state::is_encrypted via security_attributes() is C05's part"],
    trusted_base=["radio (setup_encryption, start/stop_receive/transmit_encrypted), fill< layout >, layout::body: abstract, calls recorded"],
)
