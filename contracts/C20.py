"""C20 Data channel selection follows Channel Selection Algorithm #1."""
CM = 'bluetoe/link_layer/channel_map.cpp'
CMH = 'bluetoe/link_layer/include/bluetoe/channel_map.hpp'
CLS = r'class channel_map\b'

BASE = dict(
    maxch=dict(kind='expr', file=CMH, scope=CLS, locate=r'static constexpr unsigned max_number_of_data_channels\s*='),
    fields=dict(kind='fields', file=CMH, scope=CLS, names=['map_', 'hop_']),
    in_map=dict(file=CM, locate=r'static bool in_map\( const std::uint8_t\* map, unsigned index \)'),
)
HEAD = r'''
#define max_number_of_data_channels ({{maxch}})
struct chmap { {{fields}} };
uint8_t W_map[5]; unsigned W_hop, W_index; uint8_t W_hop_; unsigned G_i, G_u;
/* Core spec Vol 6 Part B 4.5.8.2 (Channel Selection Algorithm #1), as a relation:
     unmapped = (hop * (idx + 1)) mod 37
     used(unmapped)  -> channel = unmapped
     otherwise       -> channel = the (unmapped mod numUsed)-th used channel, counted in ascending order */
#define MAP64(m)        ((uint64_t)(m)[0] | ((uint64_t)(m)[1] << 8) | ((uint64_t)(m)[2] << 16) | ((uint64_t)(m)[3] << 24) | ((uint64_t)(m)[4] << 32))
#define USED(m, c)      ((MAP64(m) >> (c)) & 1u)
#define RANK(m, c)      ((unsigned)__builtin_popcountll(MAP64(m) & ((1ull << (c)) - 1ull)))   /* used channels below c */
#define NUM_USED(m)     RANK(m, 37)
#define UNMAPPED(hop, idx) (((hop) * ((idx) + 1u)) % 37u)
#define CSA1_OK(m, hop, idx, ch) ((ch) < 37u && USED(m, ch) && \
        (USED(m, UNMAPPED(hop, idx)) ? (ch) == UNMAPPED(hop, idx) : RANK(m, ch) == UNMAPPED(hop, idx) % NUM_USED(m)))
#define MAP_FRESH(map)  (__CPROVER_is_fresh(map, 5) && map[0] == W_map[0] && map[1] == W_map[1] && map[2] == W_map[2] && map[3] == W_map[3] && map[4] == W_map[4])

bool in_map(const uint8_t* map, unsigned index)
__CPROVER_requires(__CPROVER_r_ok(map, 5) && index < 40u)
__CPROVER_ensures(__CPROVER_return_value == (USED(map, index) != 0))
__CPROVER_assigns()
'''
BUILD_DECL = r'''
unsigned build_used_channel_map(const struct chmap* self, const uint8_t* map, uint8_t* used)
__CPROVER_requires(__CPROVER_r_ok(map, 5) && __CPROVER_rw_ok(used, 37) && G_u < 37u)
__CPROVER_ensures(__CPROVER_return_value == NUM_USED(map))
/* used[k] is the k-th used channel in ascending order (stated for the ghost position G_u) */
__CPROVER_ensures(G_u < __CPROVER_return_value ==> (used[G_u] < 37u && USED(map, used[G_u]) && RANK(map, used[G_u]) == G_u))
__CPROVER_assigns(__CPROVER_object_upto(used, 37))
'''
BUILD = dict(file=CM, locate=r'unsigned channel_map::build_used_channel_map\( const std::uint8_t\* map, std::uint8_t\* used \) const',
             loops=[dict(header=r'for \( unsigned channel = 0;', contract='''
    __CPROVER_assigns(channel, count, __CPROVER_object_upto(used, 37))
    __CPROVER_loop_invariant(channel <= 37u && count <= channel && count == RANK(map, channel))
    __CPROVER_loop_invariant(G_u < count ==> (used[G_u] < channel && USED(map, used[G_u]) && RANK(map, used[G_u]) == G_u))
    __CPROVER_decreases(37u - channel)''')])

SETUP = r'''
#define SETUP struct chmap* s; uint8_t* m; for (int k = 0; k < 5; ++k) W_map[k] = nondet_u8(); W_hop = nondet_unsigned(); W_index = nondet_unsigned(); \
   W_hop_ = nondet_u8(); G_i = nondet_unsigned(); G_u = nondet_unsigned(); BT_KNOWN_EXCLUDE()
'''

UNITS = [
    dict(name='in_map_build',
         extracts=dict(BASE, build=BUILD),
         code=HEAD + '{{in_map}}' + BUILD_DECL + '{{build}}' + SETUP + r'''
void h_in_map(void) { SETUP; in_map(W_map, W_index); BT_CANARY(); }
void h_build_used_channel_map(void) { SETUP; uint8_t used[37]; build_used_channel_map(s, W_map, used); BT_CANARY(); }
''', enforce=['in_map', 'build_used_channel_map'], replace=['in_map'], replay=dict(src='replay/c20_replay.cpp', repo_sources=['bluetoe/link_layer/channel_map.cpp'])),

    dict(name='reset',
         extracts=dict({k: v for k, v in BASE.items() if k != 'in_map'},
                       reset=dict(file=CM, locate=r'bool channel_map::reset\( const std::uint8_t\* map, const unsigned hop \)',
                                  rules=[(r'build_used_channel_map\( map, used_channels \)', 'build_used_channel_map( self, map, used_channels )', 1)],
                                  loops=[dict(header=r'for \( unsigned index = 0, channel = hop;', contract='''
    __CPROVER_assigns(index, channel, __CPROVER_object_upto(self->map_, 37))
    __CPROVER_loop_invariant(index <= 37u && channel == UNMAPPED(hop, index) && used_channels_count == NUM_USED(map))
    __CPROVER_loop_invariant(G_i < index ==> CSA1_OK(map, hop, G_i, self->map_[G_i]))
    __CPROVER_loop_invariant(G_i >= index ==> self->map_[G_i] == G_old_at_i)
    __CPROVER_loop_invariant(G_u < used_channels_count ==> (used_channels[G_u] < 37u && USED(map, used_channels[G_u]) && RANK(map, used_channels[G_u]) == G_u))
    __CPROVER_decreases(37u - index)''')]),
                       reset1=dict(file=CM, locate=r'bool channel_map::reset\( const std::uint8_t\* map \)',
                                   rules=[(r'reset\( map, self->hop_ \)', 'reset( self, map, self->hop_ )', 1)]),
                       data_channel=dict(file=CM, locate=r'unsigned channel_map::data_channel\( unsigned index \) const'),
                       ctor=dict(file=CM, locate=r'channel_map::channel_map\(\)', init_list=True)),
         code=HEAD + ';' + BUILD_DECL + ';' + SETUP + r'''
uint8_t G_old_at_i;
#define RESET_VALID(map, hop) ((hop) >= 5u && (hop) <= 16u && NUM_USED(map) >= 2u)
bool reset(struct chmap* self, const uint8_t* map, const unsigned hop)
__CPROVER_requires(__CPROVER_is_fresh(self, sizeof(*self)) && MAP_FRESH(map) && G_i < 37u)
__CPROVER_requires(WIT(reset, hop == W_hop && self->hop_ == W_hop_))
__CPROVER_requires(G_old_at_i == self->map_[G_i])
/* the ghost position of the used-channel table that the event G_i will need */
__CPROVER_requires(G_u == (NUM_USED(map) >= 2u ? UNMAPPED(hop, G_i) % NUM_USED(map) : 0u))
/* not applied: invalid hop or fewer than two used channels */
__CPROVER_ensures(__CPROVER_return_value == RESET_VALID(map, hop))
__CPROVER_ensures(!__CPROVER_return_value ==> self->map_[G_i] == G_old_at_i)
/* applied: every connection event index maps to the CSA#1 channel */
__CPROVER_ensures(__CPROVER_return_value ==> (CSA1_OK(map, hop, G_i, self->map_[G_i]) && self->hop_ == hop))
__CPROVER_assigns(self->hop_, __CPROVER_object_upto(self->map_, 37))
{{reset}}
/* channel map update: same algorithm with the hop of the connection */
bool reset1(struct chmap* self, const uint8_t* map)
__CPROVER_requires(__CPROVER_is_fresh(self, sizeof(*self)) && MAP_FRESH(map) && G_i < 37u && self->hop_ == W_hop_)
__CPROVER_requires(G_old_at_i == self->map_[G_i])
__CPROVER_requires(G_u == (NUM_USED(map) >= 2u ? UNMAPPED(self->hop_, G_i) % NUM_USED(map) : 0u))
__CPROVER_ensures(__CPROVER_return_value == RESET_VALID(map, W_hop_))
__CPROVER_ensures(!__CPROVER_return_value ==> self->map_[G_i] == G_old_at_i)
__CPROVER_ensures(__CPROVER_return_value ==> (CSA1_OK(map, W_hop_, G_i, self->map_[G_i]) && self->hop_ == W_hop_))
__CPROVER_assigns(self->hop_, __CPROVER_object_upto(self->map_, 37))
{{reset1}}
unsigned data_channel(const struct chmap* self, unsigned index)
__CPROVER_requires(__CPROVER_is_fresh(self, sizeof(*self)) && index < 37u && index == W_index)
__CPROVER_ensures(__CPROVER_return_value == self->map_[index])
__CPROVER_assigns()
{{data_channel}}
void chmap_ctor(struct chmap* self)
__CPROVER_requires(__CPROVER_is_fresh(self, sizeof(*self)))
__CPROVER_ensures(self->hop_ == 0)
__CPROVER_assigns(self->hop_)
{{ctor}}
void h_reset(void) { SETUP; G_old_at_i = nondet_u8(); reset(s, m, W_hop); BT_CANARY(); }
void h_reset1(void) { SETUP; G_old_at_i = nondet_u8(); reset1(s, m); BT_CANARY(); }
void h_data_channel(void) { SETUP; data_channel(s, W_index); BT_CANARY(); }
void h_chmap_ctor(void) { SETUP; chmap_ctor(s); BT_CANARY(); }
''', enforce=['reset', 'reset1', 'data_channel', 'chmap_ctor'], replace=['build_used_channel_map', 'in_map', 'reset'],
         timeout=900, replay=dict(src='replay/c20_replay.cpp', repo_sources=['bluetoe/link_layer/channel_map.cpp'])),
]

# event counter -> table index: channel_index_ advances with event_counter_ modulo 37 (contracts stated in C23.py); a change that
# desynchronises them breaks "for every event counter the data channel equals CSA#1" just as a wrong table does
import os, importlib.util as _ilu
def _load(name):
    sp = _ilu.spec_from_file_location(name, os.path.join(os.path.dirname(__file__), name + '.py'))
    m = _ilu.module_from_spec(sp); sp.loader.exec_module(m); return m
UNITS += [dict(u, name='channel_index') for u in _load('C23').UNITS if u['name'] == 'plan_next']

META = dict(
    level='proof',
    explanation="channel_map.cpp's in_map, build_used_channel_map, reset(map,hop), reset(map), data_channel and the constructor are extracted and "
                "proved for all 2^40 map byte values, all hop values and every event index (ghost index, loop contracts on both loops, no "
                "unwinding): reset returns false exactly for hop outside 5..16 or fewer than two used channels and then leaves the table "
                "unchanged; otherwise table[idx] is the Core specification's Channel Selection Algorithm #1 channel for (map, hop, idx), "
                "stated as a relation over popcounts (the remapping index is the rank of the chosen channel among the used ones).",
    assumptions=["the oracle is CSA#1 as written in this file from Core spec Vol 6 Part B 4.5.8.2",
                 "that adv_received / handle_pending_ll_control do not use the map after reset() returned false is covered in C21/C22 call-site contracts, not here",
                 "event counter -> table index: unit channel_index re-runs the C23 contracts of plan_next_connection_event / ..._after_timeout / reset_connection_state / peripheral_latency_move_connection_event (channel_index_new == (channel_index_old + k) mod 37 for the k the event counter advanced by)"],
    trusted_base=[],
)
