"""Shared extraction specs (code that many properties depend on)."""
BITS = 'bluetoe/utility/include/bluetoe/bits.hpp'

BITS_EXTRACTS = {
    'bits_read_handle': dict(file=BITS, locate=r'constexpr std::uint16_t read_handle\( const std::uint8_t\* h \)'),
    'bits_read_16bit': dict(file=BITS, locate=r'constexpr std::uint16_t read_16bit\( const std::uint8_t\* h \)'),
    'bits_write_handle': dict(file=BITS, locate=r'inline std::uint8_t\* write_handle\( std::uint8_t\* out, std::uint16_t handle \)'),
    'bits_write_16bit': dict(file=BITS, locate=r'inline std::uint8_t\* write_16bit\( std::uint8_t\* out, std::uint16_t bits16 \)'),
}

# real bodies from bits.hpp; inlined at their call sites (no contract replacement needed: they are leaf functions)
BITS_CODE = r'''
uint16_t read_handle(const uint8_t* h) {{bits_read_handle}}
uint16_t read_16bit(const uint8_t* h) {{bits_read_16bit}}
uint8_t* write_handle(uint8_t* out, uint16_t handle) {{bits_write_handle}}
uint8_t* write_16bit(uint8_t* out, uint16_t bits16) {{bits_write_16bit}}
'''

BITS32_EXTRACTS = dict(BITS_EXTRACTS,
    bits_read_32bit=dict(file=BITS, locate=r'constexpr std::uint32_t read_32bit\( const std::uint8_t\* p \)'),
    bits_write_32bit=dict(file=BITS, locate=r'inline std::uint8_t\* write_32bit\( std::uint8_t\* out, std::uint32_t bits32 \)'),
    bits_write_byte=dict(file=BITS, locate=r'inline std::uint8_t\* write_byte\( std::uint8_t\* out, std::uint8_t byte \)'),
)
BITS32_CODE = BITS_CODE + r'''
uint32_t read_32bit(const uint8_t* p) {{bits_read_32bit}}
uint8_t* write_32bit(uint8_t* out, uint32_t bits32) {{bits_write_32bit}}
uint8_t* write_byte(uint8_t* out, uint8_t byte) {{bits_write_byte}}
'''


def _split_args(s):
    parts, depth, cur = [], 0, []
    for ch in s:
        if ch in '([{':
            depth += 1
        elif ch in ')]}':
            depth -= 1
        if ch == ',' and depth == 0:
            parts.append(''.join(cur).strip()); cur = []
        else:
            cur.append(ch)
    parts.append(''.join(cur).strip())
    return parts


def _copy_repl(m):
    a = _split_args(m.group(1))
    if len(a) != 3:
        raise ValueError("std::copy with %d arguments" % len(a))
    return 'bt_copy_u8( %s, (size_t)(( %s ) - ( %s )), %s );' % (a[0], a[1], a[0], a[2])


# std::copy( first, last, out ); on byte pointers  ->  bt_copy_u8( first, last - first, out );  (prelude, contract enforced on its own body)
def COPY_RULE(n):
    return (r'std::copy\( ((?:[^;])*?) \);', _copy_repl, n)
