"""C37 Security toolbox functions compute the specified cryptography (byte layouts over an uninterpreted AES-128)."""
import os, sys
sys.path.insert(0, os.path.dirname(__file__))
from common import BITS32_EXTRACTS, BITS32_CODE, _split_args
def _rev_repl(m):
    a = _split_args(m.group(1))
    if len(a) != 3:
        raise ValueError('std::reverse_copy with %d arguments' % len(a))
    return 'bt_reverse_copy_small( %s, %s, %s );' % (a[0], a[1], a[2].replace('key.begin()', 'key.b'))
STB = 'bluetoe/bindings/nordic/nrf52/security_tool_box.cpp'
U128 = r'(?:const )?(?:bluetoe::)?details::uint128_t|(?:const )?std::array< std::uint8_t, 16 >'
# overloads get distinct C names; names ending in '_' would be taken for members
PRE = [(r'\bxor_\( ', 'xor128( ', '*'), (r'\bp1_\b', 'p1x', '*'),
       (r'static struct alignas\( 4 \) ecb_data_t \{', 'static struct ecb_data_t {', '*'),
       (r'nrf_aes->ECBDATAPTR = reinterpret_cast< std::uint32_t >\( &ecb_scratch_data\.data\[ 0 \] \);', 'hw_ecb_set_data_ptr( &ecb_scratch_data.data[ 0 ] );', '*'),
       (r'nrf_aes->TASKS_STARTECB = 1;\s*while \( !nrf_aes->EVENTS_ENDECB && !nrf_aes->EVENTS_ERRORECB \)\s*;', 'hw_ecb_run();', '*'),
       (r'assert\( !nrf_aes->EVENTS_ERRORECB \);', '', '*'), (r'nrf_aes->EVENTS_ENDECB = 0;', '', '*'),
       (r'std::copy\( key\.rbegin\(\), key\.rend\(\), (&ecb_scratch_data\.data\[ 0 \]) \);', r'bt_reverse16( key.b, \1 );', '*'),
       (r'std::reverse_copy\( data, data \+ 16, (&ecb_scratch_data\.data\[ 16 \]) \);', r'bt_reverse16( data, \1 );', '*'),
       (r'std::copy\( (&ecb_scratch_data\.data\[ 32 \]), &ecb_scratch_data\.data\[ 48 \], result\.rbegin\(\) \);', r'bt_reverse16( \1, result.b );', '*'),
       (r'std::fill\( (&ecb_scratch_data\.data\[ 0 \]), &ecb_scratch_data\.data\[ 16 \], 0 \);', r'bt_fill16( \1, 0 );', '*'),
       # std::transform( a.begin(), a.end(), b, a.begin(), []( x, y ) { return x xor y; } )
       (r'std::transform\(\s*a\.begin\(\), a\.end\(\),\s*b,\s*a\.begin\(\),\s*\[\]\( std::uint8_t x, std::uint8_t y \) -> std::uint8_t\s*\{\s*return x xor y;\s*\}\s*\);', 'BT_TRANSFORM16( a.b, b, a.b, x, y, x ^ y );', '*'),
       (r'std::copy\( &(\w+)\[ 0 \], &\1\[ 8 \], &r\[ (\d) \] \);', r'bt_copy_small( &\1.b[ 0 ], 8, &r.b[ \2 ] );', '*'),
       (r'std::copy\( std::begin\( (\w+) \), std::end\( \1 \), ([^;]*?) \);', r'bt_copy_small( \1, sizeof( \1 ), \2 );', '*'),
       (r'std::copy\( (nonce_\w+)\.begin\(\), \1\.end\(\), ([^;]*?) \);', r'bt_copy_small( \1.b, 16, \2 );', '*'),
       (r'std::copy\( io_caps\.begin\(\), io_caps\.end\(\), ([^;]*?) \);', r'bt_copy_small( io_caps.b, 3, \1 );', '*'),
       (r'std::copy\( (addr_\w+)\.begin\(\), \1\.end\(\), ([^;]*?) \);', r'bt_copy_small( \1.value_, 6, \2 );', '*'),
       (r'(addr_\w+)\.is_random\(\)', r'\1.is_random_', '*'),
       (r'std::reverse_copy\(((?:[^;])*?public_key(?:[^;])*?)\);', _rev_repl, '*'),
       (r'uECC_valid_public_key\( key\.data\(\) \)', 'uECC_valid_public_key( key.b )', '*'),
       (r'bluetoe::details::ecdh_public_key_t key;', 'struct u512 key;', '*'),
       (r'bluetoe::details::uint128_t\b', 'struct u128', '*'), (r'details::uint128_t\b', 'struct u128', '*'),
       (r'\b(k0|k1)\.back\(\)', r'\1.b[ 15 ]', '*'), (r'input\.size\(\)', '16u', '*'), (r'assert\(16u == output\.size\(\)\);', '', '*'),
       (r'\b(input|output)\[ ?i ?\]', r'\1.b[ i ]', '*'),
       (r'return aes_le\( key, data\.data\(\) \);', 'return aes_le_p( key, data.b );', '*'), (r'return xor128\( a, b\.data\(\) \);', 'return xor128_p( a, b.b );', '*'),
       (r'&dh_key\[ (\d+) \]', r'&dh_key.b[ \1 ]', '*'),
       (r'return \{ mac_key, ltk \};', 'return (struct pair_u128){ mac_key, ltk };', '*'),
       (r'bluetoe::details::read_32bit\( t4\.begin\(\) \)', 'read_32bit( t4.b )', '*'),
       # overload resolution by argument type: a pointer as second argument selects the pointer overload
       (r'aes_le\( (\w+), (&[\w.]+\[ ?\d+ ?\]|u \+ 16|m0) \)', r'aes_le_p( \1, \2 )', '*'),
       (r'xor128\( (t\d), (&\w+\[ ?\d+ ?\]|u|v|v \+ 16|m1|m2|m3|m4) \)', r'xor128_p( \1, \2 )', '*'),
       (r'xor128\( (aes_cmac_k\d_subkey_generation\( \w+ \)), (&dh_key\.b\[ 0 \]|m3|m4) \)', r'xor128_p( \1, \2 )', '*')]
PRE_F4 = [r for r in PRE if 'aes_cmac_k\\d_subkey_generation' not in r[0]]   # in f4 the last block m4 is an array object, in f6 a pointer
def F(sig, **kw):
    d = dict(file=STB, locate=sig, pre=PRE); d.update(kw); return d
EX = dict(BITS32_EXTRACTS,
    aes_le_p=F(r'static bluetoe::details::uint128_t aes_le\( const bluetoe::details::uint128_t& key, const std::uint8_t\* data \)'),
    aes_le=F(r'(?<!static )bluetoe::details::uint128_t aes_le\( const bluetoe::details::uint128_t& key, const bluetoe::details::uint128_t& data \)'),
    xor_p=F(r'static bluetoe::details::uint128_t xor_\( bluetoe::details::uint128_t a, const std::uint8_t\* b \)'),
    xor_=F(r'static bluetoe::details::uint128_t xor_\( bluetoe::details::uint128_t a, const bluetoe::details::uint128_t& b \)'),
    c1=F(r'bluetoe::details::uint128_t security_tool_box::c1\(\s*const bluetoe::details::uint128_t& temp_key,\s*const bluetoe::details::uint128_t& rand,\s*const bluetoe::details::uint128_t& p1,\s*const bluetoe::details::uint128_t& p2 \) const'),
    s1=F(r'bluetoe::details::uint128_t security_tool_box::s1\(\s*const bluetoe::details::uint128_t& temp_key,\s*const bluetoe::details::uint128_t& srand,\s*const bluetoe::details::uint128_t& mrand \)'),
    valid_key=F(r'bool security_tool_box::is_valid_public_key\( const std::uint8_t\* public_key \) const'),
    left_shift=F(r'static bluetoe::details::uint128_t left_shift\(const bluetoe::details::uint128_t& input\)', loops=[dict(header=r'for \( size_t i = 0; i != 16u; \+\+i \)', contract="""
    __CPROVER_assigns(i, overflow, __CPROVER_object_upto(output.b, 16))
    __CPROVER_loop_invariant(i <= 16 && (VAL(output) & MASK(i)) == ((VAL(input) << 1) & MASK(i)) && overflow == (i == 0 ? 0 : (uint8_t)((VAL(input) >> (8 * i - 1)) & 1)))
    __CPROVER_decreases(16 - i)""")]),
    k1=F(r'static bluetoe::details::uint128_t aes_cmac_k1_subkey_generation\( const bluetoe::details::uint128_t& key \)'),
    k2=F(r'static bluetoe::details::uint128_t aes_cmac_k2_subkey_generation\( const bluetoe::details::uint128_t& key \)'),
    f4=F(r'bluetoe::details::uint128_t security_tool_box::f4\( const std::uint8_t\* u, const std::uint8_t\* v, const std::array< std::uint8_t, 16 >& k, std::uint8_t z \)', pre=PRE_F4),
    f5_cmac=F(r'static bluetoe::details::uint128_t f5_cmac\(\s*const bluetoe::details::uint128_t& key,\s*const std::uint8_t\* buffer \)'),
    f5_key=F(r'static bluetoe::details::uint128_t f5_key\( const bluetoe::details::ecdh_shared_secret_t dh_key \)'),
    f5=F(r'std::pair< bluetoe::details::uint128_t, bluetoe::details::uint128_t > security_tool_box::f5\(\s*const bluetoe::details::ecdh_shared_secret_t dh_key,\s*const bluetoe::details::uint128_t& nonce_central,\s*const bluetoe::details::uint128_t& nonce_periperal,\s*const bluetoe::link_layer::device_address& addr_controller,\s*const bluetoe::link_layer::device_address& addr_peripheral \)'),
    f6=F(r'bluetoe::details::uint128_t security_tool_box::f6\(\s*const bluetoe::details::uint128_t& key,\s*const bluetoe::details::uint128_t& n1,\s*const bluetoe::details::uint128_t& n2,\s*const bluetoe::details::uint128_t& r,\s*const bluetoe::details::io_capabilities_t& io_caps,\s*const bluetoe::link_layer::device_address& addr_controller,\s*const bluetoe::link_layer::device_address& addr_peripheral \)'),
    g2=F(r'std::uint32_t security_tool_box::g2\(\s*const std::uint8_t\*\s+u,\s*const std::uint8_t\*\s+v,\s*const bluetoe::details::uint128_t&\s+x,\s*const bluetoe::details::uint128_t&\s+y \)'),
)
N52C = 'bluetoe/bindings/nordic/nrf52/nrf52.cpp'
BITS = 'bluetoe/utility/include/bluetoe/bits.hpp'
EX['write_64'] = dict(file=BITS, locate=r'inline std::uint8_t\* write_64bit\( std::uint8_t\* out, std::uint64_t bits64 \)')
EX['setup_encryption'] = dict(file=N52C, locate=r'std::pair< std::uint64_t, std::uint32_t > radio_hardware_with_crypto_support::setup_encryption\( bluetoe::details::uint128_t key, std::uint64_t skdm, std::uint32_t ivm \)',
    pre=[(r'bluetoe::details::uint128_t session_descriminator;', 'struct u128 session_descriminator;', 1), (r'details::write_64bit\( &session_descriminator\[ (\d) \], ', r'write_64bit( &session_descriminator.b[ \1 ], ', 2),
         (r'return \{ skds, ivs \};', 'return (struct pair_u64_u32){ skds, ivs };', 1)])
CODE = BITS32_CODE + r'''
typedef unsigned __int128 u128_t;
struct u128 { uint8_t b[16]; }; struct u256 { uint8_t b[32]; }; struct u512 { uint8_t b[64]; }; struct u24 { uint8_t b[3]; };
struct pair_u128 { struct u128 first; struct u128 second; };
struct device_address { uint8_t value_[6]; bool is_random_; };
#define B(p, i) ((u128_t)(p)[i] << (8 * (i)))
/* numeric value of 16 octets, least significant octet first (the order every function above the link layer uses) ... */
#define VALP(p) (B(p,0)|B(p,1)|B(p,2)|B(p,3)|B(p,4)|B(p,5)|B(p,6)|B(p,7)|B(p,8)|B(p,9)|B(p,10)|B(p,11)|B(p,12)|B(p,13)|B(p,14)|B(p,15))
#define VAL(x) VALP((x).b)
/* ... and most significant octet first (the order the ECB peripheral uses) */
#define BB(p, i) ((u128_t)(p)[i] << (8 * (15 - (i))))
#define VALBE(p) (BB(p,0)|BB(p,1)|BB(p,2)|BB(p,3)|BB(p,4)|BB(p,5)|BB(p,6)|BB(p,7)|BB(p,8)|BB(p,9)|BB(p,10)|BB(p,11)|BB(p,12)|BB(p,13)|BB(p,14)|BB(p,15))
#define MASK(i) ((i) >= 16 ? ~(u128_t)0 : (((u128_t)1 << (8 * (i))) - 1))
/* AES-128 encryption e( key, plaintext ) of the Core specification: uninterpreted */
u128_t __CPROVER_uninterpreted_aes(u128_t key, u128_t data);
#define AES(k, d) __CPROVER_uninterpreted_aes(k, d)
/* RFC 4493 subkeys */
#define SUBKEY(l) (((l) << 1) ^ ((((l) >> 127) & 1) ? (u128_t)0x87 : (u128_t)0))
#define K1(k) SUBKEY(AES(k, (u128_t)0))
#define K2(k) SUBKEY(K1(k))
/* ---- stand-ins for <algorithm> on short constant ranges (straight line, no loops) */
static inline void bt_reverse16(const uint8_t* s, uint8_t* d) { d[0]=s[15]; d[1]=s[14]; d[2]=s[13]; d[3]=s[12]; d[4]=s[11]; d[5]=s[10]; d[6]=s[9]; d[7]=s[8]; d[8]=s[7]; d[9]=s[6]; d[10]=s[5]; d[11]=s[4]; d[12]=s[3]; d[13]=s[2]; d[14]=s[1]; d[15]=s[0]; }
#define RC(k) if (n > k) out[k] = first[n - 1 - k];
static inline void bt_reverse_copy_small(const uint8_t* first, const uint8_t* last, uint8_t* out) { const size_t n = (size_t)(last - first); __CPROVER_assert(n <= 32, "bt_reverse_copy_small: at most 32 octets");
  RC(0) RC(1) RC(2) RC(3) RC(4) RC(5) RC(6) RC(7) RC(8) RC(9) RC(10) RC(11) RC(12) RC(13) RC(14) RC(15) RC(16) RC(17) RC(18) RC(19) RC(20) RC(21) RC(22) RC(23) RC(24) RC(25) RC(26) RC(27) RC(28) RC(29) RC(30) RC(31) }
static inline void bt_fill16(uint8_t* d, uint8_t v) { d[0]=v; d[1]=v; d[2]=v; d[3]=v; d[4]=v; d[5]=v; d[6]=v; d[7]=v; d[8]=v; d[9]=v; d[10]=v; d[11]=v; d[12]=v; d[13]=v; d[14]=v; d[15]=v; }
#define CP(k) if (n > k) out[k] = first[k];
static inline void bt_copy_small(const uint8_t* first, size_t n, uint8_t* out) { __CPROVER_assert(n <= 16, "bt_copy_small: at most 16 octets"); CP(0) CP(1) CP(2) CP(3) CP(4) CP(5) CP(6) CP(7) CP(8) CP(9) CP(10) CP(11) CP(12) CP(13) CP(14) CP(15) }
#define T1(i, a, b, d, x, y, e) { const uint8_t x = (a)[i]; const uint8_t y = (b)[i]; (d)[i] = (uint8_t)(e); }
#define BT_TRANSFORM16(a, b, d, x, y, e) { T1(0,a,b,d,x,y,e) T1(1,a,b,d,x,y,e) T1(2,a,b,d,x,y,e) T1(3,a,b,d,x,y,e) T1(4,a,b,d,x,y,e) T1(5,a,b,d,x,y,e) T1(6,a,b,d,x,y,e) T1(7,a,b,d,x,y,e) \
   T1(8,a,b,d,x,y,e) T1(9,a,b,d,x,y,e) T1(10,a,b,d,x,y,e) T1(11,a,b,d,x,y,e) T1(12,a,b,d,x,y,e) T1(13,a,b,d,x,y,e) T1(14,a,b,d,x,y,e) T1(15,a,b,d,x,y,e) }
/* ---- the ECB peripheral: ciphertext (octets 32..47) = AES( key (octets 0..15), cleartext (octets 16..31) ), all three most significant octet first */
uint8_t* G_ecb_ptr;
static inline void hw_ecb_set_data_ptr(uint8_t* p) { G_ecb_ptr = p; }
void hw_ecb_run(void)
__CPROVER_requires(__CPROVER_rw_ok(G_ecb_ptr, 48))
__CPROVER_ensures(VALBE(G_ecb_ptr + 32) == AES(VALBE(G_ecb_ptr), VALBE(G_ecb_ptr + 16)))
__CPROVER_assigns(__CPROVER_object_upto(G_ecb_ptr + 32, 16));
/* ---- uECC (external): abstract, argument recorded */
uint8_t G_uecc_arg[64]; int W_uecc_result;
int uECC_valid_public_key(const uint8_t* k) __CPROVER_requires(__CPROVER_r_ok(k, 64))
__CPROVER_ensures(__CPROVER_return_value == W_uecc_result && VALP(G_uecc_arg) == VALP(k) && VALP(G_uecc_arg + 16) == VALP(k + 16) && VALP(G_uecc_arg + 32) == VALP(k + 32) && VALP(G_uecc_arg + 48) == VALP(k + 48))
__CPROVER_assigns(__CPROVER_object_whole(G_uecc_arg));

/* ---- e( key, data ) on little endian operands */
struct u128 aes_le_p(struct u128 key, const uint8_t* data)
__CPROVER_requires(__CPROVER_r_ok(data, 16))
__CPROVER_ensures(VAL(__CPROVER_return_value) == AES(VAL(key), VALP(data)))
__CPROVER_assigns(G_ecb_ptr)
{{aes_le_p}}
struct u128 aes_le(struct u128 key, struct u128 data)
__CPROVER_ensures(VAL(__CPROVER_return_value) == AES(VAL(key), VAL(data)))
__CPROVER_assigns(G_ecb_ptr)
{{aes_le}}
struct u128 xor128_p(struct u128 a, const uint8_t* b)
__CPROVER_requires(__CPROVER_r_ok(b, 16))
__CPROVER_ensures(VAL(__CPROVER_return_value) == (VAL(a) ^ VALP(b)))
__CPROVER_assigns()
{{xor_p}}
struct u128 xor128(struct u128 a, struct u128 b)
__CPROVER_ensures(VAL(__CPROVER_return_value) == (VAL(a) ^ VAL(b)))
__CPROVER_assigns()
{{xor_}}
/* ---- legacy pairing: c1 = e( k, e( k, r XOR p1 ) XOR p2 );  s1 = e( k, r1'[63..0] || r2'[63..0] ) */
struct u128 c1(struct u128 temp_key, struct u128 rand, struct u128 p1, struct u128 p2)
__CPROVER_ensures(VAL(__CPROVER_return_value) == AES(VAL(temp_key), AES(VAL(temp_key), VAL(rand) ^ VAL(p1)) ^ VAL(p2)))
__CPROVER_assigns(G_ecb_ptr)
{{c1}}
#define LOW64(x) ((x) & (((u128_t)1 << 64) - 1))
struct u128 s1(struct u128 temp_key, struct u128 srand, struct u128 mrand)
__CPROVER_ensures(VAL(__CPROVER_return_value) == AES(VAL(temp_key), (LOW64(VAL(srand)) << 64) | LOW64(VAL(mrand))))
__CPROVER_assigns(G_ecb_ptr)
{{s1}}
/* ---- AES-CMAC subkeys */
struct u128 left_shift(struct u128 input)
__CPROVER_ensures(VAL(__CPROVER_return_value) == (VAL(input) << 1))
__CPROVER_assigns()
{{left_shift}}
struct u128 aes_cmac_k1_subkey_generation(struct u128 key)
__CPROVER_ensures(VAL(__CPROVER_return_value) == K1(VAL(key)))
__CPROVER_assigns(G_ecb_ptr)
{{k1}}
struct u128 aes_cmac_k2_subkey_generation(struct u128 key)
__CPROVER_ensures(VAL(__CPROVER_return_value) == K2(VAL(key)))
__CPROVER_assigns(G_ecb_ptr)
{{k2}}
/* ---- LE secure connections. AES-CMAC_k( m ) for m of n complete blocks: C_i = e( k, C_i-1 XOR M_i ), last block XOR K1; incomplete last block: padded with 10..0, XOR K2 */
#define C1_(k, m1) AES(k, m1)
#define C2_(k, m1, m2) AES(k, C1_(k, m1) ^ (m2))
#define C3_(k, m1, m2, m3) AES(k, C2_(k, m1, m2) ^ (m3))
#define C4_(k, m1, m2, m3, m4) AES(k, C3_(k, m1, m2, m3) ^ (m4))
#define C5_(k, m1, m2, m3, m4, m5) AES(k, C4_(k, m1, m2, m3, m4) ^ (m5))
/* f4( U, V, X, Z ) = AES-CMAC_X( U || V || Z ): 65 octets, the fifth block is Z 0x80 0 ... 0 */
struct u128 f4(const uint8_t* u, const uint8_t* v, struct u128 k, uint8_t z)
__CPROVER_requires(__CPROVER_r_ok(u, 32) && __CPROVER_r_ok(v, 32))
__CPROVER_ensures(VAL(__CPROVER_return_value) == C5_(VAL(k), VALP(u + 16), VALP(u), VALP(v + 16), VALP(v), (((u128_t)z << 120) | ((u128_t)0x80 << 112)) ^ K2(VAL(k))))
__CPROVER_assigns(G_ecb_ptr)
{{f4}}
/* f5: T = AES-CMAC_SALT( W ) (two complete blocks); the two keys are AES-CMAC_T( Counter || keyID || N1 || N2 || A1 || A2 || Length ), 53 octets */
#define SALT ((((u128_t)0x6C888391AAF5A538ull) << 64) | (u128_t)0x60370BDB5A6083BEull)
struct u128 f5_key(struct u256 dh_key)
__CPROVER_ensures(VAL(__CPROVER_return_value) == C2_(SALT, VALP(dh_key.b + 16), VALP(dh_key.b) ^ K1(SALT)))
__CPROVER_assigns(G_ecb_ptr)
{{f5_key}}
struct u128 f5_cmac(struct u128 key, const uint8_t* buffer)
__CPROVER_requires(__CPROVER_r_ok(buffer, 64))
__CPROVER_ensures(VAL(__CPROVER_return_value) == C4_(VAL(key), VALP(buffer + 48), VALP(buffer + 32), VALP(buffer + 16), VALP(buffer) ^ K2(VAL(key))))
__CPROVER_assigns(G_ecb_ptr)
{{f5_cmac}}
#define ADDR56(a) (((u128_t)((a).is_random_ ? 1 : 0) << 48) | ((u128_t)(a).value_[5] << 40) | ((u128_t)(a).value_[4] << 32) | ((u128_t)(a).value_[3] << 24) | ((u128_t)(a).value_[2] << 16) | ((u128_t)(a).value_[1] << 8) | (u128_t)(a).value_[0])
#define LOWBITS(x, n) ((x) & (((u128_t)1 << (n)) - 1))
#define F5_M0(cnt, n1)        (((u128_t)(cnt) << 120) | ((u128_t)0x62746c65u << 88) | ((n1) >> 40))
#define F5_M1(n1, n2)         ((LOWBITS(n1, 40) << 88) | ((n2) >> 40))
#define F5_M2(n2, a1, a2)     ((LOWBITS(n2, 40) << 88) | ((a1) << 32) | ((a2) >> 24))
#define F5_M3(a2)             ((LOWBITS(a2, 24) << 104) | ((u128_t)0x0100 << 88) | ((u128_t)0x80 << 80))
#define F5_T(w)               C2_(SALT, VALP((w).b + 16), VALP((w).b) ^ K1(SALT))
#define F5_OUT(t, cnt, n1, n2, a1, a2) C4_(t, F5_M0(cnt, n1), F5_M1(n1, n2), F5_M2(n2, a1, a2), F5_M3(a2) ^ K2(t))
struct pair_u128 f5(struct u256 dh_key, struct u128 nonce_central, struct u128 nonce_periperal, struct device_address addr_controller, struct device_address addr_peripheral)
__CPROVER_ensures(VAL(__CPROVER_return_value.first)  == F5_OUT(F5_T(dh_key), 0, VAL(nonce_central), VAL(nonce_periperal), ADDR56(addr_controller), ADDR56(addr_peripheral)))
__CPROVER_ensures(VAL(__CPROVER_return_value.second) == F5_OUT(F5_T(dh_key), 1, VAL(nonce_central), VAL(nonce_periperal), ADDR56(addr_controller), ADDR56(addr_peripheral)))
__CPROVER_assigns(G_ecb_ptr)
{{f5}}
/* f6( W, N1, N2, R, IOcap, A1, A2 ) = AES-CMAC_W( N1 || N2 || R || IOcap || A1 || A2 ): 65 octets */
#define IO24(c) (((u128_t)(c).b[2] << 16) | ((u128_t)(c).b[1] << 8) | (u128_t)(c).b[0])
struct u128 f6(struct u128 key, struct u128 n1, struct u128 n2, struct u128 r, struct u24 io_caps, struct device_address addr_controller, struct device_address addr_peripheral)
__CPROVER_ensures(VAL(__CPROVER_return_value) == C5_(VAL(key), VAL(n1), VAL(n2), VAL(r),
    (IO24(io_caps) << 104) | (ADDR56(addr_controller) << 48) | (ADDR56(addr_peripheral) >> 8),
    ((LOWBITS(ADDR56(addr_peripheral), 8) << 120) | ((u128_t)0x80 << 112)) ^ K2(VAL(key))))
__CPROVER_assigns(G_ecb_ptr)
{{f6}}
/* g2( U, V, X, Y ) = AES-CMAC_X( U || V || Y ) mod 2^32: 80 octets, five complete blocks */
uint32_t g2(const uint8_t* u, const uint8_t* v, struct u128 x, struct u128 y)
__CPROVER_requires(__CPROVER_r_ok(u, 32) && __CPROVER_r_ok(v, 32))
__CPROVER_ensures(__CPROVER_return_value == (uint32_t)C5_(VAL(x), VALP(u + 16), VALP(u), VALP(v + 16), VALP(v), VAL(y) ^ K1(VAL(x))))
__CPROVER_assigns(G_ecb_ptr)
{{g2}}
/* public key validation is uECC's, asked about X and Y most significant octet first */
bool is_valid_public_key(const uint8_t* public_key)
__CPROVER_requires(__CPROVER_r_ok(public_key, 64))
__CPROVER_ensures(__CPROVER_return_value == (W_uecc_result != 0))
__CPROVER_ensures(VALBE(G_uecc_arg) == VALP(public_key + 16) && VALBE(G_uecc_arg + 16) == VALP(public_key) && VALBE(G_uecc_arg + 32) == VALP(public_key + 48) && VALBE(G_uecc_arg + 48) == VALP(public_key + 32))
__CPROVER_assigns(__CPROVER_object_whole(G_uecc_arg))
{{valid_key}}
/* ---- link layer session key (nrf52.cpp): SK = e( LTK, SKD ), SKD = SKDs || SKDm (SKDm least significant), IV = IVs || IVm */
uint8_t* write_64bit(uint8_t* out, uint64_t bits64) {{write_64}}
struct pair_u64_u32 { uint64_t first; uint32_t second; };
uint64_t W_skds; uint32_t W_ivs; u128_t G_ccm_key; uint64_t G_ccm_iv;
static inline uint64_t random_number64(void) { return W_skds; }
static inline uint32_t random_number32(void) { return W_ivs; }
static inline void setup_ccm_data_structure(struct u128 key, uint64_t iv) { G_ccm_key = VAL(key); G_ccm_iv = iv; }
struct pair_u64_u32 setup_encryption(struct u128 key, uint64_t skdm, uint32_t ivm)
__CPROVER_ensures(G_ccm_key == AES(VAL(key), ((u128_t)W_skds << 64) | (u128_t)skdm) && G_ccm_iv == ((uint64_t)ivm | ((uint64_t)W_ivs << 32)))
__CPROVER_ensures(__CPROVER_return_value.first == W_skds && __CPROVER_return_value.second == W_ivs)
__CPROVER_assigns(G_ecb_ptr, G_ccm_key, G_ccm_iv)
{{setup_encryption}}
#define SETUP W_skds = nondet_u64(); W_ivs = nondet_u32(); W_uecc_result = nondet_int(); struct u128 a, b, c, d; struct u256 w; struct u24 io; struct device_address a1, a2; uint8_t u[32], v[32], buf[64]; BT_KNOWN_EXCLUDE()
void h_aes_le_p(void) { SETUP; aes_le_p(a, u); BT_CANARY(); }
void h_aes_le(void) { SETUP; aes_le(a, b); BT_CANARY(); }
void h_xor128_p(void) { SETUP; xor128_p(a, u); BT_CANARY(); }
void h_xor128(void) { SETUP; xor128(a, b); BT_CANARY(); }
void h_c1(void) { SETUP; c1(a, b, c, d); BT_CANARY(); }
void h_s1(void) { SETUP; s1(a, b, c); BT_CANARY(); }
void h_left_shift(void) { SETUP; left_shift(a); BT_CANARY(); }
void h_aes_cmac_k1_subkey_generation(void) { SETUP; aes_cmac_k1_subkey_generation(a); BT_CANARY(); }
void h_aes_cmac_k2_subkey_generation(void) { SETUP; aes_cmac_k2_subkey_generation(a); BT_CANARY(); }
void h_f4(void) { SETUP; f4(u, v, a, nondet_u8()); BT_CANARY(); }
void h_f5_key(void) { SETUP; f5_key(w); BT_CANARY(); }
void h_f5_cmac(void) { SETUP; f5_cmac(a, buf); BT_CANARY(); }
void h_f5(void) { SETUP; f5(w, a, b, a1, a2); BT_CANARY(); }
void h_f6(void) { SETUP; f6(a, b, c, d, io, a1, a2); BT_CANARY(); }
void h_g2(void) { SETUP; g2(u, v, a, b); BT_CANARY(); }
void h_is_valid_public_key(void) { SETUP; is_valid_public_key(buf); BT_CANARY(); }
void h_setup_encryption(void) { SETUP; setup_encryption(a, nondet_u64(), nondet_u32()); BT_CANARY(); }
'''
FNS = ['aes_le_p', 'aes_le', 'xor128_p', 'xor128', 'c1', 's1', 'left_shift', 'aes_cmac_k1_subkey_generation', 'aes_cmac_k2_subkey_generation', 'f4', 'f5_key', 'f5_cmac', 'f5', 'f6', 'g2', 'is_valid_public_key', 'setup_encryption']
UNITS = [
    dict(name='toolbox', extracts=EX, code=CODE, enforce=FNS, object_bits=11,
         replace=['hw_ecb_run', 'uECC_valid_public_key', 'aes_le_p', 'aes_le', 'xor128_p', 'xor128', 'left_shift', 'aes_cmac_k1_subkey_generation', 'aes_cmac_k2_subkey_generation', 'f5_key', 'f5_cmac']),
]
META = dict(
    level='proof',
    explanation="bluetoe/bindings/nordic/nrf52/security_tool_box.cpp (aes_le both overloads, xor_ both overloads, c1, s1, left_shift, AES-CMAC K1 / K2 subkey "
                "generation, f4, f5_key, f5_cmac, f5, f6, g2, is_valid_public_key) and radio_hardware_with_crypto_support::setup_encryption (nrf52.cpp), real "
                "bodies, for every input: with e( k, d ) an uninterpreted AES-128 and 128 bit operands read least significant octet first, aes_le == e; "
                "c1 == e( k, e( k, r XOR p1 ) XOR p2 ); s1 == e( k, r1[63..0] || r2[63..0] ); K1 / K2 are the RFC 4493 subkeys; f4 == AES-CMAC_X( U || V || Z ), "
                "f5 == AES-CMAC_T( Counter || 'btle' || N1 || N2 || A1 || A2 || 0x0100 ) for Counter 0 / 1 with T == AES-CMAC_SALT( W ), f6 == AES-CMAC_W( N1 || N2 "
                "|| R || IOcap || A1 || A2 ), g2 == AES-CMAC_X( U || V || Y ) mod 2^32 (each CMAC written out block by block with the padding 0x80 0.. and "
                "the K1 / K2 choice by message length); the session key is e( LTK, SKDs || SKDm ) with IV = IVs || IVm and the values returned are the "
                "ones drawn; a public key is accepted exactly if uECC_valid_public_key accepts ( X, Y ) handed over most significant octet first. "
                "left_shift's loop is closed by a loop contract over the partial numeric value.",
    assumptions=["AES-128 itself is the ECB peripheral's (hardware): the contract of the peripheral is 'ciphertext == e( key, cleartext ), all three most "
                 "significant octet first'; e is uninterpreted, so nothing about AES' values is claimed (the repository's tests compare with the Core "
                 "specification's sample data)",
                 "P-256 point validation is uECC_valid_public_key (external C library): abstract, only the argument layout is proved",
                 "std::copy / std::reverse_copy / std::fill / std::transform on the constant 3..32 octet ranges used here are represented by straight line "
                 "stand-ins (bt_copy_small, bt_reverse_copy_small, bt_reverse16, bt_fill16, BT_TRANSFORM16 applying the lambda's own expression 'x xor y')",
                 "overloaded aes_le / xor_ get distinct C names by declared rules that look at the argument's type (pointer or array object)",
                 "the CMAC formulas are written from the Core specification Vol 3 Part H 2.2 and RFC 4493 by hand (the specification side of the contract)"],
    trusted_base=["nRF52 ECB peripheral", "uECC", "RNG peripheral (random_number32 / 64)"],
)
