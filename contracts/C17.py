"""C17 A PDU failing its integrity check is never acknowledged as delivered."""
import os, sys
sys.path.insert(0, os.path.dirname(__file__))
import importlib.util
def _load(name):
    sp = importlib.util.spec_from_file_location(name, os.path.join(os.path.dirname(__file__), name + '.py'))
    m = importlib.util.module_from_spec(sp); sp.loader.exec_module(m); return m
_c15 = _load('C15')
UNITS = [dict(u, enforce=['acknowledge_pdu']) if u['name'] == 'llbuf' else dict(u) for u in _c15.UNITS if u['name'] in ('llbuf', 'nrf52_isr')]

META = dict(
    level='proof',
    explanation="nRF52 radio_interrupt_handler (real text, Hardware:: abstract): a PDU with valid CRC but invalid MIC reaches "
                "ll_data_pdu_buffer::acknowledge(read_buffer) and nothing else; a PDU with invalid CRC or without a receive buffer reaches "
                "next_transmit() only. acknowledge(read_buffer), for every state, header and transmit queue: next_expected_sequence_number_ is "
                "unchanged (so the reply's NESN does not acknowledge the PDU; a retransmission of an already delivered PDU keeps the "
                "acknowledgement it got when it was delivered), nothing is pushed to the receive ring, the receive packet counter is untouched; the "
                "central's NESN may still release our oldest transmitted PDU under the usual rule.",
    assumptions=["that the central then retransmits the PDU or the link is dropped is the central's / the supervision timer's behaviour",
                 "transmit ring abstract FIFO as in C15"],
    trusted_base=["nRF52 CCM reports MIC status through Hardware::received_pdu() (valid_pdu)"],
)
