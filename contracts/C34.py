"""C34 Distributed keys are only sent over an encrypted link."""
import os, sys
sys.path.insert(0, os.path.dirname(__file__))
from common import BITS32_EXTRACTS, BITS32_CODE
SM = 'bluetoe/sm/include/bluetoe/security_manager.hpp'
SCD = 'bluetoe/sm/include/bluetoe/security_connection_data.hpp'
BITS = 'bluetoe/utility/include/bluetoe/bits.hpp'
BDB = r'class bonding_db_data_t : public OtherConnectionData'
NBDB = r'struct bonding_db_data_t : OtherConnectionData'
TM = r'template < typename SecurityFunctions, template < class OtherConnectionData > class ConnectionData, typename \.\.\. Options >\s*template < class Connection >\s*'
R = [(r'\b(pending_encryption_information|pending_central_identification|pending_key)\b', r'self->\1', '*'),
     (r'connection\.security_attributes\(\)\.is_encrypted', 'G_link_encrypted', '*'), (r'\bout_size\b', '(*out_size)', '*'),
     (r'details::sm_opcodes::', 'sm_opcodes_', '*'),
     (r'std::copy\( self->pending_key\.longterm_key\.begin\(\), self->pending_key\.longterm_key\.end\(\), &output\[ 1 \] \);', 'bt_copy_u8( self->pending_key.longterm_key.b, 16, &output[ 1 ] );', '*'),
     (r'std::fill\( self->pending_key\.longterm_key\.begin\(\), self->pending_key\.longterm_key\.end\(\), 0 \);', 'bt_fill_u8( self->pending_key.longterm_key.b, 16, 0 );', '*'),
     (r'details::write_16bit\(', 'write_16bit(', '*'), (r'details::write_64bit\(', 'write_64bit(', '*'),
     (r'self->pending_key = obj\.create_new_bond\( radio, connection\.remote_address\(\) \);', 'self->pending_key = db_create_new_bond();', '*'),
     (r'obj\.store_bond\( self->pending_key, connection \);', 'db_store_bond( &self->pending_key );', '*')]
EX = dict(BITS32_EXTRACTS,
    write_64=dict(file=BITS, locate=r'inline std::uint8_t\* write_64bit\( std::uint8_t\* out, std::uint64_t bits64 \)'),
    sm_opcodes=dict(kind='enum', file=SM, name='sm_opcodes'),
    ltk_fields=dict(kind='fields', file=SCD, scope=r'struct longterm_key_t\b', names=['longterm_key', 'rand', 'ediv'], type_map={'std::array< std::uint8_t, 16 >': 'struct u128'}),
    arm=dict(file=SM, scope=BDB, locate=r'void arm_key_distribution\( Radio& radio, const Connection& connection \)', rules=R),
    distribute=dict(file=SM, scope=BDB, locate=r'void distribute_keys\( std::uint8_t\* output, std::size_t& out_size, Connection& connection \)', rules=R),
    distribute_none=dict(file=SM, scope=NBDB, locate=r'void distribute_keys\( std::uint8_t\*, std::size_t& out_size, Connection& \)', rules=R),
)
CODE = BITS32_CODE + r'''
uint8_t* write_64bit(uint8_t* out, uint64_t bits64) {{write_64}}
{{sm_opcodes}};
struct u128 { uint8_t b[16]; };
struct longterm_key_t { {{ltk_fields}} };
struct bdb { bool pending_encryption_information; bool pending_central_identification; struct longterm_key_t pending_key; };
bool G_link_encrypted; int G_store_calls; struct longterm_key_t G_new_bond; size_t G_b;
bool W_enc, W_p_ei, W_p_ci; uint8_t W_key_b; uint16_t W_ediv; uint64_t W_rand;
struct longterm_key_t db_create_new_bond(void) __CPROVER_ensures(__CPROVER_return_value.ediv == G_new_bond.ediv && __CPROVER_return_value.rand == G_new_bond.rand && __CPROVER_return_value.longterm_key.b[G_b] == G_new_bond.longterm_key.b[G_b]) __CPROVER_assigns();
void db_store_bond(const struct longterm_key_t* k) __CPROVER_ensures(G_store_calls == __CPROVER_old(G_store_calls) + 1) __CPROVER_assigns(G_store_calls);
#define BDB_OK(self) (__CPROVER_is_fresh(self, sizeof(struct bdb)) && (self)->pending_encryption_information == W_p_ei && (self)->pending_central_identification == W_p_ci && G_b < 16 \
    && (self)->pending_key.longterm_key.b[G_b] == W_key_b && (self)->pending_key.ediv == W_ediv && (self)->pending_key.rand == W_rand && G_link_encrypted == W_enc)
/* arming (called when pairing has completed): a fresh bond is created, stored, and both items become pending */
void arm_key_distribution(struct bdb* self)
__CPROVER_requires(BDB_OK(self) && G_store_calls == 0)
__CPROVER_ensures(self->pending_encryption_information && self->pending_central_identification && G_store_calls == 1
    && self->pending_key.ediv == G_new_bond.ediv && self->pending_key.rand == G_new_bond.rand && self->pending_key.longterm_key.b[G_b] == G_new_bond.longterm_key.b[G_b])
__CPROVER_assigns(self->pending_encryption_information, self->pending_central_identification, self->pending_key, G_store_calls)
{{arm}}
/* one item per call, each at most once per arming, and only while the link is encrypted */
void distribute_keys(struct bdb* self, uint8_t* output, size_t* out_size)
__CPROVER_requires(BDB_OK(self) && __CPROVER_is_fresh(output, 23) && __CPROVER_is_fresh(out_size, sizeof(size_t)) && G_pre_j == G_b)
__CPROVER_ensures(!W_enc ==> (*out_size == 0 && self->pending_encryption_information == W_p_ei && self->pending_central_identification == W_p_ci))
__CPROVER_ensures((W_enc && W_p_ei) ==> (*out_size == 17 && output[0] == 0x06 && output[1 + G_b] == W_key_b && !self->pending_encryption_information && self->pending_central_identification == W_p_ci
    && self->pending_key.longterm_key.b[G_b] == 0 /* the key is wiped once it is on its way */))
__CPROVER_ensures((W_enc && !W_p_ei && W_p_ci) ==> (*out_size == 11 && output[0] == 0x07 && output[1] == (W_ediv & 0xff) && output[2] == (W_ediv >> 8) && output[3] == (W_rand & 0xff) && output[10] == (W_rand >> 56)
    && !self->pending_central_identification))
__CPROVER_ensures((W_enc && !W_p_ei && !W_p_ci) ==> *out_size == 0)
__CPROVER_ensures(*out_size != 0 ==> W_enc)
__CPROVER_assigns(*out_size, __CPROVER_object_upto(output, 17), self->pending_encryption_information, self->pending_central_identification, self->pending_key.longterm_key)
{{distribute}}
void distribute_keys_none(struct bdb* self, uint8_t* output, size_t* out_size)
__CPROVER_requires(__CPROVER_is_fresh(out_size, sizeof(size_t)))
__CPROVER_ensures(*out_size == 0) __CPROVER_assigns(*out_size)
{{distribute_none}}
#define SETUP struct bdb* b; W_enc = nondet_bool(); G_link_encrypted = W_enc; W_p_ei = nondet_bool(); W_p_ci = nondet_bool(); W_key_b = nondet_u8(); W_ediv = nondet_u16(); W_rand = nondet_u64(); G_b = nondet_size(); \
  G_store_calls = 0; G_pre_j = G_b; G_pre_j2 = nondet_size(); G_pre_j3 = nondet_size(); BT_KNOWN_EXCLUDE()
void h_arm_key_distribution(void) { SETUP; arm_key_distribution(b); BT_CANARY(); }
void h_distribute_keys(void) { SETUP; uint8_t* o; size_t* os; distribute_keys(b, o, os); BT_CANARY(); }
void h_distribute_keys_none(void) { SETUP; size_t* os; distribute_keys_none(b, 0, os); BT_CANARY(); }
void h_bt_copy_u8(void) { SETUP; uint8_t x[16], y[16]; size_t n = nondet_size(); __CPROVER_assume(n <= 16); bt_copy_u8(x, n, y); BT_CANARY(); }
void h_bt_fill_u8(void) { SETUP; uint8_t x[16]; size_t n = nondet_size(); __CPROVER_assume(n <= 16); bt_fill_u8(x, n, nondet_u8()); BT_CANARY(); }
'''
UNITS = [
    dict(name='key_distribution', extracts=EX, code=CODE, defines=['BT_NEED_COPY', 'BT_NEED_FILL', 'BT_COPY_BODY', 'BT_FILL_BODY', 'BT_BYTES_MAX=16'],
         enforce=['arm_key_distribution', 'distribute_keys', 'distribute_keys_none', 'bt_copy_u8', 'bt_fill_u8'],
         replace=['db_create_new_bond', 'db_store_bond', 'bt_copy_u8', 'bt_fill_u8']),
]

# the link side: link_layer<>::disconnect( reason ) (contract in lle.py) must not switch the link's encryption off while PDUs that were queued on the encrypted link are still to be sent
import lle
UNITS.append(lle.unit(['ll_disconnect'], name='link', replay=dict(src='replay/c05_link_replay.cpp', cxxflags=['-DNDEBUG', '-I/repo/tests/test_tools', '-I/repo/tests/link_layer'],
                      repo_sources=['tests/test_tools/test_radio.cpp', 'tests/test_tools/hexdump.cpp', 'tests/test_tools/buffer_io.cpp', 'tests/test_tools/address_io.cpp',
                                    'bluetoe/link_layer/delta_time.cpp', 'bluetoe/link_layer/channel_map.cpp', 'bluetoe/link_layer/connection_details.cpp', 'bluetoe/utility/address.cpp'])))
META = dict(
    level='proof',
    explanation="security_manager.hpp bonding_data_base<>::bonding_db_data_t::arm_key_distribution / distribute_keys and the no_bonding_data_base variant, "
                "for every combination of pending flags, link encryption state and pending key: distribute_keys produces output only while the link "
                "is encrypted; Encryption Information (opcode 0x06 + the 16 key octets) first, Central Identification (0x07 + EDIV + Rand, little "
                "endian) on the next call; each item clears its pending flag in the same call, so it is produced at most once per arming; the key "
                "is wiped from memory once sent; on an unencrypted link nothing is produced and nothing changes; arming creates and stores a new "
                "bond and marks both items pending.",
    assumptions=["distribute_keys decides when the PDU is built; it is transmitted later by the link layer: unit link (link_layer<>::disconnect, real body) proves that a disconnect "
                 "requested by the local host does not switch the link's encryption off while queued PDUs are still to be sent",
                 "'only after pairing completed': arm_key_distribution has a single call site, directly behind legacy_pairing_completed() in "
                 "legacy_handle_pairing_random (read off the source; that handler is not under contract - C32)",
                 "the pending flags of a new connection are false because link_layer value-initialises connection_data_t() (bonding_db_data_t has no "
                 "user-provided constructor, so the object is zero-initialised first): C++ initialisation rule, not proved",
                 "interleavings of SMP traffic, encryption changes and output polling are sequences of these calls; every call is covered for every state",
                 "the user's bond data base is abstract"],
    trusted_base=["application supplied bonding data base", "libstdc++ std::copy / std::fill (bt_copy_u8 / bt_fill_u8 contracts enforced on their C bodies)"],
)
