"""C35 Reported pairing status reflects the authentication actually performed."""
import os, sys
sys.path.insert(0, os.path.dirname(__file__))
import importlib.util
def _load(name):
    sp = importlib.util.spec_from_file_location(name, os.path.join(os.path.dirname(__file__), name + '.py'))
    mod = importlib.util.module_from_spec(sp); sp.loader.exec_module(mod); return mod
_c33 = _load('C33')
SCD, LEG, LESC, COMB, R, m = _c33.SCD, _c33.LEG, _c33.LESC, _c33.COMB, _c33.R, _c33.m
LS = 'bluetoe/link_state.hpp'
LST = r'class link_state\s*(?=\{)'
RS = [(r'bluetoe::device_pairing_status::', 'device_pairing_status_', '*')] + R
EX = dict({k: v for k, v in _c33.EX.items() if k in ('sm_state', 'legacy_algo', 'lesc_algo', 'dps', 'leg_union', 'comb_union', 'comb_leg_completed', 'comb_lesc_completed')},
    leg_status=m(LEG, r'device_pairing_status local_device_pairing_status\(\) const', rules=RS),
    leg_set_algo=m(LEG, r'void pairing_algorithm\( details::legacy_pairing_algorithm algo \)'),
    lesc_status=m(LESC, r'device_pairing_status local_device_pairing_status\(\) const', rules=RS),
    lesc_set_algo=m(LESC, r'void pairing_algorithm\( details::lesc_pairing_algorithm algo \)'),
    lesc_yes_no=m(LESC, r'void yes_no_response\( bool response \) override'),
    comb_status=m(COMB, r'device_pairing_status local_device_pairing_status\(\) const', rules=RS),
    comb_set_leg_algo=m(COMB, r'void pairing_algorithm\( details::legacy_pairing_algorithm algo \)'),
    comb_set_lesc_algo=m(COMB, r'void pairing_algorithm\( details::lesc_pairing_algorithm algo \)'),
    comb_yes_no=m(COMB, r'void yes_no_response\( bool response \) override'),
    ls_fields=dict(kind='fields', file=LS, scope=LST, names=['encrypted_', 'pairing_status_'], type_map={'device_pairing_status': 'enum device_pairing_status'}),
    ls_get=dict(file=LS, scope=LST, locate=r'device_pairing_status pairing_status\(\) const'),
    ls_set=dict(file=LS, scope=LST, locate=r'void pairing_status\( device_pairing_status status \)'),
    ls_attr=dict(file=LS, scope=LST, locate=r'connection_security_attributes security_attributes\(\) const',
                 rules=[(r'return connection_security_attributes\{', 'return (struct connection_security_attributes){', 1)]),
    ls_ctor=dict(file=LS, scope=LST, locate=r'link_state\(\)', init_list=True, rules=[(r'device_pairing_status::', 'device_pairing_status_', 1)]),
    csa_fields=dict(kind='fields', file='bluetoe/pairing_status.hpp', scope=r'struct connection_security_attributes\b', names=['is_encrypted', 'pairing_status'],
                    type_map={'device_pairing_status': 'enum device_pairing_status'}),
)
HEAD = _c33.CODE[:_c33.CODE.index('/* ---- legacy_security_connection_data */')]
CODE = HEAD + r'''
#define FRESH(self, T) (__CPROVER_is_fresh(self, sizeof(T)) && (int)(self)->state_ == W_state && W_state >= 0 && W_state <= sm_pairing_state_lesc_pairing_random_exchanged && G_b < 16)
#define COMPLETED (W_state == sm_pairing_state_pairing_completed)
/* the property's table: no key unless a pairing completed; Just Works -> unauthenticated; every other method (passkey, OOB, numeric comparison) -> authenticated */
#define STATUS_LEGACY (!COMPLETED ? device_pairing_status_no_key : W_algo == legacy_pairing_algorithm_just_works ? device_pairing_status_unauthenticated_key : device_pairing_status_authenticated_key)
/* LESC: the exchange the handlers carry out (C32) is the same for every method but numeric comparison, which adds the user's confirmation; 'OOB' / 'passkey entry' selected from the
   central's request run the plain exchange with r = 0 and authenticate nobody */
#define STATUS_LESC   (!COMPLETED ? device_pairing_status_no_key : W_algo == lesc_pairing_algorithm_numeric_comparison ? device_pairing_status_authenticated_key : device_pairing_status_unauthenticated_key)
#define LEG_ALGO_OK  (W_algo >= legacy_pairing_algorithm_just_works && W_algo <= legacy_pairing_algorithm_passkey_entry_input)
#define LESC_ALGO_OK (W_algo >= lesc_pairing_algorithm_just_works && W_algo <= lesc_pairing_algorithm_numeric_comparison)
/* ---- legacy_security_connection_data */
struct leg { enum sm_pairing_state state_; enum legacy_pairing_algorithm algorithm_; {{leg_union}} };
void leg_pairing_algorithm(struct leg* self, enum legacy_pairing_algorithm algo)
__CPROVER_requires(FRESH(self, struct leg)) __CPROVER_ensures(self->algorithm_ == algo) __CPROVER_assigns(self->algorithm_)
{{leg_set_algo}}
enum device_pairing_status leg_local_device_pairing_status(const struct leg* self)
__CPROVER_requires(FRESH(self, struct leg) && (int)self->algorithm_ == W_algo)
__CPROVER_ensures(__CPROVER_return_value == STATUS_LEGACY) __CPROVER_assigns()
{{leg_status}}
/* ---- lesc_security_connection_data */
struct lesc { enum sm_pairing_state state_; enum lesc_pairing_algorithm algorithm_; struct u128 long_term_key_; };
void lesc_pairing_algorithm(struct lesc* self, enum lesc_pairing_algorithm algo)
__CPROVER_requires(FRESH(self, struct lesc)) __CPROVER_ensures(self->algorithm_ == algo) __CPROVER_assigns(self->algorithm_)
{{lesc_set_algo}}
enum device_pairing_status lesc_local_device_pairing_status(const struct lesc* self)
__CPROVER_requires(FRESH(self, struct lesc) && (int)self->algorithm_ == W_algo && LESC_ALGO_OK)
__CPROVER_ensures(__CPROVER_return_value == STATUS_LESC) __CPROVER_assigns()
{{lesc_status}}
/* numeric comparison: only the user's 'yes' leads on (to user_response_success, the state lesc_pairing_completed accepts) */
void lesc_yes_no_response(struct lesc* self, bool response)
__CPROVER_requires(FRESH(self, struct lesc) && W_state == sm_pairing_state_user_response_wait)
__CPROVER_ensures(self->state_ == (response ? sm_pairing_state_user_response_success : sm_pairing_state_user_response_failed)) __CPROVER_assigns(self->state_)
{{lesc_yes_no}}
/* ---- security_connection_data (legacy + LESC): the status is fixed when pairing completes, from the method that ran */
struct comb { enum sm_pairing_state state_; struct u128 long_term_key_; enum device_pairing_status pairing_status_; {{comb_union}} };
void comb_legacy_pairing_algorithm(struct comb* self, enum legacy_pairing_algorithm algo)
__CPROVER_requires(FRESH(self, struct comb)) __CPROVER_ensures(self->state_data_.legacy_state.algorithm == algo)
__CPROVER_assigns(self->state_data_.legacy_state.algorithm)
{{comb_set_leg_algo}}
void comb_lesc_pairing_algorithm(struct comb* self, enum lesc_pairing_algorithm algo)
__CPROVER_requires(FRESH(self, struct comb)) __CPROVER_ensures(self->state_data_.lesc_state.algorithm == algo)
__CPROVER_assigns(self->state_data_.lesc_state.algorithm)
{{comb_set_lesc_algo}}
void comb_legacy_pairing_completed(struct comb* self, const struct u128* short_term_key)
__CPROVER_requires(FRESH(self, struct comb) && W_state == sm_pairing_state_legacy_pairing_confirmed && __CPROVER_is_fresh(short_term_key, sizeof(struct u128)) && (int)self->state_data_.legacy_state.algorithm == W_algo)
__CPROVER_ensures(self->state_ == sm_pairing_state_pairing_completed)
__CPROVER_ensures(self->pairing_status_ == (W_algo == legacy_pairing_algorithm_just_works ? device_pairing_status_unauthenticated_key : device_pairing_status_authenticated_key))
__CPROVER_assigns(self->state_, self->long_term_key_, self->pairing_status_)
{{comb_leg_completed}}
void comb_lesc_pairing_completed(struct comb* self, const struct u128* long_term_key)
__CPROVER_requires(FRESH(self, struct comb) && (W_state == sm_pairing_state_lesc_pairing_random_exchanged || W_state == sm_pairing_state_user_response_success)
    && __CPROVER_is_fresh(long_term_key, sizeof(struct u128)) && (int)self->state_data_.lesc_state.algorithm == W_algo)
__CPROVER_ensures(self->state_ == sm_pairing_state_pairing_completed)
__CPROVER_ensures(self->pairing_status_ == (W_algo == lesc_pairing_algorithm_numeric_comparison ? device_pairing_status_authenticated_key : device_pairing_status_unauthenticated_key))
__CPROVER_assigns(self->state_, self->long_term_key_, self->pairing_status_)
{{comb_lesc_completed}}
int W_status;
enum device_pairing_status comb_local_device_pairing_status(const struct comb* self)
__CPROVER_requires(FRESH(self, struct comb) && (int)self->pairing_status_ == W_status)
__CPROVER_ensures(__CPROVER_return_value == (COMPLETED ? (enum device_pairing_status)W_status : device_pairing_status_no_key)) __CPROVER_assigns()
{{comb_status}}
void comb_yes_no_response(struct comb* self, bool response)
__CPROVER_requires(FRESH(self, struct comb) && W_state == sm_pairing_state_user_response_wait)
__CPROVER_ensures(self->state_ == (response ? sm_pairing_state_user_response_success : sm_pairing_state_user_response_failed)) __CPROVER_assigns(self->state_)
{{comb_yes_no}}
/* ---- link_state: what the attribute access functions see (security_attributes) is what the link layer stored on the last encryption change */
struct connection_security_attributes { {{csa_fields}} };
struct link_state { {{ls_fields}} };
bool W_enc;
void ls_ctor(struct link_state* self) __CPROVER_requires(__CPROVER_rw_ok(self, sizeof(*self))) __CPROVER_ensures(!self->encrypted_ && self->pairing_status_ == device_pairing_status_no_key)
__CPROVER_assigns(self->encrypted_, self->pairing_status_)
{{ls_ctor}}
enum device_pairing_status ls_pairing_status(const struct link_state* self) __CPROVER_requires(__CPROVER_r_ok(self, sizeof(*self))) __CPROVER_ensures(__CPROVER_return_value == self->pairing_status_) __CPROVER_assigns()
{{ls_get}}
void ls_set_pairing_status(struct link_state* self, enum device_pairing_status status) __CPROVER_requires(__CPROVER_rw_ok(self, sizeof(*self)))
__CPROVER_ensures(self->pairing_status_ == status && self->encrypted_ == __CPROVER_old(self->encrypted_)) __CPROVER_assigns(self->pairing_status_)
{{ls_set}}
struct connection_security_attributes ls_security_attributes(const struct link_state* self) __CPROVER_requires(__CPROVER_r_ok(self, sizeof(*self)))
__CPROVER_ensures(__CPROVER_return_value.is_encrypted == self->encrypted_ && __CPROVER_return_value.pairing_status == self->pairing_status_) __CPROVER_assigns()
{{ls_attr}}
#define SETUP W_state = nondet_int(); W_algo = nondet_int(); W_status = nondet_int(); G_b = nondet_size(); __CPROVER_assume(W_status >= 0 && W_status <= 3); BT_KNOWN_EXCLUDE()
void h_leg_pairing_algorithm(void) { SETUP; struct leg* s; leg_pairing_algorithm(s, nondet_int()); BT_CANARY(); }
void h_leg_local_device_pairing_status(void) { SETUP; struct leg* s; leg_local_device_pairing_status(s); BT_CANARY(); }
void h_lesc_pairing_algorithm(void) { SETUP; struct lesc* s; lesc_pairing_algorithm(s, nondet_int()); BT_CANARY(); }
void h_lesc_local_device_pairing_status(void) { SETUP; struct lesc* s; lesc_local_device_pairing_status(s); BT_CANARY(); }
void h_lesc_yes_no_response(void) { SETUP; struct lesc* s; lesc_yes_no_response(s, nondet_bool()); BT_CANARY(); }
void h_comb_legacy_pairing_algorithm(void) { SETUP; struct comb* s; comb_legacy_pairing_algorithm(s, nondet_int()); BT_CANARY(); }
void h_comb_lesc_pairing_algorithm(void) { SETUP; struct comb* s; comb_lesc_pairing_algorithm(s, nondet_int()); BT_CANARY(); }
void h_comb_legacy_pairing_completed(void) { SETUP; struct comb* s; struct u128* k; comb_legacy_pairing_completed(s, k); BT_CANARY(); }
void h_comb_lesc_pairing_completed(void) { SETUP; struct comb* s; struct u128* k; comb_lesc_pairing_completed(s, k); BT_CANARY(); }
void h_comb_local_device_pairing_status(void) { SETUP; struct comb* s; comb_local_device_pairing_status(s); BT_CANARY(); }
void h_comb_yes_no_response(void) { SETUP; struct comb* s; comb_yes_no_response(s, nondet_bool()); BT_CANARY(); }
void h_ls_ctor(void) { SETUP; struct link_state l; ls_ctor(&l); BT_CANARY(); }
void h_ls_pairing_status(void) { SETUP; struct link_state l; l.pairing_status_ = W_status; ls_pairing_status(&l); BT_CANARY(); }
void h_ls_set_pairing_status(void) { SETUP; struct link_state l; l.encrypted_ = nondet_bool(); ls_set_pairing_status(&l, W_status); BT_CANARY(); }
void h_ls_security_attributes(void) { SETUP; struct link_state l; l.encrypted_ = nondet_bool(); l.pairing_status_ = W_status; ls_security_attributes(&l); BT_CANARY(); }
'''
UNITS = [
    dict(name='pairing_status', extracts=EX, code=CODE,
         enforce=['leg_pairing_algorithm', 'leg_local_device_pairing_status', 'lesc_pairing_algorithm', 'lesc_local_device_pairing_status', 'lesc_yes_no_response',
                  'comb_legacy_pairing_algorithm', 'comb_lesc_pairing_algorithm', 'comb_legacy_pairing_completed', 'comb_lesc_pairing_completed', 'comb_local_device_pairing_status',
                  'comb_yes_no_response', 'ls_ctor', 'ls_pairing_status', 'ls_set_pairing_status', 'ls_security_attributes'], replace=[],
         replay=dict(src='replay/c35_replay.cpp', cxxflags=['-DNDEBUG'], repo_sources=['bluetoe/utility/address.cpp'])),
]
# the stored algorithm is the one selected from THIS request and THIS peer's OOB information (handlers of security_manager.hpp, contracts stated in C32.py)
_c32 = _load('C32')
UNITS += [dict(u, enforce=['legacy_handle_pairing_request', 'lesc_handle_pairing_request', 'handle_pairing_request', 'lesc_handle_pairing_dhkey_check', 'lesc_l2cap_output'],
               replay=dict(src='replay/c35_lesc_replay.cpp', cxxflags=['-DuECC_CURVE=uECC_secp256r1', '-I/repo/tests/security_manager', '-I/repo/tests/test_tools'], repo_sources=['bluetoe/utility/address.cpp'],
                           c_sources=['tests/test_tools/aes.c', 'tests/test_tools/uECC.c'], cflags=['-DuECC_CURVE=uECC_secp256r1']))
          for u in _c32.UNITS if u['name'] == 'handlers']

META = dict(
    level='proof',
    explanation="security_connection_data.hpp, all three connection data classes (real bodies, every state and algorithm value): local_device_pairing_status() is "
                "no_key unless the state is pairing_completed; after completion it is unauthenticated_key exactly for Just Works and authenticated_key for legacy OOB "
                "/ passkey entry and for LESC numeric comparison (the LESC exchange of the handlers is the plain one with r = 0 for every other method, see F-C35b). legacy / LESC-only classes read the algorithm stored by "
                "pairing_algorithm( algo ); the combined class fixes pairing_status_ in legacy_pairing_completed / lesc_pairing_completed from the algorithm "
                "of the protocol that ran and returns it unchanged. yes_no_response(): only the user's 'yes' reaches user_response_success (the state "
                "lesc_pairing_completed accepts for numeric comparison). link_state (link_state.hpp): constructor starts with no_key, pairing_status( s ) stores "
                "exactly s, security_attributes() returns the stored pair - what the attribute access functions see (C05).",
    assumptions=["that the algorithm stored is the one the exchange actually ran, and that completion is only reached after the confirm / DHKey checks "
                 "succeeded, is the security manager's protocol order (C32, not claimed); the selection of the algorithm from the IO capabilities is C36",
                 "the link layer copies local_device_pairing_status() into link_state on every encryption change (handle_encryption_pdus, C28 records the call)",
                 "the states are the classes' own asserts (preconditions here)"],
    trusted_base=[],
)
