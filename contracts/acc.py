"""Shared pieces for the attribute access functions (C05, C06, C09): attribute_access_arguments, result / type enums,
connection_security_attributes, client_characteristic_configuration and the encryption gate."""
import os, sys
sys.path.insert(0, os.path.dirname(__file__))
from common import BITS_EXTRACTS, BITS_CODE
ATTR = 'bluetoe/utility/include/bluetoe/attribute.hpp'
PST = 'bluetoe/pairing_status.hpp'
CCC = 'bluetoe/utility/include/bluetoe/client_characteristic_configuration.hpp'
CV = 'bluetoe/characteristic_value.hpp'
CH = 'bluetoe/characteristic.hpp'
ENC = 'bluetoe/encryption.hpp'
CCC_CLS = r'class client_characteristic_configuration\b'

ACC_RULES = [
    (r'(?:details::)?attribute_access_result::', 'attribute_access_result_', '*'),
    (r'(?:details::)?attribute_access_type::', 'attribute_access_type_', '*'),
    (r'(?:details::)?attribute_access_result\b(?!_)', 'enum attribute_access_result', '*'),
    (r'device_pairing_status::', 'device_pairing_status_', '*'),
    (r'\bargs\.', 'args->', '*'),
    (r'\battr\.', 'attr->', '*'),
    (r'details::encryption_requirements< (?:requires_encryption|RequiresEncryption) >::check\( args->connection_security \)',
     'encryption_requirements_check( G_requires_encryption, &args->connection_security )', '*'),
]

ACC_EX = dict(BITS_EXTRACTS,
    attribute_access_result=dict(kind='enum', file=ATTR, name='attribute_access_result'),
    attribute_access_type=dict(kind='enum', file=ATTR, name='attribute_access_type'),
    device_pairing_status=dict(kind='enum', file=PST, name='device_pairing_status'),
    sec_fields=dict(kind='fields', file=PST, scope=r'struct connection_security_attributes\b', names=['is_encrypted', 'pairing_status'],
                    type_map={'device_pairing_status': 'enum device_pairing_status'}),
    ccc_fields=dict(kind='fields', file=CCC, scope=CCC_CLS, names=['data_']),
    args_fields=dict(kind='fields', file=ATTR, scope=r'struct attribute_access_arguments\b',
                     names=['type', 'buffer', 'buffer_size', 'buffer_offset', 'client_config', 'connection_security', 'server'],
                     type_map={'attribute_access_type': 'enum attribute_access_type', 'client_characteristic_configuration': 'struct ccc',
                               'connection_security_attributes': 'struct connection_security_attributes'}),
    enc_check_false=dict(file=CV, scope=r'struct encryption_requirements< false >', locate=r'static attribute_access_result check\( const connection_security_attributes& \)', rules=ACC_RULES),
    enc_check_true=dict(file=CV, scope=r'struct encryption_requirements< true >', locate=r'static attribute_access_result check\( const connection_security_attributes& attr \)', rules=ACC_RULES),
    ccc_shift=dict(file=CCC, scope=CCC_CLS, locate=r'static constexpr std::size_t shift\( std::size_t index \)'),
    ccc_mask=dict(file=CCC, scope=CCC_CLS, locate=r'static constexpr std::uint8_t mask\( std::size_t index \)'),
    ccc_get=dict(file=CCC, scope=CCC_CLS, locate=r'std::uint16_t flags\( std::size_t index \) const'),
    ccc_set=dict(file=CCC, scope=CCC_CLS, locate=r'void flags\( std::size_t index, std::uint16_t new_flags \)'),
    ccc_bits=dict(kind='expr', file=CCC, scope=CCC_CLS, locate=r'static constexpr std::size_t bits_per_config ='),
)

# SIZE_MAX configurations: the number of characteristics with a CCCD is a template parameter; symbolic here
ACC_CODE = BITS_CODE + r'''
{{attribute_access_result}};
{{attribute_access_type}};
{{device_pairing_status}};
struct connection_security_attributes { {{sec_fields}} };
struct ccc { {{ccc_fields}} };
struct attribute_access_arguments { {{args_fields}} };
#define bits_per_config ((size_t)({{ccc_bits}}))
#ifndef CCC_MAX
#define CCC_MAX 64
#endif
size_t G_Size;                 /* client_characteristic_configurations< Size > */
#define CCC_BYTES(n) (((n) * bits_per_config + 7) / 8)
/* abstract view of the packed store: the two bits of configuration i */
#define CCC_VIEW(d, i) ((uint16_t)(((d)[(i) >> 2] >> (((i) & 3) << 1)) & 3))
bool G_requires_encryption;    /* characteristic_requires_encryption< Characteristic, Service, Server >::value */

/* ---- the encryption gate (characteristic_value.hpp), both specialisations; the template argument selects */
enum attribute_access_result enc_check_false(const struct connection_security_attributes* attr)
__CPROVER_ensures(__CPROVER_return_value == attribute_access_result_success)
__CPROVER_assigns()
{{enc_check_false}}
enum attribute_access_result enc_check_true(const struct connection_security_attributes* attr)
__CPROVER_requires(__CPROVER_r_ok(attr, sizeof(*attr)))
__CPROVER_ensures(attr->is_encrypted ==> __CPROVER_return_value == attribute_access_result_success)
__CPROVER_ensures((!attr->is_encrypted && attr->pairing_status == device_pairing_status_no_key) ==> __CPROVER_return_value == attribute_access_result_insufficient_authentication)
__CPROVER_ensures((!attr->is_encrypted && attr->pairing_status != device_pairing_status_no_key) ==> __CPROVER_return_value == attribute_access_result_insufficient_encryption)
__CPROVER_assigns()
{{enc_check_true}}
/* template instantiation encryption_requirements< B >::check (glue, not repository code) */
static inline enum attribute_access_result encryption_requirements_check(bool b, const struct connection_security_attributes* attr)
{ return b ? enc_check_true(attr) : enc_check_false(attr); }
#define ENC_REFUSED(args) (G_requires_encryption && !(args)->connection_security.is_encrypted)
#define ENC_CODE(args) ((args)->connection_security.pairing_status == device_pairing_status_no_key ? attribute_access_result_insufficient_authentication : attribute_access_result_insufficient_encryption)

/* ---- client_characteristic_configuration (2 bits per characteristic, 4 per byte) */
size_t shift(size_t index)
__CPROVER_ensures(__CPROVER_return_value == ((index & 3) << 1))
__CPROVER_assigns()
{{ccc_shift}}
uint8_t mask(size_t index)
__CPROVER_ensures(__CPROVER_return_value == (uint8_t)(3u << ((index & 3) << 1)))
__CPROVER_assigns()
{{ccc_mask}}
size_t G_ccc_j;   /* ghost: any other configuration */
uint16_t flags_get(const struct ccc* self, size_t index)
__CPROVER_requires(__CPROVER_is_fresh(self, sizeof(*self)) && G_Size >= 1 && G_Size <= CCC_MAX && index < G_Size && __CPROVER_is_fresh(self->data_, CCC_BYTES(G_Size)))
__CPROVER_ensures(__CPROVER_return_value == CCC_VIEW(self->data_, index))
__CPROVER_assigns()
{{ccc_get}}
void flags_set(struct ccc* self, size_t index, uint16_t new_flags)
__CPROVER_requires(__CPROVER_is_fresh(self, sizeof(*self)) && G_Size >= 1 && G_Size <= CCC_MAX && index < G_Size && __CPROVER_is_fresh(self->data_, CCC_BYTES(G_Size)))
__CPROVER_requires(G_ccc_j < G_Size)
/* reads back exactly the two bits written, other bits dropped */
__CPROVER_ensures(CCC_VIEW(self->data_, index) == (new_flags & 3))
/* no other configuration changes */
__CPROVER_ensures(G_ccc_j != index ==> CCC_VIEW(self->data_, G_ccc_j) == __CPROVER_old(CCC_VIEW(self->data_, G_ccc_j)))
/* frame: exactly the byte holding configuration 'index' */
__CPROVER_assigns(self->data_[index >> 2])
{{ccc_set}}
'''
