"""C30 The interrupt-safe ring is a lossless FIFO under any interleaving (rely/guarantee, DESIGN.md 4.5)."""
RING = 'bluetoe/utility/include/bluetoe/ring.hpp'
CLS = r'class ring\b'
T = r'template < std::size_t S, typename T >\s*'

EX = dict(
    fields=dict(kind='fields', file=RING, scope=CLS, names=['read_ptr_', 'write_ptr_', 'data_'],
                type_map={'std::atomic_int': 'int', 'T': 'ELEM'}, rules=[(r'data_\[ length \]', 'data_[RING_MAX + 1]', '*')]),
    length=dict(kind='expr', file=RING, scope=CLS, locate=r'static constexpr std::size_t length\s*='),
)
# every access to shared state becomes an explicit step with an interference point in front of it
ATOMIC_RULES = [
    (r'self->read_ptr_\.load\(\)', 'rg_load_read( self )', '*'),
    (r'self->write_ptr_\.load\(\)', 'rg_load_write( self )', '*'),
    (r'self->write_ptr_\.store\( ([^;]+?) \)', r'rg_store_write( self, \1 )', '*'),
    (r'self->read_ptr_\.store\( ([^;]+?) \)', r'rg_store_read( self, \1 )', '*'),
    (r'self->write_ptr_\.exchange\( ([^;()]+?) \)', r'rg_exchange_write( self, \1 )', '*'),
    (r'self->read_ptr_\.exchange\( ([^;()]+?) \)', r'rg_exchange_read( self, \1 )', '*'),
    (r'self->data_\[ ([^;=]+?) \] = in;', r'rg_data_write( self, \1, *in );', '*'),
    (r'out = self->data_\[ ([^;=]+?) \];', r'*out = rg_data_read( self, \1 );', '*'),
]
HEAD = r'''
typedef int ELEM;                 /* element type T: one machine word */
#ifndef RING_MAX
#define RING_MAX 16
#endif
size_t G_S;                       /* template parameter S (capacity): symbolic */
#define S G_S
#define length ({{length}})
struct ring { {{fields}} };
size_t W_S; int W_read, W_write, W_read_after, W_write_after; ELEM W_in, W_head; size_t W_s;
size_t G_s;                       /* ghost slot: stands for 'every slot' */
int G_read_at_load, G_write_at_load;   /* ghost: what the function saw when it loaded the other side's pointer */
ELEM G_at_s;
#define LEN           ((int)length)
#define S_OK          (G_S >= 1 && G_S <= RING_MAX && G_S == W_S)
#define CNT(r, w)     ((w) >= (r) ? (w) - (r) : (w) + LEN - (r))      /* number of pending elements */
#define PENDING(k, r, w) ((r) <= (w) ? ((k) >= (r) && (k) < (w)) : ((k) >= (r) || (k) < (w)))
#define RING_OK(self) (__CPROVER_is_fresh(self, sizeof(struct ring)) && (self)->read_ptr_ >= 0 && (self)->read_ptr_ < LEN \
                       && (self)->write_ptr_ >= 0 && (self)->write_ptr_ < LEN && (self)->read_ptr_ == W_read && (self)->write_ptr_ == W_write)
'''
PRODUCER_SIDE = r'''
/* rely of try_push: the consumer (try_pop in another context) may pop pending elements at any time: read_ptr_ moves
   forward, at most up to write_ptr_; it never writes write_ptr_ or data_ */
void interfere(struct ring* self)
__CPROVER_requires(self->read_ptr_ >= 0 && self->read_ptr_ < LEN && self->write_ptr_ >= 0 && self->write_ptr_ < LEN)
__CPROVER_ensures(self->read_ptr_ >= 0 && self->read_ptr_ < LEN && CNT(self->read_ptr_, self->write_ptr_) <= CNT(__CPROVER_old(self->read_ptr_), self->write_ptr_))
__CPROVER_assigns(self->read_ptr_);
'''
CONSUMER_SIDE = r'''
/* rely of try_pop: the producer (try_push in another context) may push at any time: it writes only slots that are not
   pending, then moves write_ptr_ forward, never onto read_ptr_ (never more than S pending) */
void interfere(struct ring* self)
__CPROVER_requires(self->read_ptr_ >= 0 && self->read_ptr_ < LEN && self->write_ptr_ >= 0 && self->write_ptr_ < LEN && G_s < (size_t)LEN)
__CPROVER_ensures(self->write_ptr_ >= 0 && self->write_ptr_ < LEN && CNT(self->read_ptr_, self->write_ptr_) >= CNT(self->read_ptr_, __CPROVER_old(self->write_ptr_)))
__CPROVER_ensures(PENDING((int)G_s, self->read_ptr_, __CPROVER_old(self->write_ptr_)) ==> self->data_[G_s] == __CPROVER_old(self->data_[G_s]))
__CPROVER_assigns(self->write_ptr_, __CPROVER_object_upto(self->data_, sizeof(self->data_)));
'''
STEPS = r'''
int  rg_load_read(struct ring* self)            { interfere(self); int v = self->read_ptr_; G_read_at_load = v; return v; }
int  rg_load_write(struct ring* self)           { interfere(self); int v = self->write_ptr_; G_write_at_load = v; return v; }
/* guarantee obligations, checked at the very step (these are what the other side's rely assumes) */
void rg_store_write(struct ring* self, int v)   { interfere(self);
  __CPROVER_assert(v >= 0 && v < LEN && CNT(self->read_ptr_, v) == CNT(self->read_ptr_, self->write_ptr_) + 1 && CNT(self->read_ptr_, v) <= (int)G_S,
                   "guarantee(producer): write_ptr_ advances by one and never onto read_ptr_");
  self->write_ptr_ = v; }
void rg_store_read(struct ring* self, int v)    { interfere(self);
  __CPROVER_assert(v >= 0 && v < LEN && CNT(self->read_ptr_, self->write_ptr_) >= 1 && CNT(v, self->write_ptr_) + 1 == CNT(self->read_ptr_, self->write_ptr_),
                   "guarantee(consumer): read_ptr_ advances by one and never past write_ptr_");
  self->read_ptr_ = v; }
int  rg_exchange_write(struct ring* self, int v) { interfere(self); int old = self->write_ptr_;
  __CPROVER_assert(v >= 0 && v < LEN && CNT(self->read_ptr_, v) == CNT(self->read_ptr_, self->write_ptr_) + 1 && CNT(self->read_ptr_, v) <= (int)G_S,
                   "guarantee(producer): write_ptr_ advances by one and never onto read_ptr_");
  self->write_ptr_ = v; return old; }
int  rg_exchange_read(struct ring* self, int v) { interfere(self); int old = self->read_ptr_;
  __CPROVER_assert(v >= 0 && v < LEN && CNT(self->read_ptr_, self->write_ptr_) >= 1 && CNT(v, self->write_ptr_) + 1 == CNT(self->read_ptr_, self->write_ptr_),
                   "guarantee(consumer): read_ptr_ advances by one and never past write_ptr_");
  self->read_ptr_ = v; return old; }
void rg_data_write(struct ring* self, int i, ELEM e) { interfere(self);
  __CPROVER_assert(i >= 0 && i < LEN && !PENDING(i, self->read_ptr_, self->write_ptr_), "guarantee(producer): only a non-pending slot is written");
  self->data_[i] = e; }
ELEM rg_data_read(struct ring* self, int i)     { interfere(self);
  __CPROVER_assert(i >= 0 && i < LEN && PENDING(i, self->read_ptr_, self->write_ptr_), "guarantee(consumer): only a pending slot is read");
  return self->data_[i]; }
#define SETUP struct ring* r; W_S = nondet_size(); G_S = W_S; W_read = nondet_int(); W_write = nondet_int(); W_in = nondet_int(); W_head = nondet_int(); \
   W_s = nondet_size(); G_s = W_s; G_at_s = nondet_int(); BT_KNOWN_EXCLUDE()
'''

UNITS = [
    dict(name='try_push',
         extracts=dict(EX, push=dict(file=RING, locate=T + r'bool ring< S, T >::try_push\( const T& in \)', rules=ATOMIC_RULES)),
         code=HEAD + PRODUCER_SIDE + STEPS + r'''
bool try_push(struct ring* self, const ELEM* in)
__CPROVER_requires(S_OK && RING_OK(self) && __CPROVER_is_fresh(in, sizeof(ELEM)) && *in == W_in)
__CPROVER_requires(G_s < (size_t)LEN && G_s == W_s && self->data_[G_s] == G_at_s)
/* success: the element is appended behind the pending ones, in a slot that was not pending; nothing pending is touched */
__CPROVER_ensures(__CPROVER_return_value ==> (self->write_ptr_ == (W_write + 1) % LEN && self->data_[W_write] == W_in))
__CPROVER_ensures((int)G_s != W_write ==> self->data_[G_s] == G_at_s)
/* the ring never holds more than S elements and is not made to look empty by a push (guarantee the consumer relies on) */
__CPROVER_ensures(__CPROVER_return_value ==> (CNT(self->read_ptr_, self->write_ptr_) >= 1 && CNT(self->read_ptr_, self->write_ptr_) <= (int)G_S))
/* failure: only if the ring held its capacity when read_ptr_ was loaded; and then nothing changes */
__CPROVER_ensures(!__CPROVER_return_value ==> (CNT(G_read_at_load, W_write) == (int)G_S && self->write_ptr_ == W_write && self->data_[G_s] == G_at_s))
__CPROVER_assigns(self->read_ptr_, self->write_ptr_, __CPROVER_object_upto(self->data_, sizeof(self->data_)), G_read_at_load, G_write_at_load)
{{push}}
void h_try_push(void) { SETUP; ELEM* in; try_push(r, in); BT_CANARY(); }
''', enforce=['try_push'], replace=['interfere'], replay=dict(src='replay/c30_replay.cpp')),

    dict(name='try_pop',
         extracts=dict(EX, pop=dict(file=RING, locate=T + r'bool ring< S, T >::try_pop\( T& out \)', rules=ATOMIC_RULES),
                       ctor=dict(file=RING, locate=T + r'ring< S, T >::ring\(\)', init_list=True,
                                 rules=[(r'BT_STATIC_ASSERT\( ATOMIC_INT_LOCK_FREE,[^;]*;', '', 1)])),
         code=HEAD + CONSUMER_SIDE + STEPS + r'''
bool try_pop(struct ring* self, ELEM* out)
__CPROVER_requires(S_OK && RING_OK(self) && __CPROVER_is_fresh(out, sizeof(ELEM)) && CNT(self->read_ptr_, self->write_ptr_) <= (int)G_S)
__CPROVER_requires(self->data_[self->read_ptr_] == W_head && G_s < (size_t)LEN && G_s == (size_t)self->read_ptr_)
/* success: returns the oldest pending element and removes exactly it (if the ring was empty on entry the element
   returned is one the producer pushed meanwhile - into the slot at read_ptr_, the only slot it can make the head) */
__CPROVER_ensures(__CPROVER_return_value ==> (self->read_ptr_ == (W_read + 1) % LEN && CNT(W_read, G_write_at_load) >= 1))
__CPROVER_ensures((__CPROVER_return_value && CNT(W_read, W_write) >= 1) ==> *out == W_head)
/* failure: only if nothing was pending when write_ptr_ was loaded; nothing changes on the consumer side */
__CPROVER_ensures(!__CPROVER_return_value ==> (G_write_at_load == W_read && self->read_ptr_ == W_read))
__CPROVER_assigns(self->read_ptr_, self->write_ptr_, __CPROVER_object_upto(self->data_, sizeof(self->data_)), *out, G_read_at_load, G_write_at_load)
{{pop}}
void ring_ctor(struct ring* self)
__CPROVER_requires(__CPROVER_is_fresh(self, sizeof(struct ring)))
__CPROVER_ensures(self->read_ptr_ == 0 && self->write_ptr_ == 0)
__CPROVER_assigns(self->read_ptr_, self->write_ptr_)
{{ctor}}
void h_try_pop(void) { SETUP; ELEM* out; try_pop(r, out); BT_CANARY(); }
void h_ring_ctor(void) { SETUP; ring_ctor(r); BT_CANARY(); }
''', enforce=['try_pop', 'ring_ctor'], replace=['interfere'], replay=dict(src='replay/c30_replay.cpp')),
]

META = dict(
    level='proof',
    explanation="try_push, try_pop and the constructor of details::ring are extracted; every atomic load/store and every data_ access is made an "
                "explicit step preceded by an interference point whose contract is the rely of the other side (consumer: read_ptr_ moves "
                "forward at most to write_ptr_; producer: writes only non-pending slots, moves write_ptr_ forward, never more than S pending). "
                "Proved for symbolic capacity S (1..16) and every interleaving at load/store granularity: push appends in a non-pending slot, "
                "touches no pending element, fails only if the ring held S elements at the load of read_ptr_; pop returns the oldest element, "
                "fails only if empty at the load of write_ptr_; each side's guarantee implies the other side's rely.",
    assumptions=["std::atomic_int load()/store() are sequentially consistent; element type T is one machine word (copy of T cannot be torn)",
                 "S symbolic in [1,16]"],
    trusted_base=["interfere(): rely relation (assumed in one unit, implied by the guarantee proved in the other unit)"],
)
