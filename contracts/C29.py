"""C29 Connection lifecycle is reported completely and in order (the event ring between interrupt context and application call backs)."""
import os, sys
sys.path.insert(0, os.path.dirname(__file__))
from common import BITS_EXTRACTS, BITS_CODE, COPY_RULE
CC = 'bluetoe/link_layer/include/bluetoe/connection_callbacks.hpp'
LL = 'bluetoe/link_layer/include/bluetoe/link_layer.hpp'
CLS = r'struct connection_callbacks\s*(?=\{)'
EV = CLS
KINDS = 'requested|attempt_timeout|established|changed|closed|version|rejected|unknown|remote_features|update_phy|none'
R = [(r'(?<![\w.>:])(%s)(?![\w(<])' % KINDS, r'event_type_t_\1', '*'),
     (r'const event_data data\( (\w+), &connection, details \);', r'struct event_data data; event_data_ctor( &data, \1, connection, *details );', '*'),
     (r'const event_data data\( (\w+), &connection \);', r'struct event_data data; event_data_ctor( &data, \1, connection, connection_details_default() );', '*'),
     (r'const event_data data = \{ (\w+), &connection, details \};', r'struct event_data data; event_data_ctor( &data, \1, connection, *details );', '*'),
     (r'(?<!const )event_data data = \{ (\w+), &connection \};', r'struct event_data data; event_data_ctor( &data, \1, connection, connection_details_default() );', '*'),
     (r'self->events_\.try_push\( data \)', 'events_try_push( &data )', '*'), (r'r\.wake_up\(\)', 'radio_wake_up()', '*'),
     COPY_RULE('*'),
     (r'(?<!struct )\bevent_data data;', 'struct event_data data;', '*'), (r'self->events_\.try_pop\( data \)', 'events_try_pop( &data )', '*'),
     (r'call_ll_(\w+)< T >\( Obj,\s*', r'cb_\1( ', '*'), (r'connection_data< LinkLayer >\( data \)', 'data.connection_', '*'),
     (r'bluetoe::details::read_16bit', 'read_16bit', '*'),
     (r'\(\(bluetoe::link_layer::phy_ll_encoding::phy_ll_encoding_t\)\( ([^;]*?) \)\)', r'(int)( \1 )', '*'),
     (r'self->addresses_  = addresses;', 'self->addresses_ = *addresses;', '*'), (r'self->addresses_(?!\s*=)', '&self->addresses_', '*'), (r'data\.details_(?! =)', '&data.details_', '*')]
def P(sig, **kw):
    d = dict(file=CC, scope=CLS, locate=sig, rules=R); d.update(kw); return d
T2 = r'template < class Connection, class Radio >\s*'
EX = dict(BITS_EXTRACTS,
    kinds=dict(kind='enum', file=CC, scope=CLS, name='event_type_t'),
    ev_fields=dict(kind='fields', file=CC, scope=[CLS, r'struct event_data\s*(?=\{)'], names=['event_type_', 'connection_', 'details_', 'raw_details_'],
                   type_map={'event_type_t': 'enum event_type_t', 'connection_details': 'struct connection_details'}),
    ev_ctor=dict(file=CC, scope=[CLS, r'struct event_data\s*(?=\{)'], locate=r'event_data\( event_type_t ev, void\* con, connection_details d = connection_details\(\) \)', init_list=True),
    cb_fields=dict(kind='fields', file=CC, scope=CLS, names=['addresses_'], type_map={'connection_addresses': 'struct connection_addresses'}),
    version_ind_size=dict(kind='expr', file=CC, scope=CLS, locate=r'static constexpr std::size_t version_ind_size ='),
    feature_field_size=dict(kind='expr', file=CC, scope=CLS, locate=r'static constexpr std::size_t feature_field_size ='),
    max_events=dict(kind='expr', file=CC, scope=CLS, locate=r'static constexpr std::size_t max_events ='),
    connection_request=P(r'void connection_request\( const connection_addresses& addresses \)'),
    requested=P(T2 + r'void connection_requested\(\s*const connection_details&\s+details,\s*Connection&\s+connection,\s*Radio&\s+r \)'),
    established=P(T2 + r'void connection_established\(\s*const connection_details&\s+details,\s*Connection&\s+connection,\s*Radio&\s+r \)'),
    attempt_timeout=P(T2 + r'void connection_attempt_timeout\( Connection& connection, Radio& r \)'),
    changed=P(T2 + r'void connection_changed\( const bluetoe::link_layer::connection_details& details, Connection& connection, Radio& r \)'),
    closed=P(T2 + r'void connection_closed\( std::uint8_t reason, Connection& connection, Radio& r \)'),
    rejected=P(T2 + r'void procedure_rejected\( std::uint8_t error_code, Connection& connection, Radio& r \)'),
    unknown=P(T2 + r'void procedure_unknown\( std::uint8_t error_code, Connection& connection, Radio& r \)'),
    version=P(T2 + r'void version_indication_received\( const std::uint8_t\* details, Connection& connection, Radio& r \)'),
    features=P(T2 + r'void remote_features_received\( const std::uint8_t rf\[ 8 \], Connection& connection, Radio& r \)'),
    phy=P(T2 + r'void phy_update\( std::uint8_t phy_c_to_p, std::uint8_t phy_p_to_c, Connection& connection, Radio& r \)'),
    handle=P(r'template < class LinkLayer >\s*void handle_connection_events\(\)', loops=[dict(header=r'while \( events_try_pop\( &data \) \)', contract="""
    __CPROVER_assigns(data, G_cb, G_q.pending, G_q.pops, G_q.none_pops, G_q.last)
    __CPROVER_loop_invariant(G_cb.calls + G_q.none_pops == G_q.pops && G_q.pops + G_q.pending == W_pending && G_q.pending <= W_pending && G_q.none_pops <= G_q.pops && LAST_DISPATCHED)
    __CPROVER_decreases(G_q.pending)""")]),
)
CODE = BITS_CODE + r'''
{{kinds}};
/* connection_details / connection_addresses: copied around only; opaque here, a tag stands for the content */
struct connection_details { int tag; }; struct connection_addresses { int tag; };
static inline struct connection_details connection_details_default(void) { return (struct connection_details){ 0 }; }
#define version_ind_size ((size_t)({{version_ind_size}}))
#define feature_field_size ((size_t)({{feature_field_size}}))
#define max_events ((size_t)({{max_events}}))
struct event_data { {{ev_fields}} };
struct callbacks { {{cb_fields}} };
void event_data_ctor(struct event_data* self, enum event_type_t ev, void* con, struct connection_details d)
__CPROVER_requires(__CPROVER_rw_ok(self, sizeof(*self)))
__CPROVER_ensures(self->event_type_ == ev && self->connection_ == con && self->details_.tag == d.tag)
__CPROVER_assigns(self->event_type_, self->connection_, self->details_)
{{ev_ctor}}
/* ---- bluetoe::details::ring< max_events, event_data > events_ (C30 proves the ring a lossless FIFO of capacity S): abstract, one push / pop at a time */
struct ev_rec { int type; void* conn; int tag; uint8_t raw_j; };
struct { size_t pushes, accepted, pending, pops, none_pops; struct ev_rec pushed, last; } G_q;
size_t G_j;   /* ghost: one octet of raw_details_ */
bool W_full; size_t W_pending; int G_wake;
bool events_try_push(const struct event_data* d)
__CPROVER_requires(__CPROVER_r_ok(d, sizeof(*d)) && G_j < 8)
__CPROVER_ensures(__CPROVER_return_value == !W_full && G_q.pushes == __CPROVER_old(G_q.pushes) + 1 && G_q.accepted == __CPROVER_old(G_q.accepted) + (W_full ? 0 : 1))
__CPROVER_ensures(G_q.pushed.type == (int)d->event_type_ && G_q.pushed.conn == d->connection_ && G_q.pushed.tag == d->details_.tag && G_q.pushed.raw_j == d->raw_details_[G_j])
__CPROVER_assigns(G_q.pushes, G_q.accepted, G_q.pushed);
bool events_try_pop(struct event_data* out)
__CPROVER_requires(__CPROVER_rw_ok(out, sizeof(*out)) && G_j < 8)
__CPROVER_ensures(__CPROVER_return_value == (__CPROVER_old(G_q.pending) > 0))
__CPROVER_ensures(__CPROVER_return_value ==> (G_q.pending == __CPROVER_old(G_q.pending) - 1 && G_q.pops == __CPROVER_old(G_q.pops) + 1
    && out->event_type_ >= event_type_t_none && out->event_type_ <= event_type_t_update_phy
    && G_q.none_pops == __CPROVER_old(G_q.none_pops) + (out->event_type_ == event_type_t_none ? 1 : 0)
    && G_q.last.type == (int)out->event_type_ && G_q.last.conn == out->connection_ && G_q.last.tag == out->details_.tag && G_q.last.raw_j == out->raw_details_[G_j]))
__CPROVER_ensures(!__CPROVER_return_value ==> (G_q.pending == 0 && G_q.pops == __CPROVER_old(G_q.pops) && G_q.none_pops == __CPROVER_old(G_q.none_pops)
    && G_q.last.type == __CPROVER_old(G_q.last.type) && G_q.last.conn == __CPROVER_old(G_q.last.conn) && G_q.last.tag == __CPROVER_old(G_q.last.tag) && G_q.last.raw_j == __CPROVER_old(G_q.last.raw_j)))
__CPROVER_assigns(*out, G_q.pending, G_q.pops, G_q.none_pops, G_q.last);
static inline void radio_wake_up(void) { ++G_wake; }
/* ---- the application's call backs (T::ll_...; the SFINAE wrappers call_ll_...< T > call them if T has them): abstract, calls recorded */
struct { size_t calls; int kind; void* conn; int tag, addr_tag; uint8_t b0, b1; uint16_t u16a, u16b; uint8_t raw_j; int e0, e1; } G_cb;
#define CB(k) G_cb.calls == __CPROVER_old(G_cb.calls) + 1 && G_cb.kind == (k) && G_cb.conn == c
void cb_connection_requested(const struct connection_details* d, const struct connection_addresses* a, void* c) __CPROVER_ensures(CB(event_type_t_requested) && G_cb.tag == d->tag && G_cb.addr_tag == a->tag) __CPROVER_assigns(G_cb);
void cb_connection_attempt_timeout(void* c) __CPROVER_ensures(CB(event_type_t_attempt_timeout)) __CPROVER_assigns(G_cb);
void cb_connection_established(const struct connection_details* d, const struct connection_addresses* a, void* c) __CPROVER_ensures(CB(event_type_t_established) && G_cb.tag == d->tag && G_cb.addr_tag == a->tag) __CPROVER_assigns(G_cb);
void cb_connection_changed(const struct connection_details* d, void* c) __CPROVER_ensures(CB(event_type_t_changed) && G_cb.tag == d->tag) __CPROVER_assigns(G_cb);
void cb_connection_closed(uint8_t reason, void* c) __CPROVER_ensures(CB(event_type_t_closed) && G_cb.b0 == reason) __CPROVER_assigns(G_cb);
void cb_version(void* c, uint8_t version, uint16_t company, uint16_t subversion) __CPROVER_ensures(CB(event_type_t_version) && G_cb.b0 == version && G_cb.u16a == company && G_cb.u16b == subversion) __CPROVER_assigns(G_cb);
void cb_rejected(void* c, uint8_t error_code) __CPROVER_ensures(CB(event_type_t_rejected) && G_cb.b0 == error_code) __CPROVER_assigns(G_cb);
void cb_unknown(void* c, uint8_t error_code) __CPROVER_ensures(CB(event_type_t_unknown) && G_cb.b0 == error_code) __CPROVER_assigns(G_cb);
void cb_remote_features(void* c, uint8_t* rf) __CPROVER_requires(__CPROVER_r_ok(rf, 8)) __CPROVER_ensures(CB(event_type_t_remote_features) && G_cb.raw_j == rf[G_j]) __CPROVER_assigns(G_cb);
void cb_phy_updated(void* c, int transmit_encoding, int receive_encoding) __CPROVER_ensures(CB(event_type_t_update_phy) && G_cb.e0 == transmit_encoding && G_cb.e1 == receive_encoding) __CPROVER_assigns(G_cb);
/* ---- producers (called from the link layer, interrupt context): exactly one event of the right kind for the right connection with the payload given; the radio is woken */
#define PRE(self) (__CPROVER_is_fresh(self, sizeof(struct callbacks)) && G_q.pushes == 0 && G_q.accepted == 0 && G_wake == 0 && G_j < 8)
#define PUSHED(k) (G_q.pushes == 1 && G_q.pushed.type == (k) && G_q.pushed.conn == connection && G_wake == 1)
/* C29 'each exactly once': the event must not be lost */
#define KEPT (G_q.accepted == 1)
#define FRAME __CPROVER_assigns(G_q.pushes, G_q.accepted, G_q.pushed, G_wake)
void connection_request(struct callbacks* self, const struct connection_addresses* addresses)
__CPROVER_requires(PRE(self) && __CPROVER_is_fresh(addresses, sizeof(*addresses))) __CPROVER_ensures(self->addresses_.tag == addresses->tag && G_q.pushes == 0) __CPROVER_assigns(self->addresses_)
{{connection_request}}
void connection_requested(struct callbacks* self, const struct connection_details* details, void* connection)
__CPROVER_requires(PRE(self) && __CPROVER_is_fresh(details, sizeof(*details))) __CPROVER_ensures(PUSHED(event_type_t_requested) && G_q.pushed.tag == details->tag) __CPROVER_ensures(KEPT) FRAME
{{requested}}
void connection_established(struct callbacks* self, const struct connection_details* details, void* connection)
__CPROVER_requires(PRE(self) && __CPROVER_is_fresh(details, sizeof(*details))) __CPROVER_ensures(PUSHED(event_type_t_established) && G_q.pushed.tag == details->tag) __CPROVER_ensures(KEPT) FRAME
{{established}}
void connection_attempt_timeout(struct callbacks* self, void* connection)
__CPROVER_requires(PRE(self)) __CPROVER_ensures(PUSHED(event_type_t_attempt_timeout)) __CPROVER_ensures(KEPT) FRAME
{{attempt_timeout}}
void connection_changed(struct callbacks* self, const struct connection_details* details, void* connection)
__CPROVER_requires(PRE(self) && __CPROVER_is_fresh(details, sizeof(*details))) __CPROVER_ensures(PUSHED(event_type_t_changed) && G_q.pushed.tag == details->tag) __CPROVER_ensures(KEPT) FRAME
{{changed}}
void connection_closed(struct callbacks* self, uint8_t reason, void* connection)
__CPROVER_requires(PRE(self)) __CPROVER_ensures(PUSHED(event_type_t_closed) && (G_j == 0 ==> G_q.pushed.raw_j == reason)) __CPROVER_ensures(KEPT) FRAME
{{closed}}
void procedure_rejected(struct callbacks* self, uint8_t error_code, void* connection)
__CPROVER_requires(PRE(self)) __CPROVER_ensures(PUSHED(event_type_t_rejected) && (G_j == 0 ==> G_q.pushed.raw_j == error_code)) __CPROVER_ensures(KEPT) FRAME
{{rejected}}
void procedure_unknown(struct callbacks* self, uint8_t error_code, void* connection)
__CPROVER_requires(PRE(self)) __CPROVER_ensures(PUSHED(event_type_t_unknown) && (G_j == 0 ==> G_q.pushed.raw_j == error_code)) __CPROVER_ensures(KEPT) FRAME
{{unknown}}
void version_indication_received(struct callbacks* self, const uint8_t* details, void* connection)
__CPROVER_requires(PRE(self) && __CPROVER_is_fresh(details, 5) && G_pre_j == G_j) __CPROVER_ensures(PUSHED(event_type_t_version) && (G_j < 5 ==> G_q.pushed.raw_j == details[G_j])) __CPROVER_ensures(KEPT) FRAME
{{version}}
void remote_features_received(struct callbacks* self, const uint8_t* rf, void* connection)
__CPROVER_requires(PRE(self) && __CPROVER_is_fresh(rf, 8) && G_pre_j == G_j) __CPROVER_ensures(PUSHED(event_type_t_remote_features) && G_q.pushed.raw_j == rf[G_j]) __CPROVER_ensures(KEPT) FRAME
{{features}}
void phy_update(struct callbacks* self, uint8_t phy_c_to_p, uint8_t phy_p_to_c, void* connection)
__CPROVER_requires(PRE(self)) __CPROVER_ensures(PUSHED(event_type_t_update_phy) && (G_j == 0 ==> G_q.pushed.raw_j == phy_c_to_p) && (G_j == 1 ==> G_q.pushed.raw_j == phy_p_to_c)) __CPROVER_ensures(KEPT) FRAME
{{phy}}
/* ---- consumer (application context): every pending event is popped, in order, and dispatched to its call back exactly once with its own connection and payload */
#define LAST_DISPATCHED ((G_q.pops == 0 || G_q.last.type == event_type_t_none) || (G_cb.kind == G_q.last.type && G_cb.conn == G_q.last.conn && PAYLOAD_OK))
#define PAYLOAD_OK \
  (((G_cb.kind == event_type_t_requested || G_cb.kind == event_type_t_established) ==> (G_cb.tag == G_q.last.tag && G_cb.addr_tag == W_addr_tag)) \
   && (G_cb.kind == event_type_t_changed ==> G_cb.tag == G_q.last.tag) \
   && ((G_cb.kind == event_type_t_closed || G_cb.kind == event_type_t_rejected || G_cb.kind == event_type_t_unknown || G_cb.kind == event_type_t_version) ==> (G_j == 0 ==> G_cb.b0 == G_q.last.raw_j)) \
   && (G_cb.kind == event_type_t_version ==> ((G_j == 1 ==> (G_cb.u16a & 0xff) == G_q.last.raw_j) && (G_j == 2 ==> (G_cb.u16a >> 8) == G_q.last.raw_j) && (G_j == 3 ==> (G_cb.u16b & 0xff) == G_q.last.raw_j) && (G_j == 4 ==> (G_cb.u16b >> 8) == G_q.last.raw_j))) \
   && (G_cb.kind == event_type_t_remote_features ==> G_cb.raw_j == G_q.last.raw_j) \
   && (G_cb.kind == event_type_t_update_phy ==> ((G_j == 0 ==> G_cb.e0 == (int)G_q.last.raw_j) && (G_j == 1 ==> G_cb.e1 == (int)G_q.last.raw_j))))
int W_addr_tag;
void handle_connection_events(struct callbacks* self)
__CPROVER_requires(__CPROVER_is_fresh(self, sizeof(struct callbacks)) && self->addresses_.tag == W_addr_tag && G_q.pending == W_pending && W_pending <= max_events && G_q.pops == 0 && G_q.none_pops == 0 && G_cb.calls == 0 && G_j < 8)
__CPROVER_ensures(G_q.pending == 0 && G_q.pops == W_pending && G_cb.calls + G_q.none_pops == W_pending && LAST_DISPATCHED)
__CPROVER_assigns(G_cb, G_q.pending, G_q.pops, G_q.none_pops, G_q.last)
{{handle}}
#define SETUP struct callbacks* s; W_full = nondet_bool(); W_pending = nondet_size(); W_addr_tag = nondet_int(); G_j = nondet_size(); G_pre_j = G_j; G_q.pushes = 0; G_q.accepted = 0; G_q.pending = W_pending; G_q.pops = 0; G_q.none_pops = 0; \
  G_cb.calls = 0; G_wake = 0; int conn_obj; void* c = &conn_obj; struct connection_details* d; BT_KNOWN_EXCLUDE()
void h_event_data_ctor(void) { SETUP; struct event_data e; event_data_ctor(&e, nondet_int(), c, (struct connection_details){ nondet_int() }); BT_CANARY(); }
void h_connection_request(void) { SETUP; struct connection_addresses* a; connection_request(s, a); BT_CANARY(); }
void h_connection_requested(void) { SETUP; connection_requested(s, d, c); BT_CANARY(); }
void h_connection_established(void) { SETUP; connection_established(s, d, c); BT_CANARY(); }
void h_connection_attempt_timeout(void) { SETUP; connection_attempt_timeout(s, c); BT_CANARY(); }
void h_connection_changed(void) { SETUP; connection_changed(s, d, c); BT_CANARY(); }
void h_connection_closed(void) { SETUP; connection_closed(s, nondet_u8(), c); BT_CANARY(); }
void h_procedure_rejected(void) { SETUP; procedure_rejected(s, nondet_u8(), c); BT_CANARY(); }
void h_procedure_unknown(void) { SETUP; procedure_unknown(s, nondet_u8(), c); BT_CANARY(); }
void h_version_indication_received(void) { SETUP; uint8_t* v; version_indication_received(s, v, c); BT_CANARY(); }
void h_remote_features_received(void) { SETUP; uint8_t* v; remote_features_received(s, v, c); BT_CANARY(); }
void h_phy_update(void) { SETUP; phy_update(s, nondet_u8(), nondet_u8(), c); BT_CANARY(); }
void h_handle_connection_events(void) { SETUP; handle_connection_events(s); BT_CANARY(); }
'''
PRODUCERS = ['connection_requested', 'connection_established', 'connection_attempt_timeout', 'connection_changed', 'connection_closed', 'procedure_rejected', 'procedure_unknown',
             'version_indication_received', 'remote_features_received', 'phy_update']
UNITS = [
    dict(name='callbacks', extracts=EX, code=CODE, defines=['BT_NEED_COPY', 'BT_BYTES_MAX=8'], object_bits=10,
         enforce=['event_data_ctor', 'connection_request'] + PRODUCERS + ['handle_connection_events'],
         replace=['bt_copy_u8', 'event_data_ctor', 'events_try_push', 'events_try_pop', 'cb_connection_requested', 'cb_connection_attempt_timeout', 'cb_connection_established', 'cb_connection_changed',
                  'cb_connection_closed', 'cb_version', 'cb_rejected', 'cb_unknown', 'cb_remote_features', 'cb_phy_updated'],
         replay=dict(src='replay/c29_replay.cpp', cxxflags=['-DNDEBUG', '-I/repo/tests/test_tools', '-I/repo/tests/link_layer'],
                     repo_sources=['tests/test_tools/test_radio.cpp', 'tests/test_tools/test_servers.cpp', 'tests/test_tools/hexdump.cpp', 'tests/test_tools/buffer_io.cpp', 'tests/test_tools/address_io.cpp',
                                   'bluetoe/link_layer/delta_time.cpp', 'bluetoe/link_layer/channel_map.cpp', 'bluetoe/link_layer/connection_details.cpp', 'bluetoe/utility/address.cpp'])),
]

# ------------------------------------------------------------------ link_layer::force_disconnect: how a connection (attempt) ends is reported
FD_PRE = [(r'this->reset_encryption\(\);', 'll_reset_encryption();', 1), (r'this->reset_phy\( \*this \);', 'll_reset_phy();', 1),
          (r'this->synchronized_connection_event_callback_disconnect\(\);', 'll_sync_callback_disconnect();', 1),
          (r'this->connection_closed\( disconnecting_reason_, connection_data_, static_cast< radio_t& >\( \*this \) \);', 'cb_connection_closed( self->disconnecting_reason_ );', 1),
          (r'this->connection_attempt_timeout\( connection_data_, static_cast< radio_t& >\( \*this \) \);', 'cb_connection_attempt_timeout();', 1),
          (r'start_advertising_impl\(\);', 'll_start_advertising_impl();', 1), (r'\bstate::', 'state_', '*')]
FD_EX = dict(
    ll_state=dict(kind='enum', file=LL, scope=r'class link_layer\s*:', name='state'),
    fd_fields=dict(kind='fields', file=LL, scope=r'class link_layer\s*:', names=['disconnecting_reason_']),
    force_disconnect=dict(file=LL, locate=r'void link_layer< Server, ScheduledRadio, Options\.\.\. >::force_disconnect\(\)', pre=FD_PRE),
)
FD_CODE = r"""
{{ll_state}};
struct ll { enum state state_; /* 'enum class state { ... } state_;' is declared with its type */ {{fd_fields}} };
struct { int closed, attempt_timeout, reset_enc, adv; uint8_t reason; } G_f; int W_state; uint8_t W_reason;
static inline void ll_reset_encryption(void) { ++G_f.reset_enc; }
static inline void ll_reset_phy(void) {}
static inline void ll_sync_callback_disconnect(void) {}
static inline void cb_connection_closed(uint8_t reason) { ++G_f.closed; G_f.reason = reason; }
static inline void cb_connection_attempt_timeout(void) { ++G_f.attempt_timeout; }
static inline void ll_start_advertising_impl(void) { ++G_f.adv; }
void force_disconnect(struct ll* self)
__CPROVER_requires(__CPROVER_is_fresh(self, sizeof(struct ll)) && (int)self->state_ == W_state && W_state >= state_initial && W_state <= state_connection_changed && self->disconnecting_reason_ == W_reason
    && G_f.closed == 0 && G_f.attempt_timeout == 0 && G_f.reset_enc == 0 && G_f.adv == 0)
/* an attempt that never saw a connection event ends with 'attempt timed out', everything else with 'closed' and the reason recorded; exactly one of the two, once */
__CPROVER_ensures(W_state == state_connecting ? (G_f.attempt_timeout == 1 && G_f.closed == 0) : (G_f.closed == 1 && G_f.attempt_timeout == 0 && G_f.reason == W_reason))
/* the link's encryption state does not survive (C28), advertising is resumed */
__CPROVER_ensures(G_f.reset_enc == 1 && G_f.adv == 1)
__CPROVER_assigns(G_f)
{{force_disconnect}}
void h_force_disconnect(void) { struct ll* s; W_state = nondet_int(); W_reason = nondet_u8(); G_f.closed = 0; G_f.attempt_timeout = 0; G_f.reset_enc = 0; G_f.adv = 0; BT_KNOWN_EXCLUDE(); force_disconnect(s); BT_CANARY(); }
"""
UNITS.append(dict(name='force_disconnect', extracts=FD_EX, code=FD_CODE, enforce=['force_disconnect'], replace=[]))
# link_layer::adv_received (contract in lle.py): 'connection requested' is reported once per accepted connection request, after the connection data was renewed
import lle
UNITS.append(lle.unit(['adv_received', 'll_end_event'], name='connect', defines=['C29_CLAUSES']))
META = dict(
    level='other',
    explanation="The mechanism between the link layer (interrupt context) and the application's call backs, connection_callbacks.hpp, real bodies: every producer "
                "(connection_requested / established / attempt_timeout / changed / closed, procedure_rejected / unknown, version_indication_received, "
                "remote_features_received, phy_update) pushes exactly one event of its own kind, for the connection it was given, carrying exactly the payload it "
                "was given, and wakes the radio; handle_connection_events() pops every pending event (loop contract: one call back per popped event, none for "
                "'none', until the ring is empty) and calls the call back of that event's kind exactly once with that event's connection and payload (version: "
                "the two 16 bit fields decoded from octets 1..4; requested / established: with the addresses stored by connection_request()). The ring itself "
                "(FIFO order, lossless up to its capacity) is C30. link_layer::force_disconnect reports 'attempt timed out' exactly for a connection that never "
                "saw a connection event and 'closed' with the recorded reason otherwise, exactly one of them once, and resets the encryption state. link_layer::adv_received "
                "reports 'connection requested' exactly once for an accepted connection request (valid channel map and timing), after buffers and connection data were renewed, "
                "and never otherwise; link_layer::end_event reports 'connection established' exactly when the first connection event of a connection ends (state connecting), once. "
                "The clause 'the event is not lost' fails for a full ring: known finding F-C29 (reproduced natively).",
    assumptions=["NOT decided: the order in which the link layer calls the producers over a whole connection life time (requested at the connect request, "
                 "established at the first connection event, closed / attempt_timeout from force_disconnect only) - adv_received and force_disconnect are under contract, the "
                 "'established' producer is called from end_event (under contract here), 'changed' from handle_pending_ll_control (under contract in C21); that the radio calls the link layer's "
                 "functions in the order adv_received, end_event / timeout ..., force_disconnect is scheduling, not proved",
                 "connection_details / connection_addresses are copied as opaque values (a tag stands for their content); the SFINAE wrappers call_ll_...< T > "
                 "are represented by abstract call backs (they call T::ll_... if T has it, nothing otherwise)",
                 "events_ is represented by an abstract queue with the try_push / try_pop behaviour C30 proves for the real ring"],
    trusted_base=["application call backs", "radio wake_up()"],
)
