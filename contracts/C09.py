"""C09 Client characteristic configuration is per connection and exact."""
import os, sys
sys.path.insert(0, os.path.dirname(__file__))
from common import COPY_RULE
from acc import *

CCCS = r"class client_characteristic_configurations\s*(?=\{)"
GA = r'struct generate_attribute< std::tuple< client_characteristic_configuration_parameter, AttrOptions\.\.\. >, CCCDIndices, ClientCharacteristicIndex, Service, Server, Options\.\.\. >\s*(?=\{)'

ACCESS_PRE = [
    (r'index_of< std::integral_constant< std::size_t, ClientCharacteristicIndex >, CCCDIndices >::value', 'G_index_of', 1),
    (r'std::tuple_size< CCCDIndices >::value', 'G_tuple_size', 1),
    (r'\bClientCharacteristicIndex\b', 'G_ClientCharacteristicIndex', 1),
    (r'using subscription_callback =\s*typename find_by_meta_type<\s*characteristic_subscription_call_back_meta_type,\s*Options\.\.\., default_on_characteristic_subscription >::type;', '', 1),
    (r'subscription_callback::template on_subscription< uuid >\(', 'on_subscription(', 1),
    (r'\*static_cast< Server\* >\( args\.server \)', 'args.server', 1),
    (r'static_cast< Server\* >\( args\.server \)->notification_subscription_changed\( args\.client_config \)', 'notification_subscription_changed( args.server, &args.client_config )', 1),
    (r'args\.client_config\.flags\( cccd_position \)', 'flags_get( &args.client_config, cccd_position )', '+'),
    (r'args\.client_config\.flags\( cccd_position, ', 'flags_set( &args.client_config, cccd_position, ', '+'),
]
ACCESS_RULES = ACC_RULES + [
    (r'const size_t flags_size = (\d+);', r'enum { flags_size = \1 };', 1),
    COPY_RULE(2),
]

EX = dict(ACC_EX,
    access=dict(file=CH, scope=GA, locate=r'static details::attribute_access_result access\( attribute_access_arguments& args, std::size_t \)',
                pre=ACCESS_PRE, rules=ACCESS_RULES),
    configs_field=dict(kind='fields', file=CCC, scope=CCCS, names=['configs_'],
                       rules=[(r'\[ \( Size \* client_characteristic_configuration::bits_per_config \+ 7 \) / 8 \]', '[CCC_BYTES(CCC_MAX)]', 1)]),
    configs_dim=dict(kind='text', body='text', file=CCC, scope=CCCS, locate=r'std::uint8_t configs_\[[^\]]*\];', no_members=True,
                     rules=[(r'^uint8_t configs_\[', '(', 1), (r'\];$', ')', 1), (r'client_characteristic_configuration::bits_per_config', 'bits_per_config', 1)]),
    cccs_ctor=dict(file=CCC, scope=CCCS, locate=r'client_characteristic_configurations\(\)',
                   rules=[(r'std::fill\( std::begin\( self->configs_ \), std::end\( self->configs_ \), 0 \);', 'bt_fill_u8( self->configs_, sizeof_configs, 0 );', 1)]),
    cccs_get=dict(file=CCC, scope=CCCS, locate=r'client_characteristic_configuration client_configurations\(\)',
                  rules=[(r'return client_characteristic_configuration\( &self->configs_\[ 0 \], Size \);', 'return ccc_make( &self->configs_[ 0 ], Size );', 1)]),
    ccc_ctor2=dict(file=CCC, scope=CCC_CLS, locate=r'constexpr explicit client_characteristic_configuration\( std::uint8_t\* data, std::size_t \)', init_list=True),
    ccc_ctor0=dict(file=CCC, scope=CCC_CLS, locate=r'constexpr client_characteristic_configuration\(\)', init_list=True),
)

CODE = ACC_CODE + r'''
#define Size G_Size
#define sizeof_configs ((size_t){{configs_dim}})
struct cccs { {{configs_field}} };
/* constructors of client_characteristic_configuration: real initialiser lists; the by-value construction is glue */
void ccc_ctor2(struct ccc* self, uint8_t* data, size_t n)
__CPROVER_requires(__CPROVER_rw_ok(self, sizeof(*self)))
__CPROVER_ensures(self->data_ == data)
__CPROVER_assigns(self->data_)
{{ccc_ctor2}}
void ccc_ctor0(struct ccc* self)
__CPROVER_requires(__CPROVER_rw_ok(self, sizeof(*self)))
__CPROVER_ensures(self->data_ == 0)
__CPROVER_assigns(self->data_)
{{ccc_ctor0}}
static inline struct ccc ccc_make(uint8_t* data, size_t n) { struct ccc r; ccc_ctor2(&r, data, n); return r; }

/* client_characteristic_configurations< Size >: one store per connection */
void cccs_ctor(struct cccs* self)
__CPROVER_requires(__CPROVER_is_fresh(self, sizeof(*self)) && G_Size >= 1 && G_Size <= CCC_MAX && G_ccc_j < G_Size && G_pre_j == (G_ccc_j >> 2))
/* every configuration starts as 'neither notifications nor indications' */
__CPROVER_ensures(CCC_VIEW(self->configs_, G_ccc_j) == 0)
__CPROVER_assigns(__CPROVER_object_upto(self->configs_, CCC_BYTES(G_Size)))
{{cccs_ctor}}
struct ccc client_configurations(struct cccs* self)
__CPROVER_requires(__CPROVER_is_fresh(self, sizeof(*self)) && G_Size >= 1 && G_Size <= CCC_MAX)
/* the handle given to the ATT layer designates this connection's own store and nothing else */
__CPROVER_ensures(__CPROVER_return_value.data_ == &self->configs_[0])
__CPROVER_assigns()
{{cccs_get}}

/* ---- the CCCD attribute (characteristic.hpp) */
size_t G_index_of, G_tuple_size, G_ClientCharacteristicIndex;   /* type-level results: position of this CCCD in the store */
#define CCCD_POS (G_tuple_size == 0 ? G_ClientCharacteristicIndex : G_index_of)
int G_changed_calls, G_on_sub_calls; uint16_t G_on_sub_flags;
void on_subscription(uint16_t flags, void* server)
__CPROVER_ensures(G_on_sub_calls == __CPROVER_old(G_on_sub_calls) + 1 && G_on_sub_flags == flags) __CPROVER_assigns(G_on_sub_calls, G_on_sub_flags);
void notification_subscription_changed(void* server, const struct ccc* cfg)
__CPROVER_ensures(G_changed_calls == __CPROVER_old(G_changed_calls) + 1) __CPROVER_assigns(G_changed_calls);

size_t W_size, W_off, W_pos, W_Size, W_j; int W_type; uint8_t W_in[4]; bool W_req, W_enc; int W_ps; uint8_t W_old_pos, W_old_j;
#define OLD_POS W_old_pos   /* the two bits stored for this CCCD before the call */
enum attribute_access_result cccd_access(struct attribute_access_arguments* args, size_t attribute_index)
__CPROVER_requires(__CPROVER_is_fresh(args, sizeof(*args)) && G_Size >= 1 && G_Size <= CCC_MAX && G_Size == W_Size && CCCD_POS < G_Size && CCCD_POS == W_pos)
__CPROVER_requires(__CPROVER_is_fresh(args->client_config.data_, CCC_BYTES(G_Size)))
__CPROVER_requires(args->buffer_size <= 600 && args->buffer_size == W_size && args->buffer_offset == W_off && (int)args->type == W_type && W_type >= 0 && W_type <= 3)
__CPROVER_requires(__CPROVER_is_fresh(args->buffer, args->buffer_size))
__CPROVER_requires((args->buffer_size < 1 || args->buffer[0] == W_in[0]) && (args->buffer_size < 2 || args->buffer[1] == W_in[1]))
__CPROVER_requires(G_requires_encryption == W_req && args->connection_security.is_encrypted == W_enc && (int)args->connection_security.pairing_status == W_ps && W_ps >= 0 && W_ps <= 3)
__CPROVER_requires(G_ccc_j < G_Size && G_ccc_j == W_j && CCC_VIEW(args->client_config.data_, CCCD_POS) == W_old_pos && CCC_VIEW(args->client_config.data_, G_ccc_j) == W_old_j)
__CPROVER_requires(G_changed_calls == 0 && G_on_sub_calls == 0 && G_pre_j == 0 && G_pre_j2 == 1)
/* C05: a configuration that requires encryption is neither returned nor modified on an unencrypted link */
__CPROVER_ensures(ENC_REFUSED(args) ==> (__CPROVER_return_value == ENC_CODE(args) && CCC_VIEW(args->client_config.data_, CCCD_POS) == OLD_POS && G_changed_calls == 0 && G_on_sub_calls == 0))
/* read: the stored two bits, little endian 16 bit, from the requested offset */
__CPROVER_ensures((!ENC_REFUSED(args) && W_type == attribute_access_type_read) ==> (
      W_off > 2 ? __CPROVER_return_value == attribute_access_result_invalid_offset
    : (__CPROVER_return_value == attribute_access_result_success && args->buffer_size == BT_MIN(W_size, 2 - W_off)
       && ((W_off == 0 && W_size >= 1) ==> args->buffer[0] == OLD_POS) && ((W_off == 0 && W_size >= 2) ==> args->buffer[1] == 0)
       && ((W_off == 1 && W_size >= 1) ==> args->buffer[0] == 0))))
__CPROVER_ensures(W_type != attribute_access_type_write ==> (CCC_VIEW(args->client_config.data_, CCCD_POS) == OLD_POS && G_changed_calls == 0 && G_on_sub_calls == 0))
/* write: a value longer than the descriptor is rejected and changes nothing */
__CPROVER_ensures((!ENC_REFUSED(args) && W_type == attribute_access_type_write && W_off <= 2 && W_size + W_off > 2) ==>
      (__CPROVER_return_value == attribute_access_result_invalid_attribute_value_length && CCC_VIEW(args->client_config.data_, CCCD_POS) == OLD_POS && G_changed_calls == 0))
__CPROVER_ensures((!ENC_REFUSED(args) && W_type == attribute_access_type_write && W_off > 2) ==>
      (__CPROVER_return_value != attribute_access_result_success && CCC_VIEW(args->client_config.data_, CCCD_POS) == OLD_POS && G_changed_calls == 0))
/* write at offset 0: exactly the notification / indication bits of the written value are stored, other bits dropped */
__CPROVER_ensures((!ENC_REFUSED(args) && W_type == attribute_access_type_write && W_off == 0 && W_size >= 1 && W_size <= 2) ==>
      (__CPROVER_return_value == attribute_access_result_success && CCC_VIEW(args->client_config.data_, CCCD_POS) == (W_in[0] & 3)))
__CPROVER_ensures((!ENC_REFUSED(args) && W_type == attribute_access_type_write && W_off <= 2 && W_size + W_off <= 2 && (W_off != 0 || W_size == 0)) ==>
      (__CPROVER_return_value == attribute_access_result_success && CCC_VIEW(args->client_config.data_, CCCD_POS) == OLD_POS))
/* the subscription-changed callback is invoked exactly when the stored value changed */
__CPROVER_ensures(G_changed_calls == (CCC_VIEW(args->client_config.data_, CCCD_POS) != OLD_POS ? 1 : 0))
/* no other CCCD of this connection changes (other connections have a different store: frame) */
__CPROVER_ensures(G_ccc_j != CCCD_POS ==> CCC_VIEW(args->client_config.data_, G_ccc_j) == W_old_j)
__CPROVER_ensures((W_type == attribute_access_type_compare_128bit_uuid || W_type == attribute_access_type_compare_value) ==> (ENC_REFUSED(args) || __CPROVER_return_value == (W_off > 2 ? attribute_access_result_invalid_offset : attribute_access_result_write_not_permitted)))
__CPROVER_assigns(args->buffer_size, __CPROVER_object_upto(args->buffer, args->buffer_size), args->client_config.data_[W_pos >> 2], G_changed_calls, G_on_sub_calls, G_on_sub_flags)
{{access}}

#define SETUP W_size = nondet_size(); W_off = nondet_size(); W_pos = nondet_size(); W_Size = nondet_size(); G_Size = W_Size; W_j = nondet_size(); G_ccc_j = W_j; W_type = nondet_int(); \
  for (int k = 0; k < 4; ++k) W_in[k] = nondet_u8(); W_req = nondet_bool(); G_requires_encryption = W_req; W_enc = nondet_bool(); W_ps = nondet_int(); W_old_pos = nondet_u8(); W_old_j = nondet_u8(); \
  G_index_of = nondet_size(); G_tuple_size = nondet_size(); G_ClientCharacteristicIndex = nondet_size(); G_changed_calls = 0; G_on_sub_calls = 0; G_pre_j = nondet_size(); G_pre_j2 = nondet_size(); G_pre_j3 = nondet_size(); BT_KNOWN_EXCLUDE()
void h_cccd_access(void) { SETUP; struct attribute_access_arguments* a; cccd_access(a, nondet_size()); BT_CANARY(); }
void h_flags_get(void) { SETUP; struct ccc* c; flags_get(c, nondet_size()); BT_CANARY(); }
void h_flags_set(void) { SETUP; struct ccc* c; flags_set(c, nondet_size(), nondet_u16()); BT_CANARY(); }
void h_shift(void) { SETUP; shift(nondet_size()); BT_CANARY(); }
void h_mask(void) { SETUP; mask(nondet_size()); BT_CANARY(); }
void h_enc_check_true(void) { SETUP; struct connection_security_attributes a; a.is_encrypted = nondet_bool(); a.pairing_status = nondet_int(); enc_check_true(&a); BT_CANARY(); }
void h_enc_check_false(void) { SETUP; struct connection_security_attributes a; enc_check_false(&a); BT_CANARY(); }
void h_cccs_ctor(void) { SETUP; struct cccs* s; cccs_ctor(s); BT_CANARY(); }
void h_client_configurations(void) { SETUP; struct cccs* s; client_configurations(s); BT_CANARY(); }
void h_ccc_ctor2(void) { SETUP; struct ccc c; uint8_t* d; ccc_ctor2(&c, d, nondet_size()); BT_CANARY(); }
void h_ccc_ctor0(void) { SETUP; struct ccc c; ccc_ctor0(&c); BT_CANARY(); }
void h_bt_copy_u8(void) { SETUP; size_t n = nondet_size(); __CPROVER_assume(n <= 8); uint8_t a[8], b[8]; bt_copy_u8(a, n, b); BT_CANARY(); }
void h_bt_fill_u8(void) { SETUP; size_t n = nondet_size(); __CPROVER_assume(n <= CCC_BYTES(CCC_MAX)); uint8_t a[CCC_BYTES(CCC_MAX)]; bt_fill_u8(a, n, nondet_u8()); BT_CANARY(); }
'''

UNITS = [
    dict(name='cccd', extracts=EX, code=CODE, defines=['BT_NEED_COPY', 'BT_NEED_FILL', 'BT_COPY_BODY', 'BT_FILL_BODY', 'BT_BYTES_MAX=16'],
         thorough_defines=['CCC_MAX=1024', 'BT_BYTES_MAX=256'], object_bits=10,
         enforce=['cccd_access', 'flags_get', 'flags_set', 'shift', 'mask', 'enc_check_true', 'enc_check_false', 'cccs_ctor', 'client_configurations',
                  'ccc_ctor2', 'ccc_ctor0', 'bt_copy_u8', 'bt_fill_u8'],
         replace=['flags_get', 'flags_set', 'shift', 'mask', 'enc_check_true', 'enc_check_false', 'on_subscription', 'notification_subscription_changed',
                  'bt_copy_u8', 'bt_fill_u8', 'ccc_ctor2'],
         replay=dict(src='replay/c09_replay.cpp')),
]

META = dict(
    level='proof',
    explanation="client_characteristic_configuration::flags (get/set), shift, mask, the constructors, client_characteristic_configurations<Size> "
                "(ctor, client_configurations) and the CCCD attribute's access function (characteristic.hpp) are extracted and proved for every "
                "Size (symbolic, up to CCC_MAX), every position, every stored content, every access type, offset, length and link security state: "
                "a write at offset 0 stores exactly bits 0..1 of the written value, every other configuration (ghost index) and every byte outside "
                "the one byte holding this configuration is unchanged (frame), a read returns the stored bits as 16 bit little endian, the "
                "subscription-changed callback is called exactly when the stored value changed, each connection's handle designates its own array. "
                "Histories: the contract holds for every stored content, hence after every sequence of earlier writes.",
    assumptions=["the position of a CCCD in the store (index_of<ClientCharacteristicIndex, CCCDIndices>, tuple_size, ClientCharacteristicIndex) is "
                 "computed by type-level meta functions; it enters as a symbolic value below Size; that distinct CCCDs get distinct positions is not proved",
                 "characteristic_requires_encryption<...>::value enters as a symbolic boolean here (its defining expression is under contract in C05)",
                 "on_subscription (user callback) is abstract"],
    trusted_base=["libstdc++ std::copy / std::fill represented by bt_copy_u8 / bt_fill_u8 (contracts enforced on their C bodies in this unit)"],
)
