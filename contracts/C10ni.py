"""Part of C10: the index under which a notification is requested by value is the index the queue / l2cap_output resolve (find_notification_data.hpp)."""
import os, sys
sys.path.insert(0, os.path.dirname(__file__))
FND = 'bluetoe/find_notification_data.hpp'
AH = 'bluetoe/attribute_handle.hpp'
LST = r'struct find_notification_data_in_list\s*(?=\{)'
R = [(r'O::first_attribute_index', 'o->first_attribute_index', '*'), (r'O::characteristic_t::value_type::is_this\( value \)', 'is_this( o, self->value )', '*'),
     # the functors' members are named without trailing underscore
     (r'(?<![\w>.*])result = o->first_attribute_index;', '*self->result = o->first_attribute_index;', '*'), (r'(?<![\w>.*])result = notification_data\( (o->first_attribute_index \+ 1), index \);', r'*self->result = nd( \1, self->index );', '*'),
     (r'\( index == 0 \)', '( self->index == 0 )', '*'), (r'--index;', '--self->index;', '*'), (r'\+\+index;', '++self->index;', '*'),
     # the type list a functor is folded over is what this unit is about: each list gets its own abstract array
     (r'(?:self->)?for_< characteristics_sorted_by_priority >::each\( impl::attribute_at\( attribute_index, notification_index \) \);', 'fold_attribute_at( G_sorted, &attribute_index, notification_index );', '*'),
     (r'(?:self->)?for_< characteristics_sorted_by_priority >::each\( attribute_value\( result, value \) \);', 'fold_attribute_value( G_sorted, &result, value );', '*'),
     (r'(?:self->)?for_< characteristics_only_with_cccd >::each\( attribute_value\( result, value \) \);', 'fold_attribute_value( G_declared, &result, value );', '*'),
     (r'return notification_data\( ', 'return nd( ', '*'), (r'\bnotification_data result;', 'struct notification_data result = nd_default();', '*')]
EX = dict(
    inv_index=dict(kind='expr', file=AH, locate=r'static constexpr std::size_t\s+invalid_attribute_index\s*=(?=\s*~)'),
    at_each=dict(file=FND, scope=r'struct attribute_at\s*(?=\{)', locate=r'template< typename O >\s*void each\(\)', rules=R),
    av_each=dict(file=FND, scope=[LST, r'struct attribute_value\s*(?=\{)'], locate=r'template< typename O >\s*void each\(\)', rules=R),
    by_index=dict(file=FND, scope=LST, locate=r'static notification_data find_notification_data_by_index\( std::size_t notification_index \)', rules=R),
    by_value=dict(file=FND, scope=LST, locate=r'static notification_data find_notification_data\( const void\* value \)', rules=R),
)
CODE = r'''
#define invalid_attribute_index ((size_t)({{inv_index}}))
struct notification_data { size_t attribute_table_index_; size_t client_characteristic_configuration_index_; };
static inline struct notification_data nd(size_t a, size_t c) { return (struct notification_data){ a, c }; }
static inline struct notification_data nd_default(void) { return (struct notification_data){ invalid_attribute_index, 0 }; }
/* ---- the characteristics with a CCCD, as type lists: every element carries first_attribute_index and the bound value (is_this). Two lists of the same elements exist: in declaration order
        (characteristics_only_with_cccd) and stably sorted by outgoing priority (characteristics_sorted_by_priority; the order of the notification queue, of the CCCD flags and of
        find_notification_data_by_index). Abstract arrays; PERM[k] is the position in the sorted list of the k-th declared characteristic. */
#ifndef M_MAX
#define M_MAX 8
#endif
struct cinfo { size_t first_attribute_index; int value_id; };
size_t G_m; struct cinfo G_sorted[M_MAX], G_declared[M_MAX]; size_t G_perm[M_MAX];
size_t G_k;   /* ghost: the characteristic the value belongs to (position in the sorted list) */
size_t G_kd, G_j;
#define LISTS_OK (G_m >= 1 && G_m <= M_MAX && G_k < G_m && G_first_ok)
bool G_first_ok, G_unique_ok;   /* every first_attribute_index is a small number (set up by the harness for every element) */
static inline bool is_this(const struct cinfo* o, const void* value) { return o->value_id == (int)(size_t)value; }
struct attribute_at { size_t* result; size_t index; };
struct attribute_value { struct notification_data* result; size_t index; const void* value; };
size_t W_index, W_first; int W_vid, W_ovid;
void at_each(struct attribute_at* self, const struct cinfo* o)
__CPROVER_requires(__CPROVER_rw_ok(self, sizeof(*self)) && __CPROVER_rw_ok(self->result, sizeof(size_t)) && __CPROVER_r_ok(o, sizeof(*o)))
__CPROVER_ensures(self->index == __CPROVER_old(self->index) - 1 && *self->result == (__CPROVER_old(self->index) == 0 ? o->first_attribute_index : __CPROVER_old(*self->result)))
__CPROVER_assigns(self->index, *self->result)
{{at_each}}
void av_each(struct attribute_value* self, const struct cinfo* o)
__CPROVER_requires(__CPROVER_rw_ok(self, sizeof(*self)) && __CPROVER_rw_ok(self->result, sizeof(struct notification_data)) && __CPROVER_r_ok(o, sizeof(*o)) && o->first_attribute_index < 65535)
__CPROVER_ensures(self->index == __CPROVER_old(self->index) + 1)
__CPROVER_ensures(is_this(o, self->value) ? (self->result->attribute_table_index_ == o->first_attribute_index + 1 && self->result->client_characteristic_configuration_index_ == __CPROVER_old(self->index))
                                          : (self->result->attribute_table_index_ == __CPROVER_old(self->result->attribute_table_index_) && self->result->client_characteristic_configuration_index_ == __CPROVER_old(self->result->client_characteristic_configuration_index_)))
__CPROVER_assigns(self->index, *self->result)
{{av_each}}
/* for_< List >::each( functor ): calls functor.each< O >() for every element of the list in order (type level fold; glue) */
static inline void fold_attribute_at(const struct cinfo* list, size_t* result, size_t index)
{
    struct attribute_at f = { result, index };
    for (size_t k = 0; k != G_m; ++k)
    __CPROVER_assigns(k, f.index, *result)
    __CPROVER_loop_invariant(k <= G_m && f.index == W_index - k && f.result == result && (k > W_index ? *result == list[W_index].first_attribute_index : *result == 0))
    __CPROVER_decreases(G_m - k)
        at_each(&f, &list[k]);
}
static inline void fold_attribute_value(const struct cinfo* list, struct notification_data* result, const void* value)
{
    struct attribute_value f = { result, 0, value };
    const size_t G_pos = list == G_sorted ? G_k : G_kd;   /* ghost: the position of the (one) characteristic bound to the value in the list that is folded */
    for (size_t k = 0; k != G_m; ++k)
    __CPROVER_assigns(k, f.index, *result)
    __CPROVER_loop_invariant(k <= G_m && f.index == k && f.result == result && f.value == value
        && (k > G_pos ? (result->attribute_table_index_ == list[G_pos].first_attribute_index + 1 && result->client_characteristic_configuration_index_ == G_pos)
                      : (result->attribute_table_index_ == invalid_attribute_index && result->client_characteristic_configuration_index_ == 0)))
    __CPROVER_decreases(G_m - k)
        av_each(&f, &list[k]);
}
/* the two lists hold the same characteristics: the k-th declared one is the PERM[k]-th sorted one; every value is bound to exactly one characteristic */
#define SAME_ELEMENTS (G_perm[G_kd] == G_k && G_declared[G_kd].first_attribute_index == G_sorted[G_k].first_attribute_index && G_declared[G_kd].value_id == G_sorted[G_k].value_id)
/* G_kd: position of that characteristic in the declaration-ordered list */
struct notification_data find_notification_data_by_index(size_t notification_index)
__CPROVER_requires(LISTS_OK && notification_index == W_index && W_index < G_m && G_sorted[W_index].first_attribute_index < 65535)
__CPROVER_ensures(__CPROVER_return_value.attribute_table_index_ == G_sorted[W_index].first_attribute_index + 1 && __CPROVER_return_value.client_characteristic_configuration_index_ == W_index)
__CPROVER_assigns()
{{by_index}}
/* C10: the index a notification is requested under by value is the position in the SORTED list - the one find_notification_data_by_index( ), the notification queue and the CCCD flags use -
   so that the PDU sent later carries the characteristic that was asked for */
struct notification_data find_notification_data(const void* value)
__CPROVER_requires(LISTS_OK && G_kd < G_m && SAME_ELEMENTS && value == (const void*)(size_t)W_vid && G_sorted[G_k].value_id == W_vid && G_sorted[G_k].first_attribute_index < 65535)
/* every value is bound to exactly one characteristic (set up by the harness for every element of both lists); G_pos: where the fold finds it */
__CPROVER_requires(G_unique_ok)
__CPROVER_ensures(__CPROVER_return_value.attribute_table_index_ == G_sorted[G_k].first_attribute_index + 1 && __CPROVER_return_value.client_characteristic_configuration_index_ == G_k)
__CPROVER_assigns()
{{by_value}}
#define SETUP G_m = nondet_size(); G_k = nondet_size(); G_kd = nondet_size(); G_j = nondet_size(); W_index = nondet_size(); W_first = nondet_size(); W_vid = nondet_int(); W_ovid = nondet_int(); __CPROVER_assume(W_vid > 0); G_first_ok = 1; for (size_t q = 0; q < M_MAX; ++q) __CPROVER_assume(G_sorted[q].first_attribute_index < 65535 && G_declared[q].first_attribute_index < 65535); BT_KNOWN_EXCLUDE()
void h_at_each(void) { SETUP; size_t r = nondet_size(); struct attribute_at f = { &r, nondet_size() }; struct cinfo o = { nondet_size(), nondet_int() }; at_each(&f, &o); BT_CANARY(); }
void h_av_each(void) { SETUP; struct notification_data r = { nondet_size(), nondet_size() }; struct attribute_value f = { &r, nondet_size(), (const void*)(size_t)W_vid }; struct cinfo o = { nondet_size(), nondet_int() }; __CPROVER_assume(o.first_attribute_index < 65535); av_each(&f, &o); BT_CANARY(); }
void h_find_notification_data_by_index(void) { SETUP; find_notification_data_by_index(W_index); BT_CANARY(); }
void h_find_notification_data(void) { SETUP; G_unique_ok = 1; for (size_t q = 0; q < M_MAX; ++q) __CPROVER_assume((q == G_k || G_sorted[q].value_id != W_vid) && (q == G_kd || G_declared[q].value_id != W_vid)); find_notification_data((const void*)(size_t)W_vid); BT_CANARY(); }
'''
UNITS = [dict(name='notification_index', extracts=EX, code=CODE, enforce=['at_each', 'av_each', 'find_notification_data_by_index', 'find_notification_data'], replace=['at_each', 'av_each'], extra_loops=2, replay=dict(src='replay/c10_replay.cpp', cxxflags=['-DNDEBUG']))]
