"""Shared infrastructure for the ATT request handlers of bluetoe/server.hpp (C01, C07, C08, C10): the abstract attribute table
(handle mapping + ACCESS), connection_data, the argument factories of attribute_access_arguments and the handler contracts."""
import os, sys
sys.path.insert(0, os.path.dirname(__file__))
from common import COPY_RULE
from srv import *
from acc import ACC_EX, ATTR, PST, CCC, CCC_CLS

AH = 'bluetoe/attribute_handle.hpp'
CONN = [r'class connection_data\s*:\s*public details::client_characteristic_configurations< number_of_client_configs >']
TC = TS + r'template < typename ConnectionData >\s*'
ARGS = r'struct attribute_access_arguments\b'

# --- rules for handler bodies ------------------------------------------------------------------------------------------
ATT_PRE = [
    (r'attribute_at\( (\w+) \)\.access\( (\w+), \w+ \)', r'ACCESS( &\2, \1 )', '*'),
    (r'attribute_at\( (\w+) \)\.uuid', r'attribute_uuid( \1 )', '*'),
    (r'details::attribute_access_arguments::(read|write|check_write)\(', r'args_\1(', '*'),
    (r'handle_mapping::(index_by_handle|first_index_by_handle|handle_by_index)\(', r'\1(', '*'),
    (r'\b(connection|cc|client)\.client_configurations\(\)', r'client_configurations( \1 )', '*'),
    (r'\b(connection|cc|client)\.security_attributes\(\)', r'security_attributes( \1 )', '*'),
    (r'\bconnection\.negotiated_mtu\(\)', 'negotiated_mtu( connection )', '*'),
    (r'\bconnection\.server_mtu\(\)', 'server_mtu( connection )', '*'),
    (r'\bconnection\.client_mtu\( mtu \)', 'client_mtu_set( connection, mtu )', '*'),
    (r', this \)', ', self )', '*'),
]
ATT_RULES = SRV_RULES + [
    (r'details::att_opcodes\b(?!_)', 'enum att_opcodes', '*'),
    (r'(?:details::)?attribute_access_result::', 'attribute_access_result_', '*'),
    (r'(?:details::)?attribute_access_type::', 'attribute_access_type_', '*'),
    (r'details::attribute_access_result\b(?!_)', 'enum attribute_access_result', '*'),
    (r'details::(read_handle|read_16bit|write_handle|write_16bit)\(', r'\1(', '*'),
    (r'details::default_att_mtu_size', 'default_att_mtu_size', '*'),
    (r'details::invalid_attribute_index', 'invalid_attribute_index', '*'),
    # an enum class with fixed underlying type std::uint8_t: converting to it keeps the low 8 bits
    (r'\(\(enum att_error_codes\)\(', '((enum att_error_codes)(uint8_t)(', '*'),
    (r'return error_response\(', 'return (void)error_response(', '*'),
]


def srv_fn(sig, tmpl=TS, **kw):
    d = dict(file=SRV, locate=tmpl + sig, pre=ATT_PRE, rules=ATT_RULES)
    d.update(kw)
    return d


ATT_EX = dict(CODES_EX, **ERR_EX)
ATT_EX.update({k: ACC_EX[k] for k in ('bits_read_handle', 'bits_read_16bit', 'bits_write_handle', 'bits_write_16bit', 'attribute_access_result', 'attribute_access_type',
                                      'device_pairing_status', 'sec_fields', 'ccc_fields', 'args_fields')})
ATT_EX.update(
    default_mtu=dict(kind='expr', file=CODES, locate=r'static constexpr std::uint16_t default_att_mtu_size ='),
    inv_index=dict(kind='expr', file=AH, locate=r'static constexpr std::size_t\s+invalid_attribute_index\s*=(?=\s*~)'),
    conn_fields=dict(kind='fields', file=SRV, scope=CONN, names=['client_mtu_']),
    conn_ctor=dict(file=SRV, scope=CONN, locate=r'connection_data\(\)', init_list=True, rules=ATT_RULES),
    conn_negotiated=dict(file=SRV, scope=CONN, locate=r'std::uint16_t negotiated_mtu\(\) const', rules=[(r'server_mtu\(\)', 'server_mtu( self )', 1)]),
    conn_client_set=dict(file=SRV, scope=CONN, locate=r'void client_mtu\( std::uint16_t mtu \)', rules=ATT_RULES),
    conn_client_get=dict(file=SRV, scope=CONN, locate=r'std::uint16_t client_mtu\(\) const'),
    conn_server=dict(file=SRV, scope=CONN, locate=r'std::uint16_t server_mtu\(\) const', rules=[(r'maximum_channel_mtu_size', 'G_maximum_channel_mtu_size', 1)]),
    args_read=dict(file=ATTR, scope=ARGS, locate=r'static attribute_access_arguments read\(\s*std::uint8_t\* begin, std::uint8_t\* end, std::size_t offset,\s*const client_characteristic_configuration& cc,\s*const connection_security_attributes& cs,\s*void\* server \)',
                   rules=ATT_RULES + [(r'return attribute_access_arguments\{', 'return (struct attribute_access_arguments){', 1)]),
    args_write=dict(file=ATTR, scope=ARGS, locate=r'static attribute_access_arguments write\( const std::uint8_t\* begin, const std::uint8_t\* end, std::size_t offset,\s*const client_characteristic_configuration& cc,\s*const connection_security_attributes& cs,\s*void\* server \)',
                    rules=ATT_RULES + [(r'return attribute_access_arguments\{', 'return (struct attribute_access_arguments){', 1)]),
    access_to_att=srv_fn(r'details::att_error_codes ' + SQ + r'access_result_to_att_code\( details::attribute_access_result access_code, details::att_error_codes default_att_code \)'),
    check_handle=srv_fn(r'bool ' + SQ + r'check_handle\( const std::uint8_t\* input, std::size_t, std::uint8_t\* output, std::size_t& out_size, std::uint16_t& handle, std::size_t& index \)',
                        rules=ATT_RULES + [(r'\bhandle\b', '(*handle)', '+'), (r'\bindex\b(?!_by)', '(*index)', '+')]),
)

ATT_CODE = CODES_CODE + r'''
#include <stdlib.h>
uint16_t read_handle(const uint8_t* h) {{bits_read_handle}}
uint16_t read_16bit(const uint8_t* h) {{bits_read_16bit}}
uint8_t* write_handle(uint8_t* out, uint16_t handle) {{bits_write_handle}}
uint8_t* write_16bit(uint8_t* out, uint16_t bits16) {{bits_write_16bit}}
''' + ERR_CODE + r'''
{{attribute_access_result}};
{{attribute_access_type}};
{{device_pairing_status}};
struct connection_security_attributes { {{sec_fields}} };
struct ccc { {{ccc_fields}} };
struct attribute_access_arguments { {{args_fields}} };
#define default_att_mtu_size ((uint16_t)({{default_mtu}}))
#define invalid_attribute_index ((size_t)({{inv_index}}))
#ifndef MTU_MAX
#define MTU_MAX 600
#endif

/* ---- server< Options... >::connection_data (the MTU part) */
uint16_t G_maximum_channel_mtu_size;         /* max_mtu_size< N >::mtu, default 23 */
struct conn { {{conn_fields}} };
struct ccc G_conn_cfg; struct connection_security_attributes G_conn_sec;   /* what the link layer's connection object reports */
static inline struct ccc client_configurations(struct conn* c) { return G_conn_cfg; }
static inline struct connection_security_attributes security_attributes(struct conn* c) { return G_conn_sec; }
#define SERVER_MTU_OK (G_maximum_channel_mtu_size >= 23 && G_maximum_channel_mtu_size <= MTU_MAX)
uint16_t server_mtu(const struct conn* self)
__CPROVER_ensures(__CPROVER_return_value == G_maximum_channel_mtu_size) __CPROVER_assigns()
{{conn_server}}
/* the negotiated MTU is the minimum of the server's configured maximum and the client's last valid MTU */
uint16_t negotiated_mtu(const struct conn* self)
__CPROVER_requires(__CPROVER_r_ok(self, sizeof(*self)))
__CPROVER_ensures(__CPROVER_return_value == BT_MIN(G_maximum_channel_mtu_size, self->client_mtu_))
__CPROVER_assigns()
{{conn_negotiated}}
void client_mtu_set(struct conn* self, uint16_t mtu)
__CPROVER_requires(__CPROVER_rw_ok(self, sizeof(*self)) && mtu >= 23)
__CPROVER_ensures(self->client_mtu_ == mtu)
__CPROVER_assigns(self->client_mtu_)
{{conn_client_set}}
uint16_t client_mtu_get(const struct conn* self)
__CPROVER_requires(__CPROVER_r_ok(self, sizeof(*self)))
__CPROVER_ensures(__CPROVER_return_value == self->client_mtu_) __CPROVER_assigns()
{{conn_client_get}}
/* a new connection starts with the default ATT MTU */
void conn_ctor(struct conn* self)
__CPROVER_requires(__CPROVER_rw_ok(self, sizeof(*self)))
__CPROVER_ensures(self->client_mtu_ == 23)
__CPROVER_assigns(self->client_mtu_)
{{conn_ctor}}

/* ---- the abstract attribute table (DESIGN.md 4.2): N attributes; handle mapping and access function pointers are abstract */
size_t G_N;
#define TABLE_OK (G_N >= 1 && G_N <= 65535)
struct ibh_rec { size_t ret; uint16_t arg; size_t calls; } G_ibh;
#define G_ibh_ret G_ibh.ret
#define G_ibh_arg G_ibh.arg
#define G_ibh_calls G_ibh.calls
bool G_ibh_valid_only;   /* ghost: set by a caller that only passes handles already validated against the same (constant) table */
size_t index_by_handle(uint16_t handle)
__CPROVER_requires(TABLE_OK)
__CPROVER_ensures(G_ibh_valid_only ==> __CPROVER_return_value < G_N)
__CPROVER_ensures((__CPROVER_return_value == invalid_attribute_index || __CPROVER_return_value < G_N) && G_ibh_ret == __CPROVER_return_value && G_ibh_arg == handle && G_ibh_calls == __CPROVER_old(G_ibh_calls) + 1)
__CPROVER_assigns(G_ibh);
/* attribute_at( index ).access( args, index ): any access function of the data base (ACCESS contract: C06 / C09 prove it for the
   value, CCCD and declaration access functions): may write the first buffer_size bytes of the buffer for a read, never grows buffer_size */
struct acc_rec { size_t calls; size_t index, off, size; int type; uint8_t* buf; bool enc; int ps; uint8_t* cfg; void* server; int rc; size_t out_size; } G_acc;
#define G_acc_calls G_acc.calls
#define G_acc_index G_acc.index
#define G_acc_off G_acc.off
#define G_acc_size G_acc.size
#define G_acc_type G_acc.type
#define G_acc_buf G_acc.buf
#define G_acc_enc G_acc.enc
#define G_acc_ps G_acc.ps
#define G_acc_cfg G_acc.cfg
#define G_acc_server G_acc.server
#define G_acc_rc G_acc.rc
#define G_acc_out_size G_acc.out_size
enum attribute_access_result ACCESS(struct attribute_access_arguments* args, size_t index)
__CPROVER_requires(TABLE_OK && index < G_N && __CPROVER_rw_ok(args, sizeof(*args)))
__CPROVER_requires(args->buffer_size <= 65535 && (args->buffer_size == 0 || (args->type == attribute_access_type_read ? __CPROVER_rw_ok(args->buffer, args->buffer_size) : __CPROVER_r_ok(args->buffer, args->buffer_size))))
__CPROVER_ensures(args->buffer_size <= __CPROVER_old(args->buffer_size) && G_acc_out_size == args->buffer_size)
__CPROVER_ensures(G_acc_calls == __CPROVER_old(G_acc_calls) + 1 && G_acc_index == index && G_acc_off == args->buffer_offset && G_acc_size == __CPROVER_old(args->buffer_size)
                  && G_acc_type == (int)args->type && G_acc_buf == args->buffer && G_acc_enc == args->connection_security.is_encrypted && G_acc_ps == (int)args->connection_security.pairing_status
                  && G_acc_cfg == args->client_config.data_ && G_acc_server == args->server && G_acc_rc == (int)__CPROVER_return_value)
__CPROVER_assigns(args->buffer_size, G_acc)
__CPROVER_assigns(args->type == attribute_access_type_read && args->buffer_size != 0: __CPROVER_object_upto(args->buffer, args->buffer_size));

/* ---- attribute_access_arguments::read / ::write (attribute.hpp), real bodies */
static inline struct attribute_access_arguments args_read(uint8_t* begin, uint8_t* end, size_t offset, struct ccc cc, struct connection_security_attributes cs, void* server)
{{args_read}}
static inline struct attribute_access_arguments args_write(const uint8_t* begin, const uint8_t* end, size_t offset, struct ccc cc, struct connection_security_attributes cs, void* server)
{{args_write}}
struct server { int dummy_; };
/* ATT error code for an access result: the result itself if it is an ATT code (fits 8 bits), the default otherwise */
enum att_error_codes access_result_to_att_code(enum attribute_access_result access_code, enum att_error_codes default_att_code)
__CPROVER_ensures(__CPROVER_return_value == (((int)access_code & ~0xff) == 0 ? (enum att_error_codes)access_code : default_att_code))
__CPROVER_assigns()
{{access_to_att}}

/* ---- shapes shared by all request handlers */
#define IN_OK(input, in_size)       ((in_size) >= 1 && (in_size) <= MTU_MAX && __CPROVER_r_ok(input, in_size))
#define OUT_OK(output, out_size)    (__CPROVER_rw_ok(out_size, sizeof(size_t)) && *(out_size) >= 23 && *(out_size) <= MTU_MAX && __CPROVER_rw_ok(output, *(out_size)))
#define IS_ERROR(output, out_size, op, code) (*(out_size) == 5 && (output)[0] == 0x01 && (output)[1] == (op) && (output)[4] == (code))
#define IS_ERROR_H(output, out_size, op, h, code) (IS_ERROR(output, out_size, op, code) && (output)[2] == ((h) & 0xff) && (output)[3] == ((h) >> 8))
/* framing of the statement: a request gets its response opcode or an Error Response naming it, never more than the room given */
#define FRAMED(output, out_size, op, rsp, old) (*(out_size) <= (old) && ((*(out_size) >= 1 && (output)[0] == (rsp)) || (*(out_size) == 5 && (output)[0] == 0x01 && (output)[1] == (op))))
bool check_handle_(struct server* self, const uint8_t* input, size_t in_size, uint8_t* output, size_t* out_size, uint16_t* handle, size_t* index)
__CPROVER_requires(TABLE_OK && in_size >= 3 && IN_OK(input, in_size) && OUT_OK(output, out_size) && __CPROVER_rw_ok(handle, 2) && __CPROVER_rw_ok(index, sizeof(size_t)))
__CPROVER_ensures(*handle == (uint16_t)(input[1] | (input[2] << 8)))
/* the index is looked up exactly when the handle is not 0; the request passes iff the handle designates an attribute */
__CPROVER_ensures(G_ibh_calls == __CPROVER_old(G_ibh_calls) + (*handle != 0 ? 1 : 0) && (*handle != 0 ==> G_ibh_arg == *handle))
__CPROVER_ensures(__CPROVER_return_value == (*handle != 0 && G_ibh_ret != invalid_attribute_index))
__CPROVER_ensures(__CPROVER_return_value ? (*index < G_N && *index == G_ibh_ret && *out_size == __CPROVER_old(*out_size))
                                         : IS_ERROR_H(output, out_size, input[0], *handle, att_error_codes_invalid_handle))
__CPROVER_assigns(*handle, *index, *out_size, __CPROVER_object_upto(output, 5), G_ibh)
{{check_handle}}
#define check_handle(i, n, o, osz, h, ix) check_handle_(self, (i), (n), (o), &(osz), &(h), &(ix))
'''
