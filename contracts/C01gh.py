"""C01 / C02 / C03: the bodies of the two group discovery handlers, handle_find_by_type_value_request and handle_read_by_group_type_request (server.hpp). The iteration over the type list of
services (details::for_< services >::each) enters as a callee whose contract is the SUMMARY of the step contracts proved in C03.py."""
import os, sys, importlib.util
sys.path.insert(0, os.path.dirname(__file__))
from att import *
def _load(name):
    sp = importlib.util.spec_from_file_location(name, os.path.join(os.path.dirname(__file__), name + '.py'))
    m = importlib.util.module_from_spec(sp); sp.loader.exec_module(m); return m
os.environ['BT_LOADING_C01GH'] = '1'
try:
    _c02 = _load('C02')
finally:
    del os.environ['BT_LOADING_C01GH']
CSR = (r'check_size_and_handle_range< ([^>]*?), ([^>]*?) >\( input, in_size, output, \(\*out_size\), starting_handle, ending_handle \)',
       r'check_size_and_handle_range_( self, \1, \2, input, in_size, output, out_size, &starting_handle, &ending_handle )', 1)
GR = [(r'bits\( details::gatt_uuids::primary_service \)', 'GATT_PRIMARY_SERVICE', '*'), (r'bits\( enum att_opcodes::(\w+) \)', r'att_opcodes_\1', '*'), (r'bits\( details::att_opcodes::(\w+) \)', r'att_opcodes_\1', '*')]
EX = dict(_c02.EX,
    fbtv=srv_fn(r'void ' + SQ + r'handle_find_by_type_value_request\( const std::uint8_t\* input, std::size_t in_size, std::uint8_t\* output, std::size_t& out_size \)',
        pre=ATT_PRE + GR + [(r'details::collect_find_by_type_groups iterator\( output \+ 1 , output \+ out_size \);', 'struct collect_find iterator = { output + 1, output + out_size, output + 1 };   /* constructor: begin_, end_, current_( begin ) */', 1),
             (r'all_services_by_group\( starting_handle, ending_handle, iterator, details::value_filter< server< Options\.\.\. > >\( &input\[ 7 \], &input\[ in_size \], \*this \) \)',
              'all_services_by_group( starting_handle, ending_handle, &iterator, &input[ 7 ], &input[ in_size ] )', 1),
             (r'iterator\.size\(\)', 'cf_size( &iterator )', 1)],
        rules=ATT_RULES + [CSR]),
    rbgt=srv_fn(r'void ' + SQ + r'handle_read_by_group_type_request\( const std::uint8_t\* input, std::size_t in_size, std::uint8_t\* output, std::size_t& out_size \)',
        pre=ATT_PRE + GR + [(r'begin = details::write_opcode\( begin, details::att_opcodes::read_by_group_type_response \);', '*begin = att_opcodes_read_by_group_type_response; ++begin;   /* write_opcode */', 1),
             (r'details::for_< services >::each\( details::collect_primary_services< cccd_indices, services, server< Options\.\.\. > >\( begin, end, 1, starting_handle, ending_handle, \*\(begin -1 \), \*this \) \);',
              'for_each_collect_primary_services( &begin, end, starting_handle, ending_handle, begin - 1 );', 1)],
        rules=ATT_RULES + [CSR]),
    cf_size=dict(file=SRV, scope=r'struct collect_find_by_type_groups\s*(?=\{)', locate=r'std::\w+ size\(\) const'),
    cf_size_type=dict(kind='text', body='text', file=SRV, scope=r'struct collect_find_by_type_groups\s*(?=\{)', locate=r'std::\w+(?= size\(\) const)', no_members=True),
)
_base = _c02.CODE
_setup = _base[_base.index('#define SETUP'):_base.index('void h_all_attributes')]
CODE = _base[:_base.index('#define SETUP')] + r"""
#define GATT_PRIMARY_SERVICE 0x2800
/* ================= Find By Type Value: collect_find_by_type_groups (the group collector, members as in the source) and the iteration over all services */
struct collect_find { uint8_t* begin_; uint8_t* end_; uint8_t* current_; };
{{cf_size_type}} cf_size(const struct collect_find* self)
{{cf_size}}
/* all_services_by_group( start, end, iterator, value_filter( value begin, value end ) ) = services_by_group< .. > constructed (unit range of C03.py), details::for_< services >::each( it ), result.
   SUMMARY of the step contracts (C03.py: sbg_each offers each in-range service to the filter and reports a match to the collector; cf_call writes one handle pair of 4 octets iff 4 octets of
   room are left and returns whether it did; found_ is the disjunction of those results), by induction over the list of services: the collector stays within its buffer, advances by whole
   handle pairs, and the result says whether anything was written. Assumed here, each step is machine checked there. */
size_t W_groups;   /* the number of handle pairs written */
bool all_services_by_group(uint16_t starting_handle, uint16_t ending_handle, struct collect_find* iterator, const uint8_t* value_begin, const uint8_t* value_end)
__CPROVER_requires(__CPROVER_rw_ok(iterator, sizeof(*iterator)) && iterator->current_ == iterator->begin_ && __CPROVER_same_object(iterator->begin_, iterator->end_) && iterator->begin_ <= iterator->end_
    && __CPROVER_same_object(value_begin, value_end) && value_begin <= value_end && starting_handle != 0 && starting_handle <= ending_handle)
__CPROVER_ensures(iterator->begin_ == __CPROVER_old(iterator->begin_) && iterator->end_ == __CPROVER_old(iterator->end_) && W_groups <= MTU_MAX && 4 * W_groups <= (size_t)(iterator->end_ - iterator->begin_)
    && iterator->current_ == iterator->begin_ + 4 * W_groups && __CPROVER_return_value == (W_groups != 0))
__CPROVER_assigns(iterator->current_, W_groups, __CPROVER_object_upto(iterator->begin_, (size_t)(iterator->end_ - iterator->begin_)));
size_t W_in_size, W_out_size; uint8_t W_in[8];
#define REQ_START ((uint16_t)(W_in[1] | (W_in[2] << 8)))
#define REQ_END   ((uint16_t)(W_in[3] | (W_in[4] << 8)))
#define REQ_TYPE  ((uint16_t)(W_in[5] | (W_in[6] << 8)))
#define H_PRE(input, in_size, output, out_size) (TABLE_OK && IN_OK(input, in_size) && in_size == W_in_size && OUT_OK(output, out_size) && *out_size == W_out_size \
    && input[0] == W_in[0] && (in_size < 7 || (input[1] == W_in[1] && input[2] == W_in[2] && input[3] == W_in[3] && input[4] == W_in[4] && input[5] == W_in[5] && input[6] == W_in[6])))
#define RANGE_BAD (REQ_START == 0 || REQ_START > REQ_END)
void handle_find_by_type_value_request_(struct server* self, const uint8_t* input, size_t in_size, uint8_t* output, size_t* out_size)
__CPROVER_requires(H_PRE(input, in_size, output, out_size))
/* C01: a response or an Error Response naming the request, never longer than the room; nothing outside the output buffer is written (frame) */
__CPROVER_ensures(FRAMED(output, out_size, W_in[0], 0x07, W_out_size))
/* the value searched for is a service UUID: 2 or 16 octets, the request 9 or 23 */
#define FBTV_SIZE_OK (W_in_size == 9 || W_in_size == 23)
__CPROVER_ensures(!FBTV_SIZE_OK ==> IS_ERROR(output, out_size, W_in[0], att_error_codes_invalid_pdu))
__CPROVER_ensures((FBTV_SIZE_OK && RANGE_BAD) ==> IS_ERROR_H(output, out_size, W_in[0], REQ_START, att_error_codes_invalid_handle))
/* only services are searched for */
__CPROVER_ensures((FBTV_SIZE_OK && !RANGE_BAD && UH(G_N - 1) >= REQ_START && REQ_TYPE != GATT_PRIMARY_SERVICE) ==> IS_ERROR_H(output, out_size, W_in[0], REQ_START, att_error_codes_unsupported_group_type))
/* C02: the response consists of exactly the handle pairs that were collected - all of them, also beyond 255 octets; none: Attribute Not Found */
__CPROVER_ensures((*out_size >= 1 && output[0] == 0x07) ==> (W_groups >= 1 && *out_size == 1 + 4 * W_groups))
__CPROVER_ensures((FBTV_SIZE_OK && !RANGE_BAD && UH(G_N - 1) >= REQ_START && REQ_TYPE == GATT_PRIMARY_SERVICE && W_groups == 0) ==> IS_ERROR_H(output, out_size, W_in[0], REQ_START, att_error_codes_attribute_not_found))
__CPROVER_assigns(*out_size, __CPROVER_object_upto(output, W_out_size), W_groups, G_hbi_arg)
{{fbtv}}
/* ================= Read By Group Type: details::for_< services >::each( collect_primary_services( begin, end, ... ) ).
   SUMMARY of the step contracts (C03.py: cps_each appends one entry - first handle, last handle, UUID: 6 or 20 octets - per in-range primary service of the response's UUID size while
   it fits, read_primary_service_response writes it; the constructor / first entry fix the entry size in the octet in front of the data): the output pointer advances by whole entries
   within the buffer, and the entry size octet is written when there is at least one. */
size_t W_entries; bool W_128;
void for_each_collect_primary_services(uint8_t** begin, uint8_t* end, uint16_t starting_handle, uint16_t ending_handle, uint8_t* attribute_data_size)
__CPROVER_requires(__CPROVER_rw_ok(begin, sizeof(*begin)) && __CPROVER_same_object(*begin, end) && *begin <= end && attribute_data_size == *begin - 1 && __CPROVER_same_object(attribute_data_size, end) && starting_handle != 0 && starting_handle <= ending_handle)
__CPROVER_ensures(W_entries <= MTU_MAX && W_entries * (W_128 ? 20 : 6) <= (size_t)(end - __CPROVER_old(*begin)) && *begin == __CPROVER_old(*begin) + W_entries * (W_128 ? 20 : 6) && (W_entries != 0 ==> *attribute_data_size == (W_128 ? 20 : 6)))
__CPROVER_assigns(*begin, W_entries, W_128, __CPROVER_object_upto(attribute_data_size, (size_t)(end - attribute_data_size)));
void handle_read_by_group_type_request_(struct server* self, const uint8_t* input, size_t in_size, uint8_t* output, size_t* out_size)
__CPROVER_requires(H_PRE(input, in_size, output, out_size))
__CPROVER_ensures(FRAMED(output, out_size, W_in[0], 0x11, W_out_size))
__CPROVER_ensures((W_in_size != 7 && W_in_size != 21) ==> IS_ERROR(output, out_size, W_in[0], att_error_codes_invalid_pdu))
__CPROVER_ensures(((W_in_size == 7 || W_in_size == 21) && RANGE_BAD) ==> IS_ERROR_H(output, out_size, W_in[0], REQ_START, att_error_codes_invalid_handle))
/* the only group type is Primary Service, a 16 bit UUID */
__CPROVER_ensures(((W_in_size == 7 || W_in_size == 21) && !RANGE_BAD && UH(G_N - 1) >= REQ_START && (W_in_size == 21 || REQ_TYPE != GATT_PRIMARY_SERVICE)) ==> IS_ERROR_H(output, out_size, W_in[0], REQ_START, att_error_codes_unsupported_group_type))
/* the response: opcode, entry size, whole entries */
__CPROVER_ensures((*out_size >= 1 && output[0] == 0x11) ==> (W_entries >= 1 && *out_size == 2 + W_entries * (W_128 ? 20 : 6) && output[1] == (W_128 ? 20 : 6)))
__CPROVER_ensures((W_in_size == 7 && !RANGE_BAD && UH(G_N - 1) >= REQ_START && REQ_TYPE == GATT_PRIMARY_SERVICE && W_entries == 0) ==> IS_ERROR_H(output, out_size, W_in[0], REQ_START, att_error_codes_attribute_not_found))
__CPROVER_assigns(*out_size, __CPROVER_object_upto(output, W_out_size), W_entries, W_128, G_hbi_arg)
{{rbgt}}
""" + _setup + r"""
#define H_SETUP SETUP; W_in_size = nondet_size(); W_out_size = nondet_size(); __CPROVER_assume(W_in_size >= 1 && W_in_size <= 32 && W_out_size >= 23 && W_out_size <= MTU_MAX); \
  for (int k = 0; k < 8; ++k) W_in[k] = nondet_u8(); uint8_t* in = malloc(W_in_size); uint8_t out[MTU_MAX]; __CPROVER_assume(in); for (int k = 0; k < 7; ++k) if (W_in_size > k) in[k] = W_in[k]; \
  size_t os = W_out_size; W_groups = 0; W_entries = 0
void h_handle_find_by_type_value_request_(void) { H_SETUP; handle_find_by_type_value_request_(self, in, W_in_size, out, &os); BT_CANARY(); }
void h_handle_read_by_group_type_request_(void) { H_SETUP; handle_read_by_group_type_request_(self, in, W_in_size, out, &os); BT_CANARY(); }
"""
UNIT = dict(name='group_handlers', extracts=EX, code=CODE, object_bits=10, extra_loops=-1, defines=['MTU_MAX=300', 'N_MAX=4'], timeout=900,
            enforce=['handle_find_by_type_value_request_', 'handle_read_by_group_type_request_'],
            replace=['all_services_by_group', 'for_each_collect_primary_services', 'check_size_and_handle_range_', 'error_response5_', 'error_response4_', 'handle_by_index', 'first_index_by_handle'])
