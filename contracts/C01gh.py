"""C01 / C02 / C03: the bodies of the two group discovery handlers, handle_find_by_type_value_request and handle_read_by_group_type_request (server.hpp). The iteration over the type list of
services (details::for_< services >::each) enters as a callee whose contract is the SUMMARY of the step contracts proved in C03.py."""
import os, sys, importlib.util
sys.path.insert(0, os.path.dirname(__file__))
from att import *
def _load(name):
    sp = importlib.util.spec_from_file_location(name, os.path.join(os.path.dirname(__file__), name + '.py'))
    m = importlib.util.module_from_spec(sp); sp.loader.exec_module(m); return m
os.environ['BT_LOADING_C01GH'] = '1'
try:
    _c02 = _load('C02')
finally:
    del os.environ['BT_LOADING_C01GH']
CSR = (r'check_size_and_handle_range< ([^>]*?), ([^>]*?) >\( input, in_size, output, \(\*out_size\), starting_handle, ending_handle \)',
       r'check_size_and_handle_range_( self, \1, \2, input, in_size, output, out_size, &starting_handle, &ending_handle )', 1)
GR = [(r'bits\( details::gatt_uuids::primary_service \)', 'GATT_PRIMARY_SERVICE', '*'), (r'bits\( enum att_opcodes::(\w+) \)', r'att_opcodes_\1', '*'), (r'bits\( details::att_opcodes::(\w+) \)', r'att_opcodes_\1', '*')]
EX = dict(_c02.EX,
    fbtv=srv_fn(r'void ' + SQ + r'handle_find_by_type_value_request\( const std::uint8_t\* input, std::size_t in_size, std::uint8_t\* output, std::size_t& out_size \)',
        pre=ATT_PRE + GR + [(r'details::collect_find_by_type_groups iterator\( output \+ 1 , output \+ out_size \);', 'struct collect_find iterator = { output + 1, output + out_size, output + 1 };   /* constructor: begin_, end_, current_( begin ) */', 1),
             (r'all_services_by_group\( starting_handle, ending_handle, iterator, details::value_filter< server< Options\.\.\. > >\( &input\[ 7 \], &input\[ in_size \], \*this \) \)',
              'all_services_by_group( starting_handle, ending_handle, &iterator, &input[ 7 ], &input[ in_size ] )', 1),
             (r'iterator\.size\(\)', 'cf_size( &iterator )', 1)],
        rules=ATT_RULES + [CSR]),
    rbgt=srv_fn(r'void ' + SQ + r'handle_read_by_group_type_request\( const std::uint8_t\* input, std::size_t in_size, std::uint8_t\* output, std::size_t& out_size \)',
        pre=ATT_PRE + GR + [(r'begin = details::write_opcode\( begin, details::att_opcodes::read_by_group_type_response \);', '*begin = att_opcodes_read_by_group_type_response; ++begin;   /* write_opcode */', 1),
             (r'details::for_< services >::each\( details::collect_primary_services< cccd_indices, services, server< Options\.\.\. > >\( begin, end, 1, starting_handle, ending_handle, \*\(begin -1 \), \*this \) \);',
              'for_each_collect_primary_services( &begin, end, starting_handle, ending_handle, begin - 1 );', 1)],
        rules=ATT_RULES + [CSR]),
    cf_size=dict(file=SRV, scope=r'struct collect_find_by_type_groups\s*(?=\{)', locate=r'std::\w+ size\(\) const'),
    cf_size_type=dict(kind='text', body='text', file=SRV, scope=r'struct collect_find_by_type_groups\s*(?=\{)', locate=r'std::\w+(?= size\(\) const)', no_members=True),
)
_base = _c02.CODE
_setup = _base[_base.index('#define SETUP'):_base.index('void h_all_attributes')]
CODE = _base[:_base.index('#define SETUP')] + r"""
#define GATT_PRIMARY_SERVICE 0x2800
/* ================= Find By Type Value: collect_find_by_type_groups (the group collector, members as in the source) and the iteration over all services */
struct collect_find { uint8_t* begin_; uint8_t* end_; uint8_t* current_; };
{{cf_size_type}} cf_size(const struct collect_find* self)
{{cf_size}}
/* all_services_by_group( start, end, iterator, value_filter( value begin, value end ) ) = services_by_group< .. > constructed (unit range of C03.py), details::for_< services >::each( it ), result.
   SUMMARY of the step contracts (C03.py: sbg_each offers each in-range service to the filter and reports a match to the collector; cf_call writes one handle pair of 4 octets iff 4 octets of
   room are left and returns whether it did; found_ is the disjunction of those results), by induction over the list of services: the collector stays within its buffer, advances by whole
   handle pairs, and the result says whether anything was written. Proved in unit group_iteration below (real bodies, for_<>::each as a loop with a loop contract); the handler unit uses it as the callee's contract. */
size_t W_groups;   /* the number of handle pairs written */
bool all_services_by_group(uint16_t starting_handle, uint16_t ending_handle, struct collect_find* iterator, const uint8_t* value_begin, const uint8_t* value_end)
__CPROVER_requires(__CPROVER_rw_ok(iterator, sizeof(*iterator)) && iterator->current_ == iterator->begin_ && __CPROVER_same_object(iterator->begin_, iterator->end_) && iterator->begin_ <= iterator->end_
    && __CPROVER_same_object(value_begin, value_end) && value_begin <= value_end && starting_handle != 0 && starting_handle <= ending_handle)
__CPROVER_ensures(iterator->begin_ == __CPROVER_old(iterator->begin_) && iterator->end_ == __CPROVER_old(iterator->end_) && W_groups <= MTU_MAX && 4 * W_groups <= (size_t)(iterator->end_ - iterator->begin_)
    && iterator->current_ == iterator->begin_ + 4 * W_groups && __CPROVER_return_value == (W_groups != 0))
__CPROVER_assigns(iterator->current_, W_groups, __CPROVER_object_upto(iterator->begin_, (size_t)(iterator->end_ - iterator->begin_)));
size_t W_in_size, W_out_size; uint8_t W_in[8];
#define REQ_START ((uint16_t)(W_in[1] | (W_in[2] << 8)))
#define REQ_END   ((uint16_t)(W_in[3] | (W_in[4] << 8)))
#define REQ_TYPE  ((uint16_t)(W_in[5] | (W_in[6] << 8)))
#define H_PRE(input, in_size, output, out_size) (TABLE_OK && IN_OK(input, in_size) && in_size == W_in_size && OUT_OK(output, out_size) && *out_size == W_out_size \
    && input[0] == W_in[0] && (in_size < 7 || (input[1] == W_in[1] && input[2] == W_in[2] && input[3] == W_in[3] && input[4] == W_in[4] && input[5] == W_in[5] && input[6] == W_in[6])))
#define RANGE_BAD (REQ_START == 0 || REQ_START > REQ_END)
void handle_find_by_type_value_request_(struct server* self, const uint8_t* input, size_t in_size, uint8_t* output, size_t* out_size)
__CPROVER_requires(H_PRE(input, in_size, output, out_size))
/* C01: a response or an Error Response naming the request, never longer than the room; nothing outside the output buffer is written (frame) */
__CPROVER_ensures(FRAMED(output, out_size, W_in[0], 0x07, W_out_size))
/* the value searched for is a service UUID: 2 or 16 octets, the request 9 or 23 */
#define FBTV_SIZE_OK (W_in_size == 9 || W_in_size == 23)
__CPROVER_ensures(!FBTV_SIZE_OK ==> IS_ERROR(output, out_size, W_in[0], att_error_codes_invalid_pdu))
__CPROVER_ensures((FBTV_SIZE_OK && RANGE_BAD) ==> IS_ERROR_H(output, out_size, W_in[0], REQ_START, att_error_codes_invalid_handle))
/* only services are searched for */
__CPROVER_ensures((FBTV_SIZE_OK && !RANGE_BAD && UH(G_N - 1) >= REQ_START && REQ_TYPE != GATT_PRIMARY_SERVICE) ==> IS_ERROR_H(output, out_size, W_in[0], REQ_START, att_error_codes_unsupported_group_type))
/* C02: the response consists of exactly the handle pairs that were collected - all of them, also beyond 255 octets; none: Attribute Not Found */
__CPROVER_ensures((*out_size >= 1 && output[0] == 0x07) ==> (W_groups >= 1 && *out_size == 1 + 4 * W_groups))
__CPROVER_ensures((FBTV_SIZE_OK && !RANGE_BAD && UH(G_N - 1) >= REQ_START && REQ_TYPE == GATT_PRIMARY_SERVICE && W_groups == 0) ==> IS_ERROR_H(output, out_size, W_in[0], REQ_START, att_error_codes_attribute_not_found))
__CPROVER_assigns(*out_size, __CPROVER_object_upto(output, W_out_size), W_groups, G_hbi_arg)
{{fbtv}}
/* ================= Read By Group Type: details::for_< services >::each( collect_primary_services( begin, end, ... ) ).
   SUMMARY of the step contracts (C03.py: cps_each appends one entry - first handle, last handle, UUID: 6 or 20 octets - per in-range primary service of the response's UUID size while
   it fits, read_primary_service_response writes it; the constructor / first entry fix the entry size in the octet in front of the data): the output pointer advances by whole entries
   within the buffer, and the entry size octet is written when there is at least one. Proved in unit group_iteration_rbgt below. */
size_t W_entries; bool W_128;
void for_each_collect_primary_services(uint8_t** begin, uint8_t* end, uint16_t starting_handle, uint16_t ending_handle, uint8_t* attribute_data_size)
__CPROVER_requires(__CPROVER_rw_ok(begin, sizeof(*begin)) && __CPROVER_same_object(*begin, end) && *begin <= end && attribute_data_size == *begin - 1 && __CPROVER_same_object(attribute_data_size, end) && starting_handle != 0 && starting_handle <= ending_handle)
__CPROVER_ensures(W_entries <= MTU_MAX && W_entries * (W_128 ? 20 : 6) <= (size_t)(end - __CPROVER_old(*begin)) && *begin == __CPROVER_old(*begin) + W_entries * (W_128 ? 20 : 6) && (W_entries != 0 ==> *attribute_data_size == (W_128 ? 20 : 6)))
__CPROVER_assigns(*begin, W_entries, W_128, __CPROVER_object_upto(attribute_data_size, (size_t)(end - attribute_data_size)));
void handle_read_by_group_type_request_(struct server* self, const uint8_t* input, size_t in_size, uint8_t* output, size_t* out_size)
__CPROVER_requires(H_PRE(input, in_size, output, out_size))
__CPROVER_ensures(FRAMED(output, out_size, W_in[0], 0x11, W_out_size))
__CPROVER_ensures((W_in_size != 7 && W_in_size != 21) ==> IS_ERROR(output, out_size, W_in[0], att_error_codes_invalid_pdu))
__CPROVER_ensures(((W_in_size == 7 || W_in_size == 21) && RANGE_BAD) ==> IS_ERROR_H(output, out_size, W_in[0], REQ_START, att_error_codes_invalid_handle))
/* the only group type is Primary Service, a 16 bit UUID */
__CPROVER_ensures(((W_in_size == 7 || W_in_size == 21) && !RANGE_BAD && UH(G_N - 1) >= REQ_START && (W_in_size == 21 || REQ_TYPE != GATT_PRIMARY_SERVICE)) ==> IS_ERROR_H(output, out_size, W_in[0], REQ_START, att_error_codes_unsupported_group_type))
/* the response: opcode, entry size, whole entries */
__CPROVER_ensures((*out_size >= 1 && output[0] == 0x11) ==> (W_entries >= 1 && *out_size == 2 + W_entries * (W_128 ? 20 : 6) && output[1] == (W_128 ? 20 : 6)))
__CPROVER_ensures((W_in_size == 7 && !RANGE_BAD && UH(G_N - 1) >= REQ_START && REQ_TYPE == GATT_PRIMARY_SERVICE && W_entries == 0) ==> IS_ERROR_H(output, out_size, W_in[0], REQ_START, att_error_codes_attribute_not_found))
__CPROVER_assigns(*out_size, __CPROVER_object_upto(output, W_out_size), W_entries, W_128, G_hbi_arg)
{{rbgt}}
""" + _setup + r"""
#define H_SETUP SETUP; W_in_size = nondet_size(); W_out_size = nondet_size(); __CPROVER_assume(W_in_size >= 1 && W_in_size <= 32 && W_out_size >= 23 && W_out_size <= MTU_MAX); \
  for (int k = 0; k < 8; ++k) W_in[k] = nondet_u8(); uint8_t* in = malloc(W_in_size); uint8_t out[MTU_MAX]; __CPROVER_assume(in); for (int k = 0; k < 7; ++k) if (W_in_size > k) in[k] = W_in[k]; \
  size_t os = W_out_size; W_groups = 0; W_entries = 0
void h_handle_find_by_type_value_request_(void) { H_SETUP; handle_find_by_type_value_request_(self, in, W_in_size, out, &os); BT_CANARY(); }
void h_handle_read_by_group_type_request_(void) { H_SETUP; handle_read_by_group_type_request_(self, in, W_in_size, out, &os); BT_CANARY(); }
"""
UNIT = dict(name='group_handlers', extracts=EX, code=CODE, object_bits=10, extra_loops=-1, defines=['MTU_MAX=300', 'N_MAX=4'], timeout=900,
            enforce=['handle_find_by_type_value_request_', 'handle_read_by_group_type_request_'],
            replace=['all_services_by_group', 'for_each_collect_primary_services', 'check_size_and_handle_range_', 'error_response5_', 'error_response4_', 'handle_by_index', 'first_index_by_handle'])

# ------------------------------------------------------------------ the induction behind the summary of Find By Type Value: services_by_group::each (real body) in a loop over a symbolic list of services
from common import BITS_EXTRACTS, BITS_CODE
_c03 = _load('C03')
IT_EX = dict(BITS_EXTRACTS,
    inv_index=_c03.EX['inv_index'], cf_call=dict(_c03.EX['cf_call'], rules=_c03.R + [(r'^\{', '{ { size_t bt_o = __CPROVER_POINTER_OFFSET(self->current_); BT_GHOST_REBIND(self->current_, G_buf + bt_o); }', 1)]),
    sbg_each=_c03.EX['sbg_each'], sbg_ctor=_c03.EX['sbg_ctor'],
    asbg=srv_fn(r'bool ' + SQ + r'all_services_by_group\( std::uint16_t starting_handle, std::uint16_t ending_handle, Iterator& iterator, const Filter& filter \)', tmpl=TS + r'template < class Iterator, class Filter >\s*',
        pre=[(r'details::services_by_group< Iterator, Filter, services, server< Options\.\.\.  > > service_iterator\( starting_handle, ending_handle, iterator, filter, result \);',
              'struct sbg service_iterator; sbg_ctor( &service_iterator, starting_handle, ending_handle, iterator, filter, &result );', 1),
             (r'details::for_< services >::each\( service_iterator \);', 'for_each_service( &service_iterator );', 1)], rules=[]),
)
IT_CODE = BITS_CODE + r'''
#define invalid_attribute_index ((size_t)({{inv_index}}))
struct attribute { uint16_t uuid; int access_id; };
#ifndef N_MAX
#define N_MAX 16
#endif
#define S_MAX 5
#define BUF_MAX 24
/* the declared data base: N attributes with increasing handles; S services, service k = attributes G_sidx[k] .. G_sidx[k] + G_svcs[k].number_of_attributes - 1, one behind the other */
size_t G_N; uint16_t G_H[N_MAX]; struct attribute G_attr[N_MAX]; bool G_match[N_MAX];   /* G_match[i]: the filter's verdict for the service declared at attribute i (value_filter: C03.py) */
struct service { size_t number_of_attributes; bool is_128bit; };
size_t G_ns; struct service G_svcs[S_MAX]; size_t G_sidx[S_MAX + 1];
#define TABLE_OK (G_N >= 1 && G_N <= N_MAX)
#define CNT_OK(i) (G_svcs[i].number_of_attributes >= 1 && G_svcs[i].number_of_attributes <= N_MAX && G_sidx[i] <= N_MAX)
#define SVCS_OK (G_ns >= 1 && G_ns <= S_MAX && G_sidx[0] == 0 && G_sidx[G_ns] == G_N)
static inline const struct attribute* attribute_at(size_t i) { __CPROVER_assert(i < G_N, "attribute_at: index in range"); return &G_attr[i]; }
static inline uint16_t handle_by_index(size_t i) { return i < G_N ? G_H[i] : 0; }
size_t first_index_by_handle(uint16_t handle) __CPROVER_ensures(__CPROVER_return_value == invalid_attribute_index || __CPROVER_return_value < G_N) __CPROVER_assigns();
struct value_filter { const uint8_t* begin_; const uint8_t* end_; int server_; };
static inline bool vf_call(const struct value_filter* f, size_t index, const struct attribute* attr) { return index < N_MAX && G_match[index]; }
/* the collector and its buffer (the response behind the opcode) */
struct collect_find { uint8_t* begin_; uint8_t* end_; uint8_t* current_; };
uint8_t G_buf[BUF_MAX]; size_t G_room;
#define IT_OK(it) (G_room <= BUF_MAX && __CPROVER_pointer_equals((it)->begin_, &G_buf[0]) && __CPROVER_pointer_equals((it)->end_, &G_buf[0] + G_room) \
    && __CPROVER_same_object((it)->current_, G_buf) && __CPROVER_POINTER_OFFSET((it)->current_) <= G_room && __CPROVER_POINTER_OFFSET((it)->current_) % 4 == 0)
/* the same without pointer predicates (loop invariants must be free of side effects) */
#define IT_INV(it) (G_room <= BUF_MAX && (it)->begin_ == &G_buf[0] && (it)->end_ == &G_buf[0] + G_room \
    && __CPROVER_same_object((it)->current_, G_buf) && __CPROVER_POINTER_OFFSET((it)->current_) <= G_room && __CPROVER_POINTER_OFFSET((it)->current_) % 4 == 0)
#define USED(it) __CPROVER_POINTER_OFFSET((it)->current_)
#define USED_OLD(it) __CPROVER_POINTER_OFFSET(__CPROVER_old((it)->current_))
bool cf_call(struct collect_find* self, uint16_t start_handle, uint16_t end_handle, const struct attribute* attr)
__CPROVER_requires(__CPROVER_rw_ok(self, sizeof(*self)) && IT_OK(self))
__CPROVER_ensures(IT_OK(self) && __CPROVER_return_value == (G_room - USED_OLD(self) >= 4) && USED(self) == USED_OLD(self) + (__CPROVER_return_value ? 4 : 0))
__CPROVER_assigns(self->current_, __CPROVER_object_whole(G_buf))
{{cf_call}}
struct sbg { size_t starting_index_; uint16_t ending_handle_; size_t index_; struct collect_find* iterator_; const struct value_filter* filter_; bool* found_; };
void sbg_ctor(struct sbg* self, uint16_t starting_handle, uint16_t ending_handle, struct collect_find* iterator, const struct value_filter* filter, bool* found)
{{sbg_ctor}}
/* one step: the walk moves on by the service's attributes; a service in range that the filter accepts is handed to the collector, 'found' records whether the collector ever took one */
#define F_OK(f) (__CPROVER_rw_ok(f, sizeof(struct sbg)) && __CPROVER_rw_ok((f)->iterator_, sizeof(struct collect_find)) && IT_OK((f)->iterator_) && __CPROVER_rw_ok((f)->found_, sizeof(bool)))
void sbg_each(struct sbg* self, const struct service* service)
__CPROVER_requires(TABLE_OK && F_OK(self) && __CPROVER_r_ok(service, sizeof(*service)) && service->number_of_attributes >= 1 && self->index_ < G_N && self->index_ + service->number_of_attributes <= G_N)
__CPROVER_ensures(self->index_ == __CPROVER_old(self->index_) + service->number_of_attributes && IT_OK(self->iterator_)
    && (USED(self->iterator_) == USED_OLD(self->iterator_) || USED(self->iterator_) == USED_OLD(self->iterator_) + 4)
    && *self->found_ == (__CPROVER_old(*self->found_) || USED(self->iterator_) != USED_OLD(self->iterator_)))
__CPROVER_assigns(self->index_, *self->found_, self->iterator_->current_, __CPROVER_object_whole(G_buf))
{{sbg_each}}
/* details::for_< services >::each( f ): f.each< Service >() once per declared service, in declaration order - the one thing taken from the type level (as a loop over the symbolic list) */
void for_each_service(struct sbg* f)
__CPROVER_requires(TABLE_OK && SVCS_OK && F_OK(f) && f->index_ == 0 && USED(f->iterator_) == 0 && !*f->found_
    && G_sidx[1] == G_sidx[0] + G_svcs[0].number_of_attributes && (G_ns < 2 || G_sidx[2] == G_sidx[1] + G_svcs[1].number_of_attributes) && (G_ns < 3 || G_sidx[3] == G_sidx[2] + G_svcs[2].number_of_attributes)
    && (G_ns < 4 || G_sidx[4] == G_sidx[3] + G_svcs[3].number_of_attributes) && (G_ns < 5 || G_sidx[5] == G_sidx[4] + G_svcs[4].number_of_attributes)
    && CNT_OK(0) && CNT_OK(1) && CNT_OK(2) && CNT_OK(3) && CNT_OK(4))
__CPROVER_ensures(IT_OK(f->iterator_) && *f->found_ == (USED(f->iterator_) != 0))
__CPROVER_assigns(f->index_, *f->found_, f->iterator_->current_, __CPROVER_object_whole(G_buf))
{
    for ( size_t k = 0; k < G_ns; ++k )
        __CPROVER_assigns(k, f->index_, *f->found_, f->iterator_->current_, __CPROVER_object_whole(G_buf))
        __CPROVER_loop_invariant(k <= G_ns && f->index_ == G_sidx[k] && IT_INV(f->iterator_) && *f->found_ == (USED(f->iterator_) != 0))
        __CPROVER_decreases(G_ns - k)
    {
        sbg_each( f, &G_svcs[k] );
    }
}
/* all_services_by_group (real body): the SUMMARY the handler unit relies on */
bool all_services_by_group(uint16_t starting_handle, uint16_t ending_handle, struct collect_find* iterator, const struct value_filter* filter)
__CPROVER_requires(TABLE_OK && SVCS_OK && __CPROVER_rw_ok(iterator, sizeof(*iterator)) && IT_OK(iterator) && USED(iterator) == 0
    && G_sidx[1] == G_sidx[0] + G_svcs[0].number_of_attributes && (G_ns < 2 || G_sidx[2] == G_sidx[1] + G_svcs[1].number_of_attributes) && (G_ns < 3 || G_sidx[3] == G_sidx[2] + G_svcs[2].number_of_attributes)
    && (G_ns < 4 || G_sidx[4] == G_sidx[3] + G_svcs[3].number_of_attributes) && (G_ns < 5 || G_sidx[5] == G_sidx[4] + G_svcs[4].number_of_attributes)
    && CNT_OK(0) && CNT_OK(1) && CNT_OK(2) && CNT_OK(3) && CNT_OK(4))
__CPROVER_ensures(IT_OK(iterator) && __CPROVER_return_value == (USED(iterator) != 0))
__CPROVER_assigns(iterator->current_, __CPROVER_object_whole(G_buf))
{{asbg}}
#define SETUP G_N = nondet_size(); G_ns = nondet_size(); G_room = nondet_size(); __CPROVER_assume(G_room <= BUF_MAX); BT_KNOWN_EXCLUDE()
void h_cf_call(void) { SETUP; struct collect_find it; it.begin_ = G_buf; it.end_ = G_buf + G_room; size_t u = nondet_size(); __CPROVER_assume(u <= G_room); it.current_ = G_buf + u; struct attribute a; cf_call(&it, nondet_u16(), nondet_u16(), &a); BT_CANARY(); }
void h_sbg_each(void) { SETUP; struct collect_find it; it.begin_ = G_buf; it.end_ = G_buf + G_room; size_t u = nondet_size(); __CPROVER_assume(u <= G_room); it.current_ = G_buf + u; bool found = nondet_bool(); struct value_filter flt;
  struct sbg f; f.starting_index_ = nondet_size(); f.ending_handle_ = nondet_u16(); f.index_ = nondet_size(); f.iterator_ = &it; f.filter_ = &flt; f.found_ = &found; struct service s; s.number_of_attributes = nondet_size(); sbg_each(&f, &s); BT_CANARY(); }
void h_for_each_service(void) { SETUP; struct collect_find it; it.begin_ = G_buf; it.end_ = G_buf + G_room; it.current_ = G_buf; bool found = 0; struct value_filter flt;
  struct sbg f; f.starting_index_ = nondet_size(); f.ending_handle_ = nondet_u16(); f.index_ = 0; f.iterator_ = &it; f.filter_ = &flt; f.found_ = &found; for_each_service(&f); BT_CANARY(); }
void h_all_services_by_group(void) { SETUP; struct collect_find it; it.begin_ = G_buf; it.end_ = G_buf + G_room; it.current_ = G_buf; struct value_filter flt; all_services_by_group(nondet_u16(), nondet_u16(), &it, &flt); BT_CANARY(); }
'''
IT_UNIT = dict(name='group_iteration', extracts=IT_EX, code=IT_CODE, object_bits=10, extra_loops=1,
               enforce=['cf_call', 'sbg_each', 'for_each_service', 'all_services_by_group'], replace=['first_index_by_handle', 'cf_call', 'sbg_each', 'for_each_service'])

# ------------------------------------------------------------------ the induction behind the summary of Read By Group Type: collect_primary_services::each (real body) in a loop over the symbolic list of services
IT2_EX = dict(BITS_EXTRACTS, inv_index=_c03.EX['inv_index'], cps_each=_c03.EX['cps_each'], cps_ctor=_c03.EX['cps_ctor'])
IT2_CODE = BITS_CODE + r'''
#define invalid_attribute_index ((size_t)({{inv_index}}))
#define GATT_PRIMARY_SERVICE 0x2800
struct attribute { uint16_t uuid; int access_id; };
#ifndef N_MAX
#define N_MAX 16
#endif
#define S_MAX 5
#define OUT_MAX 64
size_t G_N; uint16_t G_H[N_MAX]; struct attribute G_attr[N_MAX];
struct service { size_t number_of_attributes; bool is_128bit; };
size_t G_ns; struct service G_svcs[S_MAX]; size_t G_sidx[S_MAX + 1];
#define TABLE_OK (G_N >= 1 && G_N <= N_MAX)
#define CNT_OK(i) (G_svcs[i].number_of_attributes >= 1 && G_svcs[i].number_of_attributes <= N_MAX && G_sidx[i] <= N_MAX)
#define SVCS_OK (G_ns >= 1 && G_ns <= S_MAX && G_sidx[0] == 0 && G_sidx[G_ns] == G_N \
    && G_sidx[1] == G_sidx[0] + G_svcs[0].number_of_attributes && (G_ns < 2 || G_sidx[2] == G_sidx[1] + G_svcs[1].number_of_attributes) && (G_ns < 3 || G_sidx[3] == G_sidx[2] + G_svcs[2].number_of_attributes) \
    && (G_ns < 4 || G_sidx[4] == G_sidx[3] + G_svcs[3].number_of_attributes) && (G_ns < 5 || G_sidx[5] == G_sidx[4] + G_svcs[4].number_of_attributes) && CNT_OK(0) && CNT_OK(1) && CNT_OK(2) && CNT_OK(3) && CNT_OK(4))
static inline const struct attribute* attribute_at(size_t i) { __CPROVER_assert(i < G_N, "attribute_at: index in range"); return &G_attr[i]; }
static inline uint16_t handle_by_index(size_t i) { return i < G_N ? G_H[i] : 0; }
/* the data base starts with its first attribute: the walk of collect_primary_services starts at first_index_by_handle( 1 ) == 0 (handles are >= 1, C04) */
size_t first_index_by_handle(uint16_t handle) __CPROVER_ensures((handle <= 1 && __CPROVER_return_value == 0) || (handle > 1 && (__CPROVER_return_value == invalid_attribute_index || __CPROVER_return_value < G_N))) __CPROVER_assigns();
/* the response buffer; G_base: where the entries start (behind opcode and entry size octet) */
uint8_t G_out[OUT_MAX]; size_t G_oroom, G_base; uint8_t* G_cursor; uint8_t G_ads;
#define ENTRY(is128) ((is128) ? (size_t)20 : (size_t)6)
#define CUR_OFF __CPROVER_POINTER_OFFSET(G_cursor)
/* one entry: written iff the service has the response's UUID size and the entry fits (contract of service<>::read_primary_service_response, proved against its real body in C03.py; restated relationally) */
uint8_t* read_primary_service_response(const struct service* service, uint8_t* output, uint8_t* end, size_t starting_index, bool is_128bit_filter)
__CPROVER_requires(G_oroom <= OUT_MAX && __CPROVER_same_object(output, G_out) && __CPROVER_POINTER_OFFSET(output) <= G_oroom && end == &G_out[0] + G_oroom && starting_index < G_N)
__CPROVER_ensures(__CPROVER_same_object(__CPROVER_return_value, G_out) && __CPROVER_POINTER_OFFSET(__CPROVER_return_value) <= G_oroom
    && (__CPROVER_POINTER_OFFSET(__CPROVER_return_value) == __CPROVER_POINTER_OFFSET(output) || __CPROVER_POINTER_OFFSET(__CPROVER_return_value) == __CPROVER_POINTER_OFFSET(output) + ENTRY(is_128bit_filter)))
__CPROVER_assigns(__CPROVER_object_whole(G_out));
struct cps { uint8_t** output_; uint8_t* end_; size_t index_; size_t starting_index_; uint16_t ending_handle_; bool stoped_; bool first_; bool is_128bit_uuid_; uint8_t* attribute_data_size_; int server_; };
/* the state of the collection: nothing collected before the first service is taken; afterwards whole entries of one size, and that size stands in the octet in front of the entries */
#define CPS_INV(c) (G_oroom <= OUT_MAX && G_base <= G_oroom && (c)->output_ == &G_cursor && (c)->attribute_data_size_ == &G_ads && (c)->end_ == &G_out[0] + G_oroom \
    && __CPROVER_same_object(G_cursor, G_out) && CUR_OFF >= G_base && CUR_OFF <= G_oroom \
    && ((c)->first_ ? CUR_OFF == G_base : ((CUR_OFF - G_base) % ENTRY((c)->is_128bit_uuid_) == 0 && G_ads == ENTRY((c)->is_128bit_uuid_))))
void cps_each(struct cps* self, const struct service* service)
__CPROVER_requires(TABLE_OK && __CPROVER_rw_ok(self, sizeof(struct cps)) && CPS_INV(self) && __CPROVER_r_ok(service, sizeof(*service)) && service->number_of_attributes >= 1 && self->index_ < G_N && self->index_ + service->number_of_attributes <= G_N)
__CPROVER_ensures(self->index_ == __CPROVER_old(self->index_) + service->number_of_attributes && CPS_INV(self))
__CPROVER_assigns(self->index_, self->first_, self->is_128bit_uuid_, self->stoped_, G_ads, G_cursor, __CPROVER_object_whole(G_out))
{{cps_each}}
void cps_ctor(struct cps* self, uint8_t** output, uint8_t* end, uint16_t starting_index, uint16_t starting_handle, uint16_t ending_handle, uint8_t* attribute_data_size, int server)
{{cps_ctor}}
/* details::for_< services >::each( collect_primary_services( begin, end, 1, start, end handle, entry size octet, server ) ): constructor (real), then each< Service >() (real) once per declared service in declaration order */
void for_each_collect_primary_services(uint8_t* end, uint16_t starting_handle, uint16_t ending_handle)
__CPROVER_requires(TABLE_OK && SVCS_OK && G_oroom <= OUT_MAX && G_base >= 1 && G_base <= G_oroom && __CPROVER_same_object(G_cursor, G_out) && CUR_OFF == G_base && end == &G_out[0] + G_oroom)
/* SUMMARY: whole entries of one size within the buffer; if there is any, its size is in the octet in front */
__CPROVER_ensures(__CPROVER_same_object(G_cursor, G_out) && CUR_OFF >= G_base && CUR_OFF <= G_oroom
    && (CUR_OFF != G_base ==> ((G_ads == 6 || G_ads == 20) && (CUR_OFF - G_base) % G_ads == 0)))
__CPROVER_assigns(G_ads, G_cursor, __CPROVER_object_whole(G_out))
{
    struct cps c;
    cps_ctor( &c, &G_cursor, end, 1, starting_handle, ending_handle, &G_ads, 0 );
    for ( size_t k = 0; k < G_ns; ++k )
        __CPROVER_assigns(k, c.index_, c.first_, c.is_128bit_uuid_, c.stoped_, G_ads, G_cursor, __CPROVER_object_whole(G_out))
        __CPROVER_loop_invariant(k <= G_ns && c.index_ == G_sidx[k] && CPS_INV(&c))
        __CPROVER_decreases(G_ns - k)
    {
        cps_each( &c, &G_svcs[k] );
    }
}
#define SETUP G_N = nondet_size(); G_ns = nondet_size(); G_oroom = nondet_size(); G_base = nondet_size(); __CPROVER_assume(G_oroom <= OUT_MAX && G_base <= G_oroom); BT_KNOWN_EXCLUDE()
void h_cps_each(void) { SETUP; size_t u = nondet_size(); __CPROVER_assume(u <= G_oroom); G_cursor = G_out + u; struct cps c; c.output_ = &G_cursor; c.end_ = G_out + G_oroom; c.index_ = nondet_size(); c.starting_index_ = nondet_size(); c.ending_handle_ = nondet_u16();
  c.stoped_ = nondet_bool(); c.first_ = nondet_bool(); c.is_128bit_uuid_ = nondet_bool(); c.attribute_data_size_ = &G_ads; struct service s; s.number_of_attributes = nondet_size(); s.is_128bit = nondet_bool(); cps_each(&c, &s); BT_CANARY(); }
void h_for_each_collect_primary_services(void) { SETUP; G_cursor = G_out + G_base; for_each_collect_primary_services(G_out + G_oroom, nondet_u16(), nondet_u16()); BT_CANARY(); }
'''
IT2_UNIT = dict(name='group_iteration_rbgt', extracts=IT2_EX, code=IT2_CODE, object_bits=10, extra_loops=1,
                enforce=['cps_each', 'for_each_collect_primary_services'], replace=['first_index_by_handle', 'read_primary_service_response', 'cps_each'])
