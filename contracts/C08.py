"""C08 ATT MTU negotiation bounds every PDU."""
import os, sys
sys.path.insert(0, os.path.dirname(__file__))
from att import *

EX = dict(ATT_EX,
    exchange=srv_fn(r'void ' + SQ + r'handle_exchange_mtu_request\( const std::uint8_t\* input, std::size_t in_size, std::uint8_t\* output, std::size_t& out_size, ConnectionData& connection \)', tmpl=TC),
    l2cap_input=srv_fn(r'void ' + SQ + r'l2cap_input\( const std::uint8_t\* input, std::size_t in_size, std::uint8_t\* output, std::size_t& out_size, ConnectionData& connection \)', tmpl=TC,
                       rules=ATT_RULES + [(r', write_queue_type\(\) \)', ' )', 2)]),
)

# the request handlers as l2cap_input sees them: each keeps the framing rule and the size limit it is given
HANDLERS = [('handle_exchange_mtu_request', 0x02, 0x03, True), ('handle_find_information_request', 0x04, 0x05, False), ('handle_find_by_type_value_request', 0x06, 0x07, False),
            ('handle_read_by_type_request', 0x08, 0x09, True), ('handle_read_request', 0x0A, 0x0B, True), ('handle_read_blob_request', 0x0C, 0x0D, True),
            ('handle_read_by_group_type_request', 0x10, 0x11, False), ('handle_read_multiple_request', 0x0E, 0x0F, True), ('handle_write_request', 0x12, 0x13, True),
            ('handle_prepair_write_request', 0x16, 0x17, True), ('handle_execute_write_request', 0x18, 0x19, True)]
DECLS = ''
for name, op, rsp, has_conn in HANDLERS:
    args = 'struct server* self, const uint8_t* input, size_t in_size, uint8_t* output, size_t* out_size' + (', struct conn* connection' if has_conn else '')
    call = '(i), (n), (o), &(osz)' + (', (c)' if has_conn else '')
    margs = 'i, n, o, osz' + (', c' if has_conn else '')
    if name == 'handle_exchange_mtu_request':
        continue
    DECLS += '''void %(name)s_(%(args)s)
__CPROVER_requires(IN_OK(input, in_size) && OUT_OK(output, out_size) && input[0] == 0x%(op)02x)
__CPROVER_ensures(FRAMED(output, out_size, 0x%(op)02x, 0x%(rsp)02x, __CPROVER_old(*out_size)))
__CPROVER_assigns(*out_size, __CPROVER_object_upto(output, *out_size), G_other_state);
#define %(name)s(%(margs)s) %(name)s_(self, %(call)s)
''' % dict(name=name, args=args, op=op, rsp=rsp, call=call, margs=margs)

CODE = ATT_CODE + r'''
int G_other_state;     /* whatever else a handler may change (attribute values, CCCDs, write queue): not the MTU */
uint16_t W_client_mtu, W_server_mtu; size_t W_in_size, W_out_size; uint8_t W_in[4];
#define CONN_OK(c) (__CPROVER_rw_ok(c, sizeof(struct conn)) && (c)->client_mtu_ >= 23 && (c)->client_mtu_ == W_client_mtu && SERVER_MTU_OK && G_maximum_channel_mtu_size == W_server_mtu)
#define REQ_MTU ((uint16_t)(W_in[1] | (W_in[2] << 8)))
void handle_exchange_mtu_request_(struct server* self, const uint8_t* input, size_t in_size, uint8_t* output, size_t* out_size, struct conn* connection)
__CPROVER_requires(IN_OK(input, in_size) && OUT_OK(output, out_size) && CONN_OK(connection) && in_size == W_in_size)
__CPROVER_requires(input[0] == W_in[0] && (in_size < 2 || input[1] == W_in[1]) && (in_size < 3 || input[2] == W_in[2]))
/* a request with a wrong length or a client MTU below 23 is rejected and does not change the MTU */
__CPROVER_ensures((W_in_size != 3 || REQ_MTU < 23) ==> (IS_ERROR(output, out_size, W_in[0], att_error_codes_invalid_pdu) && connection->client_mtu_ == W_client_mtu))
/* otherwise the client's MTU is recorded and the server's configured maximum is reported */
__CPROVER_ensures((W_in_size == 3 && REQ_MTU >= 23) ==> (*out_size == 3 && output[0] == 0x03 && output[1] == (W_server_mtu & 0xff) && output[2] == (W_server_mtu >> 8) && connection->client_mtu_ == REQ_MTU))
__CPROVER_ensures(connection->client_mtu_ >= 23)
__CPROVER_assigns(*out_size, __CPROVER_object_upto(output, 5), connection->client_mtu_)
{{exchange}}
#define handle_exchange_mtu_request(i, n, o, osz, c) handle_exchange_mtu_request_(self, (i), (n), (o), &(osz), (c))
''' + DECLS + r'''
void handle_write_command_(struct server* self, const uint8_t* input, size_t in_size, uint8_t* output, size_t* out_size, struct conn* connection)
__CPROVER_requires(IN_OK(input, in_size) && OUT_OK(output, out_size))
__CPROVER_ensures(*out_size == 0)
__CPROVER_assigns(*out_size, __CPROVER_object_upto(output, *out_size), G_other_state);
#define handle_write_command(i, n, o, osz, c) handle_write_command_(self, (i), (n), (o), &(osz), (c))
void handle_value_confirmation_(struct server* self, const uint8_t* input, size_t in_size, uint8_t* output, size_t* out_size, struct conn* connection)
__CPROVER_requires(IN_OK(input, in_size) && OUT_OK(output, out_size))
__CPROVER_ensures(in_size == 1 ? *out_size == 0 : IS_ERROR(output, out_size, input[0], 0x04))
__CPROVER_assigns(*out_size, __CPROVER_object_upto(output, 5), G_other_state);
#define handle_value_confirmation(i, n, o, osz, c) handle_value_confirmation_(self, (i), (n), (o), &(osz), (c))

/* opcodes that must not be answered: error response, commands (bit 6), notification; a well formed confirmation */
#define NO_RESPONSE(op, n) ((op) == 0x01 || ((op) & 0x40) != 0 || (op) == 0x1B || ((op) == 0x1E && (n) == 1))
#define RESPONSE_OF(op) ((uint8_t)((op) + 1))
void l2cap_input(struct server* self, const uint8_t* input, size_t in_size, uint8_t* output, size_t* out_size, struct conn* connection)
__CPROVER_requires(IN_OK(input, in_size) && in_size == W_in_size && input[0] == W_in[0] && (in_size < 2 || input[1] == W_in[1]) && (in_size < 3 || input[2] == W_in[2]))
__CPROVER_requires(__CPROVER_rw_ok(out_size, sizeof(size_t)) && *out_size >= 23 && *out_size <= MTU_MAX && *out_size == W_out_size && __CPROVER_rw_ok(output, *out_size) && CONN_OK(connection))
/* C08: no response is longer than the negotiated MTU (as it was when the request arrived) nor than the buffer */
__CPROVER_ensures(*out_size <= BT_MIN((size_t)BT_MIN(W_server_mtu, W_client_mtu), W_out_size))
/* the MTU only changes through a valid Exchange MTU Request and stays >= 23 */
__CPROVER_ensures(connection->client_mtu_ == ((W_in[0] == 0x02 && W_in_size == 3 && REQ_MTU >= 23) ? REQ_MTU : W_client_mtu))
#ifdef FRAMING_CLAUSES
/* C01 framing: no response to error responses, commands, notifications and confirmations; a request gets its response or an Error Response naming it */
__CPROVER_ensures(NO_RESPONSE(W_in[0], W_in_size) ==> *out_size == 0)
__CPROVER_ensures(!NO_RESPONSE(W_in[0], W_in_size) ==> ((*out_size >= 1 && output[0] == RESPONSE_OF(W_in[0]) && W_in[0] != 0x1E) || (*out_size == 5 && output[0] == 0x01 && output[1] == W_in[0])))
#endif
__CPROVER_assigns(*out_size, __CPROVER_object_upto(output, W_out_size), connection->client_mtu_, G_other_state)
{{l2cap_input}}

#define SETUP struct server srv; struct server* self = &srv; W_client_mtu = nondet_u16(); W_server_mtu = nondet_u16(); G_maximum_channel_mtu_size = W_server_mtu; W_in_size = nondet_size(); W_out_size = nondet_size(); \
  for (int k = 0; k < 4; ++k) W_in[k] = nondet_u8(); struct conn c; c.client_mtu_ = W_client_mtu; __CPROVER_assume(W_in_size >= 1 && W_in_size <= MTU_MAX && W_out_size >= 23 && W_out_size <= MTU_MAX); \
  uint8_t* in = malloc(W_in_size); uint8_t* out = malloc(W_out_size); __CPROVER_assume(in && out); in[0] = W_in[0]; if (W_in_size > 1) in[1] = W_in[1]; if (W_in_size > 2) in[2] = W_in[2]; size_t os = W_out_size; BT_KNOWN_EXCLUDE()
void h_handle_exchange_mtu_request_(void) { SETUP; handle_exchange_mtu_request_(self, in, W_in_size, out, &os, &c); BT_CANARY(); }
void h_l2cap_input(void) { SETUP; l2cap_input(self, in, W_in_size, out, &os, &c); BT_CANARY(); }
void h_negotiated_mtu(void) { SETUP; negotiated_mtu(&c); BT_CANARY(); }
void h_server_mtu(void) { SETUP; server_mtu(&c); BT_CANARY(); }
void h_client_mtu_set(void) { SETUP; uint16_t m = nondet_u16(); __CPROVER_assume(m >= 23); client_mtu_set(&c, m); BT_CANARY(); }
void h_client_mtu_get(void) { SETUP; client_mtu_get(&c); BT_CANARY(); }
void h_conn_ctor(void) { SETUP; conn_ctor(&c); BT_CANARY(); }
void h_error_response5_(void) { SETUP; error_response5_(nondet_u8(), nondet_u8(), nondet_u16(), out, &os); BT_CANARY(); }
void h_error_response4_(void) { SETUP; error_response4_(nondet_u8(), nondet_u8(), out, &os); BT_CANARY(); }
'''
_names = [n for n, _, _, _ in HANDLERS]
UNITS = [
    dict(name='mtu', extracts={k: v for k, v in EX.items() if k not in ('args_read', 'args_write', 'access_to_att', 'check_handle')},
         code=CODE.replace('{{args_read}}', '{ struct attribute_access_arguments a; return a; }').replace('{{args_write}}', '{ struct attribute_access_arguments a; return a; }')
                  .replace('{{access_to_att}}', ';').replace('{{check_handle}}', ';'),
         object_bits=10,
         enforce=['handle_exchange_mtu_request_', 'l2cap_input', 'negotiated_mtu', 'server_mtu', 'client_mtu_set', 'client_mtu_get', 'conn_ctor', 'error_response5_', 'error_response4_'],
         replace=[n + '_' for n in _names] + ['handle_write_command_', 'handle_value_confirmation_', 'negotiated_mtu', 'server_mtu', 'client_mtu_set', 'error_response5_', 'error_response4_'],
         replay=dict(src='replay/c08_replay.cpp')),
]

# ------------------------------------------------------------------ server::l2cap_output (notifications / indications)
NQ = 'bluetoe/notification_queue.hpp'
OUT_PRE = ATT_PRE + [
    (r'auto attr = attribute_at\( data\.attribute_table_index\(\) \);', '', 1),
    (r'attr\.access\( read, data\.attribute_table_index\(\) \)', 'ACCESS( &read, data.attribute_table_index() )', 1),
    (r'connection\.dequeue_indication_or_confirmation\(\)', 'dequeue_indication_or_confirmation( connection )', 1),
    # any other operation on the connection's notification queue from here would be a second writer of the 'outstanding indication' state (C11)
    (r'connection\.indication_confirmed\(\)', 'conn_indication_confirmed( connection )', '*'),
    (r'connection\.clear_indications_and_confirmations\(\)', 'conn_queue_mutation( connection )', '*'),
    (r'connection\.(?:queue_indication|queue_notification)\( ', 'conn_queue_mutation2( connection, ', '*'),
    (r'client_configurations\( connection \)\.flags\( data\.client_characteristic_configuration_index\(\) \)', 'cfg_flags( data.client_characteristic_configuration_index() )', 1),
    (r'data\.attribute_table_index\(\)', 'data.attribute_table_index_', '+'),
    (r'data\.client_characteristic_configuration_index\(\)', 'data.client_characteristic_configuration_index_', '+'),
]
OUT_EX = dict(EX,
    nqet=dict(kind='enum', file=NQ, name='notification_queue_entry_type'),
    ccc_enum=dict(kind='text', body='text', file=CODES, locate=r'enum \{\s*client_characteristic_configuration_notification_enabled[^}]*\}', no_members=True),
    l2cap_output=srv_fn(r'void ' + SQ + r'l2cap_output\( std::uint8_t\* output, std::size_t& out_size, ConnectionData& connection \)', tmpl=TC, pre=OUT_PRE,
                        rules=ATT_RULES + [(r'details::notification_queue_entry_type::', 'notification_queue_entry_type_', '+'),
                                           (r'details::client_characteristic_configuration_(notification|indication)_enabled', r'client_characteristic_configuration_\1_enabled', 2)]),
)
OUT_CODE = CODE + r"""
{{nqet}};
{{ccc_enum}};
struct pending_entry { enum notification_queue_entry_type first; size_t second; };
struct notification_data { size_t attribute_table_index_; size_t client_characteristic_configuration_index_; };
/* the link layer's notification queue (C11/C12), the type-level table characteristic -> value attribute (C10), the CCCD store (C09), the handle mapping (C04): abstract */
int W_kind; size_t W_cfg_index, W_attr_index, W_ccc_index; uint16_t W_flags, W_handle; bool W_enc; int W_ps; int W_rc; size_t W_read_size;
size_t G_fnd_arg, G_flags_arg, G_hbi_arg; size_t G_queue_mutations, G_confirmed;
static inline void conn_indication_confirmed(struct conn* c) { ++G_confirmed; }
static inline void conn_queue_mutation(struct conn* c) { ++G_queue_mutations; }
static inline bool conn_queue_mutation2(struct conn* c, size_t i) { ++G_queue_mutations; return true; }
struct pending_entry dequeue_indication_or_confirmation(struct conn* c)
__CPROVER_ensures((int)__CPROVER_return_value.first == W_kind && __CPROVER_return_value.second == W_cfg_index) __CPROVER_assigns();
struct notification_data find_notification_data_by_index(size_t i)
__CPROVER_ensures(__CPROVER_return_value.attribute_table_index_ == W_attr_index && __CPROVER_return_value.client_characteristic_configuration_index_ == W_ccc_index && G_fnd_arg == i) __CPROVER_assigns(G_fnd_arg);
uint16_t cfg_flags(size_t i) __CPROVER_ensures(__CPROVER_return_value == W_flags && G_flags_arg == i) __CPROVER_assigns(G_flags_arg);
uint16_t handle_by_index(size_t i) __CPROVER_ensures(__CPROVER_return_value == W_handle && G_hbi_arg == i) __CPROVER_assigns(G_hbi_arg);
#define OUT_SENT (W_kind != notification_queue_entry_type_empty && (W_flags & (W_kind == notification_queue_entry_type_notification ? 1 : 2)) != 0 && G_acc_calls == 1 && G_acc_rc == 0)
void l2cap_output(struct server* self, uint8_t* output, size_t* out_size, struct conn* connection)
__CPROVER_requires(TABLE_OK && W_attr_index < G_N && W_kind >= 0 && W_kind <= 2 && OUT_OK(output, out_size) && *out_size == W_out_size && CONN_OK(connection) && G_acc_calls == 0)
__CPROVER_requires(G_conn_sec.is_encrypted == W_enc && (int)G_conn_sec.pairing_status == W_ps)
/* C08: a notification / indication is never longer than the negotiated MTU (nor than the buffer) */
__CPROVER_ensures(*out_size <= BT_MIN((size_t)BT_MIN(W_server_mtu, W_client_mtu), W_out_size))
#ifdef C10_CLAUSES
/* C10: nothing is sent unless the dequeued characteristic's CCCD has the matching bit set for this connection */
__CPROVER_ensures((W_kind == notification_queue_entry_type_empty || (W_flags & (W_kind == notification_queue_entry_type_notification ? 1 : 2)) == 0) ==> (*out_size == 0 && G_acc_calls == 0))
__CPROVER_ensures(W_kind != notification_queue_entry_type_empty ==> (G_fnd_arg == W_cfg_index && G_flags_arg == W_ccc_index))
#endif
/* the value is read through the attribute's access function with this connection's security attributes (C05) into the room behind the 3 byte header */
__CPROVER_ensures(G_acc_calls == 1 ==> (G_acc_index == W_attr_index && G_acc_type == attribute_access_type_read && G_acc_off == 0 && G_acc_buf == output + 3
                                         && G_acc_enc == W_enc && G_acc_ps == W_ps))
__CPROVER_ensures(G_acc_calls <= 1)
/* a PDU that is produced: opcode by kind, handle of the value attribute, then the bytes the access function produced */
__CPROVER_ensures(*out_size != 0 ==> (OUT_SENT && output[0] == (W_kind == notification_queue_entry_type_notification ? 0x1B : 0x1D) && output[1] == (W_handle & 0xff) && output[2] == (W_handle >> 8)
                                       && G_hbi_arg == W_attr_index && *out_size == 3 + G_acc_out_size))
__CPROVER_ensures(OUT_SENT ==> *out_size != 0)
#ifdef C11_CLAUSES
/* C11: dequeuing an indication makes it the outstanding one (C12). If it is then NOT sent - not subscribed, value not readable - no confirmation will ever come: it is taken as confirmed, or every later
   indication of this connection would wait for ever. In every other case the outstanding indication is not touched from here, nor is the queue in any other way */
__CPROVER_ensures(G_confirmed == ((W_kind == notification_queue_entry_type_indication && *out_size == 0) ? 1 : 0))
__CPROVER_ensures(G_queue_mutations == 0)
#endif
__CPROVER_assigns(*out_size, __CPROVER_object_upto(output, W_out_size), G_fnd_arg, G_flags_arg, G_hbi_arg, G_queue_mutations, G_confirmed,
                  G_acc)
{{l2cap_output}}
void h_l2cap_output(void) { SETUP; W_kind = nondet_int(); W_cfg_index = nondet_size(); W_attr_index = nondet_size(); W_ccc_index = nondet_size(); W_flags = nondet_u16(); W_handle = nondet_u16();
  W_enc = nondet_bool(); W_ps = nondet_int(); __CPROVER_assume(W_ps >= 0 && W_ps <= 3); G_conn_sec.is_encrypted = W_enc; G_conn_sec.pairing_status = W_ps; G_acc_calls = 0; G_N = nondet_size(); G_queue_mutations = 0; G_confirmed = 0;
  l2cap_output(self, out, &os, &c); BT_CANARY(); }
"""
UNITS.append(dict(name='l2cap_output', extracts={k: v for k, v in OUT_EX.items() if k not in ('access_to_att', 'check_handle', 'exchange', 'l2cap_input')},
         code=OUT_CODE.replace('{{access_to_att}}', ';').replace('{{check_handle}}', ';').replace('{{exchange}}', ';').replace('{{l2cap_input}}', ';'),
         object_bits=10, enforce=['l2cap_output'],
         replace=['ACCESS', 'dequeue_indication_or_confirmation', 'find_notification_data_by_index', 'cfg_flags', 'handle_by_index', 'negotiated_mtu', 'server_mtu'],
         replay=dict(src='replay/c08_replay.cpp')))

META = dict(
    level='proof',
    explanation="server::connection_data (negotiated_mtu, client_mtu get/set, server_mtu, constructor), handle_exchange_mtu_request and l2cap_input "
                "(server.hpp) are extracted and proved for every server maximum (symbolic 23..MTU_MAX), every client MTU, every request length and "
                "content: negotiated_mtu == min(server maximum, client MTU); a new connection starts at 23; Exchange MTU with length != 3 or a "
                "client MTU below 23 yields Error Response (invalid PDU) and leaves the client MTU unchanged, otherwise the client MTU is recorded "
                "and the response carries the server maximum; l2cap_input clips the room handed to every handler to the negotiated MTU, so - every "
                "handler staying within the room it is given - no response exceeds min(negotiated MTU, buffer); the client MTU changes through a "
                "valid Exchange MTU Request only and is always >= 23 (invariant over any request sequence).",
    assumptions=["handlers other than Exchange MTU enter l2cap_input by the contract '*out_size is not increased' (proved for the handlers under "
                 "contract in C01, assumed for the rest)",
                 "notifications / indications: server::l2cap_output limits the PDU to the negotiated MTU itself (postcondition of unit l2cap_output; F-C08, fixed) whatever the size "
                 "of the buffer the L2CAP layer hands it",
                 "maximum_channel_mtu_size is max_mtu_size<N>::mtu selected by find_by_meta_type (type level), symbolic here"],
    trusted_base=[],
)
