"""C40 Cycling speed control point never deadlocks."""
import os, sys
sys.path.insert(0, os.path.dirname(__file__))
from common import BITS32_EXTRACTS, BITS32_CODE
CSC = 'bluetoe/services/csc.hpp'
CODES = 'bluetoe/utility/include/bluetoe/codes.hpp'
CV = 'bluetoe/characteristic_value.hpp'
CPH = r'class control_point_handler : public SensorPositionHandler'
NSP = r'class no_sensor_position_handler\b'

RULES = [
    (r'error_codes::', 'error_codes_', '*'),
    (r'std::make_pair\(', '(struct pair_u8_bool){', '*'),
    (r'\(struct pair_u8_bool\)\{([^;]*?)\);', r'(struct pair_u8_bool){\1};', '*'),
    (r'\bout_size\b', '(*out_size)', '*'),
    (r'bluetoe::details::read_32bit', 'read_32bit', '*'),
    (r'handler\.set_cumulative_wheel_revolutions\(', 'handler_set_cumulative_wheel_revolutions(', '*'),
    (r'self->set_sensor_position\(', 'set_sensor_position(', '*'),
    (r'self->request_supported_sensor_locations_opcode_response\( read_size, out_buffer, \(\*out_size\) \)', 'request_supported_sensor_locations_opcode_response( read_size, out_buffer, out_size )', '*'),
    (r'self->update_sensor_location_opcode_response\( read_size, out_buffer, \(\*out_size\) \)', 'update_sensor_location_opcode_response( read_size, out_buffer, out_size )', '*'),
    (r'static const size_t response_size', 'const size_t response_size', '*'),
]
EX = dict(BITS32_EXTRACTS,
    error_codes=dict(kind='enum', file=CODES, name='error_codes'),
    opcodes=dict(kind='text', body='text', file=CSC, locate=r'enum \{\s*set_cumulative_value_opcode[^}]*\}', no_members=True),
    rcs=dict(kind='text', body='text', file=CSC, locate=r'enum \{\s*rc_success[^}]*\}', no_members=True),
    fields=dict(kind='fields', file=CSC, scope=CPH, names=['current_opcode_', 'procedure_in_progress_']),
    write=dict(file=CSC, scope=CPH, locate=r'template < class Handler >\s*std::pair< std::uint8_t, bool > csc_write_control_point\( std::size_t write_size, const std::uint8_t\* value, Handler& handler \)',
               rules=RULES),
    read=dict(file=CSC, scope=CPH, locate=r'std::uint8_t csc_read_control_point\( std::size_t read_size, std::uint8_t\* out_buffer, std::size_t& out_size \)', rules=RULES),
    ctor=dict(file=CSC, scope=CPH, locate=r'control_point_handler\(\)', init_list=True),
    nsp_req=dict(file=CSC, scope=NSP, locate=r'std::uint8_t request_supported_sensor_locations_opcode_response\( std::size_t read_size, std::uint8_t\* out_buffer, std::size_t& out_size \)', rules=RULES),
    nsp_upd=dict(file=CSC, scope=NSP, locate=r'std::uint8_t update_sensor_location_opcode_response\( std::size_t read_size, std::uint8_t\* out_buffer, std::size_t& out_size \)', rules=RULES),
)

CODE = BITS32_CODE + r'''
{{error_codes}};
{{opcodes}};
{{rcs}};
struct pair_u8_bool { uint8_t first; bool second; };
struct cph { {{fields}} };
size_t W_write_size, W_read_size; uint8_t W_value[8]; uint8_t W_opcode; bool W_in_progress;
int G_set_cum_calls; uint32_t G_set_cum_arg; int G_set_pos_calls; uint8_t G_set_pos_arg;
/* application handler and sensor position base class (abstract callees) */
void handler_set_cumulative_wheel_revolutions(uint32_t v)
__CPROVER_ensures(G_set_cum_calls == __CPROVER_old(G_set_cum_calls) + 1 && G_set_cum_arg == v) __CPROVER_assigns(G_set_cum_calls, G_set_cum_arg);
void set_sensor_position(uint8_t p)
__CPROVER_ensures(G_set_pos_calls == __CPROVER_old(G_set_pos_calls) + 1 && G_set_pos_arg == p) __CPROVER_assigns(G_set_pos_calls, G_set_pos_arg);
/* every response generator answers with (response opcode, the request opcode it stands for, a result code) */
#define RESPONSE_CONTRACT(op) \
  __CPROVER_requires(read_size >= 3 && __CPROVER_rw_ok(out_buffer, 3) && __CPROVER_rw_ok(out_size, sizeof(size_t))) \
  __CPROVER_ensures(__CPROVER_return_value == error_codes_success && *out_size == 3 && out_buffer[0] == response_code_opcode && out_buffer[1] == (op)) \
  __CPROVER_assigns(*out_size, __CPROVER_object_upto(out_buffer, 3))
uint8_t request_supported_sensor_locations_opcode_response(size_t read_size, uint8_t* out_buffer, size_t* out_size)
RESPONSE_CONTRACT(request_supported_sensor_locations_opcode)
{{nsp_req}}
uint8_t update_sensor_location_opcode_response(size_t read_size, uint8_t* out_buffer, size_t* out_size)
RESPONSE_CONTRACT(update_sensor_location_opcode)
{{nsp_upd}}

#define CPH_OK(self) (__CPROVER_is_fresh(self, sizeof(struct cph)) && (self)->procedure_in_progress_ == W_in_progress && (self)->current_opcode_ == W_opcode)
#define MALFORMED(op, n) (((op) == set_cumulative_value_opcode && (n) != 5) || ((op) == request_supported_sensor_locations_opcode && (n) != 1) \
                          || ((op) == update_sensor_location_opcode && (n) != 2))
struct pair_u8_bool csc_write_control_point(struct cph* self, size_t write_size, const uint8_t* value)
__CPROVER_requires(CPH_OK(self) && write_size <= 8 && write_size == W_write_size && __CPROVER_is_fresh(value, write_size))
__CPROVER_requires(write_size < 1 || value[0] == W_value[0])
__CPROVER_requires(write_size < 2 || value[1] == W_value[1])
__CPROVER_requires(write_size < 5 || (value[2] == W_value[2] && value[3] == W_value[3] && value[4] == W_value[4]))
__CPROVER_requires(G_set_cum_calls == 0 && G_set_pos_calls == 0)
/* refused only while an accepted procedure still awaits its response; refusal changes nothing */
__CPROVER_ensures(write_size < 1 ==> (__CPROVER_return_value.first == error_codes_invalid_handle && !__CPROVER_return_value.second
        && self->procedure_in_progress_ == W_in_progress && self->current_opcode_ == W_opcode))
__CPROVER_ensures((write_size >= 1 && W_in_progress) ==> (__CPROVER_return_value.first == error_codes_procedure_already_in_progress && !__CPROVER_return_value.second
        && self->procedure_in_progress_ && self->current_opcode_ == W_opcode))
__CPROVER_ensures((__CPROVER_return_value.first == error_codes_procedure_already_in_progress) ==> W_in_progress)
/* a malformed write is rejected and does not block later procedures */
__CPROVER_ensures((write_size >= 1 && !W_in_progress && MALFORMED(W_value[0], write_size)) ==>
        (__CPROVER_return_value.first == error_codes_invalid_pdu && !__CPROVER_return_value.second && !self->procedure_in_progress_
         && G_set_cum_calls == 0 && G_set_pos_calls == 0))
/* an accepted procedure is in progress until its response was produced, remembers the request opcode, and asks for
   the response indication right away unless the application confirms it later (Set Cumulative Value) */
__CPROVER_ensures((write_size >= 1 && !W_in_progress && !MALFORMED(W_value[0], write_size)) ==>
        (__CPROVER_return_value.first == error_codes_success && self->procedure_in_progress_ && self->current_opcode_ == W_value[0]
         && __CPROVER_return_value.second == (W_value[0] != set_cumulative_value_opcode)))
__CPROVER_ensures((write_size >= 1 && !W_in_progress && W_value[0] == set_cumulative_value_opcode && write_size == 5) ==>
        (G_set_cum_calls == 1 && G_set_cum_arg == ((uint32_t)W_value[1] | ((uint32_t)W_value[2] << 8) | ((uint32_t)W_value[3] << 16) | ((uint32_t)W_value[4] << 24))))
__CPROVER_ensures((write_size >= 1 && !W_in_progress && W_value[0] == update_sensor_location_opcode && write_size == 2) ==> (G_set_pos_calls == 1 && G_set_pos_arg == W_value[1]))
__CPROVER_assigns(self->procedure_in_progress_, self->current_opcode_, G_set_cum_calls, G_set_cum_arg, G_set_pos_calls, G_set_pos_arg)
{{write}}
/* the response: exactly one per accepted procedure, names the request opcode, and ends the procedure */
uint8_t csc_read_control_point(struct cph* self, size_t read_size, uint8_t* out_buffer, size_t* out_size)
__CPROVER_requires(CPH_OK(self) && read_size >= 3 && read_size <= 23 && read_size == W_read_size && __CPROVER_is_fresh(out_buffer, read_size) && __CPROVER_is_fresh(out_size, sizeof(size_t)))
__CPROVER_ensures(__CPROVER_return_value == error_codes_success && !self->procedure_in_progress_)
__CPROVER_ensures(*out_size == 3 && out_buffer[0] == response_code_opcode && out_buffer[1] == W_opcode)
__CPROVER_assigns(self->procedure_in_progress_, *out_size, __CPROVER_object_upto(out_buffer, 3))
{{read}}
void cph_ctor(struct cph* self)
__CPROVER_requires(__CPROVER_is_fresh(self, sizeof(struct cph)))
__CPROVER_ensures(!self->procedure_in_progress_)
__CPROVER_assigns(self->procedure_in_progress_)
{{ctor}}
#define SETUP struct cph* c; uint8_t* v; W_write_size = nondet_size(); W_read_size = nondet_size(); for (int k = 0; k < 8; ++k) W_value[k] = nondet_u8(); \
   W_opcode = nondet_u8(); W_in_progress = nondet_bool(); G_set_cum_calls = 0; G_set_pos_calls = 0; BT_KNOWN_EXCLUDE()
void h_csc_write_control_point(void) { SETUP; csc_write_control_point(c, W_write_size, v); BT_CANARY(); }
void h_csc_read_control_point(void) { SETUP; size_t* os; csc_read_control_point(c, W_read_size, v, os); BT_CANARY(); }
void h_cph_ctor(void) { SETUP; cph_ctor(c); BT_CANARY(); }
void h_request_supported_sensor_locations_opcode_response(void) { SETUP; uint8_t out[3]; size_t os; request_supported_sensor_locations_opcode_response(3, out, &os); BT_CANARY(); }
void h_update_sensor_location_opcode_response(void) { SETUP; uint8_t out[3]; size_t os; update_sensor_location_opcode_response(3, out, &os); BT_CANARY(); }
'''

UNITS = [
    dict(name='control_point', extracts=EX, code=CODE,
         enforce=['csc_write_control_point', 'csc_read_control_point', 'cph_ctor', 'request_supported_sensor_locations_opcode_response', 'update_sensor_location_opcode_response'],
         replace=['handler_set_cumulative_wheel_revolutions', 'set_sensor_position', 'request_supported_sensor_locations_opcode_response', 'update_sensor_location_opcode_response'],
         replay=dict(src='replay/c40_replay.cpp')),
]

META = dict(
    level='proof',
    explanation="control_point_handler::csc_write_control_point / csc_read_control_point (and the no_sensor_position_handler response generators) are "
                "extracted and proved, loop-free, for every opcode byte, every length 0..8 and both flag states: a write is refused with "
                "'procedure already in progress' exactly while an accepted procedure awaits its response; a malformed or rejected write leaves "
                "the control point free; an accepted write records the request opcode; the response names that opcode and ends the procedure.",
    assumptions=["the sensor_position_handler<...> variant of the two response generators (std::find over a template value pack) is represented by the "
                 "same response contract; its body is not extracted",
                 "that the ATT layer delivers the indication after call_write_handler returned {success,true} is C10/C11"],
    trusted_base=["handler.set_cumulative_wheel_revolutions (application)"],
)
