"""C10 Notifications carry the requested characteristic to subscribed clients only (the run-time part)."""
import os, sys
sys.path.insert(0, os.path.dirname(__file__))
import importlib.util
def _load(name):
    sp = importlib.util.spec_from_file_location(name, os.path.join(os.path.dirname(__file__), name + '.py'))
    m = importlib.util.module_from_spec(sp); sp.loader.exec_module(m); return m
_c08, _c12 = _load('C08'), _load('C12')
UNITS = [dict(u, defines=list(u.get('defines', [])) + ['C10_CLAUSES']) for u in _c08.UNITS if u['name'] == 'l2cap_output']   # the clause set of this property (as for llc.py)
# repeated requests before transmission: the queue is a set (add returns false and changes nothing if the entry is pending) - contracts in C12.py
UNITS += [dict(u, enforce=['add', 'at']) for u in _c12.UNITS if u['name'] == 'at_add_remove']
UNITS += [dict(u, enforce=['queue_notification', 'queue_indication']) for u in _c12.UNITS if u['name'] == 'impl1']
# the index a notification is requested under by value is the index that is resolved when the PDU is built (C10ni.py)
UNITS += _load('C10ni').UNITS
# the request on its way from the application to the queue: server<>::notify / indicate and the link layer's call back (C10rq.py)
UNITS.append(_load('C10rq').UNIT)

META = dict(
    level='other',
    explanation="Run-time part only. server::l2cap_output (real body): a Handle Value Notification / Indication is produced only if the CCCD of the "
                "dequeued characteristic has the notification resp. indication bit set for this connection; it starts with 0x1B / 0x1D by kind, "
                "carries handle_by_index(value attribute index) and exactly the bytes the attribute's access function produced for a read at offset "
                "0 with this connection's security attributes, and is at most min(negotiated MTU, buffer) long; otherwise nothing is sent. Repeated "
                "requests: the notification queue's add() is idempotent (C12 contracts), so one pending entry yields one PDU. The index a request by value is queued under is the one "
                "l2cap_output resolves (unit notification_index).",
    assumptions=["find_notification_data.hpp, real bodies (unit notification_index): the two functors attribute_at / attribute_value and the two lookups; the type lists they are folded over are "
                 "abstract arrays - characteristics in declaration order and the same characteristics sorted by outgoing priority, related by a symbolic permutation; the fold "
                 "for_< List >::each is glue with a loop contract. Proved: find_notification_data_by_index( i ) names the i-th characteristic of the SORTED list, and "
                 "find_notification_data( value ) returns the position of the value's characteristic in that same sorted list (finding F-C10, fixed: it used the declaration order)",
                 "NOT decided (type level): that find_notification_by_uuid< .. >::data() (a constant of the sorted list) and the CCCD flag slot of a characteristic "
                 "(index_of< ClientCharacteristicIndex, cccd_indices >) denote that same position, and that stable_sort / fold_left build the lists as named - template meta programs "
                 "evaluated by the compiler; seeded/C10_cccd_indices_inverse_permutation lives there and is not reported; the native replay compares by-value and by-UUID requests "
                 "on real servers for every priority placement",
                 "unit request: server::notify / indicate (all four) hand exactly the data find_notification_data / find_notification_by_uuid computed to the link layer's call back, "
                 "queue_lcap_notification queues it under that position (real bodies; the static look up of a characteristic by UUID and its static_asserts are compile time)"],
    trusted_base=["link layer notification queue wiring (queue_lcap_notification)"],
)
