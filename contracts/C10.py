"""C10 Notifications carry the requested characteristic to subscribed clients only (the run-time part)."""
import os, sys
sys.path.insert(0, os.path.dirname(__file__))
import importlib.util
def _load(name):
    sp = importlib.util.spec_from_file_location(name, os.path.join(os.path.dirname(__file__), name + '.py'))
    m = importlib.util.module_from_spec(sp); sp.loader.exec_module(m); return m
_c08, _c12 = _load('C08'), _load('C12')
UNITS = [dict(u) for u in _c08.UNITS if u['name'] == 'l2cap_output']
# repeated requests before transmission: the queue is a set (add returns false and changes nothing if the entry is pending) - contracts in C12.py
UNITS += [dict(u, enforce=['add', 'at']) for u in _c12.UNITS if u['name'] == 'at_add_remove']
UNITS += [dict(u, enforce=['queue_notification', 'queue_indication']) for u in _c12.UNITS if u['name'] == 'impl1']

META = dict(
    level='other',
    explanation="Run-time part only. server::l2cap_output (real body): a Handle Value Notification / Indication is produced only if the CCCD of the "
                "dequeued characteristic has the notification resp. indication bit set for this connection; it starts with 0x1B / 0x1D by kind, "
                "carries handle_by_index(value attribute index) and exactly the bytes the attribute's access function produced for a read at offset "
                "0 with this connection's security attributes, and is at most min(negotiated MTU, buffer) long; otherwise nothing is sent. Repeated "
                "requests: the notification queue's add() is idempotent (C12 contracts), so one pending entry yields one PDU.",
    assumptions=["NOT decided (type level): that the client-configuration index computed when a notification is requested - by bound value "
                 "(find_notification_data: position in the declaration-ordered list) or by UUID (find_notification_by_uuid) - designates the same "
                 "characteristic as the index find_notification_data_by_index resolves when the entry is dequeued (priority-sorted list), with or "
                 "without higher/lower_outgoing_priority. These are template meta functions evaluated by the compiler; no function body exists to put "
                 "under contract. Suspected defect F-C10 of DESIGN.md 9 lives there and is not confirmed by this check",
                 "server::notify / indicate bodies only forward the computed index to the link layer callback (read, not proved)"],
    trusted_base=["link layer notification queue wiring (queue_lcap_notification)"],
)
