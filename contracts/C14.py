"""C14 Advertising and scan response data are well-formed."""
import os, sys
sys.path.insert(0, os.path.dirname(__file__))
from common import BITS_EXTRACTS, BITS_CODE, COPY_RULE
from srv import SRV, CODES, TS, SQ
ASL = 'bluetoe/adv_service_list.hpp'
APP = 'bluetoe/appearance.hpp'
PCI = 'bluetoe/peripheral_connection_interval_range.hpp'
CUS = 'bluetoe/custom_advertising.hpp'

GAP = [(r'details::gap_types::', 'gap_types_', '*'), (r'details::write_16bit\(', 'write_16bit(', '*')]
SIG = r'static std::uint8_t\* advertising_data\( std::uint8_t\* begin, std::uint8_t\* end \)'
SIG0 = r'static (?:constexpr )?std::uint8_t\* advertising_data\( std::uint8_t\* begin, std::uint8_t\* \)'
L16 = r'struct list_of_16_bit_service_uuids \{'
L16E = r'struct list_of_16_bit_service_uuids<> \{'
L128 = r'struct list_of_128_bit_service_uuids \{'
L128E = r'struct list_of_128_bit_service_uuids<> \{'
REB = r'{ size_t bt_o = __CPROVER_POINTER_OFFSET(begin); BT_GHOST_REBIND(begin, G_base + bt_o); \1 }'

def sc(r): return r.replace(r' \{', r'\s*(?=\{)')

EX = dict(BITS_EXTRACTS,
    gap_types=dict(kind='enum', file=CODES, name='gap_types'),
    adv_impl=dict(file=SRV, locate=TS + r'std::size_t ' + SQ + r'advertising_data_impl\( std::uint8_t\* begin, std::size_t buffer_size, const auto_advertising_data& \) const',
        pre=[(r'using \w+ = typename details::find_by_meta_type<[^;]*;', '', 2), (r'typedef typename details::find_by_meta_type<[^;]*;', '', 4),
             (r'appearance_advertising_config::template advertising_data< device_appearance >\(', 'appearance_advertising_data(', 1),
             (r'details::copy_name< name::name != nullptr >::impl\( begin, end, name::name \)', 'copy_name_impl( begin, end, G_name )', 1),
             (r'service_list_uuid16::advertising_data\(', 'list16_advertising_data(', 1), (r'service_list_uuid128::advertising_data\(', 'list128_advertising_data(', 1),
             (r'peripheral_connection_interval_range_ad::advertising_data\(', 'interval_range_advertising_data(', 1)],
        rules=GAP),
    scan_impl=dict(file=SRV, locate=TS + r'std::size_t ' + SQ + r'scan_response_data_impl\( std::uint8_t\* buffer, std::size_t(?: buffer_size)?\s*, const auto_scan_response_data& \) const', rules=GAP),
    copy_name_t=dict(file=SRV, scope=r'struct copy_name\s*(?=\{)', locate=r'static std::uint8_t\* impl\( std::uint8_t\* begin, std::uint8_t\* end, const char\* const name \)',
                     rules=GAP + [(r'std::strlen\( name \)', 'bt_strlen( name )', 1), (r'std::copy\( name \+ 0, name \+ max_name_len, &begin\[ 2 \] \);', 'bt_copy_u8( (const uint8_t*)name, max_name_len, &begin[ 2 ] );', 1)]),
    copy_name_f=dict(file=SRV, scope=r'struct copy_name< false >', locate=r'static std::uint8_t\* impl\( std::uint8_t\* begin, std::uint8_t\*, const char\* const \)'),
    app_yes=dict(file=APP, scope=r'struct advertise_appearance\s*(?=\{)', locate=SIG, rules=GAP + [(r'Adv::value', 'G_appearance', 1), (r'size_t\(end - begin\)', '(size_t)(end - begin)', 1)]),
    app_no=dict(file=APP, scope=r'struct no_advertise_appearance\s*(?=\{)', locate=SIG0),
    pci_yes=dict(file=PCI, scope=r'struct peripheral_connection_interval_range\s*(?=\{)', locate=SIG, rules=GAP + [(r'MinInterval', 'G_MinInterval', 1), (r'MaxInterval', 'G_MaxInterval', 1)]),
    pci_no=dict(file=PCI, scope=r'struct no_peripheral_connection_interval_range\s*(?=\{)', locate=SIG0),
    l16=dict(file=ASL, scope=sc(L16), locate=SIG, member_exclude=['values_'],
             rules=GAP + [(r'sizeof \.\.\.\(UUID16\)', 'G_n16', 2), (r'(begin = write_16bit\( begin, values_\[ uuid \] \);)', REB, 1)],
             loops=[dict(header=r'for \( size_t uuid = 0; uuid != max_uuids; \+\+uuid \)',
                         contract="""__CPROVER_assigns(uuid, begin, __CPROVER_object_upto(end - buffer_size, buffer_size))
                         __CPROVER_loop_invariant(uuid <= max_uuids && __CPROVER_same_object(begin, end) && __CPROVER_POINTER_OFFSET(begin) == __CPROVER_POINTER_OFFSET(end) - buffer_size + 2 + 2 * uuid
                             && end[-(long)buffer_size] == 1 + 2 * max_uuids && end[1 - (long)buffer_size] == (max_uuids == G_n16 ? 0x03 : 0x02)
                             && (G_u < uuid ==> (end[(long)(2 + 2 * G_u) - (long)buffer_size] == (values_[G_u] & 0xff) && end[(long)(3 + 2 * G_u) - (long)buffer_size] == (values_[G_u] >> 8))))
                         __CPROVER_decreases(max_uuids - uuid)""")]),
    l16e=dict(file=ASL, scope=sc(L16E), locate=SIG0),
    l128=dict(file=ASL, scope=sc(L128), locate=SIG,
              rules=GAP + [(r'sizeof \.\.\.\(UUID128\)', 'G_n128', 2),
                           (r'details::for_< UUID128\.\.\. >::each\( details::uuid_128_writer\( begin, end \) \);', 'for_each_uuid128( &begin, end );', 1)]),
    l128e=dict(file=ASL, scope=sc(L128E), locate=SIG0),
    w128=dict(file=ASL, scope=r'struct uuid_128_writer\s*(?=\{)', locate=r'void each\(\)',
              rules=[(r'sizeof\( UUID::bytes \)', '((size_t)16)', 2), (r'std::copy\( std::begin\( UUID::bytes \), std::end\( UUID::bytes \), begin \);', 'bt_copy_u8( bytes, 16, (*begin_ref) );', 1),
                     (r'\bbegin\b(?!_ref)', '(*begin_ref)', '+')]),
    custom=dict(file=CUS, scope=r'struct custom_advertising_data\s*(?=\{)', locate=r'std::size_t advertising_data\( std::uint8_t\* begin, std::size_t buffer_size \) const',
                rules=[(r'\bSize\b', 'G_custom_size', 1), (r'std::copy\( &Data\[ 0 \], &Data\[ copy_size \], begin \);', 'bt_copy_u8( &G_custom_data[ 0 ], copy_size, begin );', 1)]),
)

CODE = BITS_CODE + r'''
{{gap_types}};
#define bits(x) (x)
#ifndef ROOM_MAX
#define ROOM_MAX 40
#endif
#define N16_MAX 20
uint8_t* G_base; size_t G_room;                    /* the caller's buffer (ghost: base object for pointer rebinding) */
bool G_adv_appearance, G_has_interval_range; uint16_t G_appearance, G_MinInterval, G_MaxInterval;
const char* G_name; size_t G_name_len;             /* server_name< Name >::name (nullptr: no name) */
size_t G_n16, G_n128; uint16_t values_[N16_MAX]; uint8_t G_uuid128[2][16];
size_t G_custom_size; uint8_t G_custom_data[ROOM_MAX];
/* libc strlen: trusted; the harness provides a string whose terminator is at G_name_len */
static inline size_t bt_strlen(const char* s) { return G_name_len; }

/* ---- AD contract of a generator G(begin, end): it appends nothing, or exactly one complete AD structure (length octet = size - 1 >= 1), inside [begin, end) */
#define AD_PRE(begin, end) (__CPROVER_same_object(begin, end) && __CPROVER_POINTER_OFFSET(begin) <= __CPROVER_POINTER_OFFSET(end) && (size_t)((end) - (begin)) <= ROOM_MAX \
    && __CPROVER_rw_ok(begin, (size_t)((end) - (begin))) && G_base == (begin) - __CPROVER_POINTER_OFFSET(begin) && G_room >= __CPROVER_POINTER_OFFSET(end) && G_room <= ROOM_MAX)
#define AD_LEN(ret, begin) ((size_t)((ret) - (begin)))
#define AD_POST(ret, begin, end) (__CPROVER_same_object(ret, begin) && (ret) >= (begin) && (ret) <= (end) && ((ret) == (begin) || (AD_LEN(ret, begin) >= 2 && (begin)[0] == AD_LEN(ret, begin) - 1)))
#define AD_CONTRACT __CPROVER_requires(AD_PRE(begin, end)) __CPROVER_ensures(AD_POST(__CPROVER_return_value, begin, end)) __CPROVER_assigns(__CPROVER_object_upto(begin, (size_t)(end - begin)))
#define ROOM(begin, end) ((size_t)((end) - (begin)))
uint8_t* app_yes(uint8_t* begin, uint8_t* end) AD_CONTRACT
__CPROVER_ensures(ROOM(begin, end) >= 4 ? (AD_LEN(__CPROVER_return_value, begin) == 4 && begin[1] == 0x19 && begin[2] == (G_appearance & 0xff) && begin[3] == (G_appearance >> 8)) : __CPROVER_return_value == begin)
{{app_yes}}
uint8_t* app_no(uint8_t* begin, uint8_t* end) __CPROVER_ensures(__CPROVER_return_value == begin) __CPROVER_assigns()
{{app_no}}
/* the device name: complete (0x09) iff all of it fits, otherwise shortened (0x08) to what fits; nothing if the name is empty or less than 3 octets are left */
uint8_t* copy_name_t(uint8_t* begin, uint8_t* end, const char* const name) AD_CONTRACT
__CPROVER_requires(name != 0 && G_name_len <= 40 && __CPROVER_r_ok(name, G_name_len + 1) && G_pre_j < 40)
__CPROVER_ensures((ROOM(begin, end) > 2 && G_name_len > 0) ? (AD_LEN(__CPROVER_return_value, begin) == 2 + BT_MIN(G_name_len, ROOM(begin, end) - 2) && begin[1] == (G_name_len <= ROOM(begin, end) - 2 ? 0x09 : 0x08)
      && (G_pre_j < AD_LEN(__CPROVER_return_value, begin) - 2 ==> begin[2 + G_pre_j] == (uint8_t)name[G_pre_j])) : __CPROVER_return_value == begin)
{{copy_name_t}}
uint8_t* copy_name_f(uint8_t* begin, uint8_t* end, const char* const name) __CPROVER_ensures(__CPROVER_return_value == begin) __CPROVER_assigns()
{{copy_name_f}}
/* service UUID lists: as many UUIDs as fit, marked complete iff all are listed */
size_t G_u;   /* ghost: one list position */
uint8_t* l16(uint8_t* begin, uint8_t* end) AD_CONTRACT
__CPROVER_requires(G_n16 >= 1 && G_n16 <= N16_MAX && G_u < N16_MAX)
__CPROVER_ensures(ROOM(begin, end) >= 4 ? (AD_LEN(__CPROVER_return_value, begin) == 2 + 2 * BT_MIN((ROOM(begin, end) - 2) / 2, G_n16) && begin[1] == (G_n16 <= (ROOM(begin, end) - 2) / 2 ? 0x03 : 0x02)
      && (G_u < BT_MIN((ROOM(begin, end) - 2) / 2, G_n16) ==> (begin[2 + 2 * G_u] == (values_[G_u] & 0xff) && begin[3 + 2 * G_u] == (values_[G_u] >> 8)))) : __CPROVER_return_value == begin)
{{l16}}
uint8_t* l16e(uint8_t* begin, uint8_t* end) __CPROVER_ensures(__CPROVER_return_value == begin) __CPROVER_assigns()
{{l16e}}
static inline void uuid_128_writer_each(uint8_t** begin_ref, uint8_t* const end, const uint8_t* bytes) {{w128}}
/* details::for_< UUID128... >::each( writer ): writer.each< T >() for every T of the list, in order (the fold over at most two list elements written out) */
static inline void for_each_uuid128(uint8_t** begin_ref, uint8_t* const end) { if (G_n128 >= 1) uuid_128_writer_each(begin_ref, end, G_uuid128[0]); if (G_n128 >= 2) uuid_128_writer_each(begin_ref, end, G_uuid128[1]); }
uint8_t* l128(uint8_t* begin, uint8_t* end) AD_CONTRACT
__CPROVER_requires(G_n128 >= 1 && G_n128 <= 2 && G_pre_j < 16)
__CPROVER_ensures(ROOM(begin, end) >= 18 ? (AD_LEN(__CPROVER_return_value, begin) == 2 + 16 * BT_MIN((ROOM(begin, end) - 2) / 16, G_n128) && begin[1] == (G_n128 <= (ROOM(begin, end) - 2) / 16 ? 0x07 : 0x06)
      && begin[2 + G_pre_j] == G_uuid128[0][G_pre_j]) : __CPROVER_return_value == begin)
{{l128}}
uint8_t* l128e(uint8_t* begin, uint8_t* end) __CPROVER_ensures(__CPROVER_return_value == begin) __CPROVER_assigns()
{{l128e}}
uint8_t* pci_yes(uint8_t* begin, uint8_t* end) AD_CONTRACT
__CPROVER_ensures(ROOM(begin, end) >= 6 ? (AD_LEN(__CPROVER_return_value, begin) == 6 && begin[1] == 0x12 && begin[2] == (G_MinInterval & 0xff) && begin[3] == (G_MinInterval >> 8)
      && begin[4] == (G_MaxInterval & 0xff) && begin[5] == (G_MaxInterval >> 8)) : __CPROVER_return_value == begin)
{{pci_yes}}
uint8_t* pci_no(uint8_t* begin, uint8_t* end) __CPROVER_ensures(__CPROVER_return_value == begin) __CPROVER_assigns()
{{pci_no}}
#ifdef COMPOSITE
/* the composite is verified against every generator the AD contract admits: operational form of AD_POST (appends nothing, or one structure of any
   size k that fits, any type, any content - the buffer content is arbitrary to begin with) */
static inline uint8_t* ad_any(uint8_t* begin, uint8_t* end) { size_t k = nondet_size(); __CPROVER_assume(k == 0 || (k >= 2 && k <= (size_t)(end - begin))); if (k) begin[0] = (uint8_t)(k - 1); return begin + k; }
#define appearance_advertising_data(b, e) ad_any(b, e)
#define copy_name_impl(b, e, n) ad_any(b, e)
#define list16_advertising_data(b, e) ad_any(b, e)
#define list128_advertising_data(b, e) ad_any(b, e)
#define interval_range_advertising_data(b, e) ad_any(b, e)
#else
/* selection by find_by_meta_type (type level): symbolic here */
static inline uint8_t* appearance_advertising_data(uint8_t* begin, uint8_t* end) { return G_adv_appearance ? app_yes(begin, end) : app_no(begin, end); }
static inline uint8_t* copy_name_impl(uint8_t* begin, uint8_t* end, const char* const name) { return name != 0 ? copy_name_t(begin, end, name) : copy_name_f(begin, end, name); }
static inline uint8_t* list16_advertising_data(uint8_t* begin, uint8_t* end) { return G_n16 != 0 ? l16(begin, end) : l16e(begin, end); }
static inline uint8_t* list128_advertising_data(uint8_t* begin, uint8_t* end) { return G_n128 != 0 ? l128(begin, end) : l128e(begin, end); }
static inline uint8_t* interval_range_advertising_data(uint8_t* begin, uint8_t* end) { return G_has_interval_range ? pci_yes(begin, end) : pci_no(begin, end); }
#endif

/* spec: the payload b[0..n) is tiled by AD structures (length octet L >= 1 followed by L octets; the deliberate empty 00 00 sniffer structure is
   allowed as the last one) */
static bool ad_tiles(const uint8_t* b, size_t n)
{
    size_t p = 0;
    for (int k = 0; k < ROOM_MAX / 2 + 1 && p < n; ++k) {
        if (b[p] == 0) return p + 2 == n && b[p + 1] == 0;
        if (p + 1 + b[p] > n) return false;
        p += 1 + (size_t)b[p];
    }
    return p == n;
}
size_t W_room, W_name_len, W_n16, W_n128; bool W_app, W_pci, W_name;
#define CFG_OK (G_room == W_room && W_room <= ROOM_MAX && G_n16 == W_n16 && W_n16 <= N16_MAX && G_n128 == W_n128 && W_n128 <= 2 && G_adv_appearance == W_app && G_has_interval_range == W_pci \
   && (W_name ? (G_name != 0 && G_name_len == W_name_len && W_name_len <= 40) : G_name == 0))
size_t advertising_data_impl(uint8_t* begin, size_t buffer_size)
__CPROVER_requires(CFG_OK && buffer_size == W_room && __CPROVER_rw_ok(begin, buffer_size + 1) && G_base == begin && (G_name == 0 || __CPROVER_r_ok(G_name, W_name_len + 1)))
/* fits the buffer */
__CPROVER_ensures(__CPROVER_return_value <= buffer_size)
/* flags first */
__CPROVER_ensures(buffer_size >= 3 ==> (begin[0] == 2 && begin[1] == 0x01 && begin[2] == 6))
__CPROVER_assigns(__CPROVER_object_upto(begin, buffer_size))
{{adv_impl}}
size_t scan_response_data_impl(uint8_t* buffer, size_t buffer_size)
__CPROVER_requires(buffer_size <= ROOM_MAX && buffer_size == W_room && __CPROVER_rw_ok(buffer, buffer_size + 1))
__CPROVER_ensures(__CPROVER_return_value <= buffer_size)
__CPROVER_assigns(__CPROVER_object_upto(buffer, buffer_size))
{{scan_impl}}
size_t custom_advertising_data(uint8_t* begin, size_t buffer_size)
__CPROVER_requires(buffer_size <= ROOM_MAX && G_custom_size <= ROOM_MAX && buffer_size == W_room && __CPROVER_is_fresh(begin, buffer_size + 1) && G_pre_j < ROOM_MAX)
__CPROVER_ensures(__CPROVER_return_value == BT_MIN(G_custom_size, buffer_size) && (G_pre_j < __CPROVER_return_value ==> begin[G_pre_j] == G_custom_data[G_pre_j]))
__CPROVER_assigns(__CPROVER_object_upto(begin, buffer_size))
{{custom}}
#define SETUP W_room = nondet_size(); G_room = W_room; W_name_len = nondet_size(); G_name_len = W_name_len; W_n16 = nondet_size(); G_n16 = W_n16; W_n128 = nondet_size(); G_n128 = W_n128; \
  W_app = nondet_bool(); G_adv_appearance = W_app; W_pci = nondet_bool(); G_has_interval_range = W_pci; W_name = nondet_bool(); G_custom_size = nondet_size(); \
  G_pre_j = nondet_size(); G_pre_j2 = nondet_size(); G_pre_j3 = nondet_size(); BT_KNOWN_EXCLUDE()
void h_advertising_data_impl(void) { SETUP; __CPROVER_assume(W_room <= ROOM_MAX && W_name_len <= 40); uint8_t buf[ROOM_MAX + 1]; char name[41]; G_name = W_name ? &name[0] : (const char*)0; G_base = buf; uint8_t guard = buf[W_room];
  size_t r = advertising_data_impl(buf, W_room);
  __CPROVER_assert(ad_tiles(buf, r), "postcondition: the payload is tiled by complete AD structures");
  __CPROVER_assert(buf[W_room] == guard, "postcondition: nothing behind the buffer is written");
  BT_CANARY(); }
void h_scan_response_data_impl(void) { SETUP; __CPROVER_assume(W_room <= ROOM_MAX); uint8_t buf[ROOM_MAX + 1]; size_t r = scan_response_data_impl(buf, W_room);
  __CPROVER_assert(ad_tiles(buf, r), "postcondition: the payload is tiled by complete AD structures"); BT_CANARY(); }
void h_custom_advertising_data(void) { SETUP; uint8_t* b; custom_advertising_data(b, W_room); BT_CANARY(); }
#define GEN_SETUP SETUP; __CPROVER_assume(W_room <= ROOM_MAX && W_name_len <= 40 && W_n16 >= 1 && W_n16 <= N16_MAX && W_n128 >= 1 && W_n128 <= 2); uint8_t buf[ROOM_MAX + 1]; G_base = buf; \
  size_t lo = nondet_size(); __CPROVER_assume(lo <= W_room); G_u = nondet_size(); char name[41]; G_name = &name[0]
void h_app_yes(void) { GEN_SETUP; app_yes(buf + lo, buf + W_room); BT_CANARY(); }
void h_pci_yes(void) { GEN_SETUP; pci_yes(buf + lo, buf + W_room); BT_CANARY(); }
void h_copy_name_t(void) { GEN_SETUP; copy_name_t(buf + lo, buf + W_room, name); BT_CANARY(); }
void h_l16(void) { GEN_SETUP; l16(buf + lo, buf + W_room); BT_CANARY(); }
void h_l128(void) { GEN_SETUP; l128(buf + lo, buf + W_room); BT_CANARY(); }
void h_bt_copy_u8(void) { SETUP; size_t n = nondet_size(); __CPROVER_assume(n <= ROOM_MAX); uint8_t a[ROOM_MAX], b[ROOM_MAX]; bt_copy_u8(a, n, b); BT_CANARY(); }
'''
UNITS = [
    dict(name='generators', extracts=EX, code=CODE, defines=['BT_NEED_COPY', 'BT_COPY_BODY', 'BT_BYTES_MAX=64'], object_bits=10, cbmc=['--unwind', '22'],
         enforce=['app_yes', 'pci_yes', 'copy_name_t', 'l16', 'l128', 'custom_advertising_data', 'bt_copy_u8'], replace=['bt_copy_u8'],
         ignore=[r'pointer arithmetic: pointer outside object bounds in \*begin_ref \+'],
         replay=dict(src='replay/c14_replay.cpp')),
    dict(name='composite', extra_loops=-1, extracts=EX, code=CODE, defines=['BT_NEED_COPY', 'BT_BYTES_MAX=64', 'COMPOSITE'], object_bits=10, cbmc=['--unwind', '22'],
         enforce=['advertising_data_impl', 'scan_response_data_impl'], replace=['bt_copy_u8'],
         replay=dict(src='replay/c14_replay.cpp')),
]
META = dict(
    level='proof',
    explanation="Generators (real bodies, each for every position in a buffer of up to ROOM_MAX octets): advertise_appearance, "
                "peripheral_connection_interval_range, copy_name<true>::impl, list_of_16_bit_service_uuids (loop contract), "
                "list_of_128_bit_service_uuids with uuid_128_writer::each, custom_advertising_data, and the no-op variants - each appends nothing or "
                "exactly one complete AD structure (length octet = size - 1) inside [begin, end), with its type octet and payload; the name is "
                "typed complete iff all of it fits, shortened otherwise; UUID lists are typed complete iff every UUID is listed, incomplete "
                "otherwise. Composite: server::advertising_data_impl(auto_advertising_data) and scan_response_data_impl (real bodies) against EVERY "
                "generator the AD contract admits, for every buffer size 0..ROOM_MAX: result <= buffer size, the payload is tiled exactly by AD "
                "structures (spec walker), flags 02 01 06 first when 3 octets are available, nothing outside the buffer is written.",
    assumptions=["which generator a server uses is selected by find_by_meta_type (type level): the composite is proved for all generators satisfying "
                 "the AD contract, hence for every selection; number of 16 bit UUIDs symbolic <= 20, 128 bit UUIDs <= 2 (for_<>::each over the list "
                 "written out for two elements), name length symbolic <= 40",
                 "the spec walker ad_tiles is a bounded loop (--unwind 22 with unwinding assertions, complete for ROOM_MAX = 40 > 31); all loops of "
                 "the code under contract are closed by loop contracts",
                 "uuid_128_writer::each forms 'begin + 16' before comparing with end (pointer beyond the buffer when fewer than 16 octets are left): "
                 "that pointer-arithmetic obligation class is out of scope (ignored); no access happens through it",
                 "runtime_custom_advertising_data / custom scan response data copy user bytes verbatim (custom_advertising_data under contract: "
                 "min(Size, room) octets copied); their well-formedness is the user's"],
    trusted_base=["libc strlen (name length), libstdc++ std::copy (bt_copy_u8 contract enforced on its C body)"],
)
