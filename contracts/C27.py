"""C27 Link control PDUs get the specified responses."""
import os, sys
sys.path.insert(0, os.path.dirname(__file__))
import llc
UNITS = [llc.unit('C27_CLAUSES', enforce=['handle_ll_control_data'])]
META = dict(
    level='other',
    explanation="link_layer<>::handle_ll_control_data (link_layer.hpp, real body, every header, length, opcode and content, every feature set and state flag): LL_PING_REQ(1) -> "
                "LL_PING_RSP; LL_FEATURE_REQ(9) -> LL_FEATURE_RSP whose first octet is used_features & the central's features (also stored) and whose second is the high octet "
                "of the supported features, rest 0, and the features are reported; the first LL_VERSION_IND(6) -> LL_VERSION_IND( version, company id, 0 ) and is reported, and "
                "once one was received no further LL_VERSION_IND is ever sent; LL_UNKNOWN_RSP (any length), LL_REJECT_IND(2), LL_REJECT_EXT_IND(3) are never answered and are "
                "reported with their error / opcode, and if they refer to the own connection parameter request the procedure time out is cleared; LL_TERMINATE_IND(2) ends the "
                "link with its reason, unanswered; LL_CONNECTION_PARAM_REQ(24), the encryption PDUs (C28) and the PHY PDUs are handed to their handlers, which decide about the "
                "answer; every other control PDU - unknown opcode or known opcode with another length - is answered with LL_UNKNOWN_RSP naming the opcode; a data PDU is not touched.",
    assumptions=["NOT decided: 'a peripheral-initiated procedure without an answer ends the connection after the 40 s response timeout' - procedure_timeout_ is armed in "
                 "connection_parameter_update_request / the PHY request and counted down in end_event, none of which is extracted; only its clearing by a reject is",
                 "handle_connection_parameters_request, handle_encryption_pdus (C28) and handle_phy_request are abstract; what they accept is assumed to be their own opcodes",
                 "response opcodes a central has no reason to send (LL_FEATURE_RSP, LL_PING_RSP, LL_PHY_RSP, ...) are 'unknown' to a peripheral and get LL_UNKNOWN_RSP - the clause "
                 "'responses are never answered' is claimed for LL_UNKNOWN_RSP and the two rejects only"],
    trusted_base=["transmit buffer (commit_ll_transmit_buffer), fill< layout >"],
)
