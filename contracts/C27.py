"""C27 Link control PDUs get the specified responses."""
import os, sys
sys.path.insert(0, os.path.dirname(__file__))
import llc, lle, C27cpr
REPLAY = dict(src='replay/c27_replay.cpp', cxxflags=['-DNDEBUG', '-I/repo/tests/test_tools', '-I/repo/tests/link_layer'],
              repo_sources=['tests/test_tools/test_radio.cpp', 'tests/test_tools/test_servers.cpp', 'tests/test_tools/hexdump.cpp', 'tests/test_tools/buffer_io.cpp', 'tests/test_tools/address_io.cpp',
                            'bluetoe/link_layer/delta_time.cpp', 'bluetoe/link_layer/channel_map.cpp', 'bluetoe/link_layer/connection_details.cpp', 'bluetoe/utility/address.cpp'])
UNITS = [llc.unit('C27_CLAUSES', enforce=['handle_ll_control_data'], replay=REPLAY),
         lle.unit(['ll_timeout', 'll_end_event', 'transmit_pending_control_pdus', 'valid_phy_encoding', 'handle_phy_request', 'no_phy_handle_phy_request', 'adv_received', 'll_phy_update_request', 'll_remote_versions_request', 'll_initiating_connection_parameter_request'], replay=REPLAY, defines=['C27_CLAUSES']),
         C27cpr.UNIT]
META = dict(
    level='other',
    explanation="link_layer<>::handle_ll_control_data (link_layer.hpp, real body, every header, length, opcode and content, every feature set and state flag): LL_PING_REQ(1) -> "
                "LL_PING_RSP; LL_FEATURE_REQ(9) -> LL_FEATURE_RSP whose first octet is used_features & the central's features (also stored) and whose second is the high octet "
                "of the supported features, rest 0, and the features are reported; the first LL_VERSION_IND(6) -> LL_VERSION_IND( version, company id, 0 ) and is reported, and "
                "once one was received no further LL_VERSION_IND is ever sent; LL_UNKNOWN_RSP (any length), LL_REJECT_IND(2), LL_REJECT_EXT_IND(3) are never answered and are "
                "reported with their error / opcode, and if they refer to the own connection parameter request the procedure time out is cleared; LL_TERMINATE_IND(2) ends the "
                "link with its reason, unanswered; LL_CONNECTION_PARAM_REQ(24), the encryption PDUs (C28) and the PHY PDUs are handed to their handlers, which decide about the "
                "answer; every other control PDU - unknown opcode or known opcode with another length - is answered with LL_UNKNOWN_RSP naming the opcode; a data PDU is not touched. "
                "Response time out (unit events, real bodies of transmit_pending_control_pdus, end_event, timeout, phy_update_request_impl::handle_phy_request): every request "
                "the peripheral sends (LL_CONNECTION_PARAM_REQ, LL_PHY_REQ, LL_VERSION_IND - one per call, in this order) arms procedure_timeout_ with 40 s; end_event counts "
                "it down by the time since the last event; once it has run out, end_event / timeout end the connection with reason 0x22 (LL response timeout) instead of "
                "planning the next event; it is ended only by the answer to the procedure it belongs to (LL_VERSION_IND after the own one, LL_PHY_UPDATE_IND after the own "
                "LL_PHY_REQ, LL_UNKNOWN_RSP / reject naming the request, LL_CONNECTION_UPDATE_IND applied at its instant) - a version exchange or PHY update started by the "
                "central leaves it running. LL_PHY_REQ(3) -> LL_PHY_RSP( 1M | 2M, 1M | 2M ); LL_PHY_UPDATE_IND(5) with defined PHYs is never answered; other PHY PDUs are "
                "left to the caller (LL_UNKNOWN_RSP). 'Per connection': adv_received (real body) starts every accepted connection with all request / version / time out "
                "state cleared. "
                "Parameter request handling (unit parameter_request, ll_options.hpp, real bodies of parse_and_check_params and of the three implementations of "
                "handle_connection_parameters_request, every request content and every configured range): a request with Interval_Max < Interval_Min, Interval_Min < 7.5 ms, "
                "Interval_Max > 4 s or latency > 499 is answered with LL_REJECT_EXT_IND( LL_CONNECTION_PARAM_REQ, invalid LL parameters ); otherwise - no configuration: "
                "LL_CONNECTION_PARAM_RSP repeating the request's 23 parameter octets; desired_connection_parameters<>: LL_CONNECTION_PARAM_RSP whose interval range, latency "
                "and timeout lie within the configured ranges and are the request's own values wherever those lie within them (interval: the intersection if it is not "
                "empty), the remaining octets are the request's; asynchronous_connection_parameter_request<>: the parameters already in use are confirmed at once, anything "
                "else is handed to the application with the four requested values and NOT answered now; connection_parameters_response_fill sends what the application "
                "decided - LL_CONNECTION_PARAM_RSP with its four values (periodicity 0, offsets 0xffff) or LL_REJECT_EXT_IND with its reason - and clears the pending flag.",
    assumptions=["one time out is shared by all procedures: the three request functions accept a request only while no response is outstanding and a queued PHY request waits for "
                 "the time out (contracts in unit events), but a connection parameter request and a version request queued before either is sent still share it - the first "
                 "answer ends it for both; LL_REJECT_IND (which names no request) and the instant of ANY connection update end it whatever is running: those histories are not decided",
                 "the supervision timeout of a connection parameter request is not validated by the library (neither its range nor timeout > ( 1 + latency ) * interval * 2) "
                 "and the property does not say it has to be; desired_connection_parameters<> is used with min <= max in each pair (precondition, no static_assert)",
                 "handle_connection_parameters_request (contract in unit parameter_request: it returns whether an answer was filled in) and handle_encryption_pdus (C28) are abstract in handle_ll_control_data; handle_phy_request is replaced there by a stand-in "
                 "that follows its contract proved in unit events (it ends the time out only for LL_PHY_UPDATE_IND while the own PHY request is running)",
                 "time_since_last_event(), the planning of events, handle_received_data and the radio are abstract in end_event / timeout; the order of the calls is recorded",
                 "response opcodes a central has no reason to send (LL_FEATURE_RSP, LL_PING_RSP, LL_PHY_RSP, ...) are 'unknown' to a peripheral and get LL_UNKNOWN_RSP - the clause "
                 "'responses are never answered' is claimed for LL_UNKNOWN_RSP and the two rejects only"],
    trusted_base=["transmit buffer (commit_ll_transmit_buffer), fill< layout >"],
)
