"""C24 Advertising uses exactly the enabled channels at the configured rate."""
ADV = 'bluetoe/link_layer/include/bluetoe/advertising.hpp'
VMAP = r'struct variable_advertising_channel_map\s*:'
AMAP = r'struct all_advertising_channel_map\s*:'
BASE = r'struct advertising_channel_map_base\b'

CONSTS = {
    'first_adv': dict(kind='expr', file=ADV, scope=BASE, locate=r'static constexpr unsigned\s+first_advertising_channel\s*='),
    'last_adv': dict(kind='expr', file=ADV, scope=BASE, locate=r'static constexpr unsigned\s+last_advertising_channel\s*='),
}
FIELDS = dict(kind='fields', file=ADV, scope=VMAP, names=['current_channel_index_', 'map_'])

HEAD = r'''
#define first_advertising_channel ({{first_adv}})
#define last_advertising_channel ({{last_adv}})
struct vmap { {{fields}} };
unsigned W_map, W_idx, W_channel;

/* well-formedness: a non-empty 3 bit map and a current index that designates an enabled channel */
#define MAP_OK(m)      ((m) >= 1u && (m) <= 7u)
#define BIT(m, i)      (((m) >> (i)) & 1u)
#define INV(s)         (MAP_OK((s)->map_) && (s)->current_channel_index_ < 3u && BIT((s)->map_, (s)->current_channel_index_))
#define LOWEST(m)      (((m) & 1u) ? 0u : ((m) & 2u) ? 1u : 2u)

unsigned first_channel_index(const struct vmap* self)
__CPROVER_requires(__CPROVER_is_fresh(self, sizeof(*self)) && MAP_OK(self->map_))
__CPROVER_requires(WIT(first_channel_index, self->map_ == W_map && self->current_channel_index_ == W_idx))
__CPROVER_ensures(__CPROVER_return_value == LOWEST(self->map_))
__CPROVER_assigns()
'''

FCI = dict(file=ADV, scope=VMAP, locate=r'unsigned first_channel_index\(\) const',
           loops=[dict(header=r'for \( ; \( self->map_', contract='''
              __CPROVER_assigns(result)
              __CPROVER_loop_invariant(result < 3u && (self->map_ & ((1u << result) - 1u)) == 0u)
              __CPROVER_decreases(3u - result)''')])

UNITS = [
    dict(name='first_channel_index',
         extracts=dict(CONSTS, fields=FIELDS, body=FCI),
         code=HEAD + r'''{{body}}
void h_first_channel_index(void) { struct vmap* p; W_map = nondet_unsigned(); W_idx = nondet_unsigned(); BT_KNOWN_EXCLUDE();
  first_channel_index(p); BT_CANARY(); }
''',
         enforce=['first_channel_index'],
         replay=dict(src='replay/c24_replay.cpp')),

    dict(name='next_channel',
         extracts=dict(CONSTS, fields=FIELDS,
                       body=dict(file=ADV, scope=VMAP, locate=r'void next_channel\(\)',
                                 rules=[(r'\bfirst_channel_index\(\)', 'first_channel_index(self)', '+')],
                                 loops=[dict(header=r'for \( ;', contract='''
              __CPROVER_assigns(self->current_channel_index_)
              __CPROVER_loop_invariant(self->current_channel_index_ >= 1u && self->current_channel_index_ <= 3u)
              __CPROVER_loop_invariant(self->current_channel_index_ > G_old_idx)
              __CPROVER_loop_invariant((self->map_ >> (G_old_idx + 1u) & ((1u << (self->current_channel_index_ - G_old_idx - 1u)) - 1u)) == 0u)
              __CPROVER_decreases(4u - self->current_channel_index_)''')])),
         code=HEAD + r''';
unsigned G_old_idx;
void next_channel(struct vmap* self)
__CPROVER_requires(__CPROVER_is_fresh(self, sizeof(*self)) && INV(self))
__CPROVER_requires(self->map_ == W_map && self->current_channel_index_ == W_idx && G_old_idx == W_idx)
__CPROVER_ensures(INV(self) && self->map_ == __CPROVER_old(self->map_))
/* ascending cyclic order: nothing enabled is skipped */
__CPROVER_ensures(self->current_channel_index_ > __CPROVER_old(self->current_channel_index_)
    ==> ((self->map_ >> (__CPROVER_old(self->current_channel_index_) + 1u))
          & ((1u << (self->current_channel_index_ - __CPROVER_old(self->current_channel_index_) - 1u)) - 1u)) == 0u)
__CPROVER_ensures(self->current_channel_index_ <= __CPROVER_old(self->current_channel_index_)
    ==> (self->current_channel_index_ == LOWEST(self->map_)
         && (self->map_ >> (__CPROVER_old(self->current_channel_index_) + 1u)) == 0u))
__CPROVER_assigns(self->current_channel_index_)
{{body}}
void h_next_channel(void) { struct vmap* p; W_map = nondet_unsigned(); W_idx = nondet_unsigned(); G_old_idx = W_idx; BT_KNOWN_EXCLUDE();
  next_channel(p); BT_CANARY(); }
''',
         enforce=['next_channel'], replace=['first_channel_index'],
         replay=dict(src='replay/c24_replay.cpp')),

    dict(name='add_channel',
         extracts=dict(CONSTS, fields=FIELDS,
                       body=dict(file=ADV, scope=VMAP, locate=r'void add_channel_to_advertising_channel_map\( unsigned channel \)',
                                 rules=[(r'\bfirst_channel_index\(\)', 'first_channel_index(self)', '+')])),
         code=HEAD + r''';
void add_channel(struct vmap* self, unsigned channel)
__CPROVER_requires(__CPROVER_is_fresh(self, sizeof(*self)) && self->map_ <= 7u)
__CPROVER_requires(channel >= 37u && channel <= 39u && channel == W_channel)
__CPROVER_requires(self->map_ == W_map && self->current_channel_index_ == W_idx)
__CPROVER_ensures(self->map_ == (__CPROVER_old(self->map_) | (1u << (channel - 37u))))
__CPROVER_ensures(INV(self) && self->current_channel_index_ == LOWEST(self->map_))
__CPROVER_assigns(self->current_channel_index_, self->map_)
{{body}}
void h_add_channel(void) { struct vmap* p; W_map = nondet_unsigned(); W_idx = nondet_unsigned(); W_channel = nondet_unsigned(); BT_KNOWN_EXCLUDE();
  add_channel(p, W_channel); BT_CANARY(); }
''',
         enforce=['add_channel'], replace=['first_channel_index'],
         replay=dict(src='replay/c24_replay.cpp')),

    dict(name='remove_channel',
         extracts=dict(CONSTS, fields=FIELDS,
                       body=dict(file=ADV, scope=VMAP, locate=r'void remove_channel_from_advertsing_channel_map\( unsigned channel \)',
                                 rules=[(r'\bfirst_channel_index\(\)', 'first_channel_index(self)', '+')])),
         code=HEAD + r''';
void remove_channel(struct vmap* self, unsigned channel)
__CPROVER_requires(__CPROVER_is_fresh(self, sizeof(*self)) && self->map_ <= 7u)
__CPROVER_requires(channel >= 37u && channel <= 39u && channel == W_channel)
__CPROVER_requires(self->map_ == W_map && self->current_channel_index_ == W_idx)
__CPROVER_ensures(self->map_ == (__CPROVER_old(self->map_) & ~(1u << (channel - 37u))))
__CPROVER_ensures(self->map_ != 0u ==> (INV(self) && self->current_channel_index_ == LOWEST(self->map_)))
__CPROVER_assigns(self->current_channel_index_, self->map_)
{{body}}
void h_remove_channel(void) { struct vmap* p; W_map = nondet_unsigned(); W_idx = nondet_unsigned(); W_channel = nondet_unsigned(); BT_KNOWN_EXCLUDE();
  remove_channel(p, W_channel); BT_CANARY(); }
''',
         enforce=['remove_channel'], replace=['first_channel_index'],
         replay=dict(src='replay/c24_replay.cpp')),

    dict(name='current_and_first_selected',
         extracts=dict(CONSTS, fields=FIELDS,
                       cur=dict(file=ADV, scope=VMAP, locate=r'unsigned current_channel\(\) const'),
                       fsel=dict(file=ADV, scope=VMAP, locate=r'bool first_channel_selected\(\) const',
                                 rules=[(r'\bfirst_channel_index\(\)', 'first_channel_index(self)', '+')]),
                       ctor=dict(file=ADV, scope=VMAP, locate=r'variable_advertising_channel_map\(\)', init_list=True)),
         code=HEAD + r''';
unsigned current_channel(const struct vmap* self)
__CPROVER_requires(__CPROVER_is_fresh(self, sizeof(*self)) && INV(self))
__CPROVER_requires(self->map_ == W_map && self->current_channel_index_ == W_idx)
__CPROVER_ensures(__CPROVER_return_value == 37u + self->current_channel_index_)
/* never a disabled channel */
__CPROVER_ensures(BIT(self->map_, __CPROVER_return_value - 37u))
__CPROVER_assigns()
{{cur}}
bool first_channel_selected(const struct vmap* self)
__CPROVER_requires(__CPROVER_is_fresh(self, sizeof(*self)) && INV(self))
__CPROVER_requires(self->map_ == W_map && self->current_channel_index_ == W_idx)
__CPROVER_ensures(__CPROVER_return_value == (self->current_channel_index_ == LOWEST(self->map_)))
__CPROVER_assigns()
{{fsel}}
void vmap_ctor(struct vmap* self)
__CPROVER_requires(__CPROVER_is_fresh(self, sizeof(*self)))
__CPROVER_ensures(INV(self) && self->map_ == 7u && self->current_channel_index_ == 0u)
__CPROVER_assigns(self->current_channel_index_, self->map_)
{{ctor}}
#define SETUP struct vmap* p; W_map = nondet_unsigned(); W_idx = nondet_unsigned(); BT_KNOWN_EXCLUDE()
void h_current_channel(void) { SETUP; current_channel(p); BT_CANARY(); }
void h_first_channel_selected(void) { SETUP; first_channel_selected(p); BT_CANARY(); }
void h_vmap_ctor(void) { SETUP; vmap_ctor(p); BT_CANARY(); }
''',
         enforce=['current_channel', 'first_channel_selected', 'vmap_ctor'], replace=['first_channel_index'],
         replay=dict(src='replay/c24_replay.cpp')),

    dict(name='all_map',
         extracts=dict(CONSTS,
                       fields=dict(kind='fields', file=ADV, scope=AMAP, names=['current_channel_index_']),
                       nxt=dict(file=ADV, scope=AMAP, locate=r'void next_channel\(\)'),
                       cur=dict(file=ADV, scope=AMAP, locate=r'unsigned current_channel\(\) const'),
                       fsel=dict(file=ADV, scope=AMAP, locate=r'bool first_channel_selected\(\) const',
                                 rules=[(r'self->first_advertising_channel', 'first_advertising_channel', 1)]),
                       ctor=dict(file=ADV, scope=AMAP, locate=r'all_advertising_channel_map\(\)', init_list=True)),
         code=r'''
#define first_advertising_channel ({{first_adv}})
#define last_advertising_channel ({{last_adv}})
struct amap { {{fields}} };
unsigned W_idx;
#define AINV(s) ((s)->current_channel_index_ >= 37u && (s)->current_channel_index_ <= 39u)
void next_channel(struct amap* self)
__CPROVER_requires(__CPROVER_is_fresh(self, sizeof(*self)) && AINV(self) && self->current_channel_index_ == W_idx)
__CPROVER_ensures(AINV(self))
__CPROVER_ensures(self->current_channel_index_ == (__CPROVER_old(self->current_channel_index_) == 39u ? 37u : __CPROVER_old(self->current_channel_index_) + 1u))
__CPROVER_assigns(self->current_channel_index_)
{{nxt}}
unsigned current_channel(const struct amap* self)
__CPROVER_requires(__CPROVER_is_fresh(self, sizeof(*self)) && AINV(self) && self->current_channel_index_ == W_idx)
__CPROVER_ensures(__CPROVER_return_value == self->current_channel_index_)
__CPROVER_assigns()
{{cur}}
bool first_channel_selected(const struct amap* self)
__CPROVER_requires(__CPROVER_is_fresh(self, sizeof(*self)) && AINV(self) && self->current_channel_index_ == W_idx)
__CPROVER_ensures(__CPROVER_return_value == (self->current_channel_index_ == 37u))
__CPROVER_assigns()
{{fsel}}
void amap_ctor(struct amap* self)
__CPROVER_requires(__CPROVER_is_fresh(self, sizeof(*self)))
__CPROVER_ensures(self->current_channel_index_ == 37u)
__CPROVER_assigns(self->current_channel_index_)
{{ctor}}
#define SETUP struct amap* p; W_idx = nondet_unsigned(); BT_KNOWN_EXCLUDE()
void h_next_channel(void) { SETUP; next_channel(p); BT_CANARY(); }
void h_current_channel(void) { SETUP; current_channel(p); BT_CANARY(); }
void h_first_channel_selected(void) { SETUP; first_channel_selected(p); BT_CANARY(); }
void h_amap_ctor(void) { SETUP; amap_ctor(p); BT_CANARY(); }
''',
         enforce=['next_channel', 'current_channel', 'first_channel_selected', 'amap_ctor']),
]

META = dict(
    level='proof',
    explanation="Every function of variable_advertising_channel_map and all_advertising_channel_map is extracted from advertising.hpp "
                "and proved against contracts stating: the map invariant (non-empty 3-bit map, current index designates an enabled channel) "
                "is preserved; next_channel moves to the next enabled channel in ascending cyclic order without skipping an enabled one; "
                "current_channel never names a disabled channel.",
    assumptions=["map changes happen through add/remove only and the map is non-empty when advertising (documented precondition of the class)"],
    trusted_base=[],
)
