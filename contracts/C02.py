"""C02 Discovery returns exactly the in-range matching attributes (Read By Type: all_attributes, collect_attributes, handle_read_by_type_request)."""
import os, sys
sys.path.insert(0, os.path.dirname(__file__))
from att import *

CA = r'struct collect_attributes\s*(?=\{)'
TI = TS + r'template < class Iterator, class Filter >\s*'
TAB = r'template < std::size_t A, std::size_t B >\s*'
CA_PRE = [(r'attr\.access\( read, index \)', 'ACCESS( &read, index )', 1), (r'attribute_access_arguments::read\(', 'args_read(', 1),
          (r'handle_index_mapping< Server >::handle_by_index\(', 'handle_by_index(', 1)]
CA_RULES = ATT_RULES + [(r'&self->server_\b', 'self->server_', '*'), (r'const size_t maximum_pdu_size = (\d+)u;', r'enum { maximum_pdu_size = \1 };', 1), (r'const size_t header_size\s*= (\d+)u;', r'enum { header_size = \1 };', 1)]
EX = dict(ATT_EX,
    ca_fields=dict(kind='fields', file=SRV, scope=CA, names=['begin_', 'current_', 'end_', 'size_', 'first_', 'config_', 'security_'],
                   type_map={'details::client_characteristic_configuration': 'struct ccc', 'connection_security_attributes': 'struct connection_security_attributes', 'Server&': 'void*'}),
    ca_call=dict(file=SRV, scope=CA, locate=r'void operator\(\)\( std::size_t index, const details::attribute& attr \)', pre=CA_PRE, rules=CA_RULES),
    ca_ctor=dict(file=SRV, scope=CA, locate=r'collect_attributes\( std::uint8_t\* begin, std::uint8_t\* end,\s*const details::client_characteristic_configuration& config,\s*const connection_security_attributes& security,\s*Server& server \)',
                 init_list=True, rules=ATT_RULES),
    ca_size=dict(file=SRV, scope=CA, locate=r'std::\w+ size\(\) const'),
    ca_size_ret=dict(kind='text', body='text', file=SRV, scope=CA, locate=r'std::\w+ size\(\) const', no_members=True, rules=[(r'^(\w+) size\(\) const$', r'\1', 1)]),
    ca_data_size=dict(file=SRV, scope=CA, locate=r'std::uint8_t data_size\(\) const'),
    ca_empty=dict(file=SRV, scope=CA, locate=r'bool empty\(\) const'),
    all_attributes=srv_fn(r'void ' + SQ + r'all_attributes\( std::uint16_t starting_handle, std::uint16_t ending_handle, Iterator& iter, const Filter& filter \)', tmpl=TI,
        pre=ATT_PRE + [(r'const details::attribute attr = attribute_at\( index \);', '', 1), (r'filter\( index, attr \)', 'filter_call( filter, index )', 1), (r'iter\( index, attr \)', 'iter_call( iter, index )', 1),
                       (r'last_handle_index\( ending_handle \)', 'last_handle_index( self, ending_handle )', 1)],
        loops=[dict(header=r'for \( size_t index = first_index_by_handle\( starting_handle \);\s*index <= last_index',
                    contract="""__CPROVER_assigns(index, G_it, G_hbi_arg)
                    __CPROVER_loop_invariant(index <= G_N && G_it.ok && G_it.calls <= index && (G_it.calls == 0 ? index >= G_first : (G_it.last < index && G_it.last >= G_first))
                        && index >= G_first && (G_i < index && G_i >= G_first && IN_RANGE(G_i) && UF(G_i) ==> G_it.saw_i) && (G_it.saw_i ==> (G_i < index && IN_RANGE(G_i) && UF(G_i)))
                        && (index > G_first ==> (index - 1 < G_N && UH(index - 1) <= ending_handle && UH(index - 1) >= starting_handle)))
                    __CPROVER_decreases(G_N - index)""")]),
    last_index=srv_fn(r'std::size_t ' + SQ + r'last_handle_index\( std::uint16_t ending_handle \)', rules=ATT_RULES + [(r'\bnumber_of_attributes\b', 'G_N', 1)]),
    csr=srv_fn(r'bool ' + SQ + r'check_size_and_handle_range\(\s*const std::uint8_t\* input, std::size_t in_size, std::uint8_t\* output, std::size_t& out_size, std::uint16_t& starting_handle, std::uint16_t& ending_handle \)', tmpl=TS + TAB,
               rules=ATT_RULES + [(r'\bstarting_handle\b', '(*starting_handle)', '+'), (r'\bending_handle\b', '(*ending_handle)', '+')]),
)
for k in ('check_handle', 'access_to_att', 'args_write'):
    EX.pop(k)

CODE = ATT_CODE.replace('{{check_handle}}', ';').replace('{{access_to_att}}', ';').replace('{{args_write}}', '{ struct attribute_access_arguments a; return a; }') + r'''
/* ---- the abstract attribute table with handles: UH( i ) is the handle of attribute i (uninterpreted); handles are non-zero and strictly increasing -
   that is what C04 states about handle_index_mapping; here it is the contract of the three mapping functions, with a ghost index G_i for 'any other attribute' */
#ifndef N_MAX
#define N_MAX 64
#endif
uint16_t G_H[N_MAX]; bool G_F[N_MAX];        /* ghost tables (loop invariants may not call functions): handle of attribute i; the filter's verdict for attribute i
                                                (Filter::operator() is a pure function of the attribute) */
#define UH(i) G_H[i]
#define UF(i) G_F[i]
#undef TABLE_OK
#define TABLE_OK (G_N >= 1 && G_N <= N_MAX)
size_t G_i; size_t G_hbi_arg;
#define IN_RANGE(i) ((i) < G_N && UH(i) >= G_start && UH(i) <= G_end)
uint16_t G_start, G_end; size_t G_first;
#define MONO(ret, i) ((ret) != 0 && ((i) < G_i && G_i < G_N ==> (ret) < UH(G_i)) && (G_i < (i) ==> UH(G_i) < (ret)) && ((i) + 1 < G_N ==> (ret) < UH((i) + 1)) && ((i) > 0 ==> UH((i) - 1) < (ret)))
uint16_t handle_by_index(size_t index)
__CPROVER_requires(TABLE_OK)
__CPROVER_ensures(index < G_N ? (__CPROVER_return_value == UH(index) && MONO(__CPROVER_return_value, index)) : __CPROVER_return_value == 0)
__CPROVER_ensures(G_hbi_arg == index)
__CPROVER_assigns(G_hbi_arg);
size_t first_index_by_handle(uint16_t handle)
__CPROVER_requires(TABLE_OK)
/* the least index whose handle is >= handle, or invalid if there is none */
__CPROVER_ensures((__CPROVER_return_value == invalid_attribute_index) == (UH(G_N - 1) < handle))
__CPROVER_ensures((handle == G_start && __CPROVER_return_value != invalid_attribute_index) ==> __CPROVER_return_value == G_first)
__CPROVER_ensures(__CPROVER_return_value == invalid_attribute_index ? (UH(G_N - 1) < handle && (G_i < G_N ==> UH(G_i) < handle))
    : (__CPROVER_return_value < G_N && UH(__CPROVER_return_value) >= handle && MONO(UH(__CPROVER_return_value), __CPROVER_return_value)
       && (__CPROVER_return_value > 0 ==> UH(__CPROVER_return_value - 1) < handle) && (G_i < __CPROVER_return_value ==> UH(G_i) < handle)
       && ((G_i >= __CPROVER_return_value && G_i < G_N) ==> UH(G_i) >= handle)))
__CPROVER_assigns();

/* ---- Iterator / Filter template parameters of all_attributes: abstract, calls are recorded */
struct it_rec { size_t calls; size_t last; bool ok; bool saw_i; } G_it;
struct iter_any; struct filter_any;
bool filter_call(const struct filter_any* f, size_t index) __CPROVER_requires(index < G_N) __CPROVER_ensures(__CPROVER_return_value == UF(index)) __CPROVER_assigns();
void iter_call(struct iter_any* it, size_t index)
__CPROVER_requires(index < G_N)
/* ok: every attribute handed to the iterator is in range and matches, and they come in strictly ascending order */
__CPROVER_ensures(G_it.calls == __CPROVER_old(G_it.calls) + 1 && G_it.last == index
    && G_it.ok == (__CPROVER_old(G_it.ok) && IN_RANGE(index) && UF(index) && (__CPROVER_old(G_it.calls) == 0 || __CPROVER_old(G_it.last) < index))
    && G_it.saw_i == (__CPROVER_old(G_it.saw_i) || index == G_i))
__CPROVER_assigns(G_it);

size_t last_handle_index(struct server* self, uint16_t ending_handle)
__CPROVER_requires(TABLE_OK)
__CPROVER_ensures(__CPROVER_return_value < G_N && (UH(G_N - 1) < ending_handle ? __CPROVER_return_value == G_N - 1
    : (UH(__CPROVER_return_value) >= ending_handle && (__CPROVER_return_value > 0 ==> UH(__CPROVER_return_value - 1) < ending_handle))))
__CPROVER_ensures((G_i > __CPROVER_return_value && G_i < G_N) ==> UH(G_i) > ending_handle)
__CPROVER_assigns()
{{last_index}}
/* exactly the attributes with starting_handle <= handle <= ending_handle that pass the filter reach the iterator, in ascending handle order */
void all_attributes(struct server* self, uint16_t starting_handle, uint16_t ending_handle, struct iter_any* iter, const struct filter_any* filter)
__CPROVER_requires(TABLE_OK && G_i < G_N && starting_handle != 0 && starting_handle <= ending_handle && G_start == starting_handle && G_end == ending_handle
    && G_it.calls == 0 && G_it.ok && !G_it.saw_i)
__CPROVER_requires(UH(G_N - 1) >= starting_handle)     /* check_size_and_handle_range: first_index_by_handle( starting_handle ) is valid */
__CPROVER_requires(G_first < G_N && UH(G_first) >= starting_handle && (G_first > 0 ==> UH(G_first - 1) < starting_handle) && (G_i < G_first ==> UH(G_i) < starting_handle))   /* names the first index; established by the same lookup */
__CPROVER_ensures(G_it.ok)
__CPROVER_ensures(G_it.saw_i ==> (IN_RANGE(G_i) && UF(G_i)))
__CPROVER_ensures((IN_RANGE(G_i) && UF(G_i)) ==> G_it.saw_i)
__CPROVER_assigns(G_it, G_hbi_arg)
{{all_attributes}}

/* ---- details::collect_attributes< Server >: the iterator of Read By Type */
struct ca { {{ca_fields}} void* server_; /* Server& */ };
uint8_t* G_out; size_t G_out_size;
size_t W_room, W_cur, W_index; uint8_t W_size; bool W_first, W_enc; int W_ps;
#define CA_SHAPE(self) (__CPROVER_same_object((self)->begin_, G_out) && __CPROVER_same_object((self)->current_, G_out) && __CPROVER_same_object((self)->end_, G_out) \
    && __CPROVER_POINTER_OFFSET((self)->begin_) == 2 && __CPROVER_POINTER_OFFSET((self)->end_) == G_out_size && __CPROVER_POINTER_OFFSET((self)->current_) >= 2 \
    && __CPROVER_POINTER_OFFSET((self)->current_) <= G_out_size && G_out_size >= 23 && G_out_size <= MTU_MAX)
#define CUR(self) __CPROVER_POINTER_OFFSET((self)->current_)
#define CUR0 ((size_t)(__CPROVER_old(self->current_) - G_out))
#define ACC0 __CPROVER_old(G_acc_calls)
void ca_call(struct ca* self, size_t index)
__CPROVER_requires(TABLE_OK && index < G_N && __CPROVER_rw_ok(self, sizeof(*self)) && CA_SHAPE(self) && __CPROVER_rw_ok(G_out, G_out_size))
__CPROVER_requires(WIT(ca_call, index == W_index && G_out_size == W_room && CUR(self) == W_cur && self->size_ == W_size && self->first_ == W_first
    && self->security_.is_encrypted == W_enc && (int)self->security_.pairing_status == W_ps))
/* memory safety: the tuple is written behind the previous ones and inside the response buffer; begin_ / end_ stay; nothing else is touched */
__CPROVER_ensures(CA_SHAPE(self) && CUR(self) >= CUR0)
/* no room for a tuple header: nothing happens */
__CPROVER_ensures(G_out_size - CUR0 < 2 ==> (G_acc_calls == ACC0 && CUR(self) == CUR0))
/* otherwise the value is read once, through the attribute's access function, with the iterator's (= the connection's) security attributes, into the room behind the handle */
__CPROVER_ensures(G_out_size - CUR0 >= 2 ==> (G_acc_calls == ACC0 + 1 && G_acc_index == index && G_acc_type == attribute_access_type_read && G_acc_off == 0 && G_acc_buf == G_out + CUR0 + 2
    && G_acc_size == BT_MIN(G_out_size - CUR0, (size_t)255) - 2 && G_acc_enc == self->security_.is_encrypted && G_acc_ps == (int)self->security_.pairing_status))
/* a tuple is appended iff the read succeeded and its size equals the size of the first tuple; it starts with the attribute's handle */
__CPROVER_ensures(CUR(self) != CUR0 ==> (G_acc_calls == ACC0 + 1 && G_acc_rc == 0 && CUR(self) == CUR0 + 2 + G_acc_out_size && self->size_ == G_acc_out_size + 2
    && (__CPROVER_old(self->first_) || __CPROVER_old(self->size_) == G_acc_out_size + 2) && G_out[CUR0] == (UH(index) & 0xff) && G_out[CUR0 + 1] == (UH(index) >> 8) && !self->first_ && self->size_ >= 2))
__CPROVER_ensures((G_acc_calls == ACC0 + 1 && G_acc_rc == 0 && (__CPROVER_old(self->first_) || __CPROVER_old(self->size_) == G_acc_out_size + 2)) ==> CUR(self) == CUR0 + 2 + G_acc_out_size)
__CPROVER_ensures(CUR(self) == CUR0 ==> (self->first_ == __CPROVER_old(self->first_) && self->size_ == __CPROVER_old(self->size_)))
__CPROVER_assigns(self->current_, self->size_, self->first_, __CPROVER_object_upto(self->current_, G_out_size - CUR(self)), G_acc, G_hbi_arg)
{{ca_call}}
void ca_ctor(struct ca* self, uint8_t* begin, uint8_t* end, struct ccc config, struct connection_security_attributes security, void* server)
__CPROVER_requires(__CPROVER_rw_ok(self, sizeof(*self)))
__CPROVER_ensures(self->begin_ == begin && self->current_ == begin && self->end_ == end && self->first_ && self->size_ == 0 && self->security_.is_encrypted == security.is_encrypted
    && self->security_.pairing_status == security.pairing_status && self->config_.data_ == config.data_)
__CPROVER_assigns(*self)
{{ca_ctor}}
{{ca_size_ret}} ca_size(const struct ca* self) {{ca_size}}   /* the return type is taken from the source as well */
uint8_t ca_data_size(const struct ca* self) {{ca_data_size}}
bool ca_empty(const struct ca* self) {{ca_empty}}

bool check_size_and_handle_range_(struct server* self, size_t A, size_t B, const uint8_t* input, size_t in_size, uint8_t* output, size_t* out_size, uint16_t* starting_handle, uint16_t* ending_handle)
__CPROVER_requires(TABLE_OK && A >= 5 && B >= 5 && IN_OK(input, in_size) && OUT_OK(output, out_size) && __CPROVER_rw_ok(starting_handle, 2) && __CPROVER_rw_ok(ending_handle, 2))
__CPROVER_ensures((in_size != A && in_size != B) ==> (!__CPROVER_return_value && IS_ERROR(output, out_size, input[0], att_error_codes_invalid_pdu)))
__CPROVER_ensures((in_size == A || in_size == B) ==> (*starting_handle == (uint16_t)(input[1] | (input[2] << 8)) && *ending_handle == (uint16_t)(input[3] | (input[4] << 8))
    && __CPROVER_return_value == (*starting_handle != 0 && *starting_handle <= *ending_handle && UH(G_N - 1) >= *starting_handle)
    && (__CPROVER_return_value ? *out_size == __CPROVER_old(*out_size)
        : IS_ERROR_H(output, out_size, input[0], *starting_handle, (*starting_handle == 0 || *starting_handle > *ending_handle) ? att_error_codes_invalid_handle : att_error_codes_attribute_not_found))))
__CPROVER_assigns(*starting_handle, *ending_handle, *out_size, __CPROVER_object_upto(output, 5))
{{csr}}

#define SETUP struct server srv; struct server* self = &srv; G_N = nondet_size(); G_i = nondet_size(); G_start = nondet_u16(); G_end = nondet_u16(); G_first = nondet_size(); G_it.calls = 0; G_it.ok = 1; G_it.saw_i = 0; \
  W_room = nondet_size(); G_out_size = W_room; W_cur = nondet_size(); W_index = nondet_size(); W_size = nondet_u8(); W_first = nondet_bool(); W_enc = nondet_bool(); W_ps = nondet_int(); G_acc_calls = 0; BT_KNOWN_EXCLUDE()
void h_all_attributes(void) { SETUP; struct iter_any* it; struct filter_any* f; all_attributes(self, G_start, G_end, it, f); BT_CANARY(); }
void h_last_handle_index(void) { SETUP; last_handle_index(self, nondet_u16()); BT_CANARY(); }
void h_ca_call(void) { SETUP; __CPROVER_assume(W_room >= 23 && W_room <= MTU_MAX && W_cur >= 2 && W_cur <= W_room && W_ps >= 0 && W_ps <= 3); struct ca c; uint8_t* out = malloc(W_room); __CPROVER_assume(out); G_out = out;
  c.begin_ = out + 2; c.end_ = out + W_room; c.current_ = out + W_cur; c.size_ = W_size; c.first_ = W_first; c.security_.is_encrypted = W_enc; c.security_.pairing_status = W_ps; ca_call(&c, W_index); BT_CANARY(); }
void h_ca_ctor(void) { SETUP; struct ca c; uint8_t* b; uint8_t* e; struct ccc cc; struct connection_security_attributes s; s.is_encrypted = nondet_bool(); s.pairing_status = nondet_int(); ca_ctor(&c, b, e, cc, s, 0); BT_CANARY(); }
void h_check_size_and_handle_range_(void) { SETUP; size_t n = nondet_size(), os = nondet_size(); __CPROVER_assume(n >= 1 && n <= MTU_MAX && os >= 23 && os <= MTU_MAX); uint8_t* in = malloc(n); uint8_t* out = malloc(os); __CPROVER_assume(in && out);
  uint16_t s, e; size_t A = nondet_size(), B = nondet_size(); __CPROVER_assume(A >= 5 && B >= 5); check_size_and_handle_range_(self, A, B, in, n, out, &os, &s, &e); BT_CANARY(); }
'''

# ------------------------------------------------------------------ handle_read_by_type_request: the composition
UF_ = r'class uuid_filter\s*(?=\{)'
H_EX = dict(EX,
    handler=srv_fn(r'void ' + SQ + r'handle_read_by_type_request\( const std::uint8_t\* input, std::size_t in_size, std::uint8_t\* output, std::size_t& out_size, ConnectionData& connection \)', tmpl=TC,
        pre=[(r'details::collect_attributes< server< Options\.\.\. > > iterator\( output \+ 2, output \+ out_size,\s*connection\.client_configurations\(\), connection\.security_attributes\(\), \*this \);',
                        'struct ca iterator; ca_ctor( &iterator, output + 2, output + out_size, connection.client_configurations(), connection.security_attributes(), self );', 1),
                       (r'all_attributes\( starting_handle, ending_handle, iterator, details::uuid_filter\( input \+ 5, in_size == 5 \+ 16 \) \);',
                        'struct uuid_filter flt; uuid_filter_ctor( &flt, input + 5, in_size == 5 + 16 ); all_attributes( self, starting_handle, ending_handle, &iterator, &flt );', 1),
                       (r'iterator\.(empty|data_size|size)\(\)', r'ca_\1( &iterator )', 3)] + ATT_PRE,
        rules=ATT_RULES + [(r'check_size_and_handle_range< 5 \+ 2, 5 \+ 16 >\( input, in_size, output, \(\*out_size\), starting_handle, ending_handle \)',
                            'check_size_and_handle_range_( self, 5 + 2, 5 + 16, input, in_size, output, out_size, &starting_handle, &ending_handle )', 1)]),
)
H_EX['all_attributes'] = dict(EX['all_attributes'], rules=ATT_RULES + [(r'(if \( filter_call\( filter, index \) \))', r'{ size_t bt_o = __CPROVER_POINTER_OFFSET(iter->current_); BT_GHOST_REBIND(iter->current_, G_out + bt_o); } \1', 1)], loops=[dict(header=r'for \( size_t index = first_index_by_handle\( starting_handle \);\s*index <= last_index',
    contract="""__CPROVER_assigns(index, G_it, G_hbi_arg, G_acc, G_acc_ok, G_collected, iter->current_, iter->size_, iter->first_, __CPROVER_object_upto(G_out, G_out_size))
    __CPROVER_loop_invariant(index <= G_N && G_it.ok && index >= G_first && G_it.calls <= index && (G_it.calls == 0 ? 1 : (G_it.last < index && G_it.last >= G_first))
        && (index > G_first ==> (index - 1 < G_N && UH(index - 1) <= ending_handle && UH(index - 1) >= starting_handle))
        && (G_it.calls == 0 ==> iter->current_ == iter->begin_) && CA_SHAPE(iter) && G_acc_ok && G_collected == CUR(iter) - 2
        && (iter->first_ ==> G_collected == 0) && (G_collected != 0 ==> (!iter->first_ && iter->size_ >= 2 && G_collected >= iter->size_ && G_collected % iter->size_ == 0 && G_it.calls >= 1)))
    __CPROVER_decreases(G_N - index)""")])
H_CODE = CODE.replace("void iter_call(struct iter_any* it, size_t index)", "void iter_call_abstract(struct iter_any* it, size_t index)").replace("bool filter_call(const struct filter_any* f, size_t index)", "bool filter_call_abstract(const struct filter_any* f, size_t index)") \
    .replace("void all_attributes(struct server* self, uint16_t starting_handle, uint16_t ending_handle, struct iter_any* iter, const struct filter_any* filter)\n__CPROVER_requires(TABLE_OK && G_i < G_N",
             "static inline void all_attributes_unused_decl(void) {}\nvoid all_attributes_spec(struct server* self, uint16_t starting_handle, uint16_t ending_handle, struct iter_any* iter, const struct filter_any* filter)\n__CPROVER_requires(TABLE_OK && G_i < G_N") \
    .replace("{{all_attributes}}", ";") + r"""
/* uuid_filter( bytes, is_128bit ): abstract here (its verdict for attribute i is G_F[i]); the real filter is under contract in unit uuid_filter */
struct uuid_filter { const uint8_t* bytes_; bool is_128bit_; };
static inline void uuid_filter_ctor(struct uuid_filter* f, const uint8_t* bytes, bool is_128bit) { f->bytes_ = bytes; f->is_128bit_ = is_128bit; }
bool filter_call(const struct uuid_filter* f, size_t index) __CPROVER_requires(index < G_N) __CPROVER_ensures(__CPROVER_return_value == UF(index)) __CPROVER_assigns();
/* every access of the request: a read of an in-range, matching attribute with this connection's security attributes */
bool G_acc_ok; bool W_enc2; int W_ps2; size_t G_collected;   /* octets of tuples collected so far */
static inline void iter_call(struct ca* it, size_t index)
{
    const size_t before = G_acc_calls;
    G_it.ok = G_it.ok && IN_RANGE(index) && UF(index) && (G_it.calls == 0 || G_it.last < index); G_it.last = index; ++G_it.calls;
    ca_call(it, index);
    G_collected = CUR(it) - 2;
    G_acc_ok = G_acc_ok && (G_acc_calls == before || (G_acc_index == index && G_acc_type == attribute_access_type_read && G_acc_enc == W_enc2 && G_acc_ps == W_ps2));
}
static inline void all_attributes(struct server* self, uint16_t starting_handle, uint16_t ending_handle, struct ca* iter, const struct uuid_filter* filter)
{{all_attributes}}
size_t W_in_size, W_out_size; uint8_t W_in[8];
void handle_read_by_type_request_(struct server* self, const uint8_t* input, size_t in_size, uint8_t* output, size_t* out_size, struct conn* connection)
__CPROVER_requires(TABLE_OK && IN_OK(input, in_size) && in_size == W_in_size && OUT_OK(output, out_size) && *out_size == W_out_size && G_out == output && G_out_size == W_out_size
    && input[0] == W_in[0] && (in_size < 5 || (input[1] == W_in[1] && input[2] == W_in[2] && input[3] == W_in[3] && input[4] == W_in[4]))
    && G_acc_calls == 0 && G_acc_ok && G_collected == 0 && G_it.calls == 0 && G_it.ok && !G_it.saw_i && G_conn_sec.is_encrypted == W_enc2 && (int)G_conn_sec.pairing_status == W_ps2 && W_ps2 >= 0 && W_ps2 <= 3)
/* ghost naming: the requested range and the first index in it (as the handle mapping reports it) */
__CPROVER_requires(G_start == (uint16_t)(W_in[1] | (W_in[2] << 8)) && G_end == (uint16_t)(W_in[3] | (W_in[4] << 8))
    && G_first < G_N && (UH(G_N - 1) >= G_start ==> (UH(G_first) >= G_start && (G_first > 0 ==> UH(G_first - 1) < G_start))))
__CPROVER_ensures(FRAMED(output, out_size, W_in[0], 0x09, W_out_size))
__CPROVER_ensures((W_in_size != 7 && W_in_size != 21) ==> (IS_ERROR(output, out_size, W_in[0], att_error_codes_invalid_pdu) && G_acc_calls == 0))
__CPROVER_ensures(((W_in_size == 7 || W_in_size == 21) && (G_start == 0 || G_start > G_end)) ==> (IS_ERROR_H(output, out_size, W_in[0], G_start, att_error_codes_invalid_handle) && G_acc_calls == 0))
/* only attributes inside the range that match the type were read (each with this connection's security attributes), in ascending order */
__CPROVER_ensures(G_it.ok && G_acc_ok)
/* a response: length octet = handle + value, whole tuples only, within the room */
__CPROVER_ensures((*out_size >= 1 && output[0] == 0x09) ==> (*out_size >= 4 && output[1] >= 2 && *out_size <= W_out_size && G_it.calls >= 1 && *out_size == 2 + G_collected && G_collected % output[1] == 0))
/* Attribute Not Found: nothing was collected */
__CPROVER_ensures(((W_in_size == 7 || W_in_size == 21) && G_start != 0 && G_start <= G_end && !(*out_size >= 1 && output[0] == 0x09)) ==> (IS_ERROR_H(output, out_size, W_in[0], G_start, att_error_codes_attribute_not_found) && G_collected == 0))
__CPROVER_assigns(*out_size, __CPROVER_object_upto(output, W_out_size), G_acc, G_hbi_arg, G_it, G_acc_ok, G_collected)
{{handler}}
void h_handle_read_by_type_request_(void) { SETUP; W_in_size = nondet_size(); W_out_size = nondet_size(); __CPROVER_assume(W_in_size >= 1 && W_in_size <= 32 && W_out_size >= 23 && W_out_size <= MTU_MAX);
  for (int k = 0; k < 8; ++k) W_in[k] = nondet_u8(); uint8_t* in = malloc(W_in_size); uint8_t out[MTU_MAX]; __CPROVER_assume(in); for (int k = 0; k < 5; ++k) if (W_in_size > k) in[k] = W_in[k];
  size_t os = W_out_size; G_out = out; G_out_size = W_out_size; G_acc_ok = 1; G_collected = 0; W_enc2 = nondet_bool(); W_ps2 = nondet_int(); __CPROVER_assume(W_ps2 >= 0 && W_ps2 <= 3); G_conn_sec.is_encrypted = W_enc2; G_conn_sec.pairing_status = W_ps2;
  struct conn c; handle_read_by_type_request_(self, in, W_in_size, out, &os, &c); BT_CANARY(); }
"""

UNITS = [
    dict(name='read_by_type', extracts=EX, code=CODE, object_bits=10, thorough_defines=['N_MAX=1024'], replay=dict(src='replay/c02_replay.cpp', cxxflags=['-DNDEBUG']),
         enforce=['all_attributes', 'last_handle_index', 'ca_call', 'ca_ctor', 'check_size_and_handle_range_'],
         replace=['ACCESS', 'handle_by_index', 'first_index_by_handle', 'filter_call', 'iter_call', 'last_handle_index', 'error_response5_', 'error_response4_']),
]
for _name, _d, _t in (('read_by_type_handler', ['MTU_MAX=48', 'N_MAX=12'], ['MTU_MAX=128', 'N_MAX=32']), ('read_by_type_handler_wide', ['MTU_MAX=300', 'N_MAX=4'], ['MTU_MAX=320', 'N_MAX=5'])):
  UNITS.append(dict(name=_name, extracts=H_EX, code=H_CODE, object_bits=10, defines=_d, thorough_defines=_t, timeout=900, replay=dict(src='replay/c02_replay.cpp', cxxflags=['-DNDEBUG']),
         enforce=['handle_read_by_type_request_'],
         replace=['ACCESS', 'handle_by_index', 'first_index_by_handle', 'filter_call', 'last_handle_index', 'ca_call', 'check_size_and_handle_range_', 'error_response5_', 'error_response4_']))
# Find Information (C02fi.py) and primary service discovery restricted to a handle range (C03.py: constructors of the two functors fix the range, each< Service >() applies it)
import importlib.util as _ilu
def _load(name):
    sp = _ilu.spec_from_file_location(name, os.path.join(os.path.dirname(__file__), name + '.py'))
    m = _ilu.module_from_spec(sp); sp.loader.exec_module(m); return m
UNITS += _load('C02fi').UNITS
UNITS += [dict(u) for u in _load('C03').UNITS if u['name'] in ('range', 'services_by_group', 'read_by_group_type', 'find_by_type_value')]
# the bodies of the two group discovery handlers; the iteration over the type list of services enters as the summary of the step contracts above (C01gh.py)
if not os.environ.get('BT_LOADING_C01GH'):   # C01gh.py builds on this module's EX / CODE: no recursion
    UNITS.append(_load('C01gh').UNIT); UNITS.append(_load('C01gh').IT_UNIT); UNITS.append(_load('C01gh').IT2_UNIT)
META = dict(
    level='proof',
    explanation="Read By Type, real bodies: all_attributes (loop contract), last_handle_index, check_size_and_handle_range<A,B>, "
                "collect_attributes (constructor, operator(), size / data_size / empty) and handle_read_by_type_request. Against an abstract table "
                "(handles = ghost array, non-zero, strictly increasing; filter verdict = ghost array) for every start/end pair and every table up to "
                "N_MAX attributes: exactly the attributes with start <= handle <= end that pass the type filter reach the iterator (soundness and, "
                "with a ghost index, completeness), in ascending order; collect_attributes appends (handle, value) tuples only inside the response "
                "buffer, each value read once through the attribute's access function with the connection's security attributes, all tuples of "
                "one size, the first tuple decides; the handler answers Invalid PDU / Invalid Handle / Attribute Not Found (only when nothing was "
                "collected) or 09 <len> tuples with length = 2 + collected octets <= room. Find Information and the range tests of the two primary service discovery procedures: see assumptions.",
    assumptions=["Find Information: collect_handle_uuid_tuples (loop contract) and handle_find_information_request are under contract in unit find_information (a tuple is only "
                 "written for an attribute whose handle lies in start..end, carries that handle, and has the UUID size announced in the format octet; Attribute Not Found only when "
                 "no attribute lies in the range); completeness and ascending order are not stated there. Read By Group Type / Find By Type Value: the constructors of "
                 "collect_primary_services / services_by_group and their each< Service >() are under contract (units range, read_by_group_type, services_by_group of C03.py: the range "
                 "test holds exactly for services whose declaration handle lies in start..end); the fold over the service type list itself is type level",
                 "'eventually enumerates every matching attribute exactly once' follows from the per-request contract (first returned handle = "
                 "least matching handle >= start; ascending) by induction over the requests: paper step",
                 "Attribute Not Found is also returned when matching attributes exist but none could be read or fit (the library skips unreadable "
                 "attributes instead of answering with their error): the contract states 'nothing was collected', which is weaker than 'no such "
                 "attribute exists' in exactly that case",
                 "abstract table: handle_by_index / first_index_by_handle contracts (strictly increasing non-zero handles, 'least index with handle >= h') "
                 "are assumed here - C04's subject; uuid_filter is abstract (its verdict is a pure function of the attribute)",
                 "handler unit bounds (configuration, not iterations): quick MTU <= 48 with 12 attributes and MTU <= 300 with 4 attributes; loops are "
                 "closed by loop contracts"],
    trusted_base=[],
)
