"""Shared by C21 and C27: link_layer<>::timeout, end_event, transmit_pending_control_pdus (link_layer.hpp) - procedure response time out and the order 'plan next event, then apply a pending indication'."""
import os, sys, re
sys.path.insert(0, os.path.dirname(__file__))
import llc
LL = llc.LL; CLS = llc.CLS; T = llc.T; Q = llc.Q
PRE = [
    (r'assert\( state_ == state::connecting \|\| state_ == state::connected \|\| state_ == state::disconnecting \|\| state_ == state::connection_changed \);', 'BT_ASSERT( self->state_ == state_connecting || self->state_ == state_connected || self->state_ == state_disconnecting || self->state_ == state_connection_changed );', '*'),
    (r'this->time_since_last_event\(\)', 'll_time_since_last_event()', '*'), (r'this->pending_outgoing_data_available\(\)', 'll_pending_outgoing_data_available()', '*'),
    (r'force_disconnect\( connection_ll_response_timeout \);', 'll_force_disconnect_reason( connection_ll_response_timeout );', '*'), (r'(?<![\w.])force_disconnect\(\);', 'll_force_disconnect();', '*'),
    (r'this->plan_next_connection_event_after_timeout\( connection_interval_ \);', 'll_plan_next_connection_event_after_timeout();', '*'),
    (r'handle_pending_ll_control\( this->connection_event_counter\(\) \)', 'll_handle_pending_ll_control( ll_connection_event_counter() )', '*'),
    (r'(?<![\w.])setup_next_connection_event\(\)', 'll_setup_next_connection_event()', '*'),
    (r'this->template handle_connection_events< link_layer< Server, ScheduledRadio, Options\.\.\. > >\(\);', 'll_handle_connection_events();', '*'),
    (r'this->synchronized_connection_event_callback_new_connection\( connection_interval_ \);', 'll_sync_new_connection();', '*'),
    (r'this->synchronized_connection_event_callback_connection_changed\( connection_interval_ \);', 'll_sync_connection_changed();', '*'),
    (r'this->connection_established\( details\(\), connection_data_, static_cast< radio_t& >\( \*this \) \);', 'cb_connection_established();', '*'),
    (r'(?<![\w.])handle_received_data\(\)', 'll_handle_received_data()', '*'), (r'(?<![\w.])send_control_pdus\(\)', 'll_send_control_pdus()', '*'),
    (r'this->transmit_pending_security_pdus\(\);', 'll_transmit_pending_security_pdus();', '*'),
    (r'const std::pair< bool, std::uint16_t > pending_instant = \{ !defered_ll_control_pdu_\.empty\(\), defered_conn_event_counter_ \};', 'const struct pair_bool_u16 pending_instant = { ( self->defered_ll_control_pdu_.buffer != 0 || self->defered_ll_control_pdu_.size != 0 ), self->defered_conn_event_counter_ };', '*'),
    (r'evts\.pending_outgoing_data = evts\.pending_outgoing_data \|\| ll_pending_outgoing_data_available\(\);', 'evts.pending_outgoing_data = evts.pending_outgoing_data || ll_pending_outgoing_data_available();', '*'),
    (r'this->plan_next_connection_event\(\s*peripheral_latency_, evts, connection_interval_, pending_instant \);', 'll_plan_next_connection_event( self->peripheral_latency_, pending_instant );', '*'),
    (r'const delta_time time_till_next_event = ll_setup_next_connection_event\(\);', 'const uint32_t time_till_next_event = ll_setup_next_connection_event();', '*'),
    (r'connection_event_callback::call_connection_event_callback\( time_till_next_event \);', 'll_call_connection_event_callback( time_till_next_event );', '*'),
    (r'(?<![\w.])transmit_pending_control_pdus\(\);', 'll_transmit_pending_control_pdus();', '*'), (r'this->transmit_pending_l2cap_output\( connection_data_ \);', 'll_transmit_pending_l2cap_output();', '*'),
    (r'this->synchronized_connection_event_callback_disconnect\(\);', 'll_sync_disconnect();', '*'), (r'this->reset_encryption\(\);', 'll_reset_encryption();', '*'),
    (r'(\w+_)\.zero\(\)', r'( \1 == 0 )', '*'), (r'= delta_time\(\);', '= 0;', '*'), (r'= delta_time\( default_procedure_timeout_us \);', '= default_procedure_timeout_us;', '*'),
    (r'const auto time_since_last_event', 'const uint32_t time_since_last_event', '*'),
    (r'\bstate::', 'state_', '*'), (r'\bll_result::', 'll_result_', '*'),
    # transmit_pending_control_pdus
    (r'this->connection_parameters_response_pending\(\)', 'll_connection_parameters_response_pending()', '*'),
    (r'auto out_buffer = this->allocate_ll_transmit_buffer\( connection_param_req_size \);', 'struct rbuf out_buffer = ll_allocate_ll_transmit_buffer();', '*'), (r'out_buffer\.empty\(\)', '( out_buffer.buffer == 0 && out_buffer.size == 0 )', '*'),
    (r'this->wake_up\(\);', 'll_wake_up();', '*'),
    (r'fill< layout_t >\( out_buffer, \{\s*([^}]*?)\s*\} \);', lambda m: '{ const uint8_t fill_tmp[] = { %s }; ll_fill( out_buffer, fill_tmp, sizeof( fill_tmp ) ); }' % ' '.join(m.group(1).split()), '*'),
    (r'this->commit_ll_transmit_buffer\( out_buffer \);', 'll_commit_ll_transmit_buffer();', '*'),
    (r'this->template connection_parameters_response_fill< layout_t >\( out_buffer \);', 'll_connection_parameters_response_fill();', '*'),
    (r'static constexpr std::uint8_t connection_param_req_size = 24u;', 'const uint8_t connection_param_req_size = 24u;', '*'),
]
PHY_PRE = [
    (r'assert\( link_layer\.defered_ll_control_pdu_\.buffer == nullptr \);', 'BT_ASSERT( self->defered_ll_control_pdu_.buffer == 0 );', 1),
    (r'using layout_t = typename pdu_layout_by_radio< typename LL::radio_t >::pdu_layout;', '', 1),
    (r'fill< layout_t >\( write, \{\s*([^}]*?)\s*\} \);', lambda m: '{ const uint8_t fill_tmp[] = { %s }; ll_fill( *write, fill_tmp, sizeof( fill_tmp ) ); }' % ' '.join(m.group(1).split()), 1),
    (r'\bLL::', '', '+'), (r'\bphy_ll_encoding::', 'phy_ll_encoding_', '+'), (r'layout_t::body\( pdu \)\.first', '( pdu->buffer + 2 )', 1),
    (r'link_layer\.phy_update\( (\w+), (\w+), link_layer\.connection_data_, link_layer \);', r'cb_phy_update( \1, \2 );', '+'),
    (r'link_layer\.defered_ll_control_pdu_\s*= pdu;', 'self->defered_ll_control_pdu_ = *pdu;', 1), (r'::bluetoe::details::read_16bit\(', 'read_16bit(', 1),
    (r'link_layer\.procedure_timeout_ = delta_time\(\);', 'self->procedure_timeout_ = 0;', '*'), (r'\blink_layer\.', 'self->', '+'), (r'\bcommit = false;', '*commit = false;', '+'),
]
ADV_PRE = [
    (r'using namespace ::bluetoe::details;', '', '*'), (r'assert\( state_ == state::advertising \);', 'BT_ASSERT( self->state_ == state_advertising );', '*'),
    (r'device_address remote_address;', 'int remote_address = 0;', 1), (r'this->handle_adv_receive\( receive, remote_address \)', 'll_handle_adv_receive( receive )', 1),
    (r'layout_t::body\( receive \)\.first', '( receive->buffer + 2 )', 1),
    (r'channels_\.reset\( &body\[ 28 \], body\[ 33 \] & 0x1f \)', 'll_channels_reset_hop( &body[ 28 ], body[ 33 ] & 0x1f )', 1),
    (r'parse_timing_parameters_from_connect_request\( body \)', 'll_parse_timing_parameters_from_connect_request( body )', 1),
    (r'this->reset_connection_state\(\);', 'll_reset_connection_state();', 1),
    (r'sleep_clock_accuracy\( body \) \+ device_sleep_clock_accuracy::accuracy_ppm', 'll_sleep_clock_accuracy( body )', 1),
    (r'= supported_features;', '= G_supported_features;', '*'), (r'= delta_time\(\);', '= 0;', '*'),
    (r'this->set_access_address_and_crc_init\( read_32bit\( &body\[ 12 \] \), read_24bit\( &body\[ 16 \] \) \);', 'll_set_access_address_and_crc_init( &body[ 12 ], &body[ 16 ] );', 1),
    (r'this->reset_pdu_buffer\(\);', 'll_reset_pdu_buffer();', 1), (r'this->reset_connection_parameter_request\(\);', 'll_reset_connection_parameter_request();', 1),
    (r'(?<![\w.])setup_next_connection_event\(\);', 'll_setup_next_connection_event();', 1),
    (r'this->connection_request\( connection_addresses\( address_, remote_address \) \);', 'll_connection_request();', 1), (r'this->handle_stop_advertising\(\);', 'll_handle_stop_advertising();', 1),
    (r'connection_data_ = connection_data_t\(\);', 'll_new_connection_data();', 1), (r'connection_data_\.remote_connection_created\( remote_address \);', 'll_remote_connection_created();', 1),
    (r'this->connection_requested\( details\(\), connection_data_, static_cast< radio_t& >\( \*this \) \);', 'cb_connection_requested();', 1),
    (r'this->template handle_connection_events< link_layer< Server, ScheduledRadio, Options\.\.\. > >\(\);', 'll_handle_connection_events();', 1),
    (r'\bstate::', 'state_', '*'),
]
RX_PRE = [
    (r'\bll_result result = ll_result::go_ahead;', 'enum ll_result result = ll_result_go_ahead;', 1),
    (r'!defered_ll_control_pdu_\.empty\(\)', '( self->defered_ll_control_pdu_.buffer != 0 || self->defered_ll_control_pdu_.size != 0 )', '*'),
    (r'(?<![!\w])defered_ll_control_pdu_\.empty\(\)', '( self->defered_ll_control_pdu_.buffer == 0 && self->defered_ll_control_pdu_.size == 0 )', '*'),
    (r'auto pdu = this->next_ll_l2cap_received\(\)', 'struct wbuf pdu = ll_next_ll_l2cap_received()', 1), (r'pdu = this->next_ll_l2cap_received\(\);', 'pdu = ll_next_ll_l2cap_received();', '+'),
    (r'const auto llid = layout_t::header\( pdu \) & 0x03;', 'const uint16_t llid = read_16bit( pdu.buffer ) & 0x03;', 1),
    (r'const auto body = layout_t::body\( pdu \);', 'const struct pair_ptr body = { pdu.buffer + 2, pdu.buffer + pdu.size };', 1),
    (r'const read_buffer output = this->allocate_ll_transmit_buffer\( maximum_ll_payload_size \);', 'const struct rbuf output = ll_allocate_max_transmit_buffer();', 1),
    (r'result = handle_ll_control_data\( pdu, output \);', 'result = ll_handle_ll_control_data( self, &pdu, output );', 1),
    (r'this->free_ll_l2cap_received\(\);', 'll_free_ll_l2cap_received();', '+'),
    (r'this->handle_l2cap_input\( body\.first, body\.second - body\.first, connection_data_ \)', 'll_handle_l2cap_input( body.first, (size_t)( body.second - body.first ) )', 1),
    (r'\bstate::', 'state_', '*'), (r'\bll_result::', 'll_result_', '*'),
    # ghost: the two places where the loop gives up on the PDU at the head of the queue
    (r'pdu\.size = 0;', '{ G_rx.stuck = true; pdu.size = 0; }', '+'),
]
RX_LOOP = dict(header=r'for \( struct wbuf pdu = ll_next_ll_l2cap_received\(\);', contract="""
    __CPROVER_assigns(pdu, result, G_rx, __CPROVER_object_whole(self))
    __CPROVER_loop_invariant(RX_INV && (pdu.size != 0 ? (!G_rx.stuck && G_rx.freed < G_rx.total && pdu.size == RX_STRIDE && __CPROVER_same_object(pdu.buffer, G_rxmem) && __CPROVER_POINTER_OFFSET(pdu.buffer) == G_rx.freed * RX_STRIDE)
                                                      : (G_rx.stuck || G_rx.freed == G_rx.total))
        && (result == ll_result_go_ahead || result == ll_result_disconnect) && (int)self->state_ == W_state)
    __CPROVER_decreases((G_rx.total - G_rx.freed) * 2 + (pdu.size != 0 ? 1 : 0))""")
PHYS = r'struct phy_update_request_impl\s*(?=\{)'
OPS = ['connection_timeout', 'lld_data_pdu_code', 'LL_PHY_RSP', 'LL_PHY_UPDATE_IND', 'LL_CONNECTION_PARAM_REQ', 'LL_VERSION_IND', 'LL_PHY_REQ', 'LL_VERSION_NR', 'll_control_pdu_code', 'connection_ll_response_timeout']
EX = dict(llc.BITS_EXTRACTS,
    **{k: dict(kind='expr', file=LL, scope=CLS, locate=r'static constexpr std::uint8_t\s+%s\s*=' % k) for k in OPS},
    company_identifier=llc.EX['company_identifier'], ll_result=llc.EX['ll_result'], ll_state=llc.EX['ll_state'],
    default_timeout=dict(kind='expr', file=LL, scope=CLS, locate=r'static constexpr std::uint32_t\s+default_procedure_timeout_us\s*='),
    num_windows=dict(kind='expr', file=LL, scope=CLS, locate=r'static constexpr unsigned\s+num_windows_til_timeout\s*='),
    fields=dict(kind='fields', file=LL, scope=CLS, names=['disconnecting_reason_', 'used_features_', 'cumulated_sleep_clock_accuracy_', 'connection_parameters_request_use_signaling_channel_', 'version_indication_received_', 'connection_interval_', 'peripheral_latency_', 'connection_timeout_', 'procedure_timeout_', 'defered_conn_event_counter_', 'defered_ll_control_pdu_', 'termination_send_',
                'pending_event_', 'restart_user_timer_requested_', 'transmit_window_size_', 'proposed_interval_min_', 'proposed_interval_max_', 'proposed_latency_', 'proposed_timeout_', 'connection_parameters_request_pending_',
                'connection_parameters_request_running_', 'phy_update_request_pending_', 'phy_update_request_running_', 'version_indication_sent_', 'phy_update_request_transmit_', 'phy_update_request_receive_', 'remote_versions_request_pending_'],
                type_map={'delta_time': 'uint32_t', 'write_buffer': 'struct wbuf', 'volatile bool': 'bool'}),
    timeout=dict(file=LL, locate=T + r'void ' + Q + r'timeout\(\)', pre=PRE),
    end_event=dict(file=LL, locate=T + r'void ' + Q + r'end_event\( connection_event_events evts \)', pre=PRE),
    adv_received=dict(file=LL, locate=T + r'void ' + Q + r'adv_received\( const read_buffer& receive \)', pre=ADV_PRE),
    api_phy=dict(file=LL, locate=T + r'bool ' + Q + r'phy_update_request\( std::uint8_t transmit, std::uint8_t receive \)', pre=PRE),
    api_ver=dict(file=LL, locate=T + r'bool ' + Q + r'remote_versions_request\(\)', pre=PRE),
    api_cpr=dict(file=LL, locate=T + r'bool ' + Q + r'initiating_connection_parameter_request\( std::uint16_t interval_min, std::uint16_t interval_max, std::uint16_t latency, std::uint16_t timeout \)', pre=PRE),
    disconnect=dict(file=LL, locate=T + r'void ' + Q + r'disconnect\( std::uint8_t reason \)', pre=PRE),
    tpc=dict(file=LL, locate=T + r'void ' + Q + r'transmit_pending_control_pdus\(\)', pre=PRE),
    received=dict(file=LL, locate=T + r'typename ' + Q + r'll_result ' + Q + r'handle_received_data\(\)', pre=RX_PRE, loops=[RX_LOOP],
                  rules=[(r'(const uint16_t llid = )', r'{ size_t bt_o = __CPROVER_POINTER_OFFSET(pdu.buffer); BT_GHOST_REBIND(pdu.buffer, G_rxmem + bt_o); } \1', 1)]),
    pending_phy=dict(file=LL, scope=PHYS, locate=r'bool handle_pending_phy_request\( std::uint8_t opcode, LL& link_layer \)', no_members=True,
                     pre=[(r'assert\( link_layer\.defered_ll_control_pdu_\.buffer \);', 'BT_ASSERT( self->defered_ll_control_pdu_.buffer != 0 );', 1),
                          (r'using layout_t = typename pdu_layout_by_radio< typename LL::radio_t >::pdu_layout;', '', 1), (r'\bLL::', '', '+'),
                          (r'layout_t::body\( link_layer\.defered_ll_control_pdu_ \)\.first', '( self->defered_ll_control_pdu_.buffer + 2 )', 1),
                          (r'const auto (c_to_p|p_to_c) = static_cast< phy_ll_encoding::phy_ll_encoding_t >\( (pdu_body\[ \d \]) \);', r'const uint8_t \1 = \2;', 2),
                          (r'link_layer\.defered_ll_control_pdu_ = \{ nullptr, 0 \};', 'self->defered_ll_control_pdu_ = (struct wbuf){ 0, 0 };', 1),
                          (r'link_layer\.radio_set_phy\(', 'll_radio_set_phy(', '+'),
                          (r'link_layer\.phy_update\( (\w+), (\w+), link_layer\.connection_data_, link_layer \);', r'cb_phy_update( \1, \2 );', '+')]),
    phy_enc=dict(kind='enum', file='bluetoe/link_layer/include/bluetoe/phy_encodings.hpp', name='phy_ll_encoding_t', rename='phy_ll_encoding'),
    phy_req=dict(file=LL, scope=PHYS, locate=r'bool handle_phy_request\( std::uint8_t opcode, std::uint8_t size, const write_buffer& pdu, read_buffer& write, LL& link_layer, bool& commit \)', pre=PHY_PRE, no_members=True),
    no_phy_req=dict(file=LL, scope=r'struct no_phy_update_request_impl\s*(?=\{)', locate=r'bool handle_phy_request\( std::uint8_t(?: opcode)?, std::uint8_t, const write_buffer&, read_buffer, LL&(?: link_layer)?, bool& \)', no_members=True,
                    pre=[(r'\bLL::', '', '*'), (r'link_layer\.procedure_timeout_\s*= delta_time\(\);', 'self->procedure_timeout_ = 0;', '*'), (r'\blink_layer\.', 'self->', '*')]),
    phy_valid=dict(file=LL, scope=PHYS, locate=r'bool valid_phy_encoding\( std::uint8_t c \) const', pre=PHY_PRE[4:5], no_members=True),
)
CODE = llc.BITS_CODE + '\n'.join('#define %s ((uint8_t)({{%s}}))' % (k, k) for k in OPS) + r'''
#define company_identifier ((uint16_t)({{company_identifier}}))
#define default_procedure_timeout_us ((uint32_t)({{default_timeout}}))
#define num_windows_til_timeout ((unsigned)({{num_windows}}))
{{ll_result}}; {{ll_state}};
struct wbuf { const uint8_t* buffer; size_t size; }; struct rbuf { uint8_t* buffer; size_t size; }; struct pair_bool_u16 { bool first; uint16_t second; };
struct connection_event_events { bool unacknowledged_data, last_received_not_empty, last_transmitted_not_empty, last_received_had_more_data, pending_outgoing_data, error_occured; };
struct ll { enum state state_; {{fields}} };
/* ---- everything else of the link layer / the radio: abstract; the ORDER of the calls is recorded */
enum { C_RECEIVED = 1, C_SEND_CONTROL, C_SECURITY, C_PLAN, C_PLAN_TIMEOUT, C_PENDING, C_SETUP, C_DISCONNECT, C_EVENTS, C_CONTROL_PDUS, C_L2CAP };
struct o_rec { size_t n; int seq[12]; size_t disconnects, reason_disconnects; uint8_t reason; uint16_t pending_arg; bool plan_pending; uint16_t plan_instant; size_t fills, commits, tx_len; uint8_t tx[8]; size_t phy_cb; uint8_t phy_cb_a, phy_cb_b; } G_o;
#define REC(c) do { if (G_o.n < 12) G_o.seq[G_o.n] = (c); ++G_o.n; } while (0)
uint32_t W_t; bool W_out_pending, W_recv_disconnect, W_pending_disconnect, W_alloc_ok, W_cpr_rsp_pending; uint16_t G_counter, W_counter_after;
static inline uint32_t ll_time_since_last_event(void) { return W_t; }
static inline bool ll_pending_outgoing_data_available(void) { return W_out_pending; }
static inline void ll_force_disconnect(void) { ++G_o.disconnects; REC(C_DISCONNECT); }
static inline void ll_force_disconnect_reason(uint8_t r) { ++G_o.reason_disconnects; G_o.reason = r; REC(C_DISCONNECT); }
static inline void ll_plan_next_connection_event_after_timeout(void) { G_counter = W_counter_after; REC(C_PLAN_TIMEOUT); }
static inline void ll_plan_next_connection_event(uint16_t latency, struct pair_bool_u16 pending) { G_counter = W_counter_after; G_o.plan_pending = pending.first; G_o.plan_instant = pending.second; REC(C_PLAN); }
static inline uint16_t ll_connection_event_counter(void) { return G_counter; }
static inline enum ll_result ll_handle_pending_ll_control(uint16_t instance) { G_o.pending_arg = instance; REC(C_PENDING); return W_pending_disconnect ? ll_result_disconnect : ll_result_go_ahead; }
static inline uint32_t ll_setup_next_connection_event(void) { REC(C_SETUP); return 0; }
static inline void ll_handle_connection_events(void) { REC(C_EVENTS); }
size_t G_established;
static inline void ll_sync_new_connection(void) {} static inline void ll_sync_connection_changed(void) {} static inline void cb_connection_established(void) { ++G_established; }
static inline enum ll_result ll_handle_received_data(void) { REC(C_RECEIVED); return W_recv_disconnect ? ll_result_disconnect : ll_result_go_ahead; }
static inline enum ll_result ll_send_control_pdus(void) { REC(C_SEND_CONTROL); return ll_result_go_ahead; }
static inline void ll_transmit_pending_security_pdus(void) { REC(C_SECURITY); }
static inline void ll_call_connection_event_callback(uint32_t t) {}
static inline void ll_transmit_pending_control_pdus(void) { REC(C_CONTROL_PDUS); }
static inline void ll_transmit_pending_l2cap_output(void) { REC(C_L2CAP); }
static inline bool ll_connection_parameters_response_pending(void) { return W_cpr_rsp_pending; }
static uint8_t G_txmem[32];
static inline struct rbuf ll_allocate_ll_transmit_buffer(void) { return W_alloc_ok ? (struct rbuf){ G_txmem, 29 } : (struct rbuf){ 0, 0 }; }
static inline void ll_wake_up(void) {}
static inline void ll_fill(struct rbuf b, const uint8_t* d, size_t n) { ++G_o.fills; G_o.tx_len = n; G_o.tx[0] = d[0]; G_o.tx[1] = d[1]; G_o.tx[2] = d[2]; if (n > 3) G_o.tx[3] = d[3]; if (n > 4) G_o.tx[4] = d[4]; }
static inline void ll_commit_ll_transmit_buffer(void) { ++G_o.commits; }
static inline void ll_connection_parameters_response_fill(void) { ++G_o.fills; }
int W_state; uint32_t W_proc, W_conn_timeout, W_interval; bool W_term_sent, W_deferred; uint16_t W_instant; bool W_cpr_pending, W_phy_pending, W_ver_pending, W_version_sent, W_phy_running;
#define LL_OK(self) (__CPROVER_is_fresh(self, sizeof(struct ll)) && (int)(self)->state_ == W_state && (W_state == state_connecting || W_state == state_connected || W_state == state_disconnecting || W_state == state_connection_changed) \
   && (self)->procedure_timeout_ == W_proc && (self)->connection_timeout_ == W_conn_timeout && (self)->connection_interval_ == W_interval && W_interval <= 4000000 && (self)->termination_send_ == W_term_sent \
   && ((self)->defered_ll_control_pdu_.buffer != 0 || (self)->defered_ll_control_pdu_.size != 0) == W_deferred && (self)->defered_conn_event_counter_ == W_instant && G_o.n == 0 && G_o.disconnects == 0 && G_o.reason_disconnects == 0 \
   && G_o.fills == 0 && G_o.commits == 0 && (self)->connection_parameters_request_pending_ == W_cpr_pending && (self)->phy_update_request_pending_ == W_phy_pending && (self)->remote_versions_request_pending_ == W_ver_pending \
   && (self)->version_indication_sent_ == W_version_sent && (self)->phy_update_request_running_ == W_phy_running)
#define TERMINATED   (W_state == state_disconnecting && W_term_sent && !W_out_pending)
#define PROC_TIMEOUT (W_proc != 0 && W_proc <= W_t)
#define SEQ_HAS(c)   (G_o.seq[0] == (c) || G_o.seq[1] == (c) || G_o.seq[2] == (c) || G_o.seq[3] == (c) || G_o.seq[4] == (c) || G_o.seq[5] == (c) || G_o.seq[6] == (c) || G_o.seq[7] == (c) || G_o.seq[8] == (c) || G_o.seq[9] == (c))
/* a connection event was missed */
void ll_timeout(struct ll* self)
__CPROVER_requires(LL_OK(self))
#ifdef C27_CLAUSES
/* C27: a running procedure whose response time out (40 s, armed when the request was sent) has expired ends the connection with 'LL response timeout' */
__CPROVER_ensures((!TERMINATED && PROC_TIMEOUT) ==> (G_o.reason_disconnects == 1 && G_o.reason == 0x22 && G_o.disconnects == 0 && !SEQ_HAS(C_PLAN_TIMEOUT) && !SEQ_HAS(C_SETUP)))
__CPROVER_ensures(G_o.reason_disconnects == 1 ==> (PROC_TIMEOUT && !TERMINATED))
#endif
#ifdef C21_CLAUSES
/* C21: a pending indication is looked at for the event that was just planned - the counter AFTER planning */
__CPROVER_ensures(SEQ_HAS(C_PENDING) ==> (G_o.seq[0] == C_PLAN_TIMEOUT && G_o.seq[1] == C_PENDING && G_o.pending_arg == W_counter_after && G_o.seq[2] == (W_pending_disconnect ? C_DISCONNECT : C_SETUP)))
#endif
__CPROVER_ensures(G_o.disconnects + G_o.reason_disconnects <= 1 && SEQ_HAS(C_EVENTS))
__CPROVER_assigns(__CPROVER_object_whole(self), G_o, G_counter)
{{timeout}}
/* a connection event ended */
void ll_end_event(struct ll* self, struct connection_event_events evts)
__CPROVER_requires(LL_OK(self) && G_established == 0)
#define ENDS_FIRST (TERMINATED || W_recv_disconnect)
#ifdef C27_CLAUSES
__CPROVER_ensures((!ENDS_FIRST && PROC_TIMEOUT) ==> (G_o.reason_disconnects == 1 && G_o.reason == 0x22 && G_o.disconnects == 0 && !SEQ_HAS(C_PLAN) && !SEQ_HAS(C_SETUP)))
__CPROVER_ensures(G_o.reason_disconnects == 1 ==> (PROC_TIMEOUT && !ENDS_FIRST))
/* the time out runs down with the time since the last event */
__CPROVER_ensures((!ENDS_FIRST && W_proc != 0 && !PROC_TIMEOUT) ==> self->procedure_timeout_ == W_proc - W_t)
__CPROVER_ensures((!ENDS_FIRST && W_proc == 0) ==> self->procedure_timeout_ == 0)
#endif
#ifdef C21_CLAUSES
/* C21: received data first (it may bring the indication), then the next event is planned with the pending instant of the deferred indication, then the indication is applied if that event is its instant */
__CPROVER_ensures(SEQ_HAS(C_PLAN) ==> (SEQ_HAS(C_RECEIVED) && G_o.plan_pending == ((self->defered_ll_control_pdu_.buffer != 0) || (self->defered_ll_control_pdu_.size != 0)) && G_o.plan_instant == self->defered_conn_event_counter_))
__CPROVER_ensures(SEQ_HAS(C_PENDING) ==> (SEQ_HAS(C_PLAN) && G_o.pending_arg == W_counter_after))
#endif
__CPROVER_ensures(G_o.disconnects + G_o.reason_disconnects <= 1 && SEQ_HAS(C_EVENTS))
#ifdef C29_CLAUSES
/* C29: the first connection event that ends makes the connection 'established' - reported exactly then, once; afterwards the state is 'connected' (a connection that is being closed stays so) */
__CPROVER_ensures(G_established == (W_state == state_connecting ? 1 : 0))
__CPROVER_ensures((G_o.disconnects + G_o.reason_disconnects == 0) ==> self->state_ == (W_state == state_disconnecting ? state_disconnecting : state_connected))
#endif
__CPROVER_assigns(__CPROVER_object_whole(self), G_o, G_counter, G_established)
{{end_event}}
/* peripheral initiated requests */
void transmit_pending_control_pdus(struct ll* self)
__CPROVER_requires(LL_OK(self))
/* which request is due: connection parameter request, then PHY request, then version indication */
#define DUE_CPR (W_alloc_ok && W_cpr_pending)
/* a PHY request is sent only while no other procedure's response is outstanding (one time out for all procedures): otherwise it waits */
#define DUE_PHY (W_alloc_ok && !W_cpr_pending && W_phy_pending && W_proc == 0)
#define DUE_VER (W_alloc_ok && !W_cpr_pending && !(W_phy_pending && W_proc == 0) && W_ver_pending)
#define SENDS (DUE_CPR || DUE_PHY || (DUE_VER && !W_version_sent))
/* exactly one request per call */
__CPROVER_ensures(SENDS ==> (G_o.commits == 1 && G_o.fills == 1 && G_o.tx[0] == ll_control_pdu_code && G_o.tx[2] == (DUE_CPR ? LL_CONNECTION_PARAM_REQ : DUE_PHY ? LL_PHY_REQ : LL_VERSION_IND)))
/* C27: every request that expects an answer arms the 40 s response time out */
__CPROVER_ensures(SENDS ==> self->procedure_timeout_ == default_procedure_timeout_us)
/* C27: a single version indication per connection - none is sent once one was sent, and that one was sent is remembered */
__CPROVER_ensures(W_version_sent ==> (self->version_indication_sent_ && !(G_o.commits >= 1 && G_o.fills >= 1 && G_o.tx[2] == LL_VERSION_IND)))
__CPROVER_ensures((DUE_VER && !W_version_sent) ==> self->version_indication_sent_)
__CPROVER_ensures((DUE_VER && W_version_sent) ==> (G_o.commits == 0 && self->procedure_timeout_ == W_proc && !self->remote_versions_request_pending_))
__CPROVER_ensures(!DUE_VER ==> self->version_indication_sent_ == W_version_sent)
/* the PHY procedure this side started is marked as running until it is answered (handle_phy_request / a reject end it) */
__CPROVER_ensures(self->phy_update_request_running_ == (W_phy_running || DUE_PHY))
__CPROVER_ensures((!SENDS && !(W_alloc_ok && W_cpr_rsp_pending)) ==> (G_o.commits == 0 && self->procedure_timeout_ == W_proc))
__CPROVER_ensures((!SENDS && W_alloc_ok && W_cpr_rsp_pending && !DUE_VER) ==> self->procedure_timeout_ == W_proc)
__CPROVER_assigns(__CPROVER_object_whole(self), G_o)
{{tpc}}
/* ---- phy_update_request_impl::handle_phy_request (the PHY PDUs of handle_ll_control_data) */
{{phy_enc}};
static inline void cb_phy_update(uint8_t c_to_p, uint8_t p_to_c) { ++G_o.phy_cb; G_o.phy_cb_a = c_to_p; G_o.phy_cb_b = p_to_c; }
bool valid_phy_encoding(uint8_t c)
__CPROVER_ensures(__CPROVER_return_value == (c == 0 || c == 1 || c == 2)) __CPROVER_assigns()
{{phy_valid}}
uint8_t W_op, W_size, W_pdu[8]; bool W_commit;
#define PHY_PRE_OK(self, pdu, write, commit) (LL_OK(self) && !W_deferred && (self)->defered_ll_control_pdu_.buffer == 0 && __CPROVER_is_fresh(pdu, sizeof(struct wbuf)) && (pdu)->size == 8 && __CPROVER_is_fresh((pdu)->buffer, 8) \
   && (pdu)->buffer[2] == W_op && (pdu)->buffer[3] == W_pdu[3] && (pdu)->buffer[4] == W_pdu[4] && (pdu)->buffer[5] == W_pdu[5] && (pdu)->buffer[6] == W_pdu[6] && __CPROVER_is_fresh(write, sizeof(struct rbuf)) \
   && __CPROVER_is_fresh(commit, sizeof(bool)) && *(commit) == W_commit && G_o.phy_cb == 0)
#define VALID_ENC(c) ((c) == 0 || (c) == 1 || (c) == 2)
#define IS_PHY_REQ (W_op == LL_PHY_REQ && W_size == 3)
#define IS_PHY_IND (W_op == LL_PHY_UPDATE_IND && W_size == 5 && VALID_ENC(W_pdu[3]) && VALID_ENC(W_pdu[4]))
bool handle_phy_request(struct ll* self, uint8_t opcode, uint8_t size, const struct wbuf* pdu, struct rbuf* write, bool* commit)
__CPROVER_requires(PHY_PRE_OK(self, pdu, write, commit) && opcode == W_op && size == W_size)
/* C27: LL_PHY_REQ gets LL_PHY_RSP offering the 1M and the 2M PHY in both directions */
__CPROVER_ensures(IS_PHY_REQ ==> (__CPROVER_return_value && G_o.fills == 1 && G_o.tx_len == 5 && G_o.tx[0] == ll_control_pdu_code && G_o.tx[1] == 3 && G_o.tx[2] == LL_PHY_RSP && G_o.tx[3] == 3 && G_o.tx[4] == 3 && *commit == W_commit))
/* LL_PHY_UPDATE_IND is never answered; it is applied at its instant (C21) or, if nothing changes, reported at once */
__CPROVER_ensures(IS_PHY_IND ==> (__CPROVER_return_value && !*commit && G_o.fills == 0 && ((W_pdu[3] == 0 && W_pdu[4] == 0)
    ? (G_o.phy_cb == 1 && self->defered_ll_control_pdu_.buffer == 0)
    : (G_o.phy_cb == 0 && self->defered_ll_control_pdu_.buffer == pdu->buffer && self->defered_ll_control_pdu_.size == pdu->size && self->defered_conn_event_counter_ == (uint16_t)(W_pdu[5] | (W_pdu[6] << 8))))))
/* C27: it ends the response time out exactly if it answers a PHY update procedure this side started */
__CPROVER_ensures((IS_PHY_IND && W_phy_running) ==> (self->procedure_timeout_ == 0 && !self->phy_update_request_running_))
__CPROVER_ensures(!(IS_PHY_IND && W_phy_running) ==> (self->procedure_timeout_ == W_proc && self->phy_update_request_running_ == W_phy_running))
/* everything else (other opcodes, other lengths, undefined PHYs) is not handled here: the caller answers LL_UNKNOWN_RSP */
__CPROVER_ensures(!(IS_PHY_REQ || IS_PHY_IND) ==> (!__CPROVER_return_value && G_o.fills == 0 && *commit == W_commit && self->defered_ll_control_pdu_.buffer == 0 && G_o.phy_cb == 0))
__CPROVER_assigns(__CPROVER_object_whole(self), G_o, *commit)
{{phy_req}}
/* ---- adv_received: a connection request that is accepted starts a NEW connection - nothing of the last one survives */
enum { A_RESET_STATE = 1, A_RESET_PDU, A_RESET_CPR, A_SETUP, A_CONN_REQUEST, A_STOP_ADV, A_NEW_DATA, A_REMOTE_CREATED, A_CB_REQUESTED, A_EVENTS };
struct { size_t n; int seq[12]; } G_a; uint16_t G_supported_features; bool W_conn_req, W_map_ok, W_timing_ok;
#define AREC(c) do { if (G_a.n < 12) G_a.seq[G_a.n] = (c); ++G_a.n; } while (0)
static inline bool ll_handle_adv_receive(const struct rbuf* r) { return W_conn_req; }
static inline bool ll_channels_reset_hop(const uint8_t* map, uint8_t hop) { return W_map_ok; }
static inline bool ll_parse_timing_parameters_from_connect_request(const uint8_t* body) { return W_timing_ok; }
static inline unsigned ll_sleep_clock_accuracy(const uint8_t* body) { return nondet_u16(); }
static inline void ll_set_access_address_and_crc_init(const uint8_t* aa, const uint8_t* crc) {}
static inline void ll_reset_connection_state(void) { AREC(A_RESET_STATE); } static inline void ll_reset_pdu_buffer(void) { AREC(A_RESET_PDU); } static inline void ll_reset_connection_parameter_request(void) { AREC(A_RESET_CPR); }
static inline void ll_connection_request(void) { AREC(A_CONN_REQUEST); } static inline void ll_handle_stop_advertising(void) { AREC(A_STOP_ADV); } static inline void ll_new_connection_data(void) { AREC(A_NEW_DATA); }
static inline void ll_remote_connection_created(void) { AREC(A_REMOTE_CREATED); } static inline void cb_connection_requested(void) { AREC(A_CB_REQUESTED); }
#define ACCEPTED (W_conn_req && W_map_ok && W_timing_ok)
#define A_HAS(c) (G_a.seq[0] == (c) || G_a.seq[1] == (c) || G_a.seq[2] == (c) || G_a.seq[3] == (c) || G_a.seq[4] == (c) || G_a.seq[5] == (c) || G_a.seq[6] == (c) || G_a.seq[7] == (c) || G_a.seq[8] == (c))
void adv_received(struct ll* self, const struct rbuf* receive)
__CPROVER_requires(__CPROVER_is_fresh(self, sizeof(struct ll)) && self->state_ == state_advertising && __CPROVER_is_fresh(receive, sizeof(struct rbuf)) && receive->size == 40 && __CPROVER_is_fresh(receive->buffer, 40) && G_a.n == 0 && G_o.n == 0)
#ifdef C27_CLAUSES
/* every per-connection flag of the link layer starts afresh: no request pending or running, no version indication seen or sent, no response time out running (C27) */
__CPROVER_ensures(ACCEPTED ==> (self->state_ == state_connecting && !self->connection_parameters_request_pending_ && !self->connection_parameters_request_running_ && !self->connection_parameters_request_use_signaling_channel_
    && !self->phy_update_request_pending_ && !self->phy_update_request_running_ && !self->remote_versions_request_pending_ && !self->version_indication_received_ && !self->version_indication_sent_
    && !self->pending_event_ && self->procedure_timeout_ == 0 && self->disconnecting_reason_ == connection_timeout && self->used_features_ == G_supported_features))
#endif
#ifdef C29_CLAUSES
/* the buffers, the connection parameter request state and the connection data (client configurations C09, security state C28 / C33) are new; then - and only then - 'connection requested' is reported, once (C29) */
__CPROVER_ensures(ACCEPTED ==> (G_a.n == 8 && G_a.seq[0] == A_RESET_STATE && G_a.seq[1] == A_RESET_PDU && G_a.seq[2] == A_RESET_CPR && G_a.seq[3] == A_CONN_REQUEST && G_a.seq[4] == A_STOP_ADV && G_a.seq[5] == A_NEW_DATA
    && G_a.seq[6] == A_REMOTE_CREATED && G_a.seq[7] == A_CB_REQUESTED && G_o.n == 2 && G_o.seq[0] == C_SETUP && G_o.seq[1] == C_EVENTS))
#endif
/* anything else leaves the advertiser as it is and is not reported */
__CPROVER_ensures(!ACCEPTED ==> (self->state_ == state_advertising && G_a.n == 0 && G_o.n == 0))
__CPROVER_assigns(__CPROVER_object_whole(self), G_a, G_o)
{{adv_received}}
/* ---- the three requests of the application: one procedure at a time - a request is accepted only while none of its kind is waiting to be sent and no response is outstanding (C27: the one
        response time out then belongs to one procedure) */
bool ll_phy_update_request(struct ll* self, uint8_t transmit, uint8_t receive)
__CPROVER_requires(LL_OK(self))
__CPROVER_ensures(__CPROVER_return_value == (!W_phy_pending && W_proc == 0))
__CPROVER_ensures(__CPROVER_return_value ? (self->phy_update_request_pending_ && self->phy_update_request_transmit_ == transmit && self->phy_update_request_receive_ == receive) : self->phy_update_request_pending_ == W_phy_pending)
__CPROVER_ensures(self->procedure_timeout_ == W_proc)
__CPROVER_assigns(__CPROVER_object_whole(self))
{{api_phy}}
bool ll_remote_versions_request(struct ll* self)
__CPROVER_requires(LL_OK(self))
__CPROVER_ensures(__CPROVER_return_value == (!W_ver_pending && W_proc == 0) && self->remote_versions_request_pending_ == (W_ver_pending || __CPROVER_return_value) && self->procedure_timeout_ == W_proc)
__CPROVER_assigns(__CPROVER_object_whole(self))
{{api_ver}}
bool ll_initiating_connection_parameter_request(struct ll* self, uint16_t interval_min, uint16_t interval_max, uint16_t latency, uint16_t timeout)
__CPROVER_requires(LL_OK(self))
__CPROVER_ensures(__CPROVER_return_value == (!W_cpr_pending && W_proc == 0) && self->connection_parameters_request_pending_ == (W_cpr_pending || __CPROVER_return_value) && self->procedure_timeout_ == W_proc)
__CPROVER_ensures(__CPROVER_return_value ==> (self->proposed_interval_min_ == interval_min && self->proposed_interval_max_ == interval_max && self->proposed_latency_ == latency && self->proposed_timeout_ == timeout))
__CPROVER_assigns(__CPROVER_object_whole(self))
{{api_cpr}}
/* ---- disconnect( reason ): the local host ends the connection. The LL_TERMINATE_IND and whatever is waiting in the transmit buffer are still to be sent: */
size_t G_enc_resets;
static inline void ll_sync_disconnect(void) {} static inline void ll_reset_encryption(void) { ++G_enc_resets; }
void ll_disconnect(struct ll* self, uint8_t reason)
__CPROVER_requires(LL_OK(self) && G_enc_resets == 0)
__CPROVER_ensures(self->state_ == state_disconnecting && !self->termination_send_ && self->disconnecting_reason_ == reason && self->procedure_timeout_ == W_conn_timeout)
/* C05 / C34: the link stays encrypted until the connection is closed (force_disconnect, C29) - nothing that was queued for an encrypted link goes out in the clear */
__CPROVER_ensures(G_enc_resets == 0)
__CPROVER_assigns(__CPROVER_object_whole(self), G_enc_resets)
{{disconnect}}
/* ---- handle_pending_phy_request: at its instant the PHY update is applied with the PHYs the indication carried, and reported */
struct { size_t calls; uint8_t a, b; } G_set_phy;
static inline void ll_radio_set_phy(uint8_t c_to_p, uint8_t p_to_c) { ++G_set_phy.calls; G_set_phy.a = c_to_p; G_set_phy.b = p_to_c; }
uint8_t G_pending_mem[8];
bool handle_pending_phy_request(struct ll* self, uint8_t opcode)
__CPROVER_requires(__CPROVER_is_fresh(self, sizeof(struct ll)) && __CPROVER_pointer_equals(self->defered_ll_control_pdu_.buffer, &G_pending_mem[0]) && self->defered_ll_control_pdu_.size == 8
    && G_pending_mem[3] == W_pdu[3] && G_pending_mem[4] == W_pdu[4] && G_set_phy.calls == 0 && G_o.phy_cb == 0 && opcode == W_op)
__CPROVER_ensures(W_op == LL_PHY_UPDATE_IND ? (__CPROVER_return_value && G_set_phy.calls == 1 && G_set_phy.a == W_pdu[3] && G_set_phy.b == W_pdu[4] && G_o.phy_cb == 1 && G_o.phy_cb_a == W_pdu[3] && G_o.phy_cb_b == W_pdu[4]
                                        && self->defered_ll_control_pdu_.buffer == 0 && self->defered_ll_control_pdu_.size == 0)
                                     : (!__CPROVER_return_value && G_set_phy.calls == 0 && G_o.phy_cb == 0 && self->defered_ll_control_pdu_.buffer == &G_pending_mem[0]))
__CPROVER_assigns(__CPROVER_object_whole(self), G_o, G_set_phy)
{{pending_phy}}
/* ---- handle_received_data: the queue of received PDUs (ll_l2cap_sdu_buffer, C19) is a ghost array of RX_MAX PDUs, PDU k at G_rxmem + k * RX_STRIDE; what becomes of PDU k is symbolic:
        W_tx_ok[k] a transmit buffer for the answer is available, W_def[k] handle_ll_control_data keeps it for its instant, W_disc[k] ... asks for a disconnect, W_l2[k] L2CAP takes it */
#define RX_MAX 5
#define RX_STRIDE 8
struct pair_ptr { const uint8_t* first; const uint8_t* second; };
enum { ROUTE_NONE = 0, ROUTE_CONTROL, ROUTE_L2CAP, ROUTE_DROPPED };
struct rx_rec { size_t total, freed, handled; bool order_ok, stuck; uint8_t route[RX_MAX]; } G_rx;
uint8_t G_rxmem[RX_MAX * RX_STRIDE]; bool W_tx_ok[RX_MAX], W_def[RX_MAX], W_disc[RX_MAX], W_l2[RX_MAX]; size_t G_k;
#define LLID_OF(k) (G_rxmem[(k) * RX_STRIDE] & 3)
static inline struct wbuf ll_next_ll_l2cap_received(void) { return G_rx.freed < G_rx.total ? (struct wbuf){ G_rxmem + G_rx.freed * RX_STRIDE, RX_STRIDE } : (struct wbuf){ 0, 0 }; }
static inline struct rbuf ll_allocate_max_transmit_buffer(void) { return (G_rx.freed < RX_MAX && W_tx_ok[G_rx.freed]) ? (struct rbuf){ G_txmem, 29 } : (struct rbuf){ 0, 0 }; }
/* a PDU is freed exactly once, right after it - the PDU at the head - was handled */
/* a PDU that is neither LL control nor the start of an L2CAP PDU has nobody to go to: freeing it unhandled is how it is dropped */
#define NOBODYS(k) (LLID_OF(k) != ll_control_pdu_code && LLID_OF(k) != lld_data_pdu_code)
static inline void ll_free_ll_l2cap_received(void) { if (G_rx.freed < G_rx.total && G_rx.freed < RX_MAX && G_rx.handled == G_rx.freed && NOBODYS(G_rx.freed)) { ++G_rx.handled; G_rx.route[G_rx.freed] = ROUTE_DROPPED; }
  if (!(G_rx.freed < G_rx.total && G_rx.handled == G_rx.freed + 1)) G_rx.order_ok = false; ++G_rx.freed; }
static inline enum ll_result ll_handle_ll_control_data(struct ll* self, const struct wbuf* pdu, struct rbuf output)
{ size_t k = G_rx.freed; if (!(k < G_rx.total && k < RX_MAX && G_rx.handled == k && pdu->buffer == G_rxmem + k * RX_STRIDE && output.size != 0)) { G_rx.order_ok = false; return ll_result_go_ahead; }
  ++G_rx.handled; G_rx.route[k] = ROUTE_CONTROL; if (W_def[k]) self->defered_ll_control_pdu_ = *pdu; return W_disc[k] ? ll_result_disconnect : ll_result_go_ahead; }
static inline bool ll_handle_l2cap_input(const uint8_t* body, size_t n)
{ size_t k = G_rx.freed; if (!(k < G_rx.total && k < RX_MAX && G_rx.handled == k && body == G_rxmem + k * RX_STRIDE + 2 && n == RX_STRIDE - 2)) { G_rx.order_ok = false; return false; }
  if (W_l2[k]) { ++G_rx.handled; G_rx.route[k] = ROUTE_L2CAP; } return W_l2[k]; }
#define IS_DEFERRED(self) ((self)->defered_ll_control_pdu_.buffer != 0 || (self)->defered_ll_control_pdu_.size != 0)
/* what holds whenever the loop condition is evaluated */
#define ROUTE_OF(k) (LLID_OF(k) == ll_control_pdu_code ? ROUTE_CONTROL : LLID_OF(k) == lld_data_pdu_code ? ROUTE_L2CAP : ROUTE_DROPPED)
#define LAST_CONTROL (G_rx.freed >= 1 && LLID_OF(G_rx.freed - 1) == ll_control_pdu_code)
#define RX_INV (G_rx.total <= RX_MAX && G_rx.freed <= G_rx.total && G_rx.handled == G_rx.freed && G_rx.order_ok && G_k < RX_MAX \
    /* every consumed PDU went where its LLID says */ \
    && (G_k < G_rx.freed ==> G_rx.route[G_k] == ROUTE_OF(G_k)) && ((G_k < G_rx.freed && LLID_OF(G_k) == lld_data_pdu_code) ==> W_state != state_disconnecting) \
    /* a disconnect / a pending indication comes from the PDU consumed last, and nothing was consumed behind it */ \
    && ((result == ll_result_disconnect) == (LAST_CONTROL && W_disc[G_rx.freed - 1])) && (IS_DEFERRED(self) == (LAST_CONTROL && W_def[G_rx.freed - 1])) \
    && (G_k + 1 < G_rx.freed ==> (!W_def[G_k] || LLID_OF(G_k) != ll_control_pdu_code) && (!W_disc[G_k] || LLID_OF(G_k) != ll_control_pdu_code)) \
    /* the loop gave up on the head PDU only because it cannot be handled now */ \
    && (G_rx.stuck ==> (G_rx.freed < G_rx.total && (LLID_OF(G_rx.freed) == ll_control_pdu_code ? !W_tx_ok[G_rx.freed] : (LLID_OF(G_rx.freed) == lld_data_pdu_code && (W_state == state_disconnecting || !W_l2[G_rx.freed]))))))
enum ll_result handle_received_data(struct ll* self)
__CPROVER_requires(LL_OK(self) && G_rx.total <= RX_MAX && G_rx.freed == 0 && G_rx.handled == 0 && G_rx.order_ok && !G_rx.stuck && G_k < RX_MAX)
#ifdef C21_CLAUSES
/* C21: while an indication waits for its instant nothing is consumed - and nothing else stops the processing: */
__CPROVER_ensures(W_deferred ==> (G_rx.freed == 0 && G_rx.handled == 0 && __CPROVER_return_value == ll_result_go_ahead))
#endif
#ifdef C15_CLAUSES
/* C15: the received PDUs are consumed in order, each exactly once and by the handler its LLID names; a PDU is freed only after it was handled */
__CPROVER_ensures(!W_deferred ==> (G_rx.total <= RX_MAX && G_rx.freed <= G_rx.total && G_rx.handled == G_rx.freed && G_rx.order_ok
    && (G_k < G_rx.freed ==> G_rx.route[G_k] == ROUTE_OF(G_k))))
#endif
/* it ends with the queue empty, with the PDU that asked for a disconnect or has to wait for its instant (consumed, nothing behind it is), or at a PDU that cannot be handled NOW - no transmit buffer for
   the answer to a control PDU, L2CAP has no output buffer, the link is being closed. No PDU blocks the queue for good: one that is neither LL control nor L2CAP start is dropped */
__CPROVER_ensures(!W_deferred ==> (G_rx.freed == G_rx.total || __CPROVER_return_value == ll_result_disconnect || IS_DEFERRED(self) || G_rx.stuck))
__CPROVER_ensures((!W_deferred && __CPROVER_return_value == ll_result_disconnect) ==> (G_rx.freed >= 1 && W_disc[G_rx.freed - 1]))
__CPROVER_ensures((!W_deferred && IS_DEFERRED(self)) ==> (G_rx.freed >= 1 && W_def[G_rx.freed - 1]))
__CPROVER_ensures((!W_deferred && G_rx.stuck) ==> (G_rx.freed < G_rx.total && (LLID_OF(G_rx.freed) == ll_control_pdu_code ? !W_tx_ok[G_rx.freed] : (LLID_OF(G_rx.freed) == lld_data_pdu_code && (W_state == state_disconnecting || !W_l2[G_rx.freed])))))
__CPROVER_assigns(__CPROVER_object_whole(self), G_rx)
{{received}}
/* the link layer of a radio without 2 MBit support (no_phy_update_request_impl): no PHY PDU is handled (the caller answers LL_UNKNOWN_RSP), but the LL_PHY_UPDATE_IND that answers
   an own LL_PHY_REQ (phy_update_request() is available there too) ends the response time out - an answered procedure must not end the connection */
bool no_phy_handle_phy_request(struct ll* self, uint8_t opcode)
__CPROVER_requires(LL_OK(self) && opcode == W_op)
__CPROVER_ensures(!__CPROVER_return_value)
__CPROVER_ensures((W_op == LL_PHY_UPDATE_IND && W_phy_running) ? (self->procedure_timeout_ == 0 && !self->phy_update_request_running_) : (self->procedure_timeout_ == W_proc && self->phy_update_request_running_ == W_phy_running))
__CPROVER_assigns(__CPROVER_object_whole(self))
{{no_phy_req}}
#define SETUP struct ll* s; W_t = nondet_u32(); W_out_pending = nondet_bool(); W_recv_disconnect = nondet_bool(); W_pending_disconnect = nondet_bool(); W_alloc_ok = nondet_bool(); W_cpr_rsp_pending = nondet_bool(); W_counter_after = nondet_u16(); \
  W_state = nondet_int(); W_proc = nondet_u32(); W_conn_timeout = nondet_u32(); W_interval = nondet_u32(); W_term_sent = nondet_bool(); W_deferred = nondet_bool(); W_instant = nondet_u16(); W_cpr_pending = nondet_bool(); W_phy_pending = nondet_bool(); W_ver_pending = nondet_bool(); W_version_sent = nondet_bool(); W_phy_running = nondet_bool(); \
  G_o = (struct o_rec){ 0 }; W_op = nondet_u8(); W_size = nondet_u8(); W_pdu[3] = nondet_u8(); W_pdu[4] = nondet_u8(); W_pdu[5] = nondet_u8(); W_pdu[6] = nondet_u8(); W_commit = nondet_bool(); G_set_phy.calls = 0; G_established = 0; G_enc_resets = 0; G_a.n = 0; G_supported_features = nondet_u16(); W_conn_req = nondet_bool(); W_map_ok = nondet_bool(); W_timing_ok = nondet_bool(); G_rx = (struct rx_rec){ 0 }; G_rx.total = nondet_size(); G_rx.order_ok = true; G_k = nondet_size(); BT_KNOWN_EXCLUDE()
void h_ll_timeout(void) { SETUP; ll_timeout(s); BT_CANARY(); }
void h_ll_end_event(void) { SETUP; struct connection_event_events e; ll_end_event(s, e); BT_CANARY(); }
void h_transmit_pending_control_pdus(void) { SETUP; transmit_pending_control_pdus(s); BT_CANARY(); }
void h_ll_phy_update_request(void) { SETUP; ll_phy_update_request(s, nondet_u8(), nondet_u8()); BT_CANARY(); }
void h_ll_remote_versions_request(void) { SETUP; ll_remote_versions_request(s); BT_CANARY(); }
void h_ll_initiating_connection_parameter_request(void) { SETUP; ll_initiating_connection_parameter_request(s, nondet_u16(), nondet_u16(), nondet_u16(), nondet_u16()); BT_CANARY(); }
void h_adv_received(void) { SETUP; struct rbuf* r; adv_received(s, r); BT_CANARY(); }
void h_ll_disconnect(void) { SETUP; ll_disconnect(s, nondet_u8()); BT_CANARY(); }
void h_handle_received_data(void) { SETUP; handle_received_data(s); BT_CANARY(); }
void h_handle_pending_phy_request(void) { SETUP; handle_pending_phy_request(s, W_op); BT_CANARY(); }
void h_no_phy_handle_phy_request(void) { SETUP; no_phy_handle_phy_request(s, W_op); BT_CANARY(); }
void h_valid_phy_encoding(void) { valid_phy_encoding(nondet_u8()); BT_CANARY(); }
void h_handle_phy_request(void) { SETUP; struct wbuf* p; struct rbuf* w; bool* c; handle_phy_request(s, W_op, W_size, p, w, c); BT_CANARY(); }
'''
def unit(enforce, name='events', **kw):
    # handle_received_data's loop contract yields obligations only where that function is under enforcement
    d = dict(name=name, extracts=EX, code=CODE, object_bits=10, enforce=enforce, extra_loops=0 if 'handle_received_data' in enforce else -1, replace=['valid_phy_encoding'] if 'handle_phy_request' in enforce else []); d.update(kw); return d
