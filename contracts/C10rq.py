"""C10 / C11: how a notification / indication request and a confirmation reach the notification queue: server<>::notify / indicate (server.hpp) and
link_layer<>::queue_lcap_notification (link_layer.hpp)."""
import os, sys
sys.path.insert(0, os.path.dirname(__file__))
SRV = 'bluetoe/server.hpp'; LL = 'bluetoe/link_layer/include/bluetoe/link_layer.hpp'; ATTR = 'bluetoe/utility/include/bluetoe/attribute.hpp'
TS = r'template < typename \.\.\. Options >\s*'
PRE = [
    (r'static_assert\( number_of_client_configs != 0, "[^"]*" \);', '', '*'),
    (r'const details::notification_data data = find_notification_data\( &value \);', 'const struct notification_data data = find_notification_data( value );', '*'),
    (r'assert\( data\.valid\(\) \);', 'BT_ASSERT( data.valid );', '*'),
    # the UUID variants: the characteristic is looked up at compile time (static_asserts: found, configured for notification / indication); its queue position is a constant of the sorted list
    (r'using characteristic = typename details::find_characteristic_data_by_uuid_in_service_list< services, CharacteristicUUID >::type;', '', '*'),
    (r'static_assert\( !std::is_same< characteristic, details::no_such_type >::value, "[^"]*" \);', '', '*'),
    (r'static_assert\( characteristic::has_(notification|indication), "[^"]*" \);', r'BT_ASSERT( G_has_\1 );', '*'),
    (r'const auto data = details::find_notification_by_uuid< notification_priority, services, typename characteristic::characteristic_t >::data\(\);', 'const struct notification_data data = find_notification_by_uuid_data();', '*'),
    (r'l2cap_cb_\( data, l2cap_arg_, details::notification_type::(\w+) \)', r'l2cap_cb( data, self->l2cap_arg_, notification_type_\1 )', '*'), (r'if \( l2cap_cb_ \)', 'if ( self->l2cap_cb_ )', '*'),
]
QPRE = [
    (r'auto& connection = static_cast< link_layer< Server, ScheduledRadio, Options\.\.\. >\* >\( that \)->connection_data_;', '', 1),
    (r'bluetoe::details::notification_type::', 'notification_type_', '+'),
    (r'connection\.queue_(notification|indication)\( item\.client_characteristic_configuration_index\(\) \)', r'conn_queue_\1( item.cccd_index )', 2),
    (r'connection\.indication_confirmed\(\);', 'conn_indication_confirmed();', 1),
    (r'static_cast< link_layer< Server, ScheduledRadio, Options\.\.\. >\* >\( that \)->request_event_cancelation\(\);', 'll_request_event_cancelation( that );', 1),
]
T = r'template < class Server, template < std::size_t, std::size_t, class > class ScheduledRadio, typename \.\.\. Options >\s*'
EX = dict(
    ntype=dict(kind='enum', file=ATTR, name='notification_type'),
    notify_value=dict(file=SRV, locate=TS + r'template < class T >\s*bool server< Options\.\.\. >::notify\( const T& value \)', pre=PRE),
    notify_uuid=dict(file=SRV, locate=TS + r'template < class CharacteristicUUID >\s*bool server< Options\.\.\. >::notify\(\)', pre=PRE),
    indicate_value=dict(file=SRV, locate=TS + r'template < class T >\s*bool server< Options\.\.\. >::indicate\( const T& value \)', pre=PRE),
    indicate_uuid=dict(file=SRV, locate=TS + r'template < class CharacteristicUUID >\s*bool server< Options\.\.\. >::indicate\(\)', pre=PRE),
    queue=dict(file=LL, locate=T + r'bool link_layer< Server, ScheduledRadio, Options\.\.\. >::queue_lcap_notification\( const ::bluetoe::details::notification_data& item, void\* that, ::bluetoe::details::notification_type type \)', pre=QPRE, no_members=True),
)
CODE = r'''
{{ntype}};
/* notification_data: the value attribute and the position in the priority sorted list of characteristics with a CCCD (C10: find_notification_data / find_notification_by_uuid, unit notification_index) */
struct notification_data { bool valid; size_t attribute_index; size_t cccd_index; };
struct server { bool l2cap_cb_; void* l2cap_arg_; };
struct notification_data W_data; bool W_cb_result, G_has_notification, G_has_indication;
struct { size_t cb_calls; struct notification_data data; void* arg; int type; size_t q_not, q_ind, confirmed, cancel; size_t q_arg; void* cancel_arg; } G_q;
static inline struct notification_data find_notification_data(const void* value) { return W_data; }
static inline struct notification_data find_notification_by_uuid_data(void) { return W_data; }
static inline bool l2cap_cb(struct notification_data d, void* arg, int type) { ++G_q.cb_calls; G_q.data = d; G_q.arg = arg; G_q.type = type; return W_cb_result; }
#define SRV_OK(self) (__CPROVER_is_fresh(self, sizeof(struct server)) && G_q.cb_calls == 0 && W_data.valid)
/* the request reaches the link layer's call back with exactly the characteristic's data and its kind; without a link layer (no call back) it is refused */
#define FORWARDED(kind) (self->l2cap_cb_ ? (G_q.cb_calls == 1 && G_q.data.attribute_index == W_data.attribute_index && G_q.data.cccd_index == W_data.cccd_index && G_q.arg == self->l2cap_arg_ && G_q.type == (kind) && __CPROVER_return_value == W_cb_result) \
                                         : (G_q.cb_calls == 0 && !__CPROVER_return_value))
bool notify_value(struct server* self, const void* value) __CPROVER_requires(SRV_OK(self)) __CPROVER_ensures(FORWARDED(notification_type_notification)) __CPROVER_assigns(G_q)
{{notify_value}}
bool notify_uuid(struct server* self) __CPROVER_requires(SRV_OK(self) && G_has_notification) __CPROVER_ensures(FORWARDED(notification_type_notification)) __CPROVER_assigns(G_q)
{{notify_uuid}}
bool indicate_value(struct server* self, const void* value) __CPROVER_requires(SRV_OK(self)) __CPROVER_ensures(FORWARDED(notification_type_indication)) __CPROVER_assigns(G_q)
{{indicate_value}}
bool indicate_uuid(struct server* self) __CPROVER_requires(SRV_OK(self) && G_has_indication) __CPROVER_ensures(FORWARDED(notification_type_indication)) __CPROVER_assigns(G_q)
{{indicate_uuid}}
/* ---- the link layer's call back: the request is put into the connection's queue (C12) under the characteristic's queue position */
bool W_queued;
static inline bool conn_queue_notification(size_t i) { ++G_q.q_not; G_q.q_arg = i; return W_queued; }
static inline bool conn_queue_indication(size_t i) { ++G_q.q_ind; G_q.q_arg = i; return W_queued; }
static inline void conn_indication_confirmed(void) { ++G_q.confirmed; }
static inline void ll_request_event_cancelation(void* that) { ++G_q.cancel; G_q.cancel_arg = that; }
int W_type;
bool queue_lcap_notification(struct notification_data item, void* that, int type)
__CPROVER_requires(type == W_type && (W_type == notification_type_notification || W_type == notification_type_indication || W_type == notification_type_confirmation) && item.cccd_index == W_data.cccd_index
    && G_q.q_not == 0 && G_q.q_ind == 0 && G_q.confirmed == 0 && G_q.cancel == 0)
__CPROVER_ensures(W_type == notification_type_notification ==> (G_q.q_not == 1 && G_q.q_ind == 0 && G_q.confirmed == 0 && G_q.q_arg == W_data.cccd_index && __CPROVER_return_value == W_queued))
__CPROVER_ensures(W_type == notification_type_indication ==> (G_q.q_ind == 1 && G_q.q_not == 0 && G_q.confirmed == 0 && G_q.q_arg == W_data.cccd_index && __CPROVER_return_value == W_queued))
/* C11: the confirmation the ATT handler reports (handle_value_confirmation, unit confirmation) ends the outstanding indication - that and nothing else */
__CPROVER_ensures(W_type == notification_type_confirmation ==> (G_q.confirmed == 1 && G_q.q_not == 0 && G_q.q_ind == 0 && G_q.cancel == 0 && __CPROVER_return_value))
/* a connection event that was going to be skipped is pulled forward exactly when something new was queued */
__CPROVER_ensures(W_type != notification_type_confirmation ==> (G_q.cancel == (W_queued ? 1 : 0) && (W_queued ==> G_q.cancel_arg == that)))
__CPROVER_assigns(G_q)
{{queue}}
#define SETUP struct server* s; W_data.valid = nondet_bool(); W_data.attribute_index = nondet_size(); W_data.cccd_index = nondet_size(); W_cb_result = nondet_bool(); W_queued = nondet_bool(); W_type = nondet_int(); \
  G_has_notification = nondet_bool(); G_has_indication = nondet_bool(); G_q.cb_calls = 0; G_q.q_not = 0; G_q.q_ind = 0; G_q.confirmed = 0; G_q.cancel = 0; BT_KNOWN_EXCLUDE()
void h_notify_value(void) { SETUP; notify_value(s, (void*)0); BT_CANARY(); }
void h_notify_uuid(void) { SETUP; notify_uuid(s); BT_CANARY(); }
void h_indicate_value(void) { SETUP; indicate_value(s, (void*)0); BT_CANARY(); }
void h_indicate_uuid(void) { SETUP; indicate_uuid(s); BT_CANARY(); }
void h_queue_lcap_notification(void) { SETUP; struct notification_data it; it.cccd_index = W_data.cccd_index; void* t; queue_lcap_notification(it, t, W_type); BT_CANARY(); }
'''
UNIT = dict(name='request', extracts=EX, code=CODE, enforce=['notify_value', 'notify_uuid', 'indicate_value', 'indicate_uuid', 'queue_lcap_notification'], replace=[])
