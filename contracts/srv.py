"""Shared pieces of bluetoe/server.hpp for the ATT properties (C01, C05-C08, C11)."""
SRV = 'bluetoe/server.hpp'
CODES = 'bluetoe/utility/include/bluetoe/codes.hpp'
TS = r'template < typename \.\.\. Options >\s*'
SQ = r'server< Options\.\.\. >::'

CODES_EX = dict(
    att_opcodes=dict(kind='enum', file=CODES, name='att_opcodes'),
    att_error_codes=dict(kind='enum', file=CODES, name='att_error_codes'),
)
# enum class + bits(): the scoped enumerators get their enum's name as prefix; bits(x) is static_cast<uintN_t>(x)
CODES_CODE = r'''
{{att_opcodes}};
{{att_error_codes}};
#define bits(x) (x)
'''
SRV_RULES = [
    (r'details::att_opcodes::', 'att_opcodes_', '*'),
    (r'details::att_error_codes::', 'att_error_codes_', '*'),
    (r'details::att_error_codes\b', 'enum att_error_codes', '*'),
    (r'\bout_size\b', '(*out_size)', '*'),
]

ERR_EX = dict(
    error_response5=dict(file=SRV, locate=TS + r'void ' + SQ + r'error_response\( std::uint8_t opcode, details::att_error_codes error_code, std::uint16_t handle, std::uint8_t\* output, std::size_t& out_size \)',
                         rules=SRV_RULES),
    error_response4=dict(file=SRV, locate=TS + r'void ' + SQ + r'error_response\( std::uint8_t opcode, details::att_error_codes error_code, std::uint8_t\* output, std::size_t& out_size \)',
                         rules=SRV_RULES),
)
# both overloads of error_response, real bodies; C has no overloading and no references: dispatch on the argument
# count, pass the address of the size_t& argument
ERR_CODE = r'''
#define ER_SEL(_1, _2, _3, _4, _5, NAME, ...) NAME
#define error_response(...) ER_SEL(__VA_ARGS__, error_response5, error_response4)(__VA_ARGS__)
#define error_response5(op, code, h, out, osz) error_response5_((op), (code), (h), (out), &(osz))
#define error_response4(op, code, out, osz) error_response4_((op), (code), (out), &(osz))
void error_response5_(uint8_t opcode, enum att_error_codes error_code, uint16_t handle, uint8_t* output, size_t* out_size)
__CPROVER_requires(__CPROVER_rw_ok(out_size, sizeof(size_t)) && *out_size <= 65535 && __CPROVER_rw_ok(output, *out_size))
__CPROVER_ensures(__CPROVER_old(*out_size) >= 5 ? (*out_size == 5 && output[0] == 0x01 && output[1] == opcode && output[2] == (handle & 0xff)
                                                     && output[3] == (handle >> 8) && output[4] == (uint8_t)error_code)
                                                : *out_size == 0)
__CPROVER_assigns(*out_size, __CPROVER_object_upto(output, 5))
{{error_response5}}
void error_response4_(uint8_t opcode, enum att_error_codes error_code, uint8_t* output, size_t* out_size)
__CPROVER_requires(__CPROVER_rw_ok(out_size, sizeof(size_t)) && *out_size <= 65535 && __CPROVER_rw_ok(output, *out_size))
__CPROVER_ensures(__CPROVER_old(*out_size) >= 5 ? (*out_size == 5 && output[0] == 0x01 && output[1] == opcode && output[2] == 0
                                                     && output[3] == 0 && output[4] == (uint8_t)error_code)
                                                : *out_size == 0)
__CPROVER_assigns(*out_size, __CPROVER_object_upto(output, 5))
{{error_response4}}
'''
