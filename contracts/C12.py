"""C12 Outgoing notification queue is a fair priority queue (also serves C11 and C13)."""
NQ = 'bluetoe/notification_queue.hpp'
IMPL = r'template < int Size, int C >\s*class notification_queue_impl\b'
IMPL1 = r'class notification_queue_impl< 1, C >'
BASE0 = r'class notification_queue_impl_base< std::tuple<>, C >'
STEP = r'class notification_queue_impl_base< std::tuple< std::integral_constant< int, Size >, Ts\.\.\. >, C >'
TOP = r'template < typename Sizes, class Mixin >\s*'

COMMON_RULES = [
    (r'notification_queue_entry_type::', '', '*'),
    (r'details::no_outstanding_indicaton', 'no_outstanding_indicaton', '*'),
]
DEQ_RULES = COMMON_RULES + [
    (r'\boutstanding_confirmation\b', '(*outstanding_confirmation)', '+'),
    (r'return \{', 'return (struct pair_es){', '+'),
]

TYPES = dict(
    entry_enum=dict(kind='text', body='text', file=NQ, locate=r'enum class notification_queue_entry_type \{[^}]*\}',
                    rules=[(r'enum class notification_queue_entry_type', 'enum nqet', 1)], no_members=True),
    no_outstanding=dict(kind='expr', file=NQ, locate=r'static constexpr std::size_t no_outstanding_indicaton\s*=',
                        rules=[(r'size_t\{ 0 \}', '(size_t)0', 1)]),
)
TYPES_CODE = r'''
{{entry_enum}};
#define no_outstanding_indicaton ({{no_outstanding}})
struct pair_es { int first; size_t second; };
'''

IMPL_EX = dict(TYPES,
    char_bits=dict(kind='text', body='text', file=NQ, scope=IMPL, locate=r'enum char_bits \{[^}]*\}', no_members=True),
    bits_per=dict(kind='expr', file=NQ, scope=IMPL, locate=r'static constexpr std::size_t bits_per_characteristc\s*='),
    qbytes=dict(kind='text', body='text', file=NQ, scope=IMPL, locate=r'(?<=queue_\[ )\( Size \* bits_per_characteristc \+ 7 \) / 8(?= \])', no_members=True),
    fields=dict(kind='fields', file=NQ, scope=IMPL, names=['next_', 'queue_'], rules=[(r'queue_\[.*\]', 'queue_[QMAX]', '*')]),
)

IMPL_HEAD = TYPES_CODE + r'''
{{char_bits}};
#define bits_per_characteristc ((size_t)({{bits_per}}))
#ifndef NQ_MAX
#define NQ_MAX 64
#endif
#define QMAX ((NQ_MAX * 2 + 7) / 8)
int G_Size;                       /* template parameter Size: symbolic, constant during a call */
#define Size G_Size
#define QBYTES ((size_t)({{qbytes}}))
struct nq { {{fields}} };

int W_Size, W_bits; size_t W_next, W_index, W_offset, W_outstanding, W_k; uint8_t W_q[QMAX];
size_t G_k;                       /* ghost characteristic index (stands for "every k") */
#define SIZE_OK       (G_Size >= 2 && G_Size <= NQ_MAX && G_Size == W_Size)
#define BITS(q, i)    (((q)[(i) / 4] >> (((i) % 4) * 2)) & 3)
#define BITS_OLD(self, i) ((__CPROVER_old((self)->queue_[(i) / 4]) >> (((i) % 4) * 2)) & 3)
#define NQ_OK(self)   (__CPROVER_is_fresh(self, sizeof(struct nq)) && (self)->next_ < (size_t)G_Size && (self)->next_ == W_next)
/* cyclic distance of position x from the round-robin cursor n */
#define DIST(x, n)    ((x) >= (n) ? (x) - (n) : (x) + (size_t)G_Size - (n))
/* may (characteristic i with bits b) be sent now? */
#define ELIGIBLE(b, out) ((((b) & 2) && (out) == no_outstanding_indicaton) || ((b) & 1))

int at(const struct nq* self, size_t index)
__CPROVER_requires(SIZE_OK && __CPROVER_is_fresh(self, sizeof(struct nq)) && index < (size_t)G_Size)
__CPROVER_ensures(__CPROVER_return_value == BITS(self->queue_, index))
__CPROVER_assigns()
'''
AT = dict(file=NQ, scope=IMPL, locate=r'int at\( std::size_t index \)',
          rules=[(r'sizeof\( self->queue_ \) / sizeof\( self->queue_\[ 0 \] \)', 'QBYTES', 1)])

ADD_DECL = r'''
bool add(struct nq* self, size_t index, int bits)
__CPROVER_requires(SIZE_OK && __CPROVER_is_fresh(self, sizeof(struct nq)) && index < (size_t)G_Size && (bits == 1 || bits == 2))
__CPROVER_requires(G_k < (size_t)G_Size)
__CPROVER_requires(WIT(add, self->next_ == W_next && index == W_index && bits == W_bits && G_k == W_k && self->queue_[index / 4] == W_q[0] && self->queue_[G_k / 4] == W_q[1]))
/* set semantics: newly queued exactly when it was not pending; afterwards pending; nobody else touched */
__CPROVER_ensures(__CPROVER_return_value == ((BITS_OLD(self, index) & bits) == 0))
__CPROVER_ensures(BITS(self->queue_, index) == (BITS_OLD(self, index) | bits))
__CPROVER_ensures(G_k != index ==> BITS(self->queue_, G_k) == BITS_OLD(self, G_k))
__CPROVER_ensures(self->next_ == __CPROVER_old(self->next_))
__CPROVER_assigns(self->queue_[index / 4])
'''
ADD = dict(file=NQ, scope=IMPL, locate=r'bool add\( std::size_t index, int bits \)',
           rules=[(r'sizeof\( self->queue_ \) / sizeof\( self->queue_\[ 0 \] \)', 'QBYTES', 1)])
REMOVE_DECL = r'''
void remove_(struct nq* self, size_t index, int bits)
__CPROVER_requires(SIZE_OK && __CPROVER_is_fresh(self, sizeof(struct nq)) && index < (size_t)G_Size && (bits == 1 || bits == 2))
__CPROVER_requires(G_k < (size_t)G_Size)
__CPROVER_requires(WIT(remove_, self->next_ == W_next && index == W_index && bits == W_bits && G_k == W_k && self->queue_[index / 4] == W_q[0] && self->queue_[G_k / 4] == W_q[1]))
__CPROVER_ensures(BITS(self->queue_, index) == (BITS_OLD(self, index) & ~bits))
__CPROVER_ensures(G_k != index ==> BITS(self->queue_, G_k) == BITS_OLD(self, G_k))
__CPROVER_ensures(self->next_ == __CPROVER_old(self->next_))
__CPROVER_assigns(self->queue_[index / 4])
'''
REMOVE = dict(file=NQ, scope=IMPL, locate=r'void remove\( std::size_t index, int bits \)',
              rules=[(r'sizeof\( self->queue_ \) / sizeof\( self->queue_\[ 0 \] \)', 'QBYTES', 1)])

SETUP = r'''
#define SETUP struct nq* q; W_Size = nondet_int(); G_Size = W_Size; W_next = nondet_size(); W_index = nondet_size(); W_bits = nondet_int(); \
   W_offset = nondet_size(); W_outstanding = nondet_size(); W_k = nondet_size(); G_k = W_k; W_q[0] = nondet_u8(); W_q[1] = nondet_u8(); BT_KNOWN_EXCLUDE()
'''

DEQ_LOOP = dict(header=r'for \( size_t i = self->next_; ignore_first', contract='''
    __CPROVER_assigns(i, ignore_first)
    __CPROVER_loop_invariant(i < (size_t)G_Size && self->next_ == G_next0 && *outstanding_confirmation == G_out0)
    __CPROVER_loop_invariant(ignore_first ==> i == self->next_)
    __CPROVER_loop_invariant(BITS(self->queue_, G_k) == G_bits_k0)
    /* everything cyclically before i has been looked at and was not eligible */
    __CPROVER_loop_invariant((!ignore_first && (i == self->next_ || DIST(G_k, self->next_) < DIST(i, self->next_))) ==> !ELIGIBLE(G_bits_k0, G_out0))
    __CPROVER_decreases(ignore_first ? (size_t)G_Size + 1 : (i == self->next_ ? 0 : (size_t)G_Size - DIST(i, self->next_)))
''')

UNITS = [
    dict(name='at_add_remove',
         extracts=dict(IMPL_EX, at=AT, add=ADD, remove=REMOVE),
         code=IMPL_HEAD + '{{at}}' + ADD_DECL + '{{add}}' + REMOVE_DECL + '{{remove}}' + SETUP + r'''
void h_at(void) { SETUP; at(q, W_index); BT_CANARY(); }
void h_add(void) { SETUP; add(q, W_index, W_bits); BT_CANARY(); }
void h_remove_(void) { SETUP; remove_(q, W_index, W_bits); BT_CANARY(); }
''', enforce=['at', 'add', 'remove_'], replay=dict(src='replay/c12_replay.cpp')),

    dict(name='queue_and_clear',
         extracts=dict(IMPL_EX,
                       qn=dict(file=NQ, scope=IMPL, locate=r'bool queue_notification\( std::size_t index \)', rules=[(r'\badd\( ', 'add( self, ', 1)]),
                       qi=dict(file=NQ, scope=IMPL, locate=r'bool queue_indication\( std::size_t index \)', rules=[(r'\badd\( ', 'add( self, ', 1)]),
                       clear=dict(file=NQ, scope=IMPL, locate=r'void clear_indications_and_confirmations\(\)',
                                  rules=[(r'std::fill\( std::begin\( self->queue_ \), std::end\( self->queue_ \), 0 \)', 'bt_fill_u8( self->queue_, QBYTES, 0 )', 1)]),
                       ctor=dict(file=NQ, scope=IMPL, locate=r'notification_queue_impl\(\)',
                                 rules=[(r'clear_indications_and_confirmations\(\)', 'clear_indications_and_confirmations(self)', 1)])),
         defines=['BT_NEED_FILL'],
         code=IMPL_HEAD + ';' + ADD_DECL + ';' + SETUP + r'''
bool queue_notification(struct nq* self, size_t index)
__CPROVER_requires(SIZE_OK && __CPROVER_is_fresh(self, sizeof(struct nq)) && index < (size_t)G_Size && G_k < (size_t)G_Size)
__CPROVER_requires(self->next_ == W_next && index == W_index && G_k == W_k && self->queue_[index / 4] == W_q[0] && self->queue_[G_k / 4] == W_q[1])
__CPROVER_ensures(__CPROVER_return_value == ((BITS_OLD(self, index) & 1) == 0))
__CPROVER_ensures(BITS(self->queue_, index) == (BITS_OLD(self, index) | 1))
__CPROVER_ensures(G_k != index ==> BITS(self->queue_, G_k) == BITS_OLD(self, G_k))
__CPROVER_ensures(self->next_ == __CPROVER_old(self->next_))
__CPROVER_assigns(self->queue_[index / 4])
{{qn}}
bool queue_indication(struct nq* self, size_t index)
__CPROVER_requires(SIZE_OK && __CPROVER_is_fresh(self, sizeof(struct nq)) && index < (size_t)G_Size && G_k < (size_t)G_Size)
__CPROVER_requires(self->next_ == W_next && index == W_index && G_k == W_k && self->queue_[index / 4] == W_q[0] && self->queue_[G_k / 4] == W_q[1])
__CPROVER_ensures(__CPROVER_return_value == ((BITS_OLD(self, index) & 2) == 0))
__CPROVER_ensures(BITS(self->queue_, index) == (BITS_OLD(self, index) | 2))
__CPROVER_ensures(G_k != index ==> BITS(self->queue_, G_k) == BITS_OLD(self, G_k))
__CPROVER_ensures(self->next_ == __CPROVER_old(self->next_))
__CPROVER_assigns(self->queue_[index / 4])
{{qi}}
void clear_indications_and_confirmations(struct nq* self)
__CPROVER_requires(SIZE_OK && __CPROVER_is_fresh(self, sizeof(struct nq)) && G_k < (size_t)G_Size && G_pre_j == G_k / 4)
__CPROVER_ensures(self->next_ == 0 && BITS(self->queue_, G_k) == 0)
__CPROVER_assigns(self->next_, __CPROVER_object_upto(self->queue_, QBYTES))
{{clear}}
void nq_ctor(struct nq* self)
__CPROVER_requires(SIZE_OK && __CPROVER_is_fresh(self, sizeof(struct nq)) && G_k < (size_t)G_Size && G_pre_j == G_k / 4)
__CPROVER_ensures(self->next_ == 0 && BITS(self->queue_, G_k) == 0)
__CPROVER_assigns(self->next_, __CPROVER_object_upto(self->queue_, QBYTES))
{{ctor}}
void h_queue_notification(void) { SETUP; queue_notification(q, W_index); BT_CANARY(); }
void h_queue_indication(void) { SETUP; queue_indication(q, W_index); BT_CANARY(); }
void h_clear_indications_and_confirmations(void) { SETUP; G_pre_j = nondet_size(); clear_indications_and_confirmations(q); BT_CANARY(); }
void h_nq_ctor(void) { SETUP; G_pre_j = nondet_size(); nq_ctor(q); BT_CANARY(); }
''', enforce=['queue_notification', 'queue_indication', 'clear_indications_and_confirmations', 'nq_ctor'],
         replace=['add', 'bt_fill_u8', 'clear_indications_and_confirmations'], replay=dict(src='replay/c12_replay.cpp')),

    dict(name='prelude_fill', extracts={}, defines=['BT_NEED_FILL', 'BT_FILL_BODY'],
         code=r'''
void h_bt_fill_u8(void) { uint8_t buf[BT_BYTES_MAX]; size_t n = nondet_size(); G_pre_j = nondet_size(); __CPROVER_assume(n <= BT_BYTES_MAX);
  bt_fill_u8(buf, n, nondet_u8()); BT_CANARY(); }
''', enforce=['bt_fill_u8'], extra_loops=1),

    dict(name='dequeue',
         extracts=dict(IMPL_EX,
                       deq=dict(file=NQ, scope=IMPL, locate=r'std::pair< notification_queue_entry_type, std::size_t > dequeue_indication_or_confirmation\( std::size_t offset, std::size_t& outstanding_confirmation \)',
                                rules=DEQ_RULES + [(r'\bat\( i \)', 'at( self, i )', '+'), (r'\bremove\( i,', 'remove_( self, i,', '+')],
                                loops=[DEQ_LOOP])),
         code=IMPL_HEAD + ';' + REMOVE_DECL + ';' + SETUP + r'''
size_t G_next0, G_out0; int G_bits_k0;
/* Round robin within one priority level.  c := returned index - offset.  Stated for one arbitrary characteristic G_k. */
#define C_IDX (__CPROVER_return_value.second - offset)
struct pair_es dequeue(struct nq* self, size_t offset, size_t* outstanding_confirmation)
__CPROVER_requires(SIZE_OK && NQ_OK(self) && __CPROVER_is_fresh(outstanding_confirmation, sizeof(size_t)))
__CPROVER_requires(offset <= 4096 && offset == W_offset && *outstanding_confirmation == W_outstanding)
__CPROVER_requires(G_k < (size_t)G_Size && G_k == W_k && self->queue_[G_k / 4] == W_q[0])
__CPROVER_requires(G_next0 == self->next_ && G_out0 == *outstanding_confirmation && G_bits_k0 == BITS(self->queue_, G_k))
/* empty <=> nothing eligible; and then nothing changes */
__CPROVER_ensures(__CPROVER_return_value.first == empty ==>
    (!ELIGIBLE(G_bits_k0, G_out0) && __CPROVER_return_value.second == 0 && self->next_ == G_next0 && *outstanding_confirmation == G_out0
     && BITS(self->queue_, G_k) == G_bits_k0))
__CPROVER_ensures(__CPROVER_return_value.first == empty || __CPROVER_return_value.first == notification || __CPROVER_return_value.first == indication)
/* a returned entry was pending and eligible, exactly its bit is removed, nobody else is touched */
__CPROVER_ensures(__CPROVER_return_value.first != empty ==> (C_IDX < (size_t)G_Size && self->next_ == (C_IDX + 1) % (size_t)G_Size))
__CPROVER_ensures((__CPROVER_return_value.first != empty && C_IDX == G_k) ==>
    (ELIGIBLE(G_bits_k0, G_out0)
     && __CPROVER_return_value.first == (((G_bits_k0 & 2) && G_out0 == no_outstanding_indicaton) ? indication : notification)
     && BITS(self->queue_, G_k) == (G_bits_k0 & ~(__CPROVER_return_value.first == indication ? 2 : 1))))
__CPROVER_ensures((__CPROVER_return_value.first != empty && C_IDX != G_k) ==> BITS(self->queue_, G_k) == G_bits_k0)
/* an indication is handed out only when none is outstanding, and is then the outstanding one (C11) */
__CPROVER_ensures(__CPROVER_return_value.first == indication ==> (G_out0 == no_outstanding_indicaton && *outstanding_confirmation == __CPROVER_return_value.second))
__CPROVER_ensures(__CPROVER_return_value.first != indication ==> *outstanding_confirmation == G_out0)
/* fairness: nothing eligible that comes cyclically before the returned entry is skipped */
__CPROVER_ensures((__CPROVER_return_value.first != empty && DIST(G_k, G_next0) < DIST(C_IDX, G_next0)) ==> !ELIGIBLE(G_bits_k0, G_out0))
__CPROVER_assigns(self->next_, __CPROVER_object_upto(self->queue_, QBYTES), *outstanding_confirmation)
{{deq}}
void h_dequeue(void) { SETUP; size_t* o; G_next0 = nondet_size(); G_out0 = nondet_size(); G_bits_k0 = nondet_int(); dequeue(q, W_offset, o); BT_CANARY(); }
''', enforce=['dequeue'], replace=['remove_', 'at'], replay=dict(src='replay/c12_replay.cpp')),
]

# ---------------------------------------------------------------------------------------------------------------
# the single-entry specialisation: must obey the SAME abstract contract (pending set of (0, kind)); view = state_ & 3
IMPL1_EX = dict(TYPES,
    char_bits=dict(kind='text', body='text', file=NQ, scope=IMPL1, locate=r'enum char_bits \{[^}]*\}', no_members=True),
    fields=dict(kind='fields', file=NQ, scope=IMPL1, names=['state_']),
)
IMPL1_HEAD = TYPES_CODE + r"""
{{char_bits}};
struct nq1 { {{fields}} };
int W_state; size_t W_index, W_offset, W_outstanding;
#define VIEW(self) ((self)->state_)
#define ELIGIBLE(b, out) ((((b) & 2) && (out) == no_outstanding_indicaton) || ((b) & 1))
#define NQ1_OK(self) (__CPROVER_is_fresh(self, sizeof(struct nq1)) && VIEW(self) <= 3 && VIEW(self) == W_state)
#define SETUP struct nq1* q; W_state = nondet_int(); W_index = nondet_size(); W_offset = nondet_size(); W_outstanding = nondet_size(); BT_KNOWN_EXCLUDE()
"""

UNITS += [
    dict(name='impl1',
         extracts=dict(IMPL1_EX,
                       qn=dict(file=NQ, scope=IMPL1, locate=r'bool queue_notification\( std::size_t idx \)', rules=COMMON_RULES),
                       qi=dict(file=NQ, scope=IMPL1, locate=r'bool queue_indication\( std::size_t idx \)', rules=COMMON_RULES),
                       deq=dict(file=NQ, scope=IMPL1, locate=r'std::pair< notification_queue_entry_type, std::size_t > dequeue_indication_or_confirmation\( std::size_t offset, std::size_t& outstanding_confirmation \)',
                                rules=DEQ_RULES),
                       clear=dict(file=NQ, scope=IMPL1, locate=r'void clear_indications_and_confirmations\(\)', rules=COMMON_RULES),
                       ctor=dict(file=NQ, scope=IMPL1, locate=r'notification_queue_impl\(\)', init_list=True, rules=COMMON_RULES)),
         code=IMPL1_HEAD + r"""
bool queue_notification(struct nq1* self, size_t idx)
__CPROVER_requires(NQ1_OK(self) && idx == 0)
__CPROVER_ensures(__CPROVER_return_value == ((__CPROVER_old(self->state_) & 1) == 0))
__CPROVER_ensures(VIEW(self) == (__CPROVER_old(self->state_) | 1))
__CPROVER_assigns(self->state_)
{{qn}}
bool queue_indication(struct nq1* self, size_t idx)
__CPROVER_requires(NQ1_OK(self) && idx == 0)
__CPROVER_ensures(__CPROVER_return_value == ((__CPROVER_old(self->state_) & 2) == 0))
__CPROVER_ensures(VIEW(self) == (__CPROVER_old(self->state_) | 2))
__CPROVER_assigns(self->state_)
{{qi}}
struct pair_es dequeue(struct nq1* self, size_t offset, size_t* outstanding_confirmation)
__CPROVER_requires(NQ1_OK(self) && __CPROVER_is_fresh(outstanding_confirmation, sizeof(size_t)))
__CPROVER_requires(offset == W_offset && *outstanding_confirmation == W_outstanding)
__CPROVER_ensures(!ELIGIBLE(W_state, W_outstanding) ==>
    (__CPROVER_return_value.first == empty && __CPROVER_return_value.second == 0 && VIEW(self) == W_state && *outstanding_confirmation == W_outstanding))
__CPROVER_ensures(ELIGIBLE(W_state, W_outstanding) ==>
    (__CPROVER_return_value.second == offset
     && __CPROVER_return_value.first == (((W_state & 2) && W_outstanding == no_outstanding_indicaton) ? indication : notification)
     && VIEW(self) == (W_state & ~(__CPROVER_return_value.first == indication ? 2 : 1))
     && *outstanding_confirmation == (__CPROVER_return_value.first == indication ? offset : W_outstanding)))
__CPROVER_assigns(self->state_, *outstanding_confirmation)
{{deq}}
void clear_indications_and_confirmations(struct nq1* self)
__CPROVER_requires(NQ1_OK(self))
__CPROVER_ensures(VIEW(self) == 0)
__CPROVER_assigns(self->state_)
{{clear}}
void nq1_ctor(struct nq1* self)
__CPROVER_requires(__CPROVER_is_fresh(self, sizeof(struct nq1)))
__CPROVER_ensures(VIEW(self) == 0)
__CPROVER_assigns(self->state_)
{{ctor}}
void h_queue_notification(void) { SETUP; queue_notification(q, W_index); BT_CANARY(); }
void h_queue_indication(void) { SETUP; queue_indication(q, W_index); BT_CANARY(); }
void h_dequeue(void) { SETUP; size_t* o; dequeue(q, W_offset, o); BT_CANARY(); }
void h_clear_indications_and_confirmations(void) { SETUP; clear_indications_and_confirmations(q); BT_CANARY(); }
void h_nq1_ctor(void) { SETUP; nq1_ctor(q); BT_CANARY(); }
""", enforce=['queue_notification', 'queue_indication', 'dequeue', 'clear_indications_and_confirmations', 'nq1_ctor'],
         replay=dict(src='replay/c12_replay.cpp')),

    # -----------------------------------------------------------------------------------------------------------
    # priority chaining: induction over the type list.  'impl' = this level (contract proved above, for Size>=2 and
    # for Size==1), 'base' = the lower-priority rest, abstracted by the SAME contract shape (induction hypothesis).
    # Ghost call records say which level was asked what; results are witnessed.
    dict(name='chain_step',
         extracts=dict(TYPES,
                       qn=dict(file=NQ, scope=STEP, locate=r'bool queue_notification\( std::size_t idx \)',
                               rules=[(r'impl::queue_notification\(', 'impl_queue_notification(', 1), (r'base::queue_notification\(', 'base_queue_notification(', 1)]),
                       qi=dict(file=NQ, scope=STEP, locate=r'bool queue_indication\( std::size_t idx \)',
                               rules=[(r'impl::queue_indication\(', 'impl_queue_indication(', 1), (r'base::queue_indication\(', 'base_queue_indication(', 1)]),
                       deq=dict(file=NQ, scope=STEP, locate=r'std::pair< notification_queue_entry_type, std::size_t > dequeue_indication_or_confirmation\( std::size_t offset, std::size_t& outstanding_confirmation \)',
                                rules=COMMON_RULES + [(r'impl::dequeue_indication_or_confirmation\( offset, outstanding_confirmation \)', 'impl_dequeue( offset, outstanding_confirmation )', 1),
                                                      (r'base::dequeue_indication_or_confirmation\( offset \+ Size, outstanding_confirmation \)', 'base_dequeue( offset + Size, outstanding_confirmation )', 1)]),
                       clear=dict(file=NQ, scope=STEP, locate=r'void clear_indications_and_confirmations\(\)',
                                  rules=[(r'impl::clear_indications_and_confirmations\(\)', 'impl_clear()', 1), (r'base::clear_indications_and_confirmations\(\)', 'base_clear()', 1)]),
                       b_qn=dict(file=NQ, scope=BASE0, locate=r'bool queue_notification\( std::size_t \)'),
                       b_qi=dict(file=NQ, scope=BASE0, locate=r'bool queue_indication\( std::size_t \)'),
                       b_deq=dict(file=NQ, scope=BASE0, locate=r'std::pair< notification_queue_entry_type, std::size_t > dequeue_indication_or_confirmation\( std::size_t, std::size_t \)',
                                  rules=COMMON_RULES + [(r'return \{', 'return (struct pair_es){', 1)]),
                       ),
         code=TYPES_CODE + r"""
int G_Size;
#define Size G_Size
size_t W_idx, W_offset; int W_Size; bool W_impl_ret, W_base_ret; int W_impl_first, W_base_first; size_t W_impl_second, W_base_second;
/* ghost call records */
int G_impl_calls, G_base_calls; size_t G_impl_arg, G_base_arg;
bool G_impl_cleared, G_base_cleared;

bool impl_queue_notification(size_t idx)
__CPROVER_requires(idx < (size_t)G_Size)
__CPROVER_ensures(G_impl_calls == __CPROVER_old(G_impl_calls) + 1 && G_impl_arg == idx && __CPROVER_return_value == W_impl_ret)
__CPROVER_assigns(G_impl_calls, G_impl_arg);
bool base_queue_notification(size_t idx)
__CPROVER_ensures(G_base_calls == __CPROVER_old(G_base_calls) + 1 && G_base_arg == idx && __CPROVER_return_value == W_base_ret)
__CPROVER_assigns(G_base_calls, G_base_arg);
bool impl_queue_indication(size_t idx)
__CPROVER_requires(idx < (size_t)G_Size)
__CPROVER_ensures(G_impl_calls == __CPROVER_old(G_impl_calls) + 1 && G_impl_arg == idx && __CPROVER_return_value == W_impl_ret)
__CPROVER_assigns(G_impl_calls, G_impl_arg);
bool base_queue_indication(size_t idx)
__CPROVER_ensures(G_base_calls == __CPROVER_old(G_base_calls) + 1 && G_base_arg == idx && __CPROVER_return_value == W_base_ret)
__CPROVER_assigns(G_base_calls, G_base_arg);
/* a level returns empty with second == 0, or an entry whose index lies in [offset, offset + its size) */
struct pair_es impl_dequeue(size_t offset, size_t* outstanding_confirmation)
__CPROVER_ensures(G_impl_calls == __CPROVER_old(G_impl_calls) + 1 && G_impl_arg == offset)
__CPROVER_ensures(__CPROVER_return_value.first == W_impl_first && __CPROVER_return_value.second == W_impl_second)
__CPROVER_ensures(W_impl_first == empty ? (W_impl_second == 0 && *outstanding_confirmation == __CPROVER_old(*outstanding_confirmation))
                                        : (W_impl_second >= offset && W_impl_second < offset + (size_t)G_Size))
__CPROVER_assigns(G_impl_calls, G_impl_arg, *outstanding_confirmation);
struct pair_es base_dequeue(size_t offset, size_t* outstanding_confirmation)
__CPROVER_ensures(G_base_calls == __CPROVER_old(G_base_calls) + 1 && G_base_arg == offset)
__CPROVER_ensures(__CPROVER_return_value.first == W_base_first && __CPROVER_return_value.second == W_base_second)
__CPROVER_ensures(W_base_first == empty ? W_base_second == 0 : W_base_second >= offset)
__CPROVER_assigns(G_base_calls, G_base_arg, *outstanding_confirmation);
void impl_clear(void) __CPROVER_ensures(G_impl_cleared) __CPROVER_assigns(G_impl_cleared);
void base_clear(void) __CPROVER_ensures(G_base_cleared) __CPROVER_assigns(G_base_cleared);

#define CHAIN_PRE (G_Size >= 1 && G_Size <= 4096 && G_Size == W_Size && G_impl_calls == 0 && G_base_calls == 0)
/* index routing: characteristic idx belongs to this level iff idx < Size; the rest sees idx - Size */
bool queue_notification(size_t idx)
__CPROVER_requires(CHAIN_PRE && idx == W_idx)
__CPROVER_ensures(idx < (size_t)G_Size ? (G_impl_calls == 1 && G_base_calls == 0 && G_impl_arg == idx && __CPROVER_return_value == W_impl_ret)
                                       : (G_impl_calls == 0 && G_base_calls == 1 && G_base_arg == idx - (size_t)G_Size && __CPROVER_return_value == W_base_ret))
__CPROVER_assigns(G_impl_calls, G_impl_arg, G_base_calls, G_base_arg)
{{qn}}
bool queue_indication(size_t idx)
__CPROVER_requires(CHAIN_PRE && idx == W_idx)
__CPROVER_ensures(idx < (size_t)G_Size ? (G_impl_calls == 1 && G_base_calls == 0 && G_impl_arg == idx && __CPROVER_return_value == W_impl_ret)
                                       : (G_impl_calls == 0 && G_base_calls == 1 && G_base_arg == idx - (size_t)G_Size && __CPROVER_return_value == W_base_ret))
__CPROVER_assigns(G_impl_calls, G_impl_arg, G_base_calls, G_base_arg)
{{qi}}
/* strict priority: whatever this level can hand out goes first; the rest is asked only when this level has nothing
   eligible, with its indices shifted by Size */
struct pair_es dequeue(size_t offset, size_t* outstanding_confirmation)
__CPROVER_requires(CHAIN_PRE && offset <= 65535 && offset == W_offset && __CPROVER_is_fresh(outstanding_confirmation, sizeof(size_t)))
__CPROVER_ensures(G_impl_calls == 1 && G_impl_arg == offset)
__CPROVER_ensures(W_impl_first != empty ==> (G_base_calls == 0 && __CPROVER_return_value.first == W_impl_first && __CPROVER_return_value.second == W_impl_second))
__CPROVER_ensures(W_impl_first == empty ==> (G_base_calls == 1 && G_base_arg == offset + (size_t)G_Size
                   && __CPROVER_return_value.first == W_base_first && __CPROVER_return_value.second == W_base_second))
__CPROVER_assigns(G_impl_calls, G_impl_arg, G_base_calls, G_base_arg, *outstanding_confirmation)
{{deq}}
void clear_all(void)
__CPROVER_ensures(G_impl_cleared && G_base_cleared)
__CPROVER_assigns(G_impl_cleared, G_base_cleared)
{{clear}}
/* end of the list: nothing can be queued, nothing is pending */
bool base0_queue_notification(size_t unused) __CPROVER_ensures(!__CPROVER_return_value) __CPROVER_assigns() {{b_qn}}
bool base0_queue_indication(size_t unused) __CPROVER_ensures(!__CPROVER_return_value) __CPROVER_assigns() {{b_qi}}
struct pair_es base0_dequeue(size_t unused, size_t unused2)
__CPROVER_ensures(__CPROVER_return_value.first == empty && __CPROVER_return_value.second == 0) __CPROVER_assigns() {{b_deq}}

#define SETUP W_Size = nondet_int(); G_Size = W_Size; W_idx = nondet_size(); W_offset = nondet_size(); W_impl_ret = nondet_bool(); W_base_ret = nondet_bool(); \
  W_impl_first = nondet_int(); W_base_first = nondet_int(); W_impl_second = nondet_size(); W_base_second = nondet_size(); \
  __CPROVER_assume(W_impl_first >= 0 && W_impl_first <= 2 && W_base_first >= 0 && W_base_first <= 2); \
  G_impl_calls = 0; G_base_calls = 0; G_impl_cleared = 0; G_base_cleared = 0; BT_KNOWN_EXCLUDE()
void h_queue_notification(void) { SETUP; queue_notification(W_idx); BT_CANARY(); }
void h_queue_indication(void) { SETUP; queue_indication(W_idx); BT_CANARY(); }
void h_dequeue(void) { SETUP; size_t* o; dequeue(W_offset, o); BT_CANARY(); }
void h_clear_all(void) { SETUP; clear_all(); BT_CANARY(); }
void h_base0_queue_notification(void) { SETUP; base0_queue_notification(W_idx); BT_CANARY(); }
void h_base0_queue_indication(void) { SETUP; base0_queue_indication(W_idx); BT_CANARY(); }
void h_base0_dequeue(void) { SETUP; base0_dequeue(W_idx, W_offset); BT_CANARY(); }
""", enforce=['queue_notification', 'queue_indication', 'dequeue', 'clear_all', 'base0_queue_notification', 'base0_queue_indication', 'base0_dequeue'],
         replace=['impl_queue_notification', 'base_queue_notification', 'impl_queue_indication', 'base_queue_indication', 'impl_dequeue', 'base_dequeue', 'impl_clear', 'base_clear'],
         trusted=["chain_step: the lower-priority rest of the type list is represented by the same contract shape (induction hypothesis over the finite type list)"]),

    # -----------------------------------------------------------------------------------------------------------
    dict(name='top',
         extracts=dict(TYPES,
                       fields=dict(kind='fields', file=NQ, scope=r'class notification_queue : public Mixin', names=['outstanding_confirmation_index_']),
                       confirmed=dict(file=NQ, locate=TOP + r'void notification_queue< Sizes, Mixin >::indication_confirmed\(\)', rules=COMMON_RULES),
                       deq=dict(file=NQ, locate=TOP + r'std::pair< details::notification_queue_entry_type, std::size_t > notification_queue< Sizes, Mixin >::dequeue_indication_or_confirmation\(\)',
                                rules=[(r'impl::dequeue_indication_or_confirmation\( 0, self->outstanding_confirmation_index_ \)', 'impl_dequeue( 0, &self->outstanding_confirmation_index_ )', 1)]),
                       clear=dict(file=NQ, locate=TOP + r'void notification_queue< Sizes, Mixin >::clear_indications_and_confirmations\(\)',
                                  rules=COMMON_RULES + [(r'impl::clear_indications_and_confirmations\(\)', 'impl_clear()', 1)]),
                       ctor=dict(file=NQ, locate=TOP + r'template < class \.\.\. Args >\s*notification_queue< Sizes, Mixin >::notification_queue\( Args\.\.\. mixin_arguments \)',
                                 init_list=True, init_skip=[r'^Mixin\('], rules=COMMON_RULES),
                       qn=dict(file=NQ, locate=TOP + r'bool notification_queue< Sizes, Mixin >::queue_notification\( std::size_t index \)',
                               rules=[(r'impl::queue_notification\(', 'impl_queue_notification(', 1)]),
                       qi=dict(file=NQ, locate=TOP + r'bool notification_queue< Sizes, Mixin >::queue_indication\( std::size_t index \)',
                               rules=[(r'impl::queue_indication\(', 'impl_queue_indication(', 1)])),
         code=TYPES_CODE + r"""
struct nqtop { {{fields}} };
size_t W_out, W_index, W_second; int W_first; bool W_ret; bool G_cleared; size_t G_arg; int G_kind;
struct pair_es impl_dequeue(size_t offset, size_t* outstanding_confirmation)
__CPROVER_requires(offset == 0)
__CPROVER_ensures(__CPROVER_return_value.first == W_first && __CPROVER_return_value.second == W_second)
__CPROVER_ensures(W_first == indication ? (__CPROVER_old(*outstanding_confirmation) == no_outstanding_indicaton && *outstanding_confirmation == W_second)
                                        : *outstanding_confirmation == __CPROVER_old(*outstanding_confirmation))
__CPROVER_assigns(*outstanding_confirmation);
void impl_clear(void) __CPROVER_ensures(G_cleared) __CPROVER_assigns(G_cleared);
bool impl_queue_notification(size_t idx) __CPROVER_ensures(G_arg == idx && G_kind == 1 && __CPROVER_return_value == W_ret) __CPROVER_assigns(G_arg, G_kind);
bool impl_queue_indication(size_t idx) __CPROVER_ensures(G_arg == idx && G_kind == 2 && __CPROVER_return_value == W_ret) __CPROVER_assigns(G_arg, G_kind);

#define TOP_OK(self) (__CPROVER_is_fresh(self, sizeof(struct nqtop)) && (self)->outstanding_confirmation_index_ == W_out)
void indication_confirmed(struct nqtop* self)
__CPROVER_requires(TOP_OK(self))
__CPROVER_ensures(self->outstanding_confirmation_index_ == no_outstanding_indicaton)
__CPROVER_assigns(self->outstanding_confirmation_index_)
{{confirmed}}
/* at most one indication outstanding: an indication leaves the queue only when none is outstanding and is then recorded */
struct pair_es dequeue(struct nqtop* self)
__CPROVER_requires(TOP_OK(self))
__CPROVER_ensures(__CPROVER_return_value.first == W_first && __CPROVER_return_value.second == W_second)
__CPROVER_ensures(__CPROVER_return_value.first == indication ==> (W_out == no_outstanding_indicaton && self->outstanding_confirmation_index_ == W_second))
__CPROVER_ensures(__CPROVER_return_value.first != indication ==> self->outstanding_confirmation_index_ == W_out)
__CPROVER_assigns(self->outstanding_confirmation_index_)
{{deq}}
void clear_all(struct nqtop* self)
__CPROVER_requires(TOP_OK(self))
__CPROVER_ensures(self->outstanding_confirmation_index_ == no_outstanding_indicaton && G_cleared)
__CPROVER_assigns(self->outstanding_confirmation_index_, G_cleared)
{{clear}}
void top_ctor(struct nqtop* self)
__CPROVER_requires(__CPROVER_is_fresh(self, sizeof(struct nqtop)))
__CPROVER_ensures(self->outstanding_confirmation_index_ == no_outstanding_indicaton)
__CPROVER_assigns(self->outstanding_confirmation_index_)
{{ctor}}
bool queue_notification(struct nqtop* self, size_t index)
__CPROVER_requires(TOP_OK(self) && index == W_index)
__CPROVER_ensures(G_arg == index && G_kind == 1 && __CPROVER_return_value == W_ret && self->outstanding_confirmation_index_ == W_out)
__CPROVER_assigns(G_arg, G_kind)
{{qn}}
bool queue_indication(struct nqtop* self, size_t index)
__CPROVER_requires(TOP_OK(self) && index == W_index)
__CPROVER_ensures(G_arg == index && G_kind == 2 && __CPROVER_return_value == W_ret && self->outstanding_confirmation_index_ == W_out)
__CPROVER_assigns(G_arg, G_kind)
{{qi}}
#define SETUP struct nqtop* q; W_out = nondet_size(); W_index = nondet_size(); W_second = nondet_size(); W_first = nondet_int(); W_ret = nondet_bool(); \
  __CPROVER_assume(W_first >= 0 && W_first <= 2); G_cleared = 0; BT_KNOWN_EXCLUDE()
void h_indication_confirmed(void) { SETUP; indication_confirmed(q); BT_CANARY(); }
void h_dequeue(void) { SETUP; dequeue(q); BT_CANARY(); }
void h_clear_all(void) { SETUP; clear_all(q); BT_CANARY(); }
void h_top_ctor(void) { SETUP; top_ctor(q); BT_CANARY(); }
void h_queue_notification(void) { SETUP; queue_notification(q, W_index); BT_CANARY(); }
void h_queue_indication(void) { SETUP; queue_indication(q, W_index); BT_CANARY(); }
""", enforce=['indication_confirmed', 'dequeue', 'clear_all', 'top_ctor', 'queue_notification', 'queue_indication'],
         replace=['impl_dequeue', 'impl_clear', 'impl_queue_notification', 'impl_queue_indication']),
]

META = dict(
    level='proof',
    explanation="notification_queue_impl<Size>'s at/add/remove/queue_notification/queue_indication/dequeue/clear/ctor are extracted and proved "
                "for symbolic Size (2..64) against set semantics stated for one arbitrary ghost characteristic: add reports 'newly queued' "
                "exactly when the bit was clear and changes no other characteristic; dequeue returns the cyclically first eligible entry "
                "from the round-robin cursor, removes exactly that bit, advances the cursor, hands out an indication only when none is "
                "outstanding; empty is returned exactly when nothing is eligible (loop closed by an inductive invariant, no unwinding).",
    assumptions=["Size symbolic in [2,64] (array dimension bound); offsets <= 4096"],
    trusted_base=["bt_fill_u8 stands for std::fill over bytes (its own contract is enforced on its C body in unit prelude_fill)"],
)
