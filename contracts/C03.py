"""C03 Primary service discovery never reports secondary services."""
import os, sys
sys.path.insert(0, os.path.dirname(__file__))
from common import BITS_EXTRACTS, BITS_CODE
SRV = 'bluetoe/server.hpp'
SVC = 'bluetoe/service.hpp'
CODES = 'bluetoe/utility/include/bluetoe/codes.hpp'
AH = 'bluetoe/attribute_handle.hpp'
VF = r'struct value_filter\s*(?=\{)'
CF = r'struct collect_find_by_type_groups\s*(?=\{)'
SBG = r'struct services_by_group\s*(?=\{)'
CPS = r'struct collect_primary_services\s*(?=\{)'
R = [(r'bits\( details::gatt_uuids::primary_service \)', 'GATT_PRIMARY_SERVICE', '*'),
     (r'details::attribute_access_arguments::compare_value\( self->begin_, self->end_, &self->server_ \)', 'args_compare_value( self->begin_, self->end_ )', '*'),
     (r'attr\.access\( read, 1 \) == details::attribute_access_result::value_equal', 'ATTR_ACCESS( attr, &read ) == attribute_access_result_value_equal', '*'),
     (r'\battr\.uuid\b', 'attr->uuid', '*'),
     (r'details::write_handle\(', 'write_handle(', '*'), (r'details::invalid_attribute_index', 'invalid_attribute_index', '*'),
     (r'details::handle_index_mapping< Server >::(first_index_by_handle|handle_by_index)\(', r'\1(', '*'), (r'\bmapping::handle_by_index\(', 'handle_by_index(', '*'),
     (r'using mapping = details::handle_index_mapping< Server >;', '', '*'), (r'using mapping = typename Server::handle_mapping;', '', '*'),
     (r'const details::attribute& attr = Server::attribute_at\( self->index_ \);', 'const struct attribute* attr = attribute_at( self->index_ );', '*'),
     (r'Server::attribute_at\( self->index_ \)\.uuid', 'attribute_at( self->index_ )->uuid', '*'),
     (r'self->filter_\( self->index_, attr \)', 'vf_call( self->filter_, self->index_, attr )', '*'),
     (r'self->iterator_\.template operator\(\)< Service >\(', 'cf_call( self->iterator_,', '*'), (r'self->found_\b', '(*self->found_)', '*'),
     (r'Service::number_of_attributes', 'service->number_of_attributes', '*'), (r'Service::uuid::is_128bit', 'service->is_128bit', '*'),
     (r'Service::template read_primary_service_response< CCCDIndices, 0, ServiceList, Server >\( self->output_, self->end_, self->index_, self->is_128bit_uuid_, self->server_ \)',
      'read_primary_service_response( service, *self->output_, self->end_, self->index_, self->is_128bit_uuid_ )', '*'),
     (r'self->output_ = read_primary_service_response', '*self->output_ = read_primary_service_response', '*'),
     (r'self->attribute_data_size_(\s*)=', r'*self->attribute_data_size_\1=', '*'),
     (r'(?<![\w>.])uuid::is_128bit', 'service->is_128bit', '*'), (r'(?<![\w>.])number_of_attributes\b', 'service->number_of_attributes', '*'),
     (r'const details::attribute primary_service = attribute_at< CCCDIndices, ClientCharacteristicIndex, ServiceList, Server >\( 0 \);', '', '*'),
     (r'auto read = details::attribute_access_arguments::read\( output, end, 0,\s*details::client_characteristic_configuration\(\),\s*connection_security_attributes\(\),\s*&server \);', 'struct attribute_access_arguments read = args_read0( output, end );', '*'),
     (r'__auto_type read = details::attribute_access_arguments::read\( output, end, 0,\s*details::client_characteristic_configuration\(\),\s*connection_security_attributes\(\),\s*&server \);', 'struct attribute_access_arguments read = args_read0( output, end );', '*'),
     (r'primary_service\.access\( read, 1 \) == details::attribute_access_result::success', 'service_declaration_read( service, &read ) == attribute_access_result_success', '*'),
     (r'__auto_type read = args_compare_value', 'struct attribute_access_arguments read = args_compare_value', '*')]
EX = dict(BITS_EXTRACTS,
    inv_index=dict(kind='expr', file=AH, locate=r'static constexpr std::size_t\s+invalid_attribute_index\s*=(?=\s*~)'),
    vf_call=dict(file=SRV, scope=VF, locate=r'bool operator\(\)\( std::uint16_t, const details::attribute& attr \) const', rules=R),
    cf_call=dict(file=SRV, scope=CF, locate=r'template < typename Service >\s*bool operator\(\)\( std::uint16_t start_handle, std::uint16_t end_handle, const details::attribute& \)', rules=R),
    cf_size=dict(file=SRV, scope=CF, locate=r'std::(?:size_t|uint8_t|uint16_t) size\(\) const'),
    cf_size_type=dict(kind='text', body='text', file=SRV, scope=CF, locate=r'std::\w+(?= size\(\) const)', no_members=True),   # the return type is part of what is verified: a narrow one cuts the size
    sbg_each=dict(file=SRV, scope=SBG, locate=r'template< typename Service >\s*void each\(\)', rules=R),
    cps_each=dict(file=SRV, scope=CPS, locate=r'template< typename Service >\s*void each\(\)', rules=R),
    rpsr=dict(file=SVC, locate=r'template < typename \.\.\. Options >\s*template < typename CCCDIndices, std::size_t ClientCharacteristicIndex, typename ServiceList, typename Server >\s*std::uint8_t\* service< Options\.\.\. >::read_primary_service_response\( std::uint8_t\* output, std::uint8_t\* end, std::size_t starting_index, bool is_128bit_filter, Server& server \)', rules=R),
)
CODE = BITS_CODE + r'''
#define invalid_attribute_index ((size_t)({{inv_index}}))
#define GATT_PRIMARY_SERVICE 0x2800
#define GATT_SECONDARY_SERVICE 0x2801
enum attribute_access_result { attribute_access_result_success = 0, attribute_access_result_value_equal = 0x101, attribute_access_result_write_not_permitted = 3 };
enum attribute_access_type { attribute_access_type_read, attribute_access_type_write, attribute_access_type_compare_128bit_uuid, attribute_access_type_compare_value };
struct attribute_access_arguments { enum attribute_access_type type; uint8_t* buffer; size_t buffer_size; size_t buffer_offset; };
struct attribute { uint16_t uuid; int access_id; };
/* ---- the declared data base, abstract: N attributes with strictly increasing handles (C04), the first attribute of every service is its declaration */
#ifndef N_MAX
#define N_MAX 64
#endif
size_t G_N; uint16_t G_H[N_MAX]; struct attribute G_attr[N_MAX];
#define TABLE_OK (G_N >= 1 && G_N <= N_MAX)
static inline const struct attribute* attribute_at(size_t i) { __CPROVER_assert(i < G_N, "attribute_at: index in range"); return &G_attr[i]; }
static inline uint16_t handle_by_index(size_t i) { return i < G_N ? G_H[i] : 0; }
size_t W_first_start, W_first_end;
size_t first_index_by_handle(uint16_t handle) __CPROVER_ensures(__CPROVER_return_value == invalid_attribute_index || __CPROVER_return_value < G_N) __CPROVER_assigns();
/* Service: what the type carries */
struct service { size_t number_of_attributes; bool is_128bit; };
/* witnesses (all units) */
uint16_t W_end_handle; size_t W_start, W_index, W_vsize, W_room, W_used, W_out_used, W_out_room; bool W_found, W_filter, W_iter, W_is128_filter, W_stoped, W_first, W_is128; struct service W_svc; int W_access_result; uint16_t W_attr_uuid;
/* factories of attribute_access_arguments, access functions: abstract, the call is recorded */
struct a_rec { size_t access_calls; int access_type; const uint8_t* access_buf; size_t access_size; int access_id; size_t decl_reads; } G_a;
static inline struct attribute_access_arguments args_compare_value(const uint8_t* begin, const uint8_t* end) { return (struct attribute_access_arguments){ attribute_access_type_compare_value, (uint8_t*)begin, (size_t)(end - begin), 0 }; }
static inline struct attribute_access_arguments args_read0(uint8_t* begin, uint8_t* end) { return (struct attribute_access_arguments){ attribute_access_type_read, begin, (size_t)(end - begin), 0 }; }
static inline enum attribute_access_result ATTR_ACCESS(const struct attribute* attr, struct attribute_access_arguments* args) { ++G_a.access_calls; G_a.access_type = args->type; G_a.access_buf = args->buffer; G_a.access_size = args->buffer_size; G_a.access_id = attr->access_id; return (enum attribute_access_result)W_access_result; }
/* reading a service declaration yields the service's UUID, 2 or 16 octets (generate_attribute< service_defintion_tag >::access, C06's area) */
enum attribute_access_result service_declaration_read(const struct service* s, struct attribute_access_arguments* args)
__CPROVER_requires(__CPROVER_rw_ok(args, sizeof(*args)) && args->type == attribute_access_type_read && (args->buffer_size == 0 || __CPROVER_rw_ok(args->buffer, args->buffer_size)))
__CPROVER_ensures(__CPROVER_return_value == attribute_access_result_success && args->buffer_size == BT_MIN(__CPROVER_old(args->buffer_size), (size_t)(s->is_128bit ? 16 : 2)) && G_a.decl_reads == __CPROVER_old(G_a.decl_reads) + 1)
__CPROVER_assigns(args->buffer_size, G_a.decl_reads) __CPROVER_assigns(args->buffer_size != 0: __CPROVER_object_upto(args->buffer, args->buffer_size));

/* ================= Find By Type Value( «Primary Service», UUID ) */
struct value_filter { const uint8_t* begin_; const uint8_t* end_; int server_; };
/* a service is found only through a declaration attribute of type «Primary Service» whose value (the service UUID) equals the requested one */
bool vf_call(const struct value_filter* self, uint16_t index, const struct attribute* attr)
__CPROVER_requires(__CPROVER_is_fresh(self, sizeof(*self)) && W_vsize <= 16 && __CPROVER_is_fresh(self->begin_, 16) && self->end_ == self->begin_ + W_vsize && __CPROVER_is_fresh(attr, sizeof(*attr)) && attr->uuid == W_attr_uuid && G_a.access_calls == 0)
__CPROVER_ensures(__CPROVER_return_value == (W_attr_uuid == GATT_PRIMARY_SERVICE && W_access_result == attribute_access_result_value_equal))
__CPROVER_ensures(G_a.access_calls <= 1 && (G_a.access_calls == 1 ==> (G_a.access_type == attribute_access_type_compare_value && G_a.access_buf == self->begin_ && G_a.access_size == W_vsize && G_a.access_id == attr->access_id)))
__CPROVER_assigns(G_a)
{{vf_call}}
struct collect_find { uint8_t* begin_; uint8_t* end_; uint8_t* current_; };
/* the response buffer behind the opcode: up to an MTU of 400 (bounds straddle 255 / 256: the collected size must not be cut to 8 bit) */
#define CF_ROOM 400
uint8_t G_buf[CF_ROOM];
#define CF_OK(self) (__CPROVER_is_fresh(self, sizeof(struct collect_find)) && W_used <= W_room && W_room <= CF_ROOM && __CPROVER_pointer_equals((self)->begin_, &G_buf[0]) && __CPROVER_pointer_equals((self)->end_, &G_buf[0] + W_room) && __CPROVER_pointer_equals((self)->current_, &G_buf[0] + W_used))
/* one handle pair per found service, only while 4 octets of room are left */
bool cf_call(struct collect_find* self, uint16_t start_handle, uint16_t end_handle, const struct attribute* attr)
__CPROVER_requires(CF_OK(self))
__CPROVER_ensures(__CPROVER_return_value == (W_room - W_used >= 4))
__CPROVER_ensures(__CPROVER_return_value ? (self->current_ == &G_buf[0] + W_used + 4 && G_buf[W_used] == (start_handle & 0xff) && G_buf[W_used + 1] == (start_handle >> 8) && G_buf[W_used + 2] == (end_handle & 0xff) && G_buf[W_used + 3] == (end_handle >> 8))
                                         : self->current_ == &G_buf[0] + W_used)
__CPROVER_assigns(self->current_, __CPROVER_object_whole(G_buf))
{{cf_call}}
struct sbg { size_t starting_index_; uint16_t ending_handle_; size_t index_; struct collect_find* iterator_; const struct value_filter* filter_; bool* found_; };
struct s_rec { size_t filter_calls, iter_calls; uint16_t iter_start, iter_end; size_t filter_index; } G_sr;
/* the service that starts at attribute W_index is in the requested range: not in front of the first attribute of the range, and its handle is not above the ending handle */
#define IN_RANGE (W_start != invalid_attribute_index && W_start <= W_index && G_H[W_index] <= W_end_handle)
#define SVC_OK(s) (__CPROVER_is_fresh(s, sizeof(struct service)) && (s)->number_of_attributes == W_svc.number_of_attributes && (s)->is_128bit == W_svc.is_128bit && W_svc.number_of_attributes >= 1 && W_svc.number_of_attributes <= N_MAX && W_index < N_MAX && W_index + W_svc.number_of_attributes <= G_N)
/* services_by_group< Iterator, Filter, ... >::each< Service >(): the service whose declaration is attribute index_ is offered to the filter iff it lies in the requested range; it is reported
   (first handle, last handle) iff the filter accepts its declaration; the walk always moves on by the service's number of attributes */
void sbg_each(struct sbg* self, const struct service* service)
__CPROVER_requires(TABLE_OK && __CPROVER_is_fresh(self, sizeof(struct sbg)) && self->starting_index_ == W_start && self->ending_handle_ == W_end_handle && self->index_ == W_index && W_index < G_N && SVC_OK(service)
    && __CPROVER_is_fresh(self->found_, sizeof(bool)) && *self->found_ == W_found && G_sr.filter_calls == 0 && G_sr.iter_calls == 0)
__CPROVER_ensures(self->index_ == W_index + W_svc.number_of_attributes)
__CPROVER_ensures(G_sr.filter_calls == (IN_RANGE ? 1 : 0) && (IN_RANGE ==> G_sr.filter_index == W_index) && G_sr.iter_calls == ((IN_RANGE && W_filter) ? 1 : 0))
__CPROVER_ensures(G_sr.iter_calls == 1 ==> (G_sr.iter_start == G_H[W_index] && G_sr.iter_end == G_H[W_index + W_svc.number_of_attributes - 1]))
__CPROVER_ensures(*self->found_ == (W_found || (IN_RANGE && W_filter && W_iter)))
__CPROVER_assigns(self->index_, *self->found_, G_sr)
{{sbg_each}}
'''
CODE2 = r'''
/* ================= Read By Group Type( «Primary Service» ) */
uint8_t G_out[64];
#define OUT_PTR(p) (__CPROVER_pointer_equals(p, &G_out[0] + W_out_used))
struct r_rec { size_t calls; size_t index; bool filter128; } G_rr;
/* one entry of the response: first handle, last handle, service UUID - only for a service whose UUID size is the response's and only if the whole entry fits */
uint8_t* read_primary_service_response(const struct service* service, uint8_t* output, uint8_t* end, size_t starting_index, bool is_128bit_filter)
#define RPSR_BODY
__CPROVER_requires(TABLE_OK && SVC_OK(service) && W_out_used <= W_out_room && W_out_room <= 64 && OUT_PTR(output) && __CPROVER_pointer_equals(end, &G_out[0] + W_out_room) && starting_index == W_index && W_index < G_N && WIT(read_primary_service_response, is_128bit_filter == W_is128_filter && G_a.decl_reads == 0))
__CPROVER_ensures((is_128bit_filter == W_svc.is_128bit && W_out_room - W_out_used >= (size_t)(is_128bit_filter ? 20 : 6))
    ? (__CPROVER_return_value == &G_out[0] + W_out_used + (is_128bit_filter ? 20 : 6) && G_out[W_out_used] == (G_H[W_index] & 0xff) && G_out[W_out_used + 1] == (G_H[W_index] >> 8)
       && G_out[W_out_used + 2] == (G_H[W_index + W_svc.number_of_attributes - 1] & 0xff) && G_out[W_out_used + 3] == (G_H[W_index + W_svc.number_of_attributes - 1] >> 8) && G_a.decl_reads == __CPROVER_old(G_a.decl_reads) + 1)
    : (__CPROVER_return_value == &G_out[0] + W_out_used && G_a.decl_reads == __CPROVER_old(G_a.decl_reads)))
__CPROVER_ensures(G_rr.calls == __CPROVER_old(G_rr.calls) + 1 && G_rr.index == starting_index && G_rr.filter128 == is_128bit_filter)
__CPROVER_assigns(__CPROVER_object_whole(G_out), G_a.decl_reads, G_rr)
{ ++G_rr.calls; G_rr.index = starting_index; G_rr.filter128 = is_128bit_filter; /* ghost recording, then the real body */
{{rpsr}}
}
struct cps { uint8_t** output_; uint8_t* end_; size_t index_; size_t starting_index_; uint16_t ending_handle_; bool stoped_; bool first_; bool is_128bit_uuid_; uint8_t* attribute_data_size_; int server_; };
uint8_t* G_cursor; uint8_t G_ads;
#define PRIMARY_AT (G_attr[W_index].uuid == GATT_PRIMARY_SERVICE)
#define CPS_TAKES (!W_stoped && IN_RANGE && PRIMARY_AT)
/* collect_primary_services< ... >::each< Service >(): the service whose declaration is attribute index_ contributes an entry only if it is in the requested range AND its declaration is of
   type «Primary Service»; a secondary service neither contributes nor influences the UUID size of the response; the walk always moves on by the service's number of attributes */
void cps_each(struct cps* self, const struct service* service)
__CPROVER_requires(TABLE_OK && __CPROVER_is_fresh(self, sizeof(struct cps)) && self->starting_index_ == W_start && self->ending_handle_ == W_end_handle && self->index_ == W_index && W_index < G_N && SVC_OK(service)
    && self->stoped_ == W_stoped && self->first_ == W_first && self->is_128bit_uuid_ == W_is128 && W_out_used <= W_out_room && W_out_room <= 64 && G_rr.calls == 0)
__CPROVER_requires(__CPROVER_pointer_equals(self->output_, &G_cursor) && __CPROVER_pointer_equals(self->attribute_data_size_, &G_ads) && __CPROVER_pointer_equals(self->end_, &G_out[0] + W_out_room) && G_cursor == &G_out[0] + W_out_used)
__CPROVER_ensures(self->index_ == W_index + W_svc.number_of_attributes)
__CPROVER_ensures(G_rr.calls == (CPS_TAKES ? 1 : 0) && (CPS_TAKES ==> (G_rr.index == W_index && G_rr.filter128 == (W_first ? W_svc.is_128bit : W_is128))))
/* the first service taken fixes the UUID size and the length octet of the response; a later one of another size stops the collection (after its own - empty - turn) */
__CPROVER_ensures((CPS_TAKES && W_first) ==> (!self->first_ && self->is_128bit_uuid_ == W_svc.is_128bit && G_ads == (W_svc.is_128bit ? 20 : 6)))
__CPROVER_ensures((CPS_TAKES && !W_first && W_is128 != W_svc.is_128bit) ==> self->stoped_)
__CPROVER_ensures(!CPS_TAKES ==> (self->first_ == W_first && self->is_128bit_uuid_ == W_is128 && self->stoped_ == W_stoped && G_cursor == &G_out[0] + W_out_used))
__CPROVER_assigns(self->index_, self->first_, self->is_128bit_uuid_, self->stoped_, G_ads, G_cursor, G_rr, G_a.decl_reads, __CPROVER_object_whole(G_out))
{{cps_each}}
'''
HARN = r'''
#define SETUP G_N = nondet_size(); W_start = nondet_size(); W_end_handle = nondet_u16(); W_index = nondet_size(); W_found = nondet_bool(); W_filter = nondet_bool(); W_iter = nondet_bool(); W_svc.number_of_attributes = nondet_size(); W_svc.is_128bit = nondet_bool(); \
  W_access_result = nondet_int(); W_attr_uuid = nondet_u16(); W_vsize = nondet_size(); W_room = nondet_size(); W_used = nondet_size(); W_out_used = nondet_size(); W_out_room = nondet_size(); W_is128_filter = nondet_bool(); W_stoped = nondet_bool(); W_first = nondet_bool(); W_is128 = nondet_bool(); \
  G_a = (struct a_rec){ 0 }; BT_KNOWN_EXCLUDE()
'''
SBG_STUBS = r'''
bool vf_call(const struct value_filter* f, uint16_t index, const struct attribute* attr) __CPROVER_ensures(__CPROVER_return_value == W_filter && G_sr.filter_calls == __CPROVER_old(G_sr.filter_calls) + 1 && G_sr.filter_index == index) __CPROVER_assigns(G_sr.filter_calls, G_sr.filter_index);
bool cf_call(struct collect_find* it, uint16_t s, uint16_t e, const struct attribute* attr) __CPROVER_ensures(__CPROVER_return_value == W_iter && G_sr.iter_calls == __CPROVER_old(G_sr.iter_calls) + 1 && G_sr.iter_start == s && G_sr.iter_end == e) __CPROVER_assigns(G_sr.iter_calls, G_sr.iter_start, G_sr.iter_end);
'''
UNITS = [
    dict(name='find_by_type_value', extracts={k: v for k, v in EX.items() if k in BITS_EXTRACTS or k in ('inv_index', 'vf_call', 'cf_call', 'cf_size', 'cf_size_type')},
         code=(CODE[:CODE.index('struct sbg {')] + HARN + r'''
/* the number of octets collected (C02: every matching group that fits is returned - also when they are more than 255 octets) */
{{cf_size_type}} cf_size(const struct collect_find* self) __CPROVER_requires(CF_OK(self)) __CPROVER_ensures(__CPROVER_return_value == W_used) __CPROVER_assigns()
{{cf_size}}
void h_vf_call(void) { SETUP; struct value_filter* f; struct attribute* a; vf_call(f, nondet_u16(), a); BT_CANARY(); }
void h_cf_call(void) { SETUP; struct collect_find* c; struct attribute a; cf_call(c, nondet_u16(), nondet_u16(), &a); BT_CANARY(); }
void h_cf_size(void) { SETUP; struct collect_find* c; cf_size(c); BT_CANARY(); }
'''), enforce=['vf_call', 'cf_call', 'cf_size'], replace=[], replay=dict(src='replay/c03_replay.cpp', cxxflags=['-DNDEBUG'])),
    dict(name='services_by_group', extracts={k: v for k, v in EX.items() if k in BITS_EXTRACTS or k in ('inv_index', 'sbg_each')},
         code=(CODE[:CODE.index('/* ================= Find By Type Value')] + 'struct value_filter; struct collect_find;\n' + CODE[CODE.index('struct sbg {'):].replace('void sbg_each(', SBG_STUBS + 'void sbg_each(') + HARN + r'''
void h_sbg_each(void) { SETUP; struct sbg* s; struct service* v; G_sr = (struct s_rec){ 0 }; sbg_each(s, v); BT_CANARY(); }
'''), enforce=['sbg_each'], replace=['vf_call', 'cf_call', 'first_index_by_handle']),
    dict(name='read_by_group_type', extracts={k: v for k, v in EX.items() if k in BITS_EXTRACTS or k in ('inv_index', 'cps_each', 'rpsr')},
         code=(CODE[:CODE.index('/* ================= Find By Type Value')] + '#define IN_RANGE (W_start != invalid_attribute_index && W_start <= W_index && G_H[W_index] <= W_end_handle)\n'
               '#define SVC_OK(s) (__CPROVER_is_fresh(s, sizeof(struct service)) && (s)->number_of_attributes == W_svc.number_of_attributes && (s)->is_128bit == W_svc.is_128bit && W_svc.number_of_attributes >= 1 && W_svc.number_of_attributes <= N_MAX && W_index < N_MAX && W_index + W_svc.number_of_attributes <= G_N)\n'
               + CODE2 + HARN + r'''
void h_read_primary_service_response(void) { SETUP; struct service* v; uint8_t* o; uint8_t* e; read_primary_service_response(v, o, e, W_index, W_is128_filter); BT_CANARY(); }
void h_cps_each(void) { SETUP; struct cps* s; struct service* v; G_rr = (struct r_rec){ 0 }; cps_each(s, v); BT_CANARY(); }
'''), enforce=['read_primary_service_response', 'cps_each'], replace=['service_declaration_read', 'first_index_by_handle', 'read_primary_service_response'], replay=dict(src='replay/c03_replay.cpp', cxxflags=['-DNDEBUG'])),
]

# ------------------------------------------------------------------ the requested handle range (constructors of the two functors; C02's clause 'only services inside start..end')
# in a constructor a reference member is bound (pointer assignment), not assigned through
R_CTOR = [r for r in R if r[0] not in (r'self->found_\b', r'self->attribute_data_size_(\s*)=', r'self->output_ = read_primary_service_response')]
EX['cps_ctor'] = dict(file=SRV, scope=CPS, locate=r'collect_primary_services\( std::uint8_t\*& output, std::uint8_t\* end, std::uint16_t starting_index, std::uint16_t starting_handle, std::uint16_t ending_handle, std::uint8_t& attribute_data_size, Server& server \)',
                      init_list=True, rules=R_CTOR)
EX['sbg_ctor'] = dict(file=SRV, scope=SBG, locate=r'services_by_group\( std::uint16_t starting_handle, std::uint16_t ending_handle, Iterator& iterator, const Filter& filter, bool& found \)', init_list=True, rules=R_CTOR)
RANGE = CODE[:CODE.index('/* ================= Find By Type Value')].replace('size_t first_index_by_handle(uint16_t handle) __CPROVER_ensures(__CPROVER_return_value == invalid_attribute_index || __CPROVER_return_value < G_N) __CPROVER_assigns();', '') + r"""
size_t G_i;   /* ghost: any attribute */
/* handle_index_mapping< Server >::first_index_by_handle (contract proved for the real function in C04): the least index whose handle is >= handle */
size_t first_index_by_handle(uint16_t handle)
__CPROVER_requires(TABLE_OK && G_i < N_MAX)
__CPROVER_ensures(__CPROVER_return_value == invalid_attribute_index ? (G_i < G_N ==> G_H[G_i] < handle)
    : (__CPROVER_return_value < G_N && G_H[__CPROVER_return_value] >= handle && (G_i < __CPROVER_return_value ==> G_H[G_i] < handle) && ((G_i >= __CPROVER_return_value && G_i < G_N) ==> G_H[G_i] >= handle)))
__CPROVER_assigns();
struct value_filter; struct collect_find;
struct sbg { size_t starting_index_; uint16_t ending_handle_; size_t index_; struct collect_find* iterator_; const struct value_filter* filter_; bool* found_; };
struct cps { uint8_t** output_; uint8_t* end_; size_t index_; size_t starting_index_; uint16_t ending_handle_; bool stoped_; bool first_; bool is_128bit_uuid_; uint8_t* attribute_data_size_; int server_; };
uint16_t W_starting_handle, W_ending_handle;
/* the range test each() applies to a service that starts at attribute G_i ... */
#define EACH_TAKES(self) ((self)->starting_index_ != invalid_attribute_index && (self)->starting_index_ <= G_i && G_H[G_i] <= (self)->ending_handle_)
/* ... holds exactly for the services whose declaration handle lies inside the requested start..end */
#define RANGE_EXACT(self) (G_i < G_N ==> (EACH_TAKES(self) == (G_H[G_i] >= W_starting_handle && G_H[G_i] <= W_ending_handle)))
void cps_ctor(struct cps* self, uint8_t** output, uint8_t* end, uint16_t starting_index, uint16_t starting_handle, uint16_t ending_handle, uint8_t* attribute_data_size, int server)
__CPROVER_requires(TABLE_OK && G_i < N_MAX && __CPROVER_is_fresh(self, sizeof(struct cps)) && starting_handle == W_starting_handle && ending_handle == W_ending_handle && starting_index == 1)
__CPROVER_ensures(RANGE_EXACT(self))
/* the walk starts with the first service, nothing collected yet */
__CPROVER_ensures((self->index_ == invalid_attribute_index || (self->index_ < G_N && G_H[self->index_] >= 1 && (G_i < self->index_ ==> G_H[G_i] < 1))) && !self->stoped_ && self->first_ && self->output_ == output && self->end_ == end && self->attribute_data_size_ == attribute_data_size)
__CPROVER_assigns(__CPROVER_object_whole(self))
{{cps_ctor}}
void sbg_ctor(struct sbg* self, uint16_t starting_handle, uint16_t ending_handle, struct collect_find* iterator, const struct value_filter* filter, bool* found)
__CPROVER_requires(TABLE_OK && G_i < N_MAX && __CPROVER_is_fresh(self, sizeof(struct sbg)) && starting_handle == W_starting_handle && ending_handle == W_ending_handle)
__CPROVER_ensures(RANGE_EXACT(self))
__CPROVER_ensures(self->index_ == 0 && self->iterator_ == iterator && self->filter_ == filter && self->found_ == found)
__CPROVER_assigns(__CPROVER_object_whole(self))
{{sbg_ctor}}
#define SETUP G_N = nondet_size(); G_i = nondet_size(); W_starting_handle = nondet_u16(); W_ending_handle = nondet_u16(); BT_KNOWN_EXCLUDE()
void h_cps_ctor(void) { SETUP; struct cps* s; uint8_t* o; uint8_t a; cps_ctor(s, &o, o, 1, W_starting_handle, W_ending_handle, &a, 0); BT_CANARY(); }
void h_sbg_ctor(void) { SETUP; struct sbg* s; bool f; sbg_ctor(s, W_starting_handle, W_ending_handle, 0, 0, &f); BT_CANARY(); }
"""
UNITS.append(dict(name='range', extracts={k: v for k, v in EX.items() if k in BITS_EXTRACTS or k in ('inv_index', 'cps_ctor', 'sbg_ctor')}, code=RANGE,
                  enforce=['cps_ctor', 'sbg_ctor'], replace=['first_index_by_handle'], replay=dict(src='replay/c03_replay.cpp', cxxflags=['-DNDEBUG'])))
META = dict(
    level='other',
    explanation="The run-time bodies of primary service discovery (server.hpp, service.hpp), for every table size, index, range, buffer fill and service shape: value_filter::operator() "
                "accepts a service declaration only if its type is «Primary Service» and its value equals the requested UUID (asked through the declaration's own access function, "
                "compare_value over exactly the requested octets); services_by_group::each< Service > offers the service at index_ to the filter exactly when it lies in the "
                "requested index range, reports ( handle of its first, handle of its last attribute ) exactly when the filter accepts it, and always advances by the service's "
                "number of attributes; collect_find_by_type_groups writes one handle pair per report while 4 octets are free. collect_primary_services::each< Service > lets a "
                "service contribute an entry only if it is in range and its declaration attribute is of type «Primary Service» - a secondary service neither contributes nor fixes "
                "the UUID size of the response; the first contributing service fixes entry size 6 / 20, a later one of the other size stops the collection; "
                "service::read_primary_service_response writes ( first handle, last handle, UUID ) only for the matching UUID size and only if the whole entry fits.",
    assumptions=["NOT decided (type level): details::for_< services >::each( functor ) instantiates each< Service >() once per declared service in declaration order with Service::"
                 "number_of_attributes / uuid::is_128bit of that service, and the first attribute of a service is its declaration with type «Primary Service» unless "
                 "is_secondary_service is given (generate_attribute< service_defintion_tag >) - template meta programs, no function body to put under contract; the two request "
                 "handlers' framing (check_size_and_handle_range, error responses) is covered for Read By Type in C02 and read here",
                 "the handle mapping is abstract (strictly increasing handles: C04, not claimed); the native replay compares whole discovery runs on real servers with the declaration"],
    trusted_base=[],
)
