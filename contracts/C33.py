"""C33 Keys are offered only after successful pairing or from the bond database (C34 re-uses the bonding unit)."""
import os, sys
sys.path.insert(0, os.path.dirname(__file__))
from common import BITS32_EXTRACTS, BITS32_CODE
SCD = 'bluetoe/sm/include/bluetoe/security_connection_data.hpp'
SM = 'bluetoe/sm/include/bluetoe/security_manager.hpp'
IOC = 'bluetoe/sm/include/bluetoe/io_capabilities.hpp'
PST = 'bluetoe/pairing_status.hpp'
BITS = 'bluetoe/utility/include/bluetoe/bits.hpp'
LEG = r'class legacy_security_connection_data : public security_connection_data_base< OtherConnectionData >'
LESC = r'class lesc_security_connection_data : public security_connection_data_base< OtherConnectionData >, public pairing_yes_no_response'
COMB = r'class security_connection_data : public security_connection_data_base< OtherConnectionData >, public pairing_yes_no_response'
BDB = r'class bonding_db_data_t : public OtherConnectionData'
NBDB = r'struct bonding_db_data_t : OtherConnectionData'

R = [(r'details::sm_pairing_state::', 'sm_pairing_state_', '*'), (r'self->state\(\) ', 'self->state_ ', '*'), (r'self->state\( ([^;]*?) \);', r'self->state_ = \1;', '*'), (r'(?<![\w>.])state\( ([^;]*?) \);', r'self->state_ = \1;', '*'),
     (r'return \{ true, ([^;]*?) \};', r'return (struct pair_bool_u128){ true, \1 };', '*'), (r'return std::pair< bool, details::uint128_t >\{\};', 'return (struct pair_bool_u128){ 0 };', '*'),
     (r'= (short_term_key|long_term_key);', r'= *\1;', '*'), (r'details::legacy_pairing_algorithm::', 'legacy_pairing_algorithm_', '*'), (r'details::lesc_pairing_algorithm::', 'lesc_pairing_algorithm_', '*'),
     (r'device_pairing_status::', 'device_pairing_status_', '*')]
TYPES = [(r'details::uint128_t|\buint128_t\b', 'struct u128', '*'), (r'ecdh_private_key_t', 'struct u256', '*'), (r'ecdh_public_key_t', 'struct u512', '*'), (r'io_capabilities_t', 'struct u24', '*'),
         (r'enum legacy_pairing_algorithm', 'enum legacy_pairing_algorithm', '*'), (r'enum lesc_pairing_algorithm', 'enum lesc_pairing_algorithm', '*')]
def m(scope, sig, **kw):
    d = dict(file=SCD, scope=scope, locate=sig, rules=R); d.update(kw); return d
EX = dict(
    sm_state=dict(kind='enum', file=SCD, name='sm_pairing_state'),
    legacy_algo=dict(kind='enum', file=IOC, name='legacy_pairing_algorithm'), lesc_algo=dict(kind='enum', file=IOC, name='lesc_pairing_algorithm'),
    dps=dict(kind='enum', file=PST, name='device_pairing_status'),
    leg_union=dict(kind='text', body='text', file=SCD, scope=LEG, locate=r'union \{\s*struct \{[^}]*\}\s*pairing_state;\s*struct \{[^}]*\}\s*completed_state;\s*\}\s*state_data_;', no_members=True, rules=TYPES),
    comb_union=dict(kind='text', body='text', file=SCD, scope=COMB, locate=r'union \{\s*struct \{\s*union \{.*?\}\s*lesc_state;\s*\}\s*state_data_;', no_members=True, rules=TYPES),
    leg_completed=m(LEG, r'void legacy_pairing_completed\( const details::uint128_t& short_term_key \)'),
    leg_find=m(LEG, r'std::pair< bool, details::uint128_t > find_key\( std::uint16_t ediv, std::uint64_t rand \) const'),
    lesc_completed=m(LESC, r'void lesc_pairing_completed\( const details::uint128_t& long_term_key \)'),
    lesc_find=m(LESC, r'std::pair< bool, details::uint128_t > find_key\( std::uint16_t ediv, std::uint64_t rand \) const'),
    comb_leg_completed=m(COMB, r'void legacy_pairing_completed\( const details::uint128_t& short_term_key \)'),
    comb_lesc_completed=m(COMB, r'void lesc_pairing_completed\( const details::uint128_t& long_term_key \)'),
    comb_find=m(COMB, r'std::pair< bool, details::uint128_t > find_key\( std::uint16_t ediv, std::uint64_t rand \) const'),
    base_error_reset=dict(file=SCD, scope=r'class security_connection_data_base : public OtherConnectionData', locate=r'void error_reset\(\)', rules=R),
    bdb_find=dict(file=SM, scope=BDB, locate=r'std::pair< bool, details::uint128_t > find_key\( std::uint16_t ediv, std::uint64_t rand \) const',
                  rules=[(r'OtherConnectionData::find_key\( ediv, rand \)', 'other_find_key( ediv, rand )', 1), (r'obj\.find_key\( ediv, rand, self->remote_address\(\) \)', 'db_find_key( ediv, rand, G_remote_address )', 1)]),
)
CODE = r'''
{{sm_state}};
{{legacy_algo}};
{{lesc_algo}};
{{dps}};
struct u128 { uint8_t b[16]; }; struct u256 { uint8_t b[32]; }; struct u512 { uint8_t b[64]; }; struct u24 { uint8_t b[3]; };
struct pair_bool_u128 { bool first; struct u128 second; };
size_t G_b;   /* ghost: one octet of a key */
#define KEY_EQ(a, b_) ((a).b[G_b] == (b_).b[G_b])
uint16_t W_ediv; uint64_t W_rand; int W_state; uint8_t W_key_b, W_new_b; int W_algo;
/* ---- legacy_security_connection_data */
struct leg { enum sm_pairing_state state_; enum legacy_pairing_algorithm algorithm_; {{leg_union}} };
#define FRESH(self, T) (__CPROVER_is_fresh(self, sizeof(T)) && (int)(self)->state_ == W_state && W_state >= 0 && W_state <= sm_pairing_state_lesc_pairing_random_exchanged && G_b < 16)
void leg_pairing_completed(struct leg* self, const struct u128* short_term_key)
__CPROVER_requires(FRESH(self, struct leg) && W_state == sm_pairing_state_legacy_pairing_confirmed && __CPROVER_is_fresh(short_term_key, sizeof(struct u128)) && short_term_key->b[G_b] == W_new_b)
__CPROVER_ensures(self->state_ == sm_pairing_state_pairing_completed && self->state_data_.completed_state.short_term_key.b[G_b] == W_new_b)
__CPROVER_assigns(self->state_, self->state_data_)
{{leg_completed}}
/* a key is offered only for EDIV = 0, Rand = 0 after pairing completed on this connection, and it is the key that pairing stored */
struct pair_bool_u128 leg_find_key(const struct leg* self, uint16_t ediv, uint64_t rand)
__CPROVER_requires(FRESH(self, struct leg) && ediv == W_ediv && rand == W_rand && self->state_data_.completed_state.short_term_key.b[G_b] == W_key_b)
__CPROVER_ensures(__CPROVER_return_value.first == (W_ediv == 0 && W_rand == 0 && W_state == sm_pairing_state_pairing_completed))
__CPROVER_ensures(__CPROVER_return_value.first ==> __CPROVER_return_value.second.b[G_b] == W_key_b)
__CPROVER_assigns()
{{leg_find}}
/* ---- lesc_security_connection_data */
struct lesc { enum sm_pairing_state state_; enum lesc_pairing_algorithm algorithm_; struct u128 long_term_key_; };
void lesc_pairing_completed(struct lesc* self, const struct u128* long_term_key)
__CPROVER_requires(FRESH(self, struct lesc) && (W_state == sm_pairing_state_lesc_pairing_random_exchanged || W_state == sm_pairing_state_user_response_success)
    && __CPROVER_is_fresh(long_term_key, sizeof(struct u128)) && long_term_key->b[G_b] == W_new_b)
__CPROVER_ensures(self->state_ == sm_pairing_state_pairing_completed && self->long_term_key_.b[G_b] == W_new_b)
__CPROVER_assigns(self->state_, self->long_term_key_)
{{lesc_completed}}
struct pair_bool_u128 lesc_find_key(const struct lesc* self, uint16_t ediv, uint64_t rand)
__CPROVER_requires(FRESH(self, struct lesc) && ediv == W_ediv && rand == W_rand && self->long_term_key_.b[G_b] == W_key_b)
__CPROVER_ensures(__CPROVER_return_value.first == (W_ediv == 0 && W_rand == 0 && W_state == sm_pairing_state_pairing_completed))
__CPROVER_ensures(__CPROVER_return_value.first ==> __CPROVER_return_value.second.b[G_b] == W_key_b)
__CPROVER_assigns()
{{lesc_find}}
/* ---- security_connection_data (legacy + LESC) */
struct comb { enum sm_pairing_state state_; struct u128 long_term_key_; enum device_pairing_status pairing_status_; {{comb_union}} };
void comb_legacy_pairing_completed(struct comb* self, const struct u128* short_term_key)
__CPROVER_requires(FRESH(self, struct comb) && W_state == sm_pairing_state_legacy_pairing_confirmed && __CPROVER_is_fresh(short_term_key, sizeof(struct u128)) && short_term_key->b[G_b] == W_new_b
    && (int)self->state_data_.legacy_state.algorithm == W_algo)
__CPROVER_ensures(self->state_ == sm_pairing_state_pairing_completed && self->long_term_key_.b[G_b] == W_new_b)
__CPROVER_ensures(self->pairing_status_ == (W_algo == legacy_pairing_algorithm_just_works ? device_pairing_status_unauthenticated_key : device_pairing_status_authenticated_key))
__CPROVER_assigns(self->state_, self->long_term_key_, self->pairing_status_)
{{comb_leg_completed}}
void comb_lesc_pairing_completed(struct comb* self, const struct u128* long_term_key)
__CPROVER_requires(FRESH(self, struct comb) && (W_state == sm_pairing_state_lesc_pairing_random_exchanged || W_state == sm_pairing_state_user_response_success)
    && __CPROVER_is_fresh(long_term_key, sizeof(struct u128)) && long_term_key->b[G_b] == W_new_b && (int)self->state_data_.lesc_state.algorithm == W_algo)
__CPROVER_ensures(self->state_ == sm_pairing_state_pairing_completed && self->long_term_key_.b[G_b] == W_new_b)
__CPROVER_ensures(self->pairing_status_ == (W_algo == lesc_pairing_algorithm_numeric_comparison ? device_pairing_status_authenticated_key : device_pairing_status_unauthenticated_key))
__CPROVER_assigns(self->state_, self->long_term_key_, self->pairing_status_)
{{comb_lesc_completed}}
struct pair_bool_u128 comb_find_key(const struct comb* self, uint16_t ediv, uint64_t rand)
__CPROVER_requires(FRESH(self, struct comb) && ediv == W_ediv && rand == W_rand && self->long_term_key_.b[G_b] == W_key_b)
__CPROVER_ensures(__CPROVER_return_value.first == (W_ediv == 0 && W_rand == 0 && W_state == sm_pairing_state_pairing_completed))
__CPROVER_ensures(__CPROVER_return_value.first ==> __CPROVER_return_value.second.b[G_b] == W_key_b)
__CPROVER_assigns()
{{comb_find}}
/* a failed or aborted pairing returns to idle: no key is offered afterwards */
void error_reset(struct lesc* self)
__CPROVER_requires(FRESH(self, struct lesc))
__CPROVER_ensures(self->state_ == sm_pairing_state_idle)
__CPROVER_assigns(self->state_)
{{base_error_reset}}
/* ---- bonding_data_base< Obj >::bonding_db_data_t::find_key: the connection's own key first, then the bond data base for ( EDIV, Rand, peer address ) */
bool W_local_found, W_db_found; uint8_t W_local_b, W_db_b; int G_remote_address; int G_db_calls; uint16_t G_db_ediv; uint64_t G_db_rand; int G_db_addr;
struct pair_bool_u128 other_find_key(uint16_t ediv, uint64_t rand)
__CPROVER_ensures(__CPROVER_return_value.first == W_local_found && __CPROVER_return_value.second.b[G_b] == W_local_b) __CPROVER_assigns();
struct pair_bool_u128 db_find_key(uint16_t ediv, uint64_t rand, int remote)
__CPROVER_ensures(__CPROVER_return_value.first == W_db_found && __CPROVER_return_value.second.b[G_b] == W_db_b && G_db_calls == __CPROVER_old(G_db_calls) + 1 && G_db_ediv == ediv && G_db_rand == rand && G_db_addr == remote)
__CPROVER_assigns(G_db_calls, G_db_ediv, G_db_rand, G_db_addr);
struct bdb { int dummy_; };
struct pair_bool_u128 bdb_find_key(const struct bdb* self, uint16_t ediv, uint64_t rand)
__CPROVER_requires(G_db_calls == 0 && ediv == W_ediv && rand == W_rand && G_b < 16)
__CPROVER_ensures(__CPROVER_return_value.first == (W_local_found || W_db_found))
__CPROVER_ensures(W_local_found ==> (__CPROVER_return_value.second.b[G_b] == W_local_b && G_db_calls == 0))
__CPROVER_ensures(!W_local_found ==> (G_db_calls == 1 && G_db_ediv == W_ediv && G_db_rand == W_rand && G_db_addr == G_remote_address && (W_db_found ==> __CPROVER_return_value.second.b[G_b] == W_db_b)))
__CPROVER_assigns(G_db_calls, G_db_ediv, G_db_rand, G_db_addr)
{{bdb_find}}
#define SETUP W_ediv = nondet_u16(); W_rand = nondet_u64(); W_state = nondet_int(); W_key_b = nondet_u8(); W_new_b = nondet_u8(); W_algo = nondet_int(); G_b = nondet_size(); \
  W_local_found = nondet_bool(); W_db_found = nondet_bool(); W_local_b = nondet_u8(); W_db_b = nondet_u8(); G_db_calls = 0; G_remote_address = nondet_int(); BT_KNOWN_EXCLUDE()
void h_leg_pairing_completed(void) { SETUP; struct leg* s; struct u128* k; leg_pairing_completed(s, k); BT_CANARY(); }
void h_leg_find_key(void) { SETUP; struct leg* s; leg_find_key(s, W_ediv, W_rand); BT_CANARY(); }
void h_lesc_pairing_completed(void) { SETUP; struct lesc* s; struct u128* k; lesc_pairing_completed(s, k); BT_CANARY(); }
void h_lesc_find_key(void) { SETUP; struct lesc* s; lesc_find_key(s, W_ediv, W_rand); BT_CANARY(); }
void h_comb_legacy_pairing_completed(void) { SETUP; struct comb* s; struct u128* k; comb_legacy_pairing_completed(s, k); BT_CANARY(); }
void h_comb_lesc_pairing_completed(void) { SETUP; struct comb* s; struct u128* k; comb_lesc_pairing_completed(s, k); BT_CANARY(); }
void h_comb_find_key(void) { SETUP; struct comb* s; comb_find_key(s, W_ediv, W_rand); BT_CANARY(); }
void h_error_reset(void) { SETUP; struct lesc* s; error_reset(s); BT_CANARY(); }
void h_bdb_find_key(void) { SETUP; struct bdb b; bdb_find_key(&b, W_ediv, W_rand); BT_CANARY(); }
'''
UNITS = [
    dict(name='find_key', extracts=EX, code=CODE,
         enforce=['leg_pairing_completed', 'leg_find_key', 'lesc_pairing_completed', 'lesc_find_key', 'comb_legacy_pairing_completed', 'comb_lesc_pairing_completed', 'comb_find_key', 'error_reset', 'bdb_find_key'],
         replace=['other_find_key', 'db_find_key'], replay=dict(src='replay/c33_replay.cpp', cxxflags=['-DNDEBUG'], repo_sources=['bluetoe/utility/address.cpp'])),
]
META = dict(
    level='proof',
    explanation="security_connection_data.hpp: find_key, legacy_pairing_completed / lesc_pairing_completed of the three connection data classes (legacy, "
                "LESC, combined; the union layouts are taken from the source) and error_reset; security_manager.hpp bonding_db_data_t::find_key - for "
                "every EDIV / Rand, every pairing state and every stored content: a key is offered by the connection data exactly when EDIV = 0, Rand "
                "= 0 and the state is pairing_completed, and it is octet for octet (ghost index) the key the *_pairing_completed call stored; "
                "error_reset returns to idle (nothing offered afterwards); with a bond data base the connection's own key takes precedence, "
                "otherwise the data base is asked exactly once with the requested EDIV / Rand and this connection's peer address and its answer is "
                "returned unchanged.",
    assumptions=["'only after a pairing on this connection completed successfully': state_ reaches pairing_completed only through the two "
                 "*_pairing_completed functions (their asserts on the predecessor state are obligations here); that the SMP handlers call them only "
                 "after the confirm / DHKey checks succeeded is C32's subject (security_manager.hpp handlers are not under contract)",
                 "std::array< std::uint8_t, N > is represented by struct { uint8_t b[N]; } (assignment = struct copy); std::pair by a two member struct",
                 "the user's bond data base (find_key, create_new_bond, store_bond) is abstract",
                 "the combined class computes the reported pairing status from the union member 'algorithm' (clause of C35, proved here as a by-product)"],
    trusted_base=["application supplied bonding data base"],
)
