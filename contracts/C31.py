"""C31 L2CAP channel multiplexing and signaling are well behaved."""
SC = 'bluetoe/link_layer/include/bluetoe/l2cap_signaling_channel.hpp'
CLS = r'class signaling_channel\b'
T = r'template < typename \.\.\. Options >\s*'
TC = T + r'template < typename ConnectionData >\s*'

RULES = [
    (r'\bout_size\b', '(*out_size)', '*'),
    (r'reject_command\( input, in_size, output, \(\*out_size\) \)', 'reject_command( self, input, in_size, output, out_size )', '*'),
]


def const(name, ty):
    return dict(kind='expr', file=SC, scope=CLS, locate=r'static constexpr std::' + ty + r'\s+' + name + r'\s*=')


EX = dict(
    status_enum=dict(kind='text', body='text', file=SC, scope=CLS, locate=r'enum \{\s*idle[^}]*\}', no_members=True),
    fields=dict(kind='fields', file=SC, scope=CLS, names=['interval_min_', 'interval_max_', 'latency_', 'timeout_', 'identifier_']),
    c_reject=const('command_reject_code', 'uint8_t'),
    c_req=const('connection_parameter_update_request_code', 'uint8_t'),
    c_rsp=const('connection_parameter_update_response_code', 'uint8_t'),
    c_inv=const('invalid_identifier', 'uint8_t'),
    ctor=dict(file=SC, locate=T + r'signaling_channel< Options\.\.\. >::signaling_channel\(\)', init_list=True),
    input=dict(file=SC, locate=TC + r'void signaling_channel< Options\.\.\. >::l2cap_input\(', rules=RULES),
    output=dict(file=SC, locate=TC + r'void signaling_channel< Options\.\.\. >::l2cap_output\(', rules=RULES),
    request=dict(file=SC, locate=T + r'bool signaling_channel< Options\.\.\. >::connection_parameter_update_request\('),
    reject=dict(file=SC, locate=T + r'void signaling_channel< Options\.\.\. >::reject_command\(', rules=RULES),
)

CODE = r'''
static const uint8_t command_reject_code = {{c_reject}};
static const uint8_t connection_parameter_update_request_code = {{c_req}};
static const uint8_t connection_parameter_update_response_code = {{c_rsp}};
static const uint8_t invalid_identifier = {{c_inv}};
struct sc { {{fields}} {{status_enum}} pending_status_; };

/* witnesses: the channel state at entry, the incoming command, the request parameters */
uint8_t W_status, W_ident; uint16_t W_imin, W_imax, W_lat, W_to; size_t W_in_size, W_out_size; uint8_t W_in[8];
#define SC_IS(self) (__CPROVER_is_fresh(self, sizeof(struct sc)) && (self)->pending_status_ == W_status && W_status <= transmitted && (self)->identifier_ == W_ident \
        && (self)->interval_min_ == W_imin && (self)->interval_max_ == W_imax && (self)->latency_ == W_lat && (self)->timeout_ == W_to)
/* identifiers in use are never 0 (signaling_channel() starts with 1, l2cap_input keeps it) */
#define SC_OK(self) (SC_IS(self) && W_ident != 0)
#define SC_UNCHANGED(self) ((self)->pending_status_ == W_status && (self)->identifier_ == W_ident && (self)->interval_min_ == W_imin \
        && (self)->interval_max_ == W_imax && (self)->latency_ == W_lat && (self)->timeout_ == W_to)
#define IN_IS(input, in_size) ((in_size) == W_in_size && (in_size) <= 27 && __CPROVER_is_fresh(input, (in_size) ? (in_size) : 1) \
        && ((in_size) < 1 || (input)[0] == W_in[0]) && ((in_size) < 2 || (input)[1] == W_in[1]))
#define OUT_IS(output, out_size, min) (__CPROVER_is_fresh(out_size, sizeof(size_t)) && *(out_size) == W_out_size && W_out_size >= (min) && W_out_size <= 27 \
        && __CPROVER_is_fresh(output, W_out_size))
/* a command that gets a Command Reject: anything with a non-zero identifier */
#define REJECTABLE (W_in_size >= 2 && W_in[1] != 0)
#define IS_REJECT(output, out_size) (*(out_size) == 6 && (output)[0] == 0x01 && (output)[1] == W_in[1] && (output)[2] == 2 && (output)[3] == 0 \
        && (output)[4] == 0 && (output)[5] == 0)
/* the one response this channel waits for: Connection Parameter Update Response carrying the identifier of the request sent */
#define MATCHING_RESPONSE (W_status == transmitted && W_in_size >= 2 && W_in[0] == 0x13 && W_in[1] == W_ident)

void reject_command(struct sc* self, const uint8_t* input, size_t in_size, uint8_t* output, size_t* out_size)
__CPROVER_requires(SC_IS(self) && IN_IS(input, in_size) && OUT_IS(output, out_size, 6))
__CPROVER_ensures(REJECTABLE ? IS_REJECT(output, out_size) : *out_size == 0)
__CPROVER_ensures(SC_UNCHANGED(self))
__CPROVER_assigns(*out_size, __CPROVER_object_upto(output, 6))
{{reject}}

void l2cap_input(struct sc* self, const uint8_t* input, size_t in_size, uint8_t* output, size_t* out_size)
__CPROVER_requires(SC_OK(self) && IN_IS(input, in_size) && OUT_IS(output, out_size, 6))
/* only a matching response completes the request: no reply, back to idle, the identifier advances and stays non-zero */
__CPROVER_ensures(MATCHING_RESPONSE ==> (*out_size == 0 && self->pending_status_ == idle
        && self->identifier_ == (W_ident == 0xff ? 1 : W_ident + 1) && self->identifier_ != 0
        && self->interval_min_ == W_imin && self->interval_max_ == W_imax && self->latency_ == W_lat && self->timeout_ == W_to))
/* everything else leaves the channel as it was and is answered with Command Reject echoing the non-zero identifier, or dropped */
__CPROVER_ensures(!MATCHING_RESPONSE ==> (SC_UNCHANGED(self) && (REJECTABLE ? IS_REJECT(output, out_size) : *out_size == 0)))
__CPROVER_assigns(*out_size, __CPROVER_object_upto(output, 6), self->pending_status_, self->identifier_)
{{input}}

void l2cap_output(struct sc* self, uint8_t* output, size_t* out_size)
__CPROVER_requires(SC_OK(self) && OUT_IS(output, out_size, 12))
/* a queued request is sent, and sent once: afterwards it is 'transmitted', which produces no output */
__CPROVER_ensures(W_status == queued ==> (*out_size == 12 && self->pending_status_ == transmitted
        && output[0] == 0x12 && output[1] == W_ident && output[1] != 0 && output[2] == 8 && output[3] == 0
        && output[4] == (uint8_t)W_imin && output[5] == (uint8_t)(W_imin >> 8) && output[6] == (uint8_t)W_imax && output[7] == (uint8_t)(W_imax >> 8)
        && output[8] == (uint8_t)W_lat && output[9] == (uint8_t)(W_lat >> 8) && output[10] == (uint8_t)W_to && output[11] == (uint8_t)(W_to >> 8)))
__CPROVER_ensures(W_status != queued ==> (*out_size == 0 && self->pending_status_ == W_status))
__CPROVER_ensures(self->identifier_ == W_ident && self->interval_min_ == W_imin && self->interval_max_ == W_imax && self->latency_ == W_lat && self->timeout_ == W_to)
__CPROVER_assigns(*out_size, __CPROVER_object_upto(output, 12), self->pending_status_)
{{output}}

bool connection_parameter_update_request(struct sc* self, uint16_t interval_min, uint16_t interval_max, uint16_t latency, uint16_t timeout)
__CPROVER_requires(SC_OK(self))
/* a request is taken exactly when none is queued or awaiting its response */
__CPROVER_ensures(__CPROVER_return_value == (W_status == idle))
__CPROVER_ensures(W_status == idle ==> (self->pending_status_ == queued && self->interval_min_ == interval_min && self->interval_max_ == interval_max
        && self->latency_ == latency && self->timeout_ == timeout && self->identifier_ == W_ident))
__CPROVER_ensures(W_status != idle ==> SC_UNCHANGED(self))
__CPROVER_assigns(self->pending_status_, self->interval_min_, self->interval_max_, self->latency_, self->timeout_)
{{request}}

void sc_ctor(struct sc* self)
__CPROVER_requires(__CPROVER_is_fresh(self, sizeof(struct sc)))
__CPROVER_ensures(self->pending_status_ == idle && self->identifier_ != 0)
__CPROVER_assigns(self->pending_status_, self->identifier_)
{{ctor}}

#define SETUP struct sc* c; uint8_t* in; uint8_t* out; size_t* os; W_status = nondet_u8(); W_ident = nondet_u8(); W_imin = nondet_u16(); W_imax = nondet_u16(); \
   W_lat = nondet_u16(); W_to = nondet_u16(); W_in_size = nondet_size(); W_out_size = nondet_size(); for (int k = 0; k < 8; ++k) W_in[k] = nondet_u8(); BT_KNOWN_EXCLUDE()
void h_reject_command(void) { SETUP; reject_command(c, in, W_in_size, out, os); BT_CANARY(); }
void h_l2cap_input(void) { SETUP; l2cap_input(c, in, W_in_size, out, os); BT_CANARY(); }
void h_l2cap_output(void) { SETUP; l2cap_output(c, out, os); BT_CANARY(); }
void h_connection_parameter_update_request(void) { SETUP; connection_parameter_update_request(c, nondet_u16(), nondet_u16(), nondet_u16(), nondet_u16()); BT_CANARY(); }
void h_sc_ctor(void) { SETUP; sc_ctor(c); BT_CANARY(); }
'''


# ---------------------------------------------------------------------------------------------------------------------
# multiplexer: l2cap<>::handle_l2cap_input / transmit_single_pending_l2cap_output and the two handler classes
# ---------------------------------------------------------------------------------------------------------------------
import os, sys
sys.path.insert(0, os.path.dirname(__file__))
from common import BITS_EXTRACTS, BITS_CODE
L2 = 'bluetoe/l2cap.hpp'
LT = r'template < class LinkLayer, class ChannelData, class \.\.\. Channels >\s*template < class ConnectionDetails >\s*'
IH = r'struct l2cap_input_handler\b'
OH = r'class l2cap_output_handler\b'
IH_M = ['channel_id', 'input', 'in_size', 'output', 'out_size', 'handled']
OH_M = ['output', 'size', 'out_size', 'channel_id']
MUX_PRE = [
    # link_layer() is the CRTP down-cast to the link layer: its two buffer functions are abstract callees here
    (r'auto output = link_layer\(\)\.allocate_l2cap_output_buffer\( maximum_mtu_size \);', 'struct size_ptr output = allocate_l2cap_output_buffer( maximum_mtu_size );', 1),
    (r'link_layer\(\)\.commit_l2cap_output_buffer\( \{\s*(.*?), output\.second \} \);', r'commit_l2cap_output_buffer( \1, output.second );', 1),
    # object construction T x( this, args..., connection ) -> struct T x; T_ctor( &x, args... ); the connection reference is only passed through to the channels
    (r'l2cap_input_handler< ConnectionDetails > handler\(\s*this,(.*?), connection \);', r'struct l2cap_input_handler handler; l2cap_input_handler_ctor( &handler,\1 );', '*'),
    (r'l2cap_output_handler< ConnectionDetails > handler\(\s*this,(.*?), connection \);', r'struct l2cap_output_handler handler; l2cap_output_handler_ctor( &handler,\1 );', '*'),
    # iteration over the channel type list
    (r'for_< Channels\.\.\. >::template each< l2cap_input_handler< ConnectionDetails >& >\( handler \);', 'for_each_channel_input( &handler );', '*'),
    (r'for_< Channels\.\.\. >::template each< l2cap_output_handler< ConnectionDetails >& >\( handler \);', 'for_each_channel_output( &handler );', '*'),
]
EACH_PRE = [
    (r'static_cast< Channel& >\( \*that \)\.l2cap_input\( input, in_size, output, out_size, connection \)', 'channel_l2cap_input( Channel_channel_id, input, in_size, output, &out_size )', '*'),
    (r'static_cast< Channel& >\( \*that \)\.l2cap_output\( output, out_size, connection \)', 'channel_l2cap_output( Channel_channel_id, output, &out_size )', '*'),
    (r'Channel::channel_id', 'Channel_channel_id', 1),
]
MUX_EX = dict(BITS_EXTRACTS,
    hdr_size=dict(kind='expr', file=L2, locate=r'static constexpr std::size_t l2cap_layer_header_size\s*='),
    ih_fields=dict(kind='fields', file=L2, scope=IH, names=IH_M),
    oh_fields=dict(kind='fields', file=L2, scope=OH, names=OH_M),
    ih_ctor=dict(file=L2, scope=IH, locate=r'l2cap_input_handler\( l2cap\* t, std::uint16_t ci,[^)]*\)', init_list=True, init_skip=[r'^that\b', r'^connection\b'], member_extra=IH_M),
    oh_ctor=dict(file=L2, scope=OH, locate=r'l2cap_output_handler\( l2cap\* t, std::uint8_t\* out,[^)]*\)', init_list=True, init_skip=[r'^that\b', r'^connection\b'], member_extra=OH_M),
    ih_each=dict(file=L2, scope=IH, locate=r'template< typename Channel >\s*void each\(\)', pre=EACH_PRE, member_extra=IH_M),
    oh_each=dict(file=L2, scope=OH, locate=r'template< typename Channel >\s*void each\(\)', pre=EACH_PRE, member_extra=OH_M),
    handle_input=dict(file=L2, locate=LT + r'bool l2cap< LinkLayer, ChannelData, Channels\.\.\. >::handle_l2cap_input\(', pre=MUX_PRE, no_members=True),
    transmit_single=dict(file=L2, locate=LT + r'bool l2cap< LinkLayer, ChannelData, Channels\.\.\. >::transmit_single_pending_l2cap_output\(', pre=MUX_PRE, no_members=True),
)

MUX_CODE = BITS_CODE + r"""
static const size_t l2cap_layer_header_size = {{hdr_size}};
struct l2cap_input_handler { {{ih_fields}} };
struct l2cap_output_handler { {{oh_fields}} };
struct size_ptr { size_t first; uint8_t* second; };   /* std::pair< std::size_t, std::uint8_t* > */

/* configuration: maximum_mtu_size (maximum over the channels) and the channel list: N_CH <= 4 channels with pairwise distinct CIDs */
size_t maximum_mtu_size; unsigned N_CH; uint16_t CH_ID[4];
/* witnesses: frame length, its 4 header bytes, whether the link layer has a buffer, what the channels answer */
size_t W_in_size; uint8_t W_hdr[4]; bool W_alloc_ok; size_t W_ch_out[4];
/* ghost record of what the abstract callees saw */
unsigned G_allocs, G_commits, G_calls; size_t G_alloc_size, G_commit_size; uint8_t* G_alloc_ptr; uint8_t G_commit_hdr[4];
uint16_t G_call_cid; const uint8_t* G_call_in; size_t G_call_in_size; uint8_t* G_call_out; size_t G_call_out_max, G_call_out_size;
const uint8_t* G_input;

/* link layer: either no buffer, or size + l2cap header bytes of writable memory (link_layer::allocate_l2cap_output_buffer ->
   ll_l2cap_sdu_buffer::allocate_l2cap_transmit_buffer( size ) allocates size + overall_overhead, which includes the 4 header bytes) */
struct size_ptr allocate_l2cap_output_buffer(size_t size)
__CPROVER_requires(size <= 1024)
__CPROVER_ensures(W_alloc_ok ? (__CPROVER_return_value.first == size + 4 && __CPROVER_is_fresh(__CPROVER_return_value.second, size + 4))
                             : (__CPROVER_return_value.first == 0 && __CPROVER_return_value.second == 0))
__CPROVER_ensures(G_allocs == __CPROVER_old(G_allocs) + 1 && G_alloc_size == __CPROVER_return_value.first && __CPROVER_pointer_equals(G_alloc_ptr, __CPROVER_return_value.second))
__CPROVER_assigns(G_allocs, G_alloc_size, G_alloc_ptr);
/* only what was allocated may be committed, and not more of it than was allocated */
void commit_l2cap_output_buffer(size_t size, uint8_t* buffer)
__CPROVER_requires(G_allocs == 1 && G_alloc_size != 0 && buffer == G_alloc_ptr && size >= 4 && size <= G_alloc_size && __CPROVER_r_ok(buffer, 4))
__CPROVER_ensures(G_commits == __CPROVER_old(G_commits) + 1 && G_commit_size == size)
__CPROVER_ensures(G_commit_hdr[0] == buffer[0] && G_commit_hdr[1] == buffer[1] && G_commit_hdr[2] == buffer[2] && G_commit_hdr[3] == buffer[3])
__CPROVER_assigns(G_commits, G_commit_size, __CPROVER_object_whole(G_commit_hdr));
/* a channel (ATT server, security manager, signaling channel): reads its input, writes at most *out_size bytes of output, reports how many */
void channel_l2cap_input(uint16_t cid, const uint8_t* input, size_t in_size, uint8_t* output, size_t* out_size)
__CPROVER_requires(__CPROVER_r_ok(input, in_size) && __CPROVER_rw_ok(out_size, sizeof(size_t)) && __CPROVER_rw_ok(output, *out_size))
__CPROVER_ensures(*out_size <= __CPROVER_old(*out_size) && G_calls == __CPROVER_old(G_calls) + 1 && G_call_cid == cid && G_call_in == input && G_call_in_size == in_size
        && G_call_out == output && G_call_out_max == __CPROVER_old(*out_size) && G_call_out_size == *out_size)
__CPROVER_assigns(*out_size, G_calls, G_call_cid, G_call_in, G_call_in_size, G_call_out, G_call_out_max, G_call_out_size);
void channel_l2cap_output(uint16_t cid, uint8_t* output, size_t* out_size)
__CPROVER_requires(__CPROVER_rw_ok(out_size, sizeof(size_t)) && __CPROVER_rw_ok(output, *out_size))
__CPROVER_ensures(*out_size <= __CPROVER_old(*out_size) && G_calls == __CPROVER_old(G_calls) + 1 && G_call_cid == cid
        && G_call_out == output && G_call_out_max == __CPROVER_old(*out_size) && G_call_out_size == *out_size)
__CPROVER_assigns(*out_size, G_calls, G_call_cid, G_call_out, G_call_out_max, G_call_out_size);

void l2cap_input_handler_ctor(struct l2cap_input_handler* self, uint16_t ci, const uint8_t* i, size_t is, uint8_t* o, size_t os)
{{ih_ctor}}
void l2cap_output_handler_ctor(struct l2cap_output_handler* self, uint8_t* out, size_t s)
{{oh_ctor}}
void input_each(struct l2cap_input_handler* self, uint16_t Channel_channel_id)
{{ih_each}}
void output_each(struct l2cap_output_handler* self, uint16_t Channel_channel_id)
{{oh_each}}
/* for_< Channels... >::each( handler ) calls handler.each< C >() once for every C of the list, in list order (meta_tools.hpp; expanded by the
   compiler).  Written out for the up to 4 channels of the configuration. */
void for_each_channel_input(struct l2cap_input_handler* h)
{ if (N_CH > 0) input_each(h, CH_ID[0]); if (N_CH > 1) input_each(h, CH_ID[1]); if (N_CH > 2) input_each(h, CH_ID[2]); if (N_CH > 3) input_each(h, CH_ID[3]); }
void for_each_channel_output(struct l2cap_output_handler* h)
{ if (N_CH > 0) output_each(h, CH_ID[0]); if (N_CH > 1) output_each(h, CH_ID[1]); if (N_CH > 2) output_each(h, CH_ID[2]); if (N_CH > 3) output_each(h, CH_ID[3]); }

#define FRAME_LEN ((size_t)W_hdr[0] | ((size_t)W_hdr[1] << 8))
#define FRAME_CID ((uint16_t)(W_hdr[2] | (W_hdr[3] << 8)))
#define WELL_FORMED (W_in_size >= 4 && W_in_size == FRAME_LEN + 4)
#define CID_KNOWN ((N_CH > 0 && CH_ID[0] == FRAME_CID) || (N_CH > 1 && CH_ID[1] == FRAME_CID) || (N_CH > 2 && CH_ID[2] == FRAME_CID) || (N_CH > 3 && CH_ID[3] == FRAME_CID))
#define CONFIG_OK (maximum_mtu_size >= 23 && maximum_mtu_size <= 1024 && N_CH <= 4 \
        && CH_ID[0] != CH_ID[1] && CH_ID[0] != CH_ID[2] && CH_ID[0] != CH_ID[3] && CH_ID[1] != CH_ID[2] && CH_ID[1] != CH_ID[3] && CH_ID[2] != CH_ID[3] \
        && G_allocs == 0 && G_commits == 0 && G_calls == 0)

bool handle_l2cap_input(const uint8_t* input, size_t in_size)
__CPROVER_requires(CONFIG_OK && in_size == W_in_size && in_size <= 1028 && __CPROVER_is_fresh(input, in_size ? in_size : 1) && input == G_input)
__CPROVER_requires((in_size < 1 || input[0] == W_hdr[0]) && (in_size < 2 || input[1] == W_hdr[1]) && (in_size < 3 || input[2] == W_hdr[2]) && (in_size < 4 || input[3] == W_hdr[3]))
/* a frame whose length field does not match is swallowed: no channel sees it, nothing is allocated or sent */
__CPROVER_ensures(!WELL_FORMED ==> (__CPROVER_return_value && G_calls == 0 && G_commits == 0 && G_allocs == 0))
/* no buffer: the frame stays with the caller (false), no channel has seen it yet */
__CPROVER_ensures((WELL_FORMED && !W_alloc_ok) ==> (!__CPROVER_return_value && G_calls == 0 && G_commits == 0))
/* unknown CID: dropped */
__CPROVER_ensures((WELL_FORMED && W_alloc_ok && !CID_KNOWN) ==> (__CPROVER_return_value && G_calls == 0 && G_commits == 0))
/* known CID: exactly that channel, exactly once, with exactly the payload, and room for maximum_mtu_size bytes behind the reply's header */
__CPROVER_ensures((WELL_FORMED && W_alloc_ok && CID_KNOWN) ==> (__CPROVER_return_value && G_calls == 1 && G_call_cid == FRAME_CID
        && G_call_in == G_input + 4 && G_call_in_size == FRAME_LEN && G_call_out == G_alloc_ptr + 4 && G_call_out_max == maximum_mtu_size))
/* a reply is sent exactly when the channel produced one: same CID, length field = reply size, inside the allocated buffer */
__CPROVER_ensures((WELL_FORMED && W_alloc_ok && CID_KNOWN) ==> (G_commits == (G_call_out_size != 0 ? 1 : 0)))
__CPROVER_ensures(G_commits == 1 ==> (G_commit_size == G_call_out_size + 4 && G_commit_size <= G_alloc_size
        && G_commit_hdr[0] == (uint8_t)G_call_out_size && G_commit_hdr[1] == (uint8_t)(G_call_out_size >> 8) && G_commit_hdr[2] == W_hdr[2] && G_commit_hdr[3] == W_hdr[3]))
__CPROVER_assigns(G_allocs, G_alloc_size, G_alloc_ptr, G_commits, G_commit_size, __CPROVER_object_whole(G_commit_hdr),
        G_calls, G_call_cid, G_call_in, G_call_in_size, G_call_out, G_call_out_max, G_call_out_size)
{{handle_input}}

bool transmit_single_pending_l2cap_output(void)
__CPROVER_requires(CONFIG_OK)
__CPROVER_ensures(!W_alloc_ok ==> (!__CPROVER_return_value && G_calls == 0 && G_commits == 0))
/* the channels are asked in list order until one has output; each gets the area behind the header and its true size */
__CPROVER_ensures(W_alloc_ok ==> (G_calls <= N_CH && (N_CH > 0 ==> G_calls >= 1)))
__CPROVER_ensures((W_alloc_ok && G_calls >= 1) ==> (G_call_out == G_alloc_ptr + 4 && G_call_out_max == G_alloc_size - 4))
/* a PDU is sent exactly when a channel produced one; it carries that channel's CID and its size and lies inside the buffer */
__CPROVER_ensures(W_alloc_ok ==> (__CPROVER_return_value == (G_calls >= 1 && G_call_out_size != 0) && G_commits == (__CPROVER_return_value ? 1 : 0)))
__CPROVER_ensures(G_commits == 1 ==> (G_commit_size == G_call_out_size + 4 && G_commit_size <= G_alloc_size
        && G_commit_hdr[0] == (uint8_t)G_call_out_size && G_commit_hdr[1] == (uint8_t)(G_call_out_size >> 8)
        && G_commit_hdr[2] == (uint8_t)G_call_cid && G_commit_hdr[3] == (uint8_t)(G_call_cid >> 8)))
__CPROVER_assigns(G_allocs, G_alloc_size, G_alloc_ptr, G_commits, G_commit_size, __CPROVER_object_whole(G_commit_hdr),
        G_calls, G_call_cid, G_call_out, G_call_out_max, G_call_out_size)
{{transmit_single}}

#define SETUP_MUX maximum_mtu_size = nondet_size(); N_CH = nondet_unsigned(); for (int k = 0; k < 4; ++k) { CH_ID[k] = nondet_u16(); W_hdr[k] = nondet_u8(); } \
   W_in_size = nondet_size(); W_alloc_ok = nondet_bool(); G_allocs = 0; G_commits = 0; G_calls = 0; BT_KNOWN_EXCLUDE()
void h_handle_l2cap_input(void) { SETUP_MUX; const uint8_t* in; handle_l2cap_input(in, W_in_size); BT_CANARY(); }
void h_transmit_single_pending_l2cap_output(void) { SETUP_MUX; transmit_single_pending_l2cap_output(); BT_CANARY(); }
"""

UNITS = [
    dict(name='signaling_channel', extracts=EX, code=CODE,
         enforce=['reject_command', 'l2cap_input', 'l2cap_output', 'connection_parameter_update_request', 'sc_ctor'],
         replace=['reject_command'],
         replay=dict(src='replay/c31_replay.cpp')),
    dict(name='multiplexer', extracts=MUX_EX, code=MUX_CODE,
         enforce=['handle_l2cap_input', 'transmit_single_pending_l2cap_output'],
         replace=['allocate_l2cap_output_buffer', 'commit_l2cap_output_buffer', 'channel_l2cap_input', 'channel_l2cap_output']),
]

META = dict(
    level='proof',
    explanation="signaling_channel's constructor, l2cap_input, l2cap_output, connection_parameter_update_request and reject_command are extracted and "
                "proved, loop-free, for every channel state, every command of 0..27 bytes and every parameter value: a request is taken only when "
                "idle, a queued request is sent exactly once with the channel's non-zero identifier and the queued parameters, only a Connection "
                "Parameter Update Response carrying that identifier while the request is outstanding completes it (identifier advances, skipping "
                "0), and every other command leaves the state unchanged and is answered with Command Reject echoing its non-zero identifier or is dropped. "
                "l2cap<>::handle_l2cap_input, transmit_single_pending_l2cap_output and both handler classes (constructor, each) are extracted and proved "
                "for every frame of 0..1028 bytes, every maximum MTU 23..1024 and every channel list of up to 4 distinct CIDs: a frame reaches a "
                "channel only if its length field matches and its CID is in the list, then exactly that channel once with exactly the payload; the "
                "reply carries the same CID and its true length and lies inside the allocated buffer; unknown CIDs and malformed frames commit nothing.",
    assumptions=["multiplexer: for_< Channels... >::each( handler ) (a compile-time iteration over the channel type list) is written out as 'handler.each< C >() "
                 "once per channel in list order' for lists of up to 4 channels with pairwise distinct CIDs (the link layer uses ATT 4, signaling 5, SM 6); "
                 "link_layer().allocate_l2cap_output_buffer / commit_l2cap_output_buffer and the channels' l2cap_input / l2cap_output are abstract callees "
                 "with the contracts shown in the unit (a channel reports at most as many output bytes as it was offered; allocation yields nothing or "
                 "size + 4 bytes); the channel's connection reference is passed through unchanged and is dropped by the extraction rules",
                 "'matching response' is read as: response code 0x13 and the identifier of the outstanding request; the length and result fields of "
                 "the response are not interpreted by the library and not part of the contract",
                 "commands longer than 27 bytes (the default L2CAP MTU of the channel) are not considered; the code reads bytes 0 and 1 only"],
    trusted_base=["link_layer::allocate_l2cap_output_buffer / commit_l2cap_output_buffer (contracts assumed; their bodies belong to C18/C19)",
                  "meta_tools.hpp for_<>: evaluated by the C++ compiler, no function body to put under contract"],
)
