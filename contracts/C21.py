"""C21 Instant-based procedures apply at their instant or end the link."""
import os, sys
sys.path.insert(0, os.path.dirname(__file__))
import importlib.util
import llc, lle
def _load(name):
    sp = importlib.util.spec_from_file_location(name, os.path.join(os.path.dirname(__file__), name + '.py'))
    m = importlib.util.module_from_spec(sp); sp.loader.exec_module(m); return m
UNITS = [llc.unit('C21_CLAUSES', replay=dict(src='replay/c21_replay.cpp', cxxflags=['-DNDEBUG', '-I/repo/tests/test_tools', '-I/repo/tests/link_layer'],
                  repo_sources=['tests/test_tools/test_radio.cpp', 'tests/test_tools/test_servers.cpp', 'tests/test_tools/hexdump.cpp', 'tests/test_tools/buffer_io.cpp', 'tests/test_tools/address_io.cpp',
                                'bluetoe/link_layer/delta_time.cpp', 'bluetoe/link_layer/channel_map.cpp', 'bluetoe/link_layer/connection_details.cpp', 'bluetoe/utility/address.cpp']))]
# peripheral latency never skips a pending instant: plan_next_connection_event (contract stated in C23.py)
UNITS += [dict(u, enforce=['plan_next_connection_event']) for u in _load('C23').UNITS if u['name'] == 'plan_next']
# the call order in end_event / timeout (real bodies): received data, plan the next event with the pending instant, apply the pending indication for the NEW event counter; handle_phy_request defers LL_PHY_UPDATE_IND
UNITS += [lle.unit(['ll_timeout', 'll_end_event', 'valid_phy_encoding', 'handle_phy_request', 'handle_received_data', 'handle_pending_phy_request'], defines=['C21_CLAUSES'])]
META = dict(
    level='other',
    explanation="link_layer<>::handle_ll_control_data and handle_pending_ll_control (link_layer.hpp, real bodies, every PDU, every connection event counter incl. wrap around): an "
                "LL_CONNECTION_UPDATE_IND / LL_CHANNEL_MAP_REQ is kept pending, with the instant it carries, only if that instant is not before the next connection event "
                "(modulo 2^16); otherwise the link layer result is 'disconnect' with reason 0x28 (instant passed); neither is answered. The same holds for an LL_PHY_UPDATE_IND "
                "that handle_phy_request keeps for its instant; whatever is pending when handle_ll_control_data returns has an instant that can still be met. handle_pending_ll_control( e ) applies "
                "a pending indication exactly when e equals its instant - channel map reset with the map octets of that PDU, connection update parsed from that PDU's body "
                "(state connection_changed and the changed call back, or disconnect if the parameters are invalid, C22) - and clears it; for any other e nothing happens. "
                "plan_next_connection_event (peripheral_latency.hpp, contract in C23.py) never advances the event counter beyond a pending instant. Together: the block "
                "handle_received_data() puts on further PDUs while an indication is pending ends at the instant. end_event / timeout (real bodies, callees abstract, the ORDER of "
                "the calls recorded): received data is handled first, then the next connection event is planned with ( an indication is pending, its instant ) handed to "
                "plan_next_connection_event, then handle_pending_ll_control is asked with the event counter AFTER planning, then the event is set up (or the link ends). "
                "phy_update_request_impl::handle_phy_request (real body): a valid LL_PHY_UPDATE_IND is kept pending with the instant it carries (or reported at once if no PHY "
                "changes), never answered; handle_pending_phy_request (real body) applies it - radio and call back get the PHYs the indication carried - and clears it. "
                "handle_received_data (real body, loop contract over a queue of received PDUs of any content): while an indication is pending nothing is taken from the "
                "queue; otherwise PDUs are consumed in order until the queue is empty, a PDU asks for a disconnect, a PDU has to wait for its instant (that PDU is "
                "consumed, nothing behind it is) or the head PDU cannot be handled now - no other reason stops the processing.",
    assumptions=["the receive queue is a ghost array of up to 5 PDUs in handle_received_data, handle_ll_control_data / L2CAP input are abstract there; in handle_ll_control_data "
                 "handle_phy_request is a stand-in that follows its contract proved in unit events (it keeps only an LL_PHY_UPDATE_IND, with the instant it carries)",
                 "the PDU layout is the default one; callees (channel map, timing parameter parser, call backs) abstract with symbolic results"],
    trusted_base=["radio / event scheduling"],
)
