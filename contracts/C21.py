"""C21 Instant-based procedures apply at their instant or end the link."""
import os, sys
sys.path.insert(0, os.path.dirname(__file__))
import importlib.util
import llc
def _load(name):
    sp = importlib.util.spec_from_file_location(name, os.path.join(os.path.dirname(__file__), name + '.py'))
    m = importlib.util.module_from_spec(sp); sp.loader.exec_module(m); return m
UNITS = [llc.unit('C21_CLAUSES', replay=dict(src='replay/c21_replay.cpp', cxxflags=['-DNDEBUG', '-I/repo/tests/test_tools', '-I/repo/tests/link_layer'],
                  repo_sources=['tests/test_tools/test_radio.cpp', 'tests/test_tools/test_servers.cpp', 'tests/test_tools/hexdump.cpp', 'tests/test_tools/buffer_io.cpp', 'tests/test_tools/address_io.cpp',
                                'bluetoe/link_layer/delta_time.cpp', 'bluetoe/link_layer/channel_map.cpp', 'bluetoe/link_layer/connection_details.cpp', 'bluetoe/utility/address.cpp']))]
# peripheral latency never skips a pending instant: plan_next_connection_event (contract stated in C23.py)
UNITS += [dict(u, enforce=['plan_next_connection_event']) for u in _load('C23').UNITS if u['name'] == 'plan_next']
META = dict(
    level='other',
    explanation="link_layer<>::handle_ll_control_data and handle_pending_ll_control (link_layer.hpp, real bodies, every PDU, every connection event counter incl. wrap around): an "
                "LL_CONNECTION_UPDATE_IND / LL_CHANNEL_MAP_REQ is kept pending, with the instant it carries, only if that instant is not before the next connection event "
                "(modulo 2^16); otherwise the link layer result is 'disconnect' with reason 0x28 (instant passed); neither is answered. handle_pending_ll_control( e ) applies "
                "a pending indication exactly when e equals its instant - channel map reset with the map octets of that PDU, connection update parsed from that PDU's body "
                "(state connection_changed and the changed call back, or disconnect if the parameters are invalid, C22) - and clears it; for any other e nothing happens. "
                "plan_next_connection_event (peripheral_latency.hpp, contract in C23.py) never advances the event counter beyond a pending instant. Together: the block "
                "handle_received_data() puts on further PDUs while an indication is pending ends at the instant.",
    assumptions=["NOT extracted: end_event / handle_received_data (the call order 'received data, plan next event, handle_pending_ll_control( new counter )' and the early return "
                 "while an indication is pending are read, not proved) and phy_update_request_impl::handle_phy_request / handle_pending_phy_request (LL_PHY_UPDATE_IND's instant)",
                 "the PDU layout is the default one; callees (channel map, timing parameter parser, call backs) abstract with symbolic results"],
    trusted_base=["radio / event scheduling"],
)
