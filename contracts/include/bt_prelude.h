/* Shared C prelude for the extracted bluetoe function bodies (DESIGN.md 3.2).
 * Nothing in here is bluetoe code: fixed-width types, macro equivalents of <algorithm> one-liners,
 * and the plumbing for witnesses, vacuity canaries and known-finding exclusion. */
#ifndef BT_PRELUDE_H
#define BT_PRELUDE_H
#include <stdint.h>
#include <stddef.h>
#include <stdbool.h>

#define BT_ASSERT(e) __CPROVER_assert((e), "repo assert: " #e)
#define BT_CANARY() __CPROVER_assert(0, "VACUITY_CANARY")
#ifndef KNOWN_EXCLUDE
#define KNOWN_EXCLUDE 1
#endif
#define BT_KNOWN_EXCLUDE() __CPROVER_assume(KNOWN_EXCLUDE)
/* witness tie: only active in the job that enforces function f (driver defines WIT_<f> 0/1) */
#define WIT(f, x) (!WIT_##f || (x))

/* std::min / std::max on operands of one type */
#define BT_MIN(a, b) ((b) < (a) ? (b) : (a))
#define BT_MAX(a, b) ((a) < (b) ? (b) : (a))

unsigned nondet_unsigned(void);
int nondet_int(void);
uint8_t nondet_u8(void);
uint16_t nondet_u16(void);
uint32_t nondet_u32(void);
uint64_t nondet_u64(void);
size_t nondet_size(void);
bool nondet_bool(void);

#endif
