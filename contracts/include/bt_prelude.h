/* Shared C prelude for the extracted bluetoe function bodies (DESIGN.md 3.2).
 * Nothing in here is bluetoe code: fixed-width types, macro equivalents of <algorithm> one-liners,
 * and the plumbing for witnesses, vacuity canaries and known-finding exclusion. */
#ifndef BT_PRELUDE_H
#define BT_PRELUDE_H
#include <stdint.h>
#include <stddef.h>
#include <stdbool.h>

#define BT_ASSERT(e) __CPROVER_assert((e), "repo assert: " #e)
#define BT_STATIC_ASSERT(e, ...) __CPROVER_assert((e), "repo static_assert: " #e)
#define BT_CANARY() __CPROVER_assert(0, "VACUITY_CANARY")
#ifndef KNOWN_EXCLUDE
#define KNOWN_EXCLUDE 1
#endif
#define BT_KNOWN_EXCLUDE() __CPROVER_assume(KNOWN_EXCLUDE)
/* witness tie: only active in the job that enforces function f (driver defines WIT_<f> 0/1) */
#define WIT(f, x) (!WIT_##f || (x))

/* ghost statement: after a loop contract has havocked a pointer variable, CBMC only knows the *assumed* equality
 * p == q from the invariant, which its points-to analysis cannot use.  Re-assign the pointer; the assertion in front
 * makes sure that this is a no-op. */
#define BT_GHOST_REBIND(p, q) do { __CPROVER_assert((p) == (q), "ghost rebind is a no-op"); (p) = (q); } while (0)

/* std::min / std::max on operands of one type */
#define BT_MIN(a, b) ((b) < (a) ? (b) : (a))
#define BT_MAX(a, b) ((a) < (b) ? (b) : (a))
#define BT_MIN_T(T, a, b) BT_MIN((T)(a), (T)(b))
#define BT_MAX_T(T, a, b) BT_MAX((T)(a), (T)(b))

unsigned nondet_unsigned(void);
int nondet_int(void);
uint8_t nondet_u8(void);
uint16_t nondet_u16(void);
uint32_t nondet_u32(void);
uint64_t nondet_u64(void);
size_t nondet_size(void);
bool nondet_bool(void);

/* ---- stand-ins for <algorithm> loops over bytes.  Each has a contract that is enforced on the C body below
 * (unit 'prelude_*' of the property that uses it); callers use the contract only.  Their faithfulness to
 * libstdc++ is an assumed dependency.  The ghost index G_pre_j replaces a universal quantifier. */
size_t G_pre_j, G_pre_j2, G_pre_j3;
#ifndef BT_BYTES_MAX
#define BT_BYTES_MAX 1024
#endif

#ifdef BT_NEED_FILL
void bt_fill_u8(uint8_t* p, size_t n, uint8_t v)
__CPROVER_requires(n <= BT_BYTES_MAX && __CPROVER_rw_ok(p, n))
__CPROVER_ensures(G_pre_j < n ==> p[G_pre_j] == v)
__CPROVER_assigns(__CPROVER_object_upto(p, n))
#ifdef BT_FILL_BODY
{
    for (size_t i = 0; i != n; ++i)
    __CPROVER_assigns(i, __CPROVER_object_upto(p, n))
    __CPROVER_loop_invariant(i <= n && (G_pre_j < i ==> p[G_pre_j] == v))
    __CPROVER_decreases(n - i)
        p[i] = v;
}
#else
;
#endif
#endif

#ifdef BT_NEED_COPY
/* std::copy(first, first + n, out) for non-overlapping byte ranges; returns out + n */
uint8_t* bt_copy_u8(const uint8_t* first, size_t n, uint8_t* out)
__CPROVER_requires(n <= BT_BYTES_MAX && (n == 0 || (__CPROVER_r_ok(first, n) && __CPROVER_rw_ok(out, n))))
__CPROVER_ensures(G_pre_j < n ==> out[G_pre_j] == first[G_pre_j])
__CPROVER_ensures(G_pre_j2 < n ==> out[G_pre_j2] == first[G_pre_j2])
__CPROVER_ensures(G_pre_j3 < n ==> out[G_pre_j3] == first[G_pre_j3])
__CPROVER_ensures(__CPROVER_return_value == out + n)
__CPROVER_assigns(__CPROVER_object_upto(out, n))
#ifdef BT_COPY_BODY
{
    for (size_t i = 0; i != n; ++i)
    __CPROVER_assigns(i, __CPROVER_object_upto(out, n))
    __CPROVER_loop_invariant(i <= n && (G_pre_j < i ==> out[G_pre_j] == first[G_pre_j])
                             && (G_pre_j2 < i ==> out[G_pre_j2] == first[G_pre_j2]) && (G_pre_j3 < i ==> out[G_pre_j3] == first[G_pre_j3]))
    __CPROVER_decreases(n - i)
        out[i] = first[i];
    return out + n;
}
#else
;
#endif
#endif

#endif
