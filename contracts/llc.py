"""Shared by C27 and C21: link_layer<>::handle_ll_control_data and handle_pending_ll_control (link_layer.hpp)."""
import os, sys, re
sys.path.insert(0, os.path.dirname(__file__))
from common import BITS_EXTRACTS, BITS_CODE
LL = 'bluetoe/link_layer/include/bluetoe/link_layer.hpp'
CLS = r'class link_layer\s*:'
T = r'template < class Server, template < std::size_t, std::size_t, class > class ScheduledRadio, typename \.\.\. Options >\s*'
Q = r'link_layer< Server, ScheduledRadio, Options\.\.\. >::'
OPS = ['LL_PHY_REQ', 'LL_PHY_UPDATE_IND', 'LL_CONNECTION_UPDATE_IND', 'LL_CHANNEL_MAP_REQ', 'LL_TERMINATE_IND', 'LL_UNKNOWN_RSP', 'LL_FEATURE_REQ', 'LL_FEATURE_RSP', 'LL_VERSION_IND', 'LL_REJECT_IND', 'LL_CONNECTION_PARAM_REQ',
       'LL_REJECT_EXT_IND', 'LL_PING_REQ', 'LL_PING_RSP', 'LL_VERSION_NR', 'LL_VERSION_40', 'connection_instant_passed', 'll_control_pdu_code']
def _fill(m):
    return '{ const uint8_t fill_tmp[] = { %s }; ll_fill( write, fill_tmp, sizeof( fill_tmp ) ); }' % ' '.join(m.group(1).split())
PRE = [
    (r'using namespace ::bluetoe::details;', '', '*'),
    (r'fill< layout_t >\( write, \{\s*([^}]*?)\s*\} \);', _fill, '*'),
    (r'assert\( write\.size >= radio_t::min_buffer_size \);', '', '*'),
    (r'layout_t::body\( pdu \)\.first', 'll_body( pdu )', '*'), (r'layout_t::header\( pdu \)', 'll_header( pdu )', '*'),
    (r'layout_t::body\( defered_ll_control_pdu_ \)\.first', 'll_body( &self->defered_ll_control_pdu_ )', '*'),
    (r'this->connection_event_counter\(\)', 'll_connection_event_counter()', '*'),
    (r'this->version_indication_received\( &body\[ 1 \], connection_data_, static_cast< radio_t& >\( \*this \) \);', 'cb_version_indication_received( &body[ 1 ] );', '*'),
    (r'this->remote_features_received\( &body\[ 1 \], connection_data_, static_cast< radio_t& >\( \*this \) \);', 'cb_remote_features_received( &body[ 1 ] );', '*'),
    (r'this->procedure_rejected\( error_code, connection_data_, static_cast< radio_t& >\( \*this \) \);', 'cb_procedure_rejected( error_code );', '*'),
    (r'this->procedure_unknown\( body\[ 1 \], connection_data_, static_cast< radio_t& >\( \*this \) \);', 'cb_procedure_unknown( body[ 1 ] );', '*'),
    (r'this->connection_changed\( details\(\), connection_data_, static_cast< radio_t& >\( \*this \) \);', 'cb_connection_changed();', '*'),
    (r'this->template handle_connection_parameters_request< layout_t >\( pdu, write, details\(\) \)', 'll_handle_connection_parameters_request( pdu )', '*'),
    (r'this->handle_encryption_pdus\( opcode, size, pdu, write, commit \)', 'll_handle_encryption_pdus( opcode, size, &commit )', '*'),
    (r'this->handle_phy_request\( opcode, size, pdu, write, \*this, commit \)', 'll_handle_phy_request( self, opcode, size, pdu, &commit )', '*'),
    (r'signaling_channel_t::connection_parameter_update_request\(\s*proposed_interval_min_,\s*proposed_interval_max_,\s*proposed_latency_,\s*proposed_timeout_ \)', 'sc_connection_parameter_update_request()', '*'),
    (r'this->wake_up\(\);', 'll_wake_up();', '*'), (r'this->commit_ll_transmit_buffer\( write \);', 'll_commit_ll_transmit_buffer();', '*'),
    (r'procedure_timeout_ = delta_time\(\);', 'procedure_timeout_ = 0;', '*'),
    (r'link_layer_feature::(\w+)', r'link_layer_feature_\1', '*'), (r'\bll_result::', 'll_result_', '*'), (r'\bll_result result', 'enum ll_result result', '*'), (r'\bstate::', 'state_', '*'),
    (r'defered_ll_control_pdu_ = pdu;', 'defered_ll_control_pdu_ = *pdu;', '*'), (r'defered_ll_control_pdu_ = write_buffer\{ nullptr, 0 \};', 'defered_ll_control_pdu_ = (struct wbuf){ 0, 0 };', '*'),
    (r'!defered_ll_control_pdu_\.empty\(\)', '( self->defered_ll_control_pdu_.buffer != 0 || self->defered_ll_control_pdu_.size != 0 )', '*'),
    (r'channels_\.reset\( &body\[ 1 \] \);', 'll_channels_reset( &body[ 1 ] );', '*'),
    (r'parse_timing_parameters_from_connection_update_request\( body \)', 'll_parse_timing_parameters_from_connection_update_request( body )', '*'),
    (r'this->synchronized_connection_event_callback_start_changing_connection\(\);', 'll_sync_start_changing_connection();', '*'),
    (r'this->handle_pending_phy_request\( opcode, \*this \)', 'll_handle_pending_phy_request( opcode )', '*'),
    (r'assert\( !"invalid opcode" \);', 'BT_ASSERT( 0 && "invalid opcode" );', '*'),
    (r'static_cast< std::uint8_t >\( supported_features >> 8 \)', '(uint8_t)( supported_features >> 8 )', '*'),
]
EX = dict(BITS_EXTRACTS,
    **{k: dict(kind='expr', file=LL, scope=CLS, locate=r'static constexpr std::uint8_t\s+%s\s*=' % k) for k in OPS},
    company_identifier=dict(kind='expr', file=LL, scope=CLS, locate=r'static constexpr std::uint16_t\s+company_identifier\s*='),
    ll_result=dict(kind='enum', file=LL, scope=CLS, name='ll_result'), ll_state=dict(kind='enum', file=LL, scope=CLS, name='state'),
    features=dict(kind='text', body='text', file=LL, scope=[CLS, r'struct link_layer_feature\s*(?=\{)'], locate=r'enum : std::uint16_t \{[^}]*\}', no_members=True,
                  rules=[(r'enum : uint16_t \{', 'enum {', 1), (r'(?m)^(\s*)(\w+)(\s*=)', r'\1link_layer_feature_\2\3', '+')]),
    fields=dict(kind='fields', file=LL, scope=CLS, names=['procedure_timeout_', 'defered_conn_event_counter_', 'defered_ll_control_pdu_', 'used_features_', 'disconnecting_reason_',
                'connection_parameters_request_running_', 'connection_parameters_request_use_signaling_channel_', 'version_indication_received_', 'version_indication_sent_', 'phy_update_request_running_'],
                type_map={'delta_time': 'uint32_t', 'write_buffer': 'struct wbuf'}),
    control=dict(file=LL, locate=T + r'typename ' + Q + r'll_result ' + Q + r'handle_ll_control_data\( const write_buffer& pdu, read_buffer write \)', pre=PRE),
    pending=dict(file=LL, locate=T + r'typename ' + Q + r'll_result ' + Q + r'handle_pending_ll_control\( std::uint16_t instance \)', pre=PRE),
)
CODE = BITS_CODE + r'''
''' + '\n'.join('#define %s ((uint8_t)({{%s}}))' % (k, k) for k in OPS) + r'''
#define company_identifier ((uint16_t)({{company_identifier}}))
{{ll_result}}; {{ll_state}};
{{features}};
struct wbuf { const uint8_t* buffer; size_t size; }; struct rbuf { uint8_t* buffer; size_t size; };
/* supported_features: connection parameter request, extended reject, ping always; encryption / 2M PHY by configuration (symbolic) */
uint16_t G_supported_features;
#define supported_features G_supported_features
struct ll { enum state state_; {{fields}} };
/* ---- the rest of the link layer: abstract, calls recorded. PDU layout: the default one (header 2 octets, body behind it) */
static inline const uint8_t* ll_body(const struct wbuf* p) { return p->buffer + 2; }
static inline uint16_t ll_header(const struct wbuf* p) { return read_16bit(p->buffer); }
uint16_t G_counter;    /* connection_event_counter(): the event in which the PDU was received; anything deferred can first be applied for event counter + 1 */
static inline uint16_t ll_connection_event_counter(void) { return G_counter; }
struct l_rec { size_t fills, commits, version_cb, features_cb, rejected_cb, unknown_cb, changed_cb, cpr_calls, enc_calls, phy_calls, map_resets, parse_calls, pending_phy_calls; uint8_t tx[16]; size_t tx_len; uint8_t cb_arg; const uint8_t* map_arg; const uint8_t* parse_arg; };
struct l_rec G_l;
bool W_cpr_commit, W_enc_handled, W_enc_commit, W_phy_handled, W_phy_commit, W_sc_result, W_parse_ok, W_pending_phy, W_version_sent, W_phy_running;
#define FL(i) G_l.tx[i] = (i) < n ? b[i] : 0;
static inline void ll_fill(struct rbuf w, const uint8_t* b, size_t n) { ++G_l.fills; G_l.tx_len = n; FL(0) FL(1) FL(2) FL(3) FL(4) FL(5) FL(6) FL(7) FL(8) FL(9) FL(10) FL(11) FL(12) FL(13) FL(14) FL(15) }
static inline void cb_version_indication_received(const uint8_t* d) { ++G_l.version_cb; }
static inline void cb_remote_features_received(const uint8_t* d) { ++G_l.features_cb; }
static inline void cb_procedure_rejected(uint8_t e) { ++G_l.rejected_cb; G_l.cb_arg = e; }
static inline void cb_procedure_unknown(uint8_t e) { ++G_l.unknown_cb; G_l.cb_arg = e; }
static inline void cb_connection_changed(void) { ++G_l.changed_cb; }
static inline bool ll_handle_connection_parameters_request(const struct wbuf* p) { ++G_l.cpr_calls; return W_cpr_commit; }
static inline bool ll_handle_encryption_pdus(uint8_t opcode, uint8_t size, bool* commit) { ++G_l.enc_calls; if (W_enc_handled) *commit = W_enc_commit; return W_enc_handled; }
/* handle_phy_request (under contract in unit events): an LL_PHY_UPDATE_IND that answers the PHY update procedure this side started ends the response time out, nothing else touches it */
bool W_phy_ends_own, W_phy_defers; uint16_t W_phy_instant;
static inline bool ll_handle_phy_request(struct ll* self, uint8_t opcode, uint8_t size, const struct wbuf* pdu, bool* commit) { ++G_l.phy_calls; if (W_phy_handled) { *commit = W_phy_commit; if (W_phy_ends_own) { self->procedure_timeout_ = 0; self->phy_update_request_running_ = false; }
    /* an LL_PHY_UPDATE_IND that changes a PHY is kept for its instant (contract of handle_phy_request, unit events) */
    if (W_phy_defers) { self->defered_ll_control_pdu_ = *pdu; self->defered_conn_event_counter_ = W_phy_instant; } } return W_phy_handled; }
static inline bool sc_connection_parameter_update_request(void) { return W_sc_result; }
static inline void ll_wake_up(void) {}
static inline void ll_commit_ll_transmit_buffer(void) { ++G_l.commits; }
static inline void ll_channels_reset(const uint8_t* map) { ++G_l.map_resets; G_l.map_arg = map; }
static inline bool ll_parse_timing_parameters_from_connection_update_request(const uint8_t* body) { ++G_l.parse_calls; G_l.parse_arg = body; return W_parse_ok; }
static inline void ll_sync_start_changing_connection(void) {}
static inline bool ll_handle_pending_phy_request(uint8_t opcode) { ++G_l.pending_phy_calls; return W_pending_phy; }
/* ---- witnesses */
uint8_t W_pdu[32]; uint16_t W_counter, W_instant_pending; bool W_version_received, W_pending; uint16_t W_used, W_supported; bool W_cpr_running, W_cpr_sc; uint32_t W_timeout;
uint8_t G_deferred_mem[32];
#define PDU_MEM 32
#define HDR_LLID   (W_pdu[0] & 3)
#define SIZE       (W_pdu[1])
#define OPCODE     (SIZE > 0 ? W_pdu[2] : 0xff)
#define IS(op, n)  (HDR_LLID == 3 && OPCODE == (op) && SIZE == (n))
#define U16(i)     ((uint16_t)(W_pdu[i] | (W_pdu[(i) + 1] << 8)))
#define LL_PRE(self, pdu) (__CPROVER_is_fresh(self, sizeof(struct ll)) && __CPROVER_is_fresh(pdu, sizeof(struct wbuf)) && (pdu)->size == PDU_MEM && __CPROVER_is_fresh((pdu)->buffer, PDU_MEM) && PDU_TIE((pdu)->buffer) \
   && (self)->version_indication_received_ == W_version_received && (self)->version_indication_sent_ == W_version_sent && (self)->phy_update_request_running_ == W_phy_running && (self)->used_features_ == W_used && G_supported_features == W_supported && G_counter == W_counter \
   && (self)->connection_parameters_request_running_ == W_cpr_running && (self)->connection_parameters_request_use_signaling_channel_ == W_cpr_sc && (self)->procedure_timeout_ == W_timeout \
   && (self)->defered_ll_control_pdu_.buffer == 0 && (self)->defered_ll_control_pdu_.size == 0 && G_l.fills == 0 && G_l.commits == 0 && G_l.version_cb == 0 && G_l.features_cb == 0 && G_l.rejected_cb == 0 && G_l.unknown_cb == 0 \
   && G_l.cpr_calls == 0 && G_l.enc_calls == 0 && G_l.phy_calls == 0)
#define PDU_TIE(b) ((b)[0] == W_pdu[0] && (b)[1] == W_pdu[1] && (b)[2] == W_pdu[2] && (b)[3] == W_pdu[3] && (b)[4] == W_pdu[4] && (b)[5] == W_pdu[5] && (b)[8] == W_pdu[8] && (b)[9] == W_pdu[9] && (b)[12] == W_pdu[12] && (b)[13] == W_pdu[13])
/* an instant can still be met iff it is not before the next connection event (modulo 2^16, half range) */
#define REACHABLE(instant) ((uint16_t)((uint16_t)(instant) - (uint16_t)(W_counter + 1)) < 0x8000)
#define DEFERRED(self)  ((self)->defered_ll_control_pdu_.buffer != 0)
#define RESPONSE(n)     (G_l.fills == 1 && G_l.commits == 1 && G_l.tx_len == 2 + (n) && G_l.tx[0] == 3 && G_l.tx[1] == (n))
#define NO_RESPONSE     (G_l.commits == 0)
#define HANDLED_ELSEWHERE (IS(LL_CONNECTION_PARAM_REQ, 24) || (ELSE_CHAIN && (W_enc_handled || W_phy_handled)))
#define KNOWN_HERE (IS(LL_CONNECTION_UPDATE_IND, 12) || IS(LL_TERMINATE_IND, 2) || (IS(LL_VERSION_IND, 6) && !W_version_received) || IS(LL_CHANNEL_MAP_REQ, 8) || IS(LL_PING_REQ, 1) || IS(LL_FEATURE_REQ, 9) \
                    || IS(LL_UNKNOWN_RSP, 2) || IS(LL_REJECT_IND, 2) || IS(LL_REJECT_EXT_IND, 3) || IS(LL_CONNECTION_PARAM_REQ, 24))
#define ELSE_CHAIN (HDR_LLID == 3 && !KNOWN_HERE)
enum ll_result handle_ll_control_data(struct ll* self, const struct wbuf* pdu, struct rbuf write)
__CPROVER_requires(LL_PRE(self, pdu))
#ifdef C27_CLAUSES
/* ---- C27: every request gets its specified response */
__CPROVER_ensures(IS(LL_PING_REQ, 1) ==> (RESPONSE(1) && G_l.tx[2] == LL_PING_RSP))
__CPROVER_ensures(IS(LL_FEATURE_REQ, 9) ==> (RESPONSE(9) && G_l.tx[2] == LL_FEATURE_RSP && G_l.tx[3] == (uint8_t)(W_used & U16(3)) && G_l.tx[4] == (uint8_t)(W_supported >> 8) && G_l.tx[5] == 0 && G_l.tx[6] == 0 && G_l.tx[7] == 0
    && G_l.tx[8] == 0 && G_l.tx[9] == 0 && G_l.tx[10] == 0 && self->used_features_ == (W_used & U16(3)) && G_l.features_cb == 1))
/* a single version indication per connection: the first LL_VERSION_IND of the central is answered with the own LL_VERSION_IND - unless that was already sent (the central then ANSWERS the version
   exchange this side started: nothing is sent, the response time out ends); a repeated one is not answered with a second LL_VERSION_IND; that the own indication was sent is remembered */
#define FIRST_VERSION_IND (IS(LL_VERSION_IND, 6) && !W_version_received)
__CPROVER_ensures((FIRST_VERSION_IND && !W_version_sent) ==> (RESPONSE(6) && G_l.tx[2] == LL_VERSION_IND && G_l.tx[3] == LL_VERSION_NR && G_l.tx[4] == (uint8_t)company_identifier && G_l.tx[5] == (uint8_t)(company_identifier >> 8)
    && self->version_indication_received_ && self->version_indication_sent_ && G_l.version_cb == 1))
__CPROVER_ensures((FIRST_VERSION_IND && W_version_sent) ==> (NO_RESPONSE && self->procedure_timeout_ == 0 && self->version_indication_received_ && G_l.version_cb == 1))
__CPROVER_ensures(W_version_received ==> (self->version_indication_received_ && G_l.version_cb == 0))
__CPROVER_ensures((W_version_received || W_version_sent) ==> (self->version_indication_sent_ == W_version_sent && !(G_l.commits == 1 && G_l.fills == 1 && G_l.tx[2] == LL_VERSION_IND)))
__CPROVER_ensures(self->version_indication_sent_ == (W_version_sent || FIRST_VERSION_IND))
/* responses and rejects are never answered; they are reported */
__CPROVER_ensures((IS(LL_UNKNOWN_RSP, 2) || IS(LL_REJECT_IND, 2) || IS(LL_REJECT_EXT_IND, 3)) ==> (NO_RESPONSE && __CPROVER_return_value == ll_result_go_ahead && G_l.rejected_cb + G_l.unknown_cb == 1
    && (IS(LL_UNKNOWN_RSP, 2) ? (G_l.unknown_cb == 1 && G_l.cb_arg == W_pdu[3]) : (G_l.rejected_cb == 1 && G_l.cb_arg == (IS(LL_REJECT_IND, 2) ? W_pdu[3] : W_pdu[4])))))
__CPROVER_ensures((HDR_LLID == 3 && OPCODE == LL_UNKNOWN_RSP) ==> NO_RESPONSE)
/* the rejected / unknown procedure was the own connection parameter request or the own PHY request: it is no longer waited for */
#define NAMES_REQUEST(op) ((IS(LL_UNKNOWN_RSP, 2) || IS(LL_REJECT_EXT_IND, 3)) && W_pdu[3] == (op))
__CPROVER_ensures((IS(LL_REJECT_IND, 2) || NAMES_REQUEST(LL_CONNECTION_PARAM_REQ)) ==> self->procedure_timeout_ == 0)
__CPROVER_ensures((W_phy_running && (IS(LL_REJECT_IND, 2) || NAMES_REQUEST(LL_PHY_REQ))) ==> (self->procedure_timeout_ == 0 && !self->phy_update_request_running_))
/* ... and only then: the 40 s response time out of a running procedure is ended by nothing else but the ANSWER to it - the central's LL_VERSION_IND if this side has sent its own, the
   LL_PHY_UPDATE_IND if this side has sent LL_PHY_REQ (handle_phy_request), the rejects above. In particular a version indication or PHY update the central starts itself leaves it running (frame) */
#define CLEARS_TIMEOUT (IS(LL_REJECT_IND, 2) || NAMES_REQUEST(LL_CONNECTION_PARAM_REQ) || (W_phy_running && NAMES_REQUEST(LL_PHY_REQ)) || (FIRST_VERSION_IND && W_version_sent) \
    || (ELSE_CHAIN && !W_enc_handled && W_phy_handled && W_phy_ends_own))
__CPROVER_ensures(!CLEARS_TIMEOUT ==> (self->procedure_timeout_ == W_timeout && self->connection_parameters_request_running_ == W_cpr_running && self->connection_parameters_request_use_signaling_channel_ == W_cpr_sc
    && self->phy_update_request_running_ == W_phy_running))
/* requests decided elsewhere: connection parameter request (its own handler decides about the answer), encryption (C28), PHY */
__CPROVER_ensures(IS(LL_CONNECTION_PARAM_REQ, 24) ==> (G_l.cpr_calls == 1 && G_l.commits == (W_cpr_commit ? 1 : 0)))
__CPROVER_ensures(ELSE_CHAIN ==> (G_l.enc_calls == 1 && (W_enc_handled ? (G_l.phy_calls == 0 && G_l.commits == (W_enc_commit ? 1 : 0)) : (G_l.phy_calls == 1 && (W_phy_handled ==> G_l.commits == (W_phy_commit ? 1 : 0))))))
/* everything else - unknown opcode, known opcode with a wrong length - gets LL_UNKNOWN_RSP naming the opcode */
__CPROVER_ensures((ELSE_CHAIN && !W_enc_handled && !W_phy_handled && OPCODE != LL_UNKNOWN_RSP) ==> (RESPONSE(2) && G_l.tx[2] == LL_UNKNOWN_RSP && G_l.tx[3] == OPCODE && __CPROVER_return_value == ll_result_go_ahead))
/* LL_TERMINATE_IND ends the connection with the reason given, unanswered */
__CPROVER_ensures(IS(LL_TERMINATE_IND, 2) ==> (__CPROVER_return_value == ll_result_disconnect && self->disconnecting_reason_ == W_pdu[3] && NO_RESPONSE))
/* not an LL control PDU: nothing happens */
__CPROVER_ensures(HDR_LLID != 3 ==> (NO_RESPONSE && G_l.fills == 0 && __CPROVER_return_value == ll_result_go_ahead && !DEFERRED(self)))
#endif
#ifdef C21_CLAUSES
/* ---- C21: an indication with an instant is kept for its instant only if that instant can still be met; otherwise the link ends with 'instant passed' */
__CPROVER_ensures((IS(LL_CONNECTION_UPDATE_IND, 12) || IS(LL_CHANNEL_MAP_REQ, 8)) ==> (NO_RESPONSE && (DEFERRED(self)
    ? (__CPROVER_return_value == ll_result_go_ahead && self->defered_ll_control_pdu_.buffer == pdu->buffer && self->defered_ll_control_pdu_.size == pdu->size
       && self->defered_conn_event_counter_ == (IS(LL_CONNECTION_UPDATE_IND, 12) ? U16(12) : U16(8)) && REACHABLE(self->defered_conn_event_counter_))
    : (__CPROVER_return_value == ll_result_disconnect && self->disconnecting_reason_ == connection_instant_passed))))
/* the same for an LL_PHY_UPDATE_IND that handle_phy_request wants to keep for its instant */
#define PHY_DEFERS (ELSE_CHAIN && !W_enc_handled && W_phy_handled && W_phy_defers)
__CPROVER_ensures(PHY_DEFERS ==> (REACHABLE(W_phy_instant)
    ? (DEFERRED(self) && self->defered_ll_control_pdu_.buffer == pdu->buffer && self->defered_conn_event_counter_ == W_phy_instant && __CPROVER_return_value == ll_result_go_ahead)
    : (!DEFERRED(self) && self->defered_ll_control_pdu_.size == 0 && __CPROVER_return_value == ll_result_disconnect && self->disconnecting_reason_ == connection_instant_passed)))
/* nothing else is deferred here, and whatever is deferred has an instant that can still be met */
__CPROVER_ensures(DEFERRED(self) ==> ((IS(LL_CONNECTION_UPDATE_IND, 12) || IS(LL_CHANNEL_MAP_REQ, 8) || PHY_DEFERS) && REACHABLE(self->defered_conn_event_counter_)))
#endif
__CPROVER_assigns(__CPROVER_object_whole(self), G_l)
{{control}}
/* applied exactly when the planned connection event is the instant, with the parameters the indication carried; then the way is free again */
enum ll_result handle_pending_ll_control(struct ll* self, uint16_t instance)
__CPROVER_requires(__CPROVER_is_fresh(self, sizeof(struct ll)) && self->defered_conn_event_counter_ == W_instant_pending && G_l.map_resets == 0 && G_l.parse_calls == 0 && G_l.changed_cb == 0 && G_l.pending_phy_calls == 0
    && (W_pending ? (__CPROVER_pointer_equals(self->defered_ll_control_pdu_.buffer, &G_deferred_mem[0]) && self->defered_ll_control_pdu_.size == PDU_MEM && PDU_TIE(G_deferred_mem)
                     && (W_pdu[2] == LL_CONNECTION_UPDATE_IND || W_pdu[2] == LL_CHANNEL_MAP_REQ || W_pending_phy))
                  : (self->defered_ll_control_pdu_.buffer == 0 && self->defered_ll_control_pdu_.size == 0)))
__CPROVER_ensures((W_pending && W_instant_pending == instance) ? (!DEFERRED(self) && self->defered_ll_control_pdu_.size == 0
      && (W_pdu[2] == LL_CHANNEL_MAP_REQ ? (G_l.map_resets == 1 && G_l.map_arg == &G_deferred_mem[3] && G_l.parse_calls == 0 && __CPROVER_return_value == ll_result_go_ahead)
        : W_pdu[2] == LL_CONNECTION_UPDATE_IND ? (G_l.parse_calls == 1 && G_l.parse_arg == &G_deferred_mem[2] && G_l.map_resets == 0 && G_l.changed_cb == (W_parse_ok ? 1 : 0)
                                                   && __CPROVER_return_value == (W_parse_ok ? ll_result_go_ahead : ll_result_disconnect) && (W_parse_ok ==> self->state_ == state_connection_changed))
        : (G_l.pending_phy_calls == 1 && G_l.map_resets == 0 && G_l.parse_calls == 0)))
    : (G_l.map_resets == 0 && G_l.parse_calls == 0 && G_l.changed_cb == 0 && G_l.pending_phy_calls == 0 && __CPROVER_return_value == ll_result_go_ahead && DEFERRED(self) == W_pending))
__CPROVER_assigns(__CPROVER_object_whole(self), G_l)
{{pending}}
#define SETUP struct ll* s; struct wbuf* p; struct rbuf w; for (int k = 0; k < 32; ++k) { W_pdu[k] = nondet_u8(); G_deferred_mem[k] = W_pdu[k]; } W_counter = nondet_u16(); G_counter = W_counter; W_instant_pending = nondet_u16(); W_version_received = nondet_bool(); W_pending = nondet_bool(); \
  W_used = nondet_u16(); W_supported = nondet_u16(); G_supported_features = W_supported; W_cpr_running = nondet_bool(); W_cpr_sc = nondet_bool(); W_timeout = nondet_u32(); W_cpr_commit = nondet_bool(); W_enc_handled = nondet_bool(); W_enc_commit = nondet_bool(); \
  W_phy_handled = nondet_bool(); W_phy_commit = nondet_bool(); W_sc_result = nondet_bool(); W_parse_ok = nondet_bool(); W_pending_phy = nondet_bool(); W_version_sent = nondet_bool(); W_phy_running = nondet_bool(); W_phy_ends_own = nondet_bool(); W_phy_defers = nondet_bool(); W_phy_instant = nondet_u16(); G_l = (struct l_rec){ 0 }; \
  /* what the two other handlers accept is their own contract (C28; PHY): encryption PDUs 0x03, 0x06, 0x0A, 0x0B, PHY PDUs 0x16, 0x18 */ \
  __CPROVER_assume((!W_enc_handled || W_pdu[2] == 0x03 || W_pdu[2] == 0x06 || W_pdu[2] == 0x0A || W_pdu[2] == 0x0B) && (!W_phy_handled || W_pdu[2] == 0x16 || W_pdu[2] == 0x18) && (!W_phy_ends_own || (W_phy_running && W_pdu[2] == LL_PHY_UPDATE_IND)) && (!W_phy_defers || W_pdu[2] == LL_PHY_UPDATE_IND)); BT_KNOWN_EXCLUDE()
void h_handle_ll_control_data(void) { SETUP; handle_ll_control_data(s, p, w); BT_CANARY(); }
void h_handle_pending_ll_control(void) { SETUP; handle_pending_ll_control(s, nondet_u16()); BT_CANARY(); }
'''
def unit(clauses, **kw):
    d = dict(name='ll_control', extracts=EX, code=CODE, defines=[clauses], object_bits=10, enforce=['handle_ll_control_data', 'handle_pending_ll_control'], replace=[])
    d.update(kw); return d
