"""C27, 'parameter request handling': the three implementations of handle_connection_parameters_request (ll_options.hpp) and the deferred answer of the asynchronous one."""
import os, sys
sys.path.insert(0, os.path.dirname(__file__))
from common import BITS_EXTRACTS, BITS_CODE
LO = 'bluetoe/link_layer/include/bluetoe/ll_options.hpp'
BASE = r'struct desired_connection_parameters_base\s*(?=\{)'
DES = r'struct desired_connection_parameters : private details::desired_connection_parameters_base\s*(?=\{)'
ASY = r'struct asynchronous_connection_parameter_request : private details::desired_connection_parameters_base\s*(?=\{)'
NON = r'struct no_desired_connection_parameters : private details::desired_connection_parameters_base\s*(?=\{)'
def _fill(m):
    return '{ const uint8_t fill_tmp[] = { %s }; ll_fill( response, fill_tmp, sizeof( fill_tmp ) ); }' % ' '.join(m.group(1).split())
PRE = [
    (r'static constexpr std::uint16_t', 'const uint16_t', '*'), (r'using bluetoe::details::read_16bit;', '', '*'),
    (r'Layout::body\( request \)\.first', '( request->buffer + 2 )', '*'), (r'Layout::body\( response \)\.first', '( response.buffer + 2 )', '*'),
    (r'details::requested_connection_parameters params;', 'struct requested_connection_parameters params;', '*'),
    (r'parse_and_check_params< Layout >\( request, response, params \)', 'parse_and_check_params( request, response, &params )', '*'),
    (r'fill< Layout >\( response, \{\s*([^}]*?)\s*\} \);', _fill, '*'),
    (r'std::copy\( &body\[ (\w+) \], &body\[ ([^\]]*?) \], &write_body\[ (\w+) \] \);', r'copy_bytes( &body[ \1 ], (size_t)( \2 ) - \1, &write_body[ \3 ] );', '*'),
    (r'(?<![\w.>])size\b', 'CPR_SIZE', '*'),
    (r'\b(Interval|Latency|Timeout)_(min|max)\b', r'G_\1_\2', '*'),
    (r'details\.(interval|latency|timeout)\(\)', r'G_cur_\1', '*'),
    (r'Obj\.ll_remote_connection_parameter_request\(', 'cb_remote_connection_parameter_request(', '*'),
]
PARSE_PRE = PRE + [(r'\bparams\.', 'params->', '+')]
CONSTS = ['size', 'll_control_pdu_code', 'LL_CONNECTION_PARAM_REQ', 'LL_CONNECTION_PARAM_RSP', 'LL_REJECT_EXT_IND', 'invalid_ll_paramerters']
HND = r'bool handle_connection_parameters_request\(\s*const write_buffer& request, read_buffer response, const connection_details& (?:details )?\)'
EX = dict(BITS_EXTRACTS,
    **{'c_' + k: dict(kind='expr', file=LO, scope=BASE, locate=r'static constexpr std::(?:size_t|uint8_t)\s+%s\s*=' % k) for k in CONSTS},
    parse=dict(file=LO, scope=BASE, locate=r'static bool parse_and_check_params\( const write_buffer& request, read_buffer response, requested_connection_parameters& params \)', pre=PARSE_PRE, no_members=True),
    desired=dict(file=LO, scope=DES, locate=HND, pre=PRE, no_members=True),
    none=dict(file=LO, scope=NON, locate=HND, pre=PRE, no_members=True),
    asy=dict(file=LO, scope=ASY, locate=HND, pre=PRE),
    asy_fill=dict(file=LO, scope=ASY, locate=r'void connection_parameters_response_fill\( read_buffer response \)', pre=PRE),
    asy_fields=dict(kind='fields', file=LO, scope=ASY, names=['pending_', 'negative_', 'interval_min_', 'interval_max_', 'latency_', 'timeout_', 'reason_']),
)
CODE = BITS_CODE + r'''
#define CPR_SIZE ((size_t)({{c_size}}))
#define ll_control_pdu_code ((uint8_t)({{c_ll_control_pdu_code}}))
#define LL_CONNECTION_PARAM_REQ ((uint8_t)({{c_LL_CONNECTION_PARAM_REQ}}))
#define LL_CONNECTION_PARAM_RSP ((uint8_t)({{c_LL_CONNECTION_PARAM_RSP}}))
#define LL_REJECT_EXT_IND ((uint8_t)({{c_LL_REJECT_EXT_IND}}))
#define invalid_ll_paramerters ((uint8_t)({{c_invalid_ll_paramerters}}))
struct wbuf { const uint8_t* buffer; size_t size; }; struct rbuf { uint8_t* buffer; size_t size; };
struct requested_connection_parameters { uint16_t min_interval; uint16_t max_interval; uint16_t latency; uint16_t timeout; };
/* the response buffer: 2 octets header, 27 octets body (PDU layout: the default one). fill<>() writes header and body from the start, the handlers then copy octets of the request behind it */
#define TX_MAX 29
uint8_t G_tx[TX_MAX]; struct { size_t fills, len, cb; uint16_t cb_min, cb_max, cb_latency, cb_timeout; } G_c;
#define FL(i) if ((i) < n) w.buffer[i] = b[i];
static inline void ll_fill(struct rbuf w, const uint8_t* b, size_t n) { ++G_c.fills; G_c.len = n;
  FL(0) FL(1) FL(2) FL(3) FL(4) FL(5) FL(6) FL(7) FL(8) FL(9) FL(10) FL(11) FL(12) FL(13) FL(14) FL(15) FL(16) FL(17) FL(18) FL(19) FL(20) FL(21) FL(22) FL(23) FL(24) FL(25) }
#define CP(i) if ((i) < n) d[i] = s[i];
static inline void copy_bytes(const uint8_t* s, size_t n, uint8_t* d) { CP(0) CP(1) CP(2) CP(3) CP(4) CP(5) CP(6) CP(7) CP(8) CP(9) CP(10) CP(11) CP(12) CP(13) CP(14) CP(15) CP(16) CP(17) CP(18) CP(19) CP(20) CP(21) CP(22) CP(23) }
static inline void cb_remote_connection_parameter_request(uint16_t a, uint16_t b, uint16_t c, uint16_t d) { ++G_c.cb; G_c.cb_min = a; G_c.cb_max = b; G_c.cb_latency = c; G_c.cb_timeout = d; }
/* ---- the request: LL_CONNECTION_PARAM_REQ, 24 octets: opcode, Interval_Min, Interval_Max, Latency, Timeout, then 15 octets (preferred periodicity, reference event count, offsets) */
uint8_t W_req[26]; size_t G_j;
#define R16(i) ((uint16_t)(W_req[i] | (W_req[(i) + 1] << 8)))
#define T16(i) ((uint16_t)(G_tx[i] | (G_tx[(i) + 1] << 8)))
#define REQ_MIN R16(3)
#define REQ_MAX R16(5)
#define REQ_LAT R16(7)
#define REQ_TO  R16(9)
/* Core Spec Vol 6 Part B 2.4.2.16 as far as the library checks it: 7.5 ms <= Interval_Min <= Interval_Max <= 4 s, latency <= 499 */
#define VALID (REQ_MAX >= REQ_MIN && REQ_MIN >= 5 && REQ_MAX <= 3200 && REQ_LAT <= 499)
#define REQ_TIE(b) ((b)[2] == W_req[2] && (b)[3] == W_req[3] && (b)[4] == W_req[4] && (b)[5] == W_req[5] && (b)[6] == W_req[6] && (b)[7] == W_req[7] && (b)[8] == W_req[8] && (b)[9] == W_req[9] && (b)[10] == W_req[10] && (b)[G_j] == W_req[G_j])
#define CALL_OK(request, response) (G_j >= 11 && G_j < 26 && __CPROVER_is_fresh(request, sizeof(struct wbuf)) && (request)->size == 26 && __CPROVER_is_fresh((request)->buffer, 26) && REQ_TIE((request)->buffer) \
    && __CPROVER_pointer_equals((response).buffer, &G_tx[0]) && (response).size == TX_MAX && G_c.fills == 0 && G_c.cb == 0)
/* an invalid request is rejected: LL_REJECT_EXT_IND( LL_CONNECTION_PARAM_REQ, invalid LL parameters ) */
#define REJECTED (G_c.fills == 1 && G_c.len == 5 && G_tx[0] == 3 && G_tx[1] == 3 && G_tx[2] == 0x11 && G_tx[3] == 0x0f && G_tx[4] == 0x1e)
/* a response: LL_CONNECTION_PARAM_RSP, 24 octets */
#define RSP_HEAD (G_c.fills == 1 && G_tx[0] == 3 && G_tx[1] == 24 && G_tx[2] == 0x10)
bool parse_and_check_params(const struct wbuf* request, struct rbuf response, struct requested_connection_parameters* params)
__CPROVER_requires(CALL_OK(request, response) && __CPROVER_is_fresh(params, sizeof(*params)))
__CPROVER_ensures(__CPROVER_return_value == VALID && params->min_interval == REQ_MIN && params->max_interval == REQ_MAX && params->latency == REQ_LAT && params->timeout == REQ_TO)
__CPROVER_ensures(VALID ? G_c.fills == 0 : REJECTED)
__CPROVER_assigns(*params, G_c.fills, G_c.len, __CPROVER_object_whole(G_tx))
{{parse}}
/* ---- no_desired_connection_parameters: a valid request is accepted as it is - the response repeats the request's 23 parameter octets */
bool none_handle_connection_parameters_request(const struct wbuf* request, struct rbuf response)
__CPROVER_requires(CALL_OK(request, response))
__CPROVER_ensures(__CPROVER_return_value /* always answered at once */ && (VALID ? (RSP_HEAD && T16(3) == REQ_MIN && T16(5) == REQ_MAX && T16(7) == REQ_LAT && T16(9) == REQ_TO && G_tx[G_j] == W_req[G_j]) : REJECTED))
__CPROVER_assigns(G_c, __CPROVER_object_whole(G_tx))
{{none}}
/* ---- desired_connection_parameters< Interval_min, Interval_max, Latency_min, Latency_max, Timeout_min, Timeout_max >: the response stays within the configured ranges, and is the
        request's own value wherever that lies within them */
uint16_t G_Interval_min, G_Interval_max, G_Latency_min, G_Latency_max, G_Timeout_min, G_Timeout_max;
#define RANGES_OK (G_Interval_min <= G_Interval_max && G_Latency_min <= G_Latency_max && G_Timeout_min <= G_Timeout_max)
#define MAX16(a, b) ((a) > (b) ? (a) : (b))
#define MIN16(a, b) ((a) < (b) ? (a) : (b))
bool desired_handle_connection_parameters_request(const struct wbuf* request, struct rbuf response)
__CPROVER_requires(CALL_OK(request, response) && RANGES_OK)
__CPROVER_ensures(__CPROVER_return_value && (VALID ? RSP_HEAD : REJECTED))
__CPROVER_ensures(VALID ==> (G_Interval_min <= T16(3) && T16(3) <= T16(5) && T16(5) <= G_Interval_max && G_Latency_min <= T16(7) && T16(7) <= G_Latency_max && G_Timeout_min <= T16(9) && T16(9) <= G_Timeout_max))
__CPROVER_ensures((VALID && MAX16(REQ_MIN, G_Interval_min) <= MIN16(REQ_MAX, G_Interval_max)) ==> (T16(3) == MAX16(REQ_MIN, G_Interval_min) && T16(5) == MIN16(REQ_MAX, G_Interval_max)))
__CPROVER_ensures((VALID && REQ_LAT >= G_Latency_min && REQ_LAT <= G_Latency_max) ==> T16(7) == REQ_LAT)
__CPROVER_ensures((VALID && REQ_TO >= G_Timeout_min && REQ_TO <= G_Timeout_max) ==> T16(9) == REQ_TO)
/* the remaining octets (preferred periodicity, reference event, offsets) are the request's */
__CPROVER_ensures(VALID ==> G_tx[G_j] == W_req[G_j])
__CPROVER_assigns(G_c, __CPROVER_object_whole(G_tx))
{{desired}}
/* ---- asynchronous_connection_parameter_request: a request for the parameters already in use is accepted at once; any other valid one is handed to the application (no answer now),
        the answer the application gives later is sent by connection_parameters_response_fill */
uint16_t G_cur_interval, G_cur_latency, G_cur_timeout;
struct asy { {{asy_fields}} };
#define UNCHANGED (REQ_MIN == REQ_MAX && REQ_MIN == G_cur_interval && REQ_LAT == G_cur_latency && REQ_TO == G_cur_timeout)
bool asy_handle_connection_parameters_request(struct asy* self, const struct wbuf* request, struct rbuf response)
__CPROVER_requires(CALL_OK(request, response) && __CPROVER_is_fresh(self, sizeof(struct asy)))
__CPROVER_ensures(!VALID ==> (__CPROVER_return_value && REJECTED && G_c.cb == 0))
__CPROVER_ensures((VALID && UNCHANGED) ==> (__CPROVER_return_value && RSP_HEAD && T16(3) == REQ_MIN && T16(5) == REQ_MAX && T16(7) == REQ_LAT && T16(9) == REQ_TO && G_tx[G_j] == W_req[G_j] && G_c.cb == 0))
__CPROVER_ensures((VALID && !UNCHANGED) ==> (!__CPROVER_return_value && G_c.fills == 0 && G_c.cb == 1 && G_c.cb_min == REQ_MIN && G_c.cb_max == REQ_MAX && G_c.cb_latency == REQ_LAT && G_c.cb_timeout == REQ_TO))
__CPROVER_assigns(G_c, __CPROVER_object_whole(G_tx))
{{asy}}
bool W_negative; uint16_t W_imin, W_imax, W_lat, W_to; uint8_t W_reason;
void asy_connection_parameters_response_fill(struct asy* self, struct rbuf response)
__CPROVER_requires(__CPROVER_is_fresh(self, sizeof(struct asy)) && __CPROVER_pointer_equals(response.buffer, &G_tx[0]) && response.size == TX_MAX && G_c.fills == 0 && G_j >= 12 && G_j < 26
    && self->negative_ == W_negative && self->interval_min_ == W_imin && self->interval_max_ == W_imax && self->latency_ == W_lat && self->timeout_ == W_to && self->reason_ == W_reason)
__CPROVER_ensures(W_negative ? (G_c.fills == 1 && G_c.len == 5 && G_tx[0] == 3 && G_tx[1] == 3 && G_tx[2] == 0x11 && G_tx[3] == 0x0f && G_tx[4] == W_reason)
    : (RSP_HEAD && G_c.len == 26 && T16(3) == W_imin && T16(5) == W_imax && T16(7) == W_lat && T16(9) == W_to && G_tx[11] == 0 && G_tx[G_j] == 0xff))
__CPROVER_ensures(!self->pending_)
__CPROVER_assigns(__CPROVER_object_whole(self), G_c, __CPROVER_object_whole(G_tx))
{{asy_fill}}
#define SETUP struct wbuf* rq; struct rbuf rs; rs.buffer = G_tx; rs.size = TX_MAX; for (int k = 0; k < 26; ++k) W_req[k] = nondet_u8(); G_j = nondet_size(); G_c.fills = 0; G_c.cb = 0; G_c.len = 0; \
  G_Interval_min = nondet_u16(); G_Interval_max = nondet_u16(); G_Latency_min = nondet_u16(); G_Latency_max = nondet_u16(); G_Timeout_min = nondet_u16(); G_Timeout_max = nondet_u16(); \
  G_cur_interval = nondet_u16(); G_cur_latency = nondet_u16(); G_cur_timeout = nondet_u16(); W_negative = nondet_bool(); W_imin = nondet_u16(); W_imax = nondet_u16(); W_lat = nondet_u16(); W_to = nondet_u16(); W_reason = nondet_u8(); BT_KNOWN_EXCLUDE()
void h_parse_and_check_params(void) { SETUP; struct requested_connection_parameters* p; parse_and_check_params(rq, rs, p); BT_CANARY(); }
void h_none_handle_connection_parameters_request(void) { SETUP; none_handle_connection_parameters_request(rq, rs); BT_CANARY(); }
void h_desired_handle_connection_parameters_request(void) { SETUP; desired_handle_connection_parameters_request(rq, rs); BT_CANARY(); }
void h_asy_handle_connection_parameters_request(void) { SETUP; struct asy* a; asy_handle_connection_parameters_request(a, rq, rs); BT_CANARY(); }
void h_asy_connection_parameters_response_fill(void) { SETUP; struct asy* a; asy_connection_parameters_response_fill(a, rs); BT_CANARY(); }
'''
FNS = ['parse_and_check_params', 'none_handle_connection_parameters_request', 'desired_handle_connection_parameters_request', 'asy_handle_connection_parameters_request', 'asy_connection_parameters_response_fill']
UNIT = dict(name='parameter_request', extracts=EX, code=CODE, object_bits=10, enforce=FNS, replace=['parse_and_check_params'])
