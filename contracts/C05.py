"""C05 Encryption-protected values are never exposed on an unencrypted link."""
import os, sys
sys.path.insert(0, os.path.dirname(__file__))
import importlib.util
from acc import *

def _load(name):
    sp = importlib.util.spec_from_file_location(name, os.path.join(os.path.dirname(__file__), name + '.py'))
    m = importlib.util.module_from_spec(sp); sp.loader.exec_module(m); return m

ED_BODY = r'struct encryption_default\s*\{[^{}]*\}'
CRE_BODY = r'struct characteristic_requires_encryption<\s*bluetoe::characteristic< CharacteristicOptions\.\.\. >,\s*bluetoe::service< ServiceOptions\.\.\. >,\s*bluetoe::server< ServerOptions\.\.\. > >\s*\{[^{}]*\}'
# every 'static bool constexpr NAME = <expr>;' of the struct becomes 'const bool NAME = <expr>;' in source order (whatever members there are);
# the has_option<> meta function results are the inputs
LIFT = [(r'^struct [^{]*\{', '', 1), (r'\}$', '', 1), (r'static bool const(?:expr)? (\w+)\s*=', r'const bool \1 =', '+')]
ED_RULES = LIFT + [(r'details::has_option< requires_encryption, Options\.\.\. >::value', 'has_requires_encryption', 1),
                   (r'details::has_option< may_require_encryption, Options\.\.\. >::value', 'has_may_require_encryption', 1),
                   (r'details::has_option< no_encryption_required, Options\.\.\. >::value', 'has_no_encryption_required', 1)]
CRE_RULES = LIFT + [(r'encryption_default< (\w+), (\w+)Options\.\.\. >::value', r'encryption_default_value( \1, G_\2_req, G_\2_noreq, G_\2_may )', 3)]
EX = dict(
    ed_body=dict(kind='text', body='text', file=ENC, locate=ED_BODY, no_members=True, rules=ED_RULES),
    cre_body=dict(kind='text', body='text', file=ENC, locate=CRE_BODY, no_members=True, rules=CRE_RULES),
)
CODE = r"""
/* encryption.hpp: the constexpr members of encryption_default<> and characteristic_requires_encryption<>, lifted member by member into
   functions of the has_option<> results */
bool W_d, W_r, W_n, W_m; bool W_o[9];
#define ED_SPEC(Default, req, noreq) ((noreq) ? false : (req) ? true : (Default))
bool encryption_default_value(bool Default, bool has_requires_encryption, bool has_no_encryption_required, bool has_may_require_encryption)
__CPROVER_requires(WIT(encryption_default_value, Default == W_d && has_requires_encryption == W_r && has_no_encryption_required == W_n && has_may_require_encryption == W_m))
/* an explicit no_encryption_required wins, then an explicit requires_encryption, otherwise the enclosing level's value is inherited;
   may_require_encryption does not change whether encryption is required */
__CPROVER_ensures(__CPROVER_return_value == ED_SPEC(Default, has_requires_encryption, has_no_encryption_required))
__CPROVER_assigns()
{ {{ed_body}} return value; }
bool encryption_default_maybe(bool Default, bool has_requires_encryption, bool has_no_encryption_required, bool has_may_require_encryption)
__CPROVER_ensures(__CPROVER_return_value == (ED_SPEC(Default, has_requires_encryption, has_no_encryption_required) || has_may_require_encryption))
__CPROVER_assigns()
{ {{ed_body}} return maybe; }
bool G_Server_req, G_Server_noreq, G_Server_may, G_Service_req, G_Service_noreq, G_Service_may, G_Characteristic_req, G_Characteristic_noreq, G_Characteristic_may;
bool characteristic_requires_encryption(void)
__CPROVER_requires(G_Server_req == W_o[0] && G_Server_noreq == W_o[1] && G_Service_req == W_o[2] && G_Service_noreq == W_o[3] && G_Characteristic_req == W_o[4] && G_Characteristic_noreq == W_o[5]
                   && G_Server_may == W_o[6] && G_Service_may == W_o[7] && G_Characteristic_may == W_o[8])
/* characteristic option overrides service option overrides server option; nothing anywhere: no encryption required */
__CPROVER_ensures(__CPROVER_return_value ==
    ED_SPEC(ED_SPEC(ED_SPEC(false, G_Server_req, G_Server_noreq), G_Service_req, G_Service_noreq), G_Characteristic_req, G_Characteristic_noreq))
__CPROVER_ensures((G_Characteristic_req && !G_Characteristic_noreq) ==> __CPROVER_return_value)
__CPROVER_ensures(G_Characteristic_noreq ==> !__CPROVER_return_value)
__CPROVER_ensures((!G_Characteristic_req && !G_Characteristic_noreq && G_Service_req && !G_Service_noreq) ==> __CPROVER_return_value)
__CPROVER_assigns()
{ {{cre_body}} return value; }
#define SETUP W_d = nondet_bool(); W_r = nondet_bool(); W_n = nondet_bool(); W_m = nondet_bool(); for (int k = 0; k < 9; ++k) W_o[k] = nondet_bool(); \
  G_Server_req = W_o[0]; G_Server_noreq = W_o[1]; G_Service_req = W_o[2]; G_Service_noreq = W_o[3]; G_Characteristic_req = W_o[4]; G_Characteristic_noreq = W_o[5]; \
  G_Server_may = W_o[6]; G_Service_may = W_o[7]; G_Characteristic_may = W_o[8]; BT_KNOWN_EXCLUDE()
void h_encryption_default_value(void) { SETUP; encryption_default_value(W_d, W_r, W_n, W_m); BT_CANARY(); }
void h_encryption_default_maybe(void) { SETUP; encryption_default_maybe(W_d, W_r, W_n, W_m); BT_CANARY(); }
void h_characteristic_requires_encryption(void) { SETUP; characteristic_requires_encryption(); BT_CANARY(); }
"""
UNITS = [dict(name='requires_encryption', extracts=EX, code=CODE, replay=dict(src='replay/c05_replay.cpp'),
              enforce=['encryption_default_value', 'encryption_default_maybe', 'characteristic_requires_encryption'],
              replace=['encryption_default_value'])]

# the access functions: each refuses a protected attribute on an unencrypted link with the specified code and without any effect
# (contracts stated in C06.py / C09.py; here the jobs that enforce the top-level access functions and the gate itself are run)
_c06, _c09 = _load('C06'), _load('C09')
_keep = {'bind_value': ['bind_value_access'], 'fixed_values': ['fixed_value_access', 'cstring_value_access'], 'handler_value': ['handler_value_access']}
for u in _c06.UNITS:
    if u['name'] in _keep:
        u = dict(u); u['enforce'] = _keep[u['name']]; u['defines'] = list(u.get('defines', [])) + ['ENCRYPTION_CLAUSES_ONLY']; UNITS.append(u)
for u in _c09.UNITS:
    u = dict(u); u['enforce'] = ['cccd_access', 'enc_check_true', 'enc_check_false']; UNITS.append(u)
    UNITS.append(dict(u, name='gate', enforce=['enc_check_true', 'enc_check_false'], replay=dict(src='replay/c05_replay.cpp'))); u['enforce'] = ['cccd_access']

# the link side: link_layer<>::disconnect( reason ) (contract in lle.py) must not switch the link's encryption off while PDUs that were queued on the encrypted link are still to be sent
import lle
UNITS.append(lle.unit(['ll_disconnect'], name='link', replay=dict(src='replay/c05_link_replay.cpp', cxxflags=['-DNDEBUG', '-I/repo/tests/test_tools', '-I/repo/tests/link_layer'],
                      repo_sources=['tests/test_tools/test_radio.cpp', 'tests/test_tools/hexdump.cpp', 'tests/test_tools/buffer_io.cpp', 'tests/test_tools/address_io.cpp',
                                    'bluetoe/link_layer/delta_time.cpp', 'bluetoe/link_layer/channel_map.cpp', 'bluetoe/link_layer/connection_details.cpp', 'bluetoe/utility/address.cpp'])))

# ... and the link state the gate is asked with: handle_encryption_pdus (contract in C28.py) reports 'not encrypted' to the connection data from LL_PAUSE_ENC_REQ on, 'encrypted' only with LL_START_ENC_RSP
UNITS += [dict(u, enforce=['handle_encryption_pdus']) for u in _load('C28').UNITS if u['name'] == 'encryption_control']

META = dict(
    level='proof',
    explanation="(1) The defining expressions of encryption_default<>::value / ::maybe and characteristic_requires_encryption<>::value "
                "(encryption.hpp) are lifted from the source and proved equal to the inheritance rule of the statement for all 2^6 option "
                "placements (characteristic overrides service overrides server, no_encryption_required wins over requires_encryption, default "
                "false). (2) encryption_requirements<true/false>::check: success iff not required or link encrypted, otherwise Insufficient "
                "Authentication iff no key else Insufficient Encryption. (3) Every value access function (bind_characteristic_value, fixed_value, "
                "cstring_wrapper, value_handler_base) and the CCCD access function: with RequiresEncryption symbolic, on an unencrypted link the "
                "function returns that code, writes no byte of the request buffer, of the bound value or of the CCCD store (ghost index + "
                "conditional assigns frame) and calls no user handler / callback - for every access type, offset, length and content.",
    assumptions=["the gate decides when the attribute is accessed; the response is transmitted later by the link layer: unit link (link_layer<>::disconnect, real body) proves that a "
                 "disconnect requested by the local host does not switch the link's encryption off while queued PDUs and the LL_TERMINATE_IND are still to be sent "
                 "(force_disconnect, which does, is where the connection ends: C29); unit encryption_control (C28.py): the link state handed to every access is 'encrypted' only between "
                 "LL_START_ENC_RSP for a supplied key and the next LL_PAUSE_ENC_REQ / LL_PAUSE_ENC_RSP / reset",
                 "has_option<requires_encryption / no_encryption_required / may_require_encryption, Options...> are type-level results and enter as "
                 "symbolic booleans; that each generate_attribute<> instantiation passes characteristic_requires_encryption<...>::value as "
                 "RequiresEncryption is read off the source (template argument), not proved",
                 "that every ATT request path (Read, Read Blob, Read By Type, Read Multiple, Write, Write Command, Prepare/Execute Write, "
                 "notification, indication) passes connection.security_attributes() into the access call is a fact about server.hpp handlers that "
                 "are not under contract here (C01); descriptors other than the CCCD (user description, user descriptors) are not encryption gated "
                 "by the library and are outside the statement",
                 "known finding F-C06a is excluded in unit handler_value (it concerns no_read_access, not encryption)"],
    trusted_base=["application read/write handlers"],
)
