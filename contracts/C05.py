"""C05 Encryption-protected values are never exposed on an unencrypted link."""
import os, sys
sys.path.insert(0, os.path.dirname(__file__))
import importlib.util
from acc import *

def _load(name):
    sp = importlib.util.spec_from_file_location(name, os.path.join(os.path.dirname(__file__), name + '.py'))
    m = importlib.util.module_from_spec(sp); sp.loader.exec_module(m); return m

ED = r'struct encryption_default\s*(?=\{)'
CRE = r'struct characteristic_requires_encryption<\s*bluetoe::characteristic< CharacteristicOptions\.\.\. >,\s*bluetoe::service< ServiceOptions\.\.\. >,\s*bluetoe::server< ServerOptions\.\.\. > >\s*(?=\{)'
CRE_RULES = [(r'encryption_default< (\w+), (\w+)Options\.\.\. >::value', r'encryption_default_value( \1, G_\2_req, G_\2_noreq )', 1)]
EX = dict(
    ed_value=dict(kind='expr', file=ENC, scope=ED, locate=r'static bool constexpr value ='),
    ed_maybe=dict(kind='expr', file=ENC, scope=ED, locate=r'static bool constexpr maybe ='),
    cre_server=dict(kind='expr', file=ENC, scope=CRE, locate=r'static bool constexpr server_requires_encryption\s*=', rules=CRE_RULES),
    cre_service=dict(kind='expr', file=ENC, scope=CRE, locate=r'static bool constexpr service_requires_encryption\s*=', rules=CRE_RULES),
    cre_value=dict(kind='expr', file=ENC, scope=CRE, locate=r'static bool constexpr value\s*=', rules=CRE_RULES),
)
CODE = r'''
/* encryption.hpp: the defining expressions of the constexpr members, lifted into functions of the has_option<> results */
bool W_d, W_r, W_n; bool W_o[6];
#define ED_SPEC(Default, req, noreq) ((noreq) ? false : (req) ? true : (Default))
bool encryption_default_value(bool Default, bool require_encryption, bool require_not_encryption)
__CPROVER_requires(WIT(encryption_default_value, Default == W_d && require_encryption == W_r && require_not_encryption == W_n))
/* an explicit no_encryption_required wins, then an explicit requires_encryption, otherwise the enclosing level's value is inherited */
__CPROVER_ensures(__CPROVER_return_value == ED_SPEC(Default, require_encryption, require_not_encryption))
__CPROVER_assigns()
{ return {{ed_value}}; }
bool encryption_default_maybe(bool Default, bool require_encryption, bool require_not_encryption, bool may_require)
__CPROVER_ensures(__CPROVER_return_value == (ED_SPEC(Default, require_encryption, require_not_encryption) || may_require))
__CPROVER_assigns()
{ const bool value = encryption_default_value(Default, require_encryption, require_not_encryption); return {{ed_maybe}}; }
bool G_Server_req, G_Server_noreq, G_Service_req, G_Service_noreq, G_Characteristic_req, G_Characteristic_noreq;
bool characteristic_requires_encryption(void)
__CPROVER_requires(G_Server_req == W_o[0] && G_Server_noreq == W_o[1] && G_Service_req == W_o[2] && G_Service_noreq == W_o[3] && G_Characteristic_req == W_o[4] && G_Characteristic_noreq == W_o[5])
/* characteristic option overrides service option overrides server option; nothing anywhere: no encryption required */
__CPROVER_ensures(__CPROVER_return_value ==
    ED_SPEC(ED_SPEC(ED_SPEC(false, G_Server_req, G_Server_noreq), G_Service_req, G_Service_noreq), G_Characteristic_req, G_Characteristic_noreq))
__CPROVER_ensures((G_Characteristic_req && !G_Characteristic_noreq) ==> __CPROVER_return_value)
__CPROVER_ensures(G_Characteristic_noreq ==> !__CPROVER_return_value)
__CPROVER_ensures((!G_Characteristic_req && !G_Characteristic_noreq && G_Service_req && !G_Service_noreq) ==> __CPROVER_return_value)
__CPROVER_assigns()
{
    const bool server_requires_encryption = {{cre_server}};
    const bool service_requires_encryption = {{cre_service}};
    return {{cre_value}};
}
#define SETUP W_d = nondet_bool(); W_r = nondet_bool(); W_n = nondet_bool(); for (int k = 0; k < 6; ++k) W_o[k] = nondet_bool(); \
  G_Server_req = W_o[0]; G_Server_noreq = W_o[1]; G_Service_req = W_o[2]; G_Service_noreq = W_o[3]; G_Characteristic_req = W_o[4]; G_Characteristic_noreq = W_o[5]; BT_KNOWN_EXCLUDE()
void h_encryption_default_value(void) { SETUP; encryption_default_value(W_d, W_r, W_n); BT_CANARY(); }
void h_encryption_default_maybe(void) { SETUP; encryption_default_maybe(W_d, W_r, W_n, nondet_bool()); BT_CANARY(); }
void h_characteristic_requires_encryption(void) { SETUP; characteristic_requires_encryption(); BT_CANARY(); }
'''
UNITS = [dict(name='requires_encryption', extracts=EX, code=CODE, replay=dict(src='replay/c05_replay.cpp'),
              enforce=['encryption_default_value', 'encryption_default_maybe', 'characteristic_requires_encryption'],
              replace=['encryption_default_value'])]

# the access functions: each refuses a protected attribute on an unencrypted link with the specified code and without any effect
# (contracts stated in C06.py / C09.py; here the jobs that enforce the top-level access functions and the gate itself are run)
_c06, _c09 = _load('C06'), _load('C09')
_keep = {'bind_value': ['bind_value_access'], 'fixed_values': ['fixed_value_access', 'cstring_value_access'], 'handler_value': ['handler_value_access']}
for u in _c06.UNITS:
    if u['name'] in _keep:
        u = dict(u); u['enforce'] = _keep[u['name']]; u['defines'] = list(u.get('defines', [])) + ['ENCRYPTION_CLAUSES_ONLY']; UNITS.append(u)
for u in _c09.UNITS:
    u = dict(u); u['enforce'] = ['cccd_access', 'enc_check_true', 'enc_check_false']; UNITS.append(u)
    UNITS.append(dict(u, name='gate', enforce=['enc_check_true', 'enc_check_false'], replay=dict(src='replay/c05_replay.cpp'))); u['enforce'] = ['cccd_access']

META = dict(
    level='proof',
    explanation="(1) The defining expressions of encryption_default<>::value / ::maybe and characteristic_requires_encryption<>::value "
                "(encryption.hpp) are lifted from the source and proved equal to the inheritance rule of the statement for all 2^6 option "
                "placements (characteristic overrides service overrides server, no_encryption_required wins over requires_encryption, default "
                "false). (2) encryption_requirements<true/false>::check: success iff not required or link encrypted, otherwise Insufficient "
                "Authentication iff no key else Insufficient Encryption. (3) Every value access function (bind_characteristic_value, fixed_value, "
                "cstring_wrapper, value_handler_base) and the CCCD access function: with RequiresEncryption symbolic, on an unencrypted link the "
                "function returns that code, writes no byte of the request buffer, of the bound value or of the CCCD store (ghost index + "
                "conditional assigns frame) and calls no user handler / callback - for every access type, offset, length and content.",
    assumptions=["has_option<requires_encryption / no_encryption_required / may_require_encryption, Options...> are type-level results and enter as "
                 "symbolic booleans; that each generate_attribute<> instantiation passes characteristic_requires_encryption<...>::value as "
                 "RequiresEncryption is read off the source (template argument), not proved",
                 "that every ATT request path (Read, Read Blob, Read By Type, Read Multiple, Write, Write Command, Prepare/Execute Write, "
                 "notification, indication) passes connection.security_attributes() into the access call is a fact about server.hpp handlers that "
                 "are not under contract here (C01); descriptors other than the CCCD (user description, user descriptors) are not encryption gated "
                 "by the library and are outside the statement",
                 "known finding F-C06a is excluded in unit handler_value (it concerns no_read_access, not encryption)"],
    trusted_base=["application read/write handlers"],
)
