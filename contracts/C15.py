"""C15 Link layer data delivery is reliable, ordered and exactly-once (step contracts of ll_data_pdu_buffer);
C16 and C17 re-use these units."""
import os, sys
sys.path.insert(0, os.path.dirname(__file__))
from common import BITS_EXTRACTS, BITS_CODE
LLB = 'bluetoe/link_layer/include/bluetoe/ll_data_pdu_buffer.hpp'
DL = 'bluetoe/link_layer/include/bluetoe/default_pdu_layout.hpp'
NRF = 'bluetoe/bindings/nordic/include/bluetoe/nrf.hpp'
BUF = 'bluetoe/link_layer/include/bluetoe/buffer.hpp'
CLS = r'class ll_data_pdu_buffer\s*(?=\{)'
T = r'template < std::size_t TransmitSize, std::size_t ReceiveSize, typename Radio >\s*'
Q = r'll_data_pdu_buffer< TransmitSize, ReceiveSize, Radio >::'
LB = r'struct layout_base\b'

PRE = [
    (r'typename Radio::lock_guard lock;', '', '*'),
    (r'static_cast< Radio\* >\( this \)->increment_(transmit|receive)_packet_counter\(\)', r'increment_\1_packet_counter()', '*'),
]
RULES = [
    (r'self->transmit_buffer_\.next_end\(\)', 'tx_next_end()', '*'),
    (r'self->transmit_buffer_\.pop_end\( transmit_buffer\(\) \)', 'tx_pop_end()', '*'),
    (r'self->transmit_buffer_\.more_than_one\(\)', 'tx_more_than_one()', '*'),
    (r'self->transmit_buffer_\.push_front\( transmit_buffer\(\), pdu \)', 'tx_push_front( pdu )', '*'),
    (r'self->transmit_buffer_\.reset\( transmit_buffer\(\) \)', 'tx_reset()', '*'),
    (r'self->receive_buffer_\.push_front\( receive_buffer\(\), pdu \)', 'rx_push_front( pdu )', '*'),
    (r'self->receive_buffer_\.reset\( receive_buffer\(\) \)', 'rx_reset()', '*'),
    (r'self->receive_buffer_\.alloc_front\( \(\(uint8_t\*\)\(\s*receive_buffer\(\)\s*\)\), ', 'rx_alloc_front( ', '*'),
    (r'layout::header\( (next|pdu|buf) \)', r'layout_header_rb( \1 )', '*'),
    (r'layout::header\( (next|pdu|buf), ', r'layout_header_rb_set( \1, ', '*'),
    (r'layout::header\( self->empty_, ', 'layout_header_p_set( self->empty_, ', '*'),
    (r'layout::data_channel_pdu_memory_size\(', 'layout_mem_size(', '*'),
    (r'sizeof\( self->empty_ \)', 'sizeof_empty', '*'),
    (r'\bread_buffer\{', '(struct rbuf){', '*'),
    (r'\bconst read_buffer\b', 'const struct rbuf', '*'),
    (r'\bwrite_buffer\( ', 'wbuf_from( ', '*'),
    (r'next\.empty\(\)', 'rbuf_empty( &next )', '*'),
    (r'(?<![\w.>])acknowledge\( header & nesn_flag \)', 'acknowledge_bool( self, header & nesn_flag )', '*'),
    (r'(?<![\w.>])next_transmit\(\)', 'next_transmit( self )', '*'),
    (r'(?<![\w.>])received\( pdu \)', 'received( self, pdu )', '*'),
    (r'(?<![\w.>])set_next_expected_sequence_number\( ', 'set_next_expected_sequence_number( self, ', '*'),
    (r'(?<![\w.>])reset_pdu_buffer\(\)', 'reset_pdu_buffer( self )', '*'),
]


def fn(ret, name, args, **kw):
    return dict(file=LLB, locate=T + ret + r' ' + Q + name + r'\( ' + args + r' \)' if args else T + ret + r' ' + Q + name + r'\(\)', pre=PRE, rules=RULES, **kw)


CONSTS = {k: dict(kind='expr', file=LLB, scope=CLS, locate=r'static constexpr std::\w+\s+%s\s*=' % k)
          for k in ('ll_header_size', 'more_data_flag', 'sn_flag', 'nesn_flag', 'll_empty_id', 'min_buffer_size', 'max_buffer_size')}
EX = dict(BITS_EXTRACTS, **CONSTS,
    rbuf_fields=dict(kind='fields', file=BUF, scope=r'struct read_buffer\b', names=['buffer', 'size']),
    wbuf_fields=dict(kind='fields', file=BUF, scope=r'struct write_buffer\b', names=['buffer', 'size']),
    rbuf_empty=dict(file=BUF, scope=r'struct read_buffer\b', locate=r'bool empty\(\) const', member_extra=['buffer', 'size']),
    fields=dict(kind='fields', file=LLB, scope=CLS,
                names=['max_rx_size_', 'max_tx_size_', 'sequence_number_', 'next_expected_sequence_number_', 'empty_', 'next_empty_', 'empty_sequence_number_', 'stopped_'],
                rules=[(r'\[ layout::data_channel_pdu_memory_size\( 0 \) \]', '[EMPTY_MAX]', '*')]),
    empty_dim=dict(kind='text', body='text', file=LLB, scope=CLS, locate=r'uint8_t\s+empty_\[[^\]]*\];', no_members=True,
                   rules=[(r'^uint8_t\s+empty_\[', '(', 1), (r'\];$', ')', 1), (r'layout::data_channel_pdu_memory_size', 'layout_mem_size', 1)]),
    lay_hdr_rb=dict(file=DL, scope=LB, locate=r'static std::uint16_t header\( const read_buffer& pdu \)',
                    rules=[(r'pdu\.', 'pdu.', '*'), (r'Base::data_channel_pdu_memory_size\(', 'layout_mem_size(', 1), (r'Base::header\(', 'layout_header_p(', 1)]),
    lay_hdr_rb_set=dict(file=DL, scope=LB, locate=r'static void header\( const read_buffer& pdu, std::uint16_t header_value \)',
                        rules=[(r'Base::data_channel_pdu_memory_size\(', 'layout_mem_size(', 1), (r'Base::header\(', 'layout_header_p_set(', 1)]),
    d_hdr=dict(file=DL, scope=r'struct default_pdu_layout\s*:', locate=r'static std::uint16_t header\( const std::uint8_t\* pdu \)', rules=[(r'::bluetoe::details::read_16bit', 'read_16bit', 1)]),
    d_hdr_set=dict(file=DL, scope=r'struct default_pdu_layout\s*:', locate=r'static void header\( std::uint8_t\* pdu, std::uint16_t header_value \)', rules=[(r'::bluetoe::details::write_16bit', 'write_16bit', 1)]),
    d_mem=dict(file=DL, scope=r'struct default_pdu_layout\s*:', locate=r'static constexpr std::size_t data_channel_pdu_memory_size\( std::size_t payload_size \)'),
    d_hs=dict(kind='expr', file=DL, scope=r'struct default_pdu_layout\s*:', locate=r'static constexpr std::size_t header_size\s*='),
    n_hdr=dict(file=NRF, scope=r'struct encrypted_pdu_layout\s*:', locate=r'static std::uint16_t header\( const std::uint8_t\* pdu \)', rules=[(r'::bluetoe::details::read_16bit', 'read_16bit', 1)]),
    n_hdr_set=dict(file=NRF, scope=r'struct encrypted_pdu_layout\s*:', locate=r'static void header\( std::uint8_t\* pdu, std::uint16_t header_value \)', rules=[(r'::bluetoe::details::write_16bit', 'write_16bit', 1)]),
    n_mem=dict(file=NRF, scope=r'struct encrypted_pdu_layout\s*:', locate=r'static constexpr std::size_t data_channel_pdu_memory_size\( std::size_t payload_size \)'),
    n_hs=dict(kind='expr', file=NRF, scope=r'struct encrypted_pdu_layout\s*:', locate=r'static constexpr std::size_t header_size\s*='),
    received=fn('write_buffer', 'received', 'read_buffer pdu'),
    ack_pdu=fn('write_buffer', 'acknowledge', 'read_buffer pdu'),
    ack_bool=fn('void', 'acknowledge', 'bool nesn'),
    next_transmit=fn('write_buffer', 'next_transmit', ''),
    set_nesn=fn('write_buffer', 'set_next_expected_sequence_number', 'read_buffer buf') ,
    commit=fn('void', 'commit_transmit_buffer', 'read_buffer pdu'),
    reset=fn('void', 'reset_pdu_buffer', ''),
    alloc_rx=fn('read_buffer', 'allocate_receive_buffer', ''),
    ctor=dict(file=LLB, locate=T + Q + r'll_data_pdu_buffer\(\)', init_list=True, init_skip=[r'^receive_buffer_\(', r'^transmit_buffer_\('], pre=PRE, rules=RULES),
)
EX['set_nesn']['locate'] = T + r'write_buffer ' + Q + r'set_next_expected_sequence_number\( read_buffer buf \) const'
EX['alloc_rx']['locate'] = T + r'read_buffer ' + Q + r'allocate_receive_buffer\(\) const'

CODE = BITS_CODE + r'''
#define EMPTY_MAX 3
size_t G_layout_overhead;   /* 0: default_pdu_layout, 1: nRF encrypted_pdu_layout (the layout is selected by the Radio template parameter) */
struct rbuf { {{rbuf_fields}} };
struct wbuf { {{wbuf_fields}} };
/* both layouts, real bodies; pdu_layout_by_radio< Radio >::pdu_layout selects (glue) */
uint16_t d_header(const uint8_t* pdu) {{d_hdr}}
void d_header_set(uint8_t* pdu, uint16_t header_value) {{d_hdr_set}}
uint16_t n_header(const uint8_t* pdu) {{n_hdr}}
void n_header_set(uint8_t* pdu, uint16_t header_value) {{n_hdr_set}}
static inline size_t d_mem_size(size_t payload_size) { const size_t header_size = {{d_hs}}; {{d_mem}} }
static inline size_t n_mem_size(size_t payload_size) { const size_t header_size = {{n_hs}}; {{n_mem}} }
static inline uint16_t layout_header_p(const uint8_t* pdu) { return G_layout_overhead ? n_header(pdu) : d_header(pdu); }
static inline void layout_header_p_set(uint8_t* pdu, uint16_t v) { if (G_layout_overhead) n_header_set(pdu, v); else d_header_set(pdu, v); }
static inline size_t layout_mem_size(size_t n) { return G_layout_overhead ? n_mem_size(n) : d_mem_size(n); }
/* details::layout_base< Base >: the read_buffer overloads */
uint16_t layout_header_rb(struct rbuf pdu) {{lay_hdr_rb}}
void layout_header_rb_set(struct rbuf pdu, uint16_t header_value) {{lay_hdr_rb_set}}
static inline struct wbuf wbuf_from(struct rbuf b) { struct wbuf w; w.buffer = b.buffer; w.size = b.size; return w; }   /* write_buffer( const read_buffer& ) */
bool rbuf_empty(const struct rbuf* self) {{rbuf_empty}}
#define ll_header_size ((size_t)({{ll_header_size}}))
#define more_data_flag ((uint8_t)({{more_data_flag}}))
#define sn_flag ((uint8_t)({{sn_flag}}))
#define nesn_flag ((uint8_t)({{nesn_flag}}))
#define ll_empty_id ((uint8_t)({{ll_empty_id}}))
#define min_buffer_size ((size_t)({{min_buffer_size}}))
#define max_buffer_size ((size_t)({{max_buffer_size}}))
#define sizeof_empty ((size_t){{empty_dim}})
struct llb { {{fields}} };

/* ---- abstract FIFO view of the two pdu_ring_buffers (their behaviour is what C18 proves: next_end = oldest record, pop_end removes
   it, more_than_one <=> at least two records, push_front appends).  Operational stubs, not repository code: the transmit ring holds
   G_tx_n PDUs at entry, the two oldest are visible (G_tx_p0, G_tx_p1). */
size_t G_tx_n; int G_tx_pops, G_tx_pushes, G_rx_pushes, G_txc, G_rxc, G_tx_resets, G_rx_resets;
uint8_t* G_tx_p0; uint8_t* G_tx_p1; uint8_t* G_tx_pushed; uint8_t* G_rx_pushed; size_t G_rx_alloc_size; uint8_t* G_rx_alloc_ret;
#define PDU_MEM 4
#define TX_LEFT (G_tx_n > (size_t)G_tx_pops ? G_tx_n - (size_t)G_tx_pops : 0)
static inline struct rbuf tx_next_end(void) { __CPROVER_assert(G_tx_pops <= 1, "abstract ring: at most one pop per step");
    if (TX_LEFT == 0) return (struct rbuf){ 0, 0 }; return G_tx_pops == 0 ? (struct rbuf){ G_tx_p0, PDU_MEM } : (struct rbuf){ G_tx_p1, PDU_MEM }; }
static inline void tx_pop_end(void) { __CPROVER_assert(TX_LEFT != 0, "pop_end on an empty ring"); ++G_tx_pops; }
static inline bool tx_more_than_one(void) { return TX_LEFT > 1; }
static inline void tx_push_front(struct rbuf pdu) { ++G_tx_pushes; G_tx_pushed = pdu.buffer; }
static inline void rx_push_front(struct rbuf pdu) { ++G_rx_pushes; G_rx_pushed = pdu.buffer; }
static inline void tx_reset(void) { ++G_tx_resets; }
static inline void rx_reset(void) { ++G_rx_resets; }
static inline struct rbuf rx_alloc_front(size_t size) { G_rx_alloc_size = size; return (struct rbuf){ G_rx_alloc_ret, G_rx_alloc_ret ? size : 0 }; }
/* Radio::increment_*_packet_counter (CCM nonce counters) */
static inline void increment_transmit_packet_counter(void) { ++G_txc; }
static inline void increment_receive_packet_counter(void) { ++G_rxc; }

#define SN(h)   (((h) & 8) != 0)
#define NESN(h) (((h) & 4) != 0)
#define MD(h)   (((h) & 0x10) != 0)
#define LLID(h) ((h) & 3)
#define LEN(h)  ((h) >> 8)
#define HDR(p)  ((uint16_t)((p)[0] | ((p)[1] << 8)))
/* witnesses: state at entry, the received header, the headers of the two oldest transmit PDUs */
bool W_sn, W_nesn, W_next_empty, W_empty_sn, W_stopped; size_t W_tx_n, W_lo; uint16_t W_hr, W_h0, W_h1, W_he; bool W_arg;
#define STATE_OK(self) (__CPROVER_is_fresh(self, sizeof(struct llb)) && (self)->sequence_number_ == W_sn && (self)->next_expected_sequence_number_ == W_nesn \
   && (self)->next_empty_ == W_next_empty && (self)->empty_sequence_number_ == W_empty_sn && (self)->stopped_ == W_stopped && HDR((self)->empty_) == W_he \
   && G_layout_overhead <= 1 && G_layout_overhead == W_lo && G_tx_n == W_tx_n && W_tx_n <= 3 /* 3 stands for 'three or more': a step pops at most one PDU and only asks 'none / one / more than one' */ && G_tx_pops == 0 && G_tx_pushes == 0 && G_rx_pushes == 0 && G_txc == 0 && G_rxc == 0 \
   && __CPROVER_is_fresh(G_tx_p0, PDU_MEM) && __CPROVER_is_fresh(G_tx_p1, PDU_MEM) && HDR(G_tx_p0) == W_h0 && HDR(G_tx_p1) == W_h1)
/* the internal empty PDU that is pending carries the sequence number remembered for it (established by next_transmit) */
#define EMPTY_INV (!W_next_empty || (SN(W_he) == W_empty_sn && LLID(W_he) == 1 && LEN(W_he) == 0))

/* ---- acknowledge( bool nesn ): what the central's NESN does to our transmit side */
#define ACK_HEAD_ACKED(nesn) (!W_next_empty && W_tx_n != 0 && SN(W_h0) != (nesn))
#define ACK_POST(self, nesn) ( \
     G_tx_pops == (ACK_HEAD_ACKED(nesn) ? 1 : 0) && G_txc == G_tx_pops \
  && (self)->next_empty_ == (W_next_empty && W_empty_sn == (nesn)) \
  && (self)->sequence_number_ == W_sn && (self)->next_expected_sequence_number_ == W_nesn && G_tx_pushes == 0 && G_rx_pushes == 0 && G_rxc == 0)
void acknowledge_bool(struct llb* self, bool nesn)
__CPROVER_requires(STATE_OK(self) && EMPTY_INV && nesn == W_arg)
/* a transmitted PDU is considered delivered (removed, transmit counter +1) only when the central's NESN differs from its SN;
   the internal empty PDU never touches the counter; a NAK changes nothing */
__CPROVER_ensures(ACK_POST(self, W_arg))
__CPROVER_assigns(self->next_empty_, G_tx_pops, G_txc)
{{ack_bool}}

/* ---- set_next_expected_sequence_number: only the NESN bit of the outgoing header is rewritten */
struct wbuf set_next_expected_sequence_number(const struct llb* self, struct rbuf buf)
__CPROVER_requires(__CPROVER_r_ok(self, sizeof(*self)) && G_layout_overhead <= 1 && buf.size >= 2 + G_layout_overhead && __CPROVER_rw_ok(buf.buffer, 2))
__CPROVER_ensures(HDR(buf.buffer) == (uint16_t)((__CPROVER_old(HDR(buf.buffer)) & ~4) | (self->next_expected_sequence_number_ ? 4 : 0)))
__CPROVER_ensures(__CPROVER_return_value.buffer == buf.buffer && __CPROVER_return_value.size == buf.size)
__CPROVER_assigns(__CPROVER_object_upto(buf.buffer, 2))
{{set_nesn}}

/* ---- next_transmit: what goes on air next */
#define NT_RESEND_EMPTY  (W_next_empty)
#define NT_NEW_EMPTY     (!W_next_empty && W_tx_n == 0)
#define NT_HEAD          (!W_next_empty && W_tx_n != 0)
struct wbuf next_transmit(struct llb* self)
__CPROVER_requires(STATE_OK(self) && EMPTY_INV)
/* always acknowledges exactly what has been accepted so far */
__CPROVER_ensures(NESN(HDR(__CPROVER_return_value.buffer)) == W_nesn && self->next_expected_sequence_number_ == W_nesn)
/* retransmission of the pending empty PDU: same sequence number, nothing consumed */
__CPROVER_ensures(NT_RESEND_EMPTY ==> (__CPROVER_return_value.buffer == &self->empty_[0] && __CPROVER_return_value.size == 2 + G_layout_overhead
    && SN(HDR(self->empty_)) == W_empty_sn && LLID(HDR(self->empty_)) == 1 && LEN(HDR(self->empty_)) == 0
    && self->next_empty_ && self->sequence_number_ == W_sn && self->empty_sequence_number_ == W_empty_sn))
/* nothing queued: a new empty PDU takes the next sequence number */
__CPROVER_ensures(NT_NEW_EMPTY ==> (__CPROVER_return_value.buffer == &self->empty_[0] && __CPROVER_return_value.size == 2 + G_layout_overhead
    && SN(HDR(self->empty_)) == W_sn && LLID(HDR(self->empty_)) == 1 && LEN(HDR(self->empty_)) == 0 && !MD(HDR(self->empty_))
    && self->next_empty_ && self->empty_sequence_number_ == W_sn && self->sequence_number_ == !W_sn))
/* otherwise the oldest committed PDU, with the sequence number it was committed with, until it is acknowledged */
__CPROVER_ensures(NT_HEAD ==> (__CPROVER_return_value.buffer == G_tx_p0 && (HDR(G_tx_p0) & ~0x14) == (W_h0 & ~0x14) && SN(HDR(G_tx_p0)) == SN(W_h0)
    && !self->next_empty_ && self->sequence_number_ == W_sn && (W_tx_n > 1 ==> MD(HDR(G_tx_p0)))))
__CPROVER_ensures(G_tx_pops == 0 && G_tx_pushes == 0 && G_rx_pushes == 0 && G_txc == 0 && G_rxc == 0)
__CPROVER_assigns(self->next_empty_, self->empty_sequence_number_, self->sequence_number_, __CPROVER_object_upto(self->empty_, 2), __CPROVER_object_upto(G_tx_p0, 2))
{{next_transmit}}

/* ---- received( pdu ): a PDU with valid CRC (and MIC) */
#define RX_NEW (SN(W_hr) == W_nesn)
#define RX_PRE(self, pdu) (STATE_OK(self) && EMPTY_INV && pdu.size >= 2 + G_layout_overhead && pdu.size <= PDU_MEM && __CPROVER_is_fresh(pdu.buffer, PDU_MEM) && HDR(pdu.buffer) == W_hr)
/* transmit side after the acknowledgement, as seen by next_transmit */
#define AFTER_ACK_NEXT_EMPTY (W_next_empty && W_empty_sn == NESN(W_hr))
#define AFTER_ACK_LEFT (W_tx_n - (ACK_HEAD_ACKED(NESN(W_hr)) ? 1 : 0))
#define TX_STEP_POST(self, ret) ( \
     G_tx_pops == (ACK_HEAD_ACKED(NESN(W_hr)) ? 1 : 0) && G_txc == G_tx_pops && G_tx_pushes == 0 \
  && (AFTER_ACK_NEXT_EMPTY ==> ((ret).buffer == &(self)->empty_[0] && SN(HDR((self)->empty_)) == W_empty_sn && (self)->sequence_number_ == W_sn)) \
  && ((!AFTER_ACK_NEXT_EMPTY && AFTER_ACK_LEFT == 0) ==> ((ret).buffer == &(self)->empty_[0] && SN(HDR((self)->empty_)) == W_sn && LEN(HDR((self)->empty_)) == 0 && (self)->next_empty_ && (self)->sequence_number_ == !W_sn)) \
  && ((!AFTER_ACK_NEXT_EMPTY && AFTER_ACK_LEFT != 0) ==> ((ret).buffer == (G_tx_pops ? G_tx_p1 : G_tx_p0) && SN(HDR((ret).buffer)) == SN(G_tx_pops ? W_h1 : W_h0) && (self)->sequence_number_ == W_sn)))
struct wbuf received(struct llb* self, struct rbuf pdu)
__CPROVER_requires(RX_PRE(self, pdu))
/* a new PDU is accepted exactly once: NESN toggles; it is handed to the receive ring iff it carries data for an upper layer */
__CPROVER_ensures(RX_NEW ==> (self->next_expected_sequence_number_ == !W_nesn && G_rx_pushes == ((LEN(W_hr) != 0 && LLID(W_hr) != 0) ? 1 : 0)
                               && (G_rx_pushes == 1 ==> G_rx_pushed == pdu.buffer)))
/* a retransmission is neither delivered again nor acknowledged differently */
__CPROVER_ensures(!RX_NEW ==> (self->next_expected_sequence_number_ == W_nesn && G_rx_pushes == 0))
/* C16: receive counter +1 exactly for a new non-empty PDU */
__CPROVER_ensures(G_rxc == ((RX_NEW && LEN(W_hr) != 0) ? 1 : 0))
/* the reply acknowledges exactly what was accepted */
__CPROVER_ensures(NESN(HDR(__CPROVER_return_value.buffer)) == self->next_expected_sequence_number_)
__CPROVER_ensures(TX_STEP_POST(self, __CPROVER_return_value))
__CPROVER_assigns(self->next_expected_sequence_number_, self->next_empty_, self->empty_sequence_number_, self->sequence_number_, __CPROVER_object_upto(self->empty_, 2),
                  __CPROVER_object_upto(G_tx_p0, 2), __CPROVER_object_upto(G_tx_p1, 2), G_tx_pops, G_txc, G_rxc, G_rx_pushes, G_rx_pushed)
{{received}}

/* ---- acknowledge( pdu ): CRC valid, MIC invalid (C17) */
struct wbuf acknowledge_pdu(struct llb* self, struct rbuf pdu)
__CPROVER_requires(RX_PRE(self, pdu))
/* never acknowledged as received, never delivered, never counted */
__CPROVER_ensures(self->next_expected_sequence_number_ == W_nesn && G_rx_pushes == 0 && G_rxc == 0)
__CPROVER_ensures(NESN(HDR(__CPROVER_return_value.buffer)) == W_nesn)
/* the central's acknowledgement of our earlier data may be honoured, with the usual rule (or ignored) */
__CPROVER_ensures(G_tx_pops == 0 ? (G_txc == 0) : (ACK_HEAD_ACKED(NESN(W_hr)) && G_tx_pops == 1 && G_txc == 1))
__CPROVER_ensures(G_tx_pushes == 0)
__CPROVER_assigns(self->next_expected_sequence_number_, self->next_empty_, self->empty_sequence_number_, self->sequence_number_, __CPROVER_object_upto(self->empty_, 2),
                  __CPROVER_object_upto(G_tx_p0, 2), __CPROVER_object_upto(G_tx_p1, 2), G_tx_pops, G_txc)
{{ack_pdu}}

/* ---- commit_transmit_buffer: sequence numbers are assigned in commit order */
struct rbuf G_commit;
void commit_transmit_buffer(struct llb* self, struct rbuf pdu)
__CPROVER_requires(STATE_OK(self) && pdu.size >= 2 + G_layout_overhead && pdu.size <= PDU_MEM && __CPROVER_is_fresh(pdu.buffer, PDU_MEM) && HDR(pdu.buffer) == W_hr && (W_hr & 0xe0) == 0 && !SN(W_hr))
__CPROVER_ensures(W_stopped ==> (G_tx_pushes == 0 && self->sequence_number_ == W_sn && HDR(pdu.buffer) == W_hr))
__CPROVER_ensures(!W_stopped ==> (G_tx_pushes == 1 && G_tx_pushed == pdu.buffer && self->sequence_number_ == !W_sn
                                  && SN(HDR(pdu.buffer)) == W_sn && (HDR(pdu.buffer) & ~8) == W_hr))
__CPROVER_assigns(self->sequence_number_, __CPROVER_object_upto(pdu.buffer, 2), G_tx_pushes, G_tx_pushed)
{{commit}}

void reset_pdu_buffer(struct llb* self)
__CPROVER_requires(__CPROVER_is_fresh(self, sizeof(struct llb)) && G_tx_resets == 0 && G_rx_resets == 0)
__CPROVER_ensures(!self->sequence_number_ && !self->next_expected_sequence_number_ && !self->next_empty_ && !self->stopped_ && G_tx_resets == 1 && G_rx_resets == 1
                  && self->max_rx_size_ == min_buffer_size && self->max_tx_size_ == min_buffer_size)
__CPROVER_assigns(self->sequence_number_, self->next_expected_sequence_number_, self->next_empty_, self->stopped_, self->max_rx_size_, self->max_tx_size_, G_tx_resets, G_rx_resets)
{{reset}}
/* the constructor: empty PDU header cleared, then reset (the two ring members are constructed by their own constructors, C18) */
void llb_ctor(struct llb* self)
__CPROVER_requires(__CPROVER_is_fresh(self, sizeof(struct llb)) && G_tx_resets == 0 && G_rx_resets == 0 && G_layout_overhead <= 1)
__CPROVER_ensures(!self->sequence_number_ && !self->next_expected_sequence_number_ && !self->next_empty_ && !self->stopped_ && HDR(self->empty_) == 0)
__CPROVER_assigns(self->sequence_number_, self->next_expected_sequence_number_, self->next_empty_, self->stopped_, self->max_rx_size_, self->max_tx_size_, G_tx_resets, G_rx_resets,
                  __CPROVER_object_upto(self->empty_, 2))
{{ctor}}
/* a receive buffer large enough for the largest PDU the peer may send */
struct rbuf allocate_receive_buffer(const struct llb* self)
__CPROVER_requires(__CPROVER_is_fresh(self, sizeof(struct llb)) && G_layout_overhead <= 1 && self->max_rx_size_ >= min_buffer_size && self->max_rx_size_ <= max_buffer_size)
__CPROVER_ensures(G_rx_alloc_size == self->max_rx_size_ + G_layout_overhead && __CPROVER_return_value.buffer == G_rx_alloc_ret)
__CPROVER_assigns(G_rx_alloc_size)
{{alloc_rx}}

#define SETUP struct llb* s; W_sn = nondet_bool(); W_nesn = nondet_bool(); W_next_empty = nondet_bool(); W_empty_sn = nondet_bool(); W_stopped = nondet_bool(); W_tx_n = nondet_size(); \
  W_lo = nondet_size(); G_layout_overhead = W_lo; W_hr = nondet_u16(); W_h0 = nondet_u16(); W_h1 = nondet_u16(); W_he = nondet_u16(); W_arg = nondet_bool(); G_tx_n = W_tx_n; \
  G_tx_pops = 0; G_tx_pushes = 0; G_rx_pushes = 0; G_txc = 0; G_rxc = 0; G_tx_resets = 0; G_rx_resets = 0; struct rbuf p; p.size = nondet_size(); BT_KNOWN_EXCLUDE()
void h_acknowledge_bool(void) { SETUP; acknowledge_bool(s, W_arg); BT_CANARY(); }
void h_next_transmit(void) { SETUP; next_transmit(s); BT_CANARY(); }
void h_received(void) { SETUP; received(s, p); BT_CANARY(); }
void h_acknowledge_pdu(void) { SETUP; acknowledge_pdu(s, p); BT_CANARY(); }
void h_commit_transmit_buffer(void) { SETUP; commit_transmit_buffer(s, p); BT_CANARY(); }
void h_reset_pdu_buffer(void) { SETUP; reset_pdu_buffer(s); BT_CANARY(); }
void h_llb_ctor(void) { SETUP; llb_ctor(s); BT_CANARY(); }
void h_allocate_receive_buffer(void) { SETUP; allocate_receive_buffer(s); BT_CANARY(); }
void h_set_next_expected_sequence_number(void) { SETUP; struct llb st; st.next_expected_sequence_number_ = nondet_bool(); uint8_t m[PDU_MEM]; __CPROVER_assume(G_layout_overhead <= 1 && p.size >= 2 + G_layout_overhead && p.size <= PDU_MEM);
  p.buffer = m; set_next_expected_sequence_number(&st, p); BT_CANARY(); }
'''

UNITS = [
    dict(name='llbuf', extracts=EX, code=CODE, object_bits=10,
         enforce=['acknowledge_bool', 'next_transmit', 'received', 'acknowledge_pdu', 'commit_transmit_buffer', 'reset_pdu_buffer', 'llb_ctor',
                  'allocate_receive_buffer', 'set_next_expected_sequence_number'],
         replace=[],
         replay=dict(src='replay/c15_replay.cpp')),
]

# ------------------------------------------------------------------ nRF52 radio ISR: which buffer function a received PDU reaches
N52 = 'bluetoe/bindings/nordic/nrf52/include/bluetoe/nrf52.hpp'
CE = 'bluetoe/link_layer/include/bluetoe/connection_events.hpp'
RB = r'class nrf52_radio_base : public Buffer'
ISR_PRE = [
    (r'std::tie\( valid_anchor, valid_pdu, valid_crc \) = Hardware::received_pdu\(\);', 'hw_received_pdu( &valid_anchor, &valid_pdu, &valid_crc );', '*'),
    (r'Hardware::(\w+)\(', r'hw_\1(', '*'),
    (r'this->next_transmit\(\)', 'buf_next_transmit()', '*'),
    (r'this->received\( receive_buffer_ \)', 'buf_received( receive_buffer_ )', '*'),
    (r'this->acknowledge\( receive_buffer_ \)', 'buf_acknowledge( receive_buffer_ )', '*'),
    (r'this->allocate_receive_buffer\(\)', 'buf_allocate_receive_buffer()', '*'),
    (r'is_valid_scan_request\(\)', 'is_valid_scan_request( self )', '*'),
]
ISR_RULES = [(r'\bstate::', 'state_', '*'), (r'link_layer::read_buffer\{', '(struct rbuf){', '*'), (r'link_layer::read_buffer\b', 'struct rbuf', '*'),
             (r'result\.empty\(\)', 'rbuf_empty( &result )', '*')]
ISR_EX = dict(BITS_EXTRACTS,
    rbuf_fields=EX['rbuf_fields'], wbuf_fields=EX['wbuf_fields'], rbuf_empty=EX['rbuf_empty'],
    state_enum=dict(kind='enum', file=N52, scope=RB, name='state'),
    ev_fields=dict(kind='fields', file=CE, scope=r'struct connection_event_events\b',
                   names=['unacknowledged_data', 'last_received_not_empty', 'last_transmitted_not_empty', 'last_received_had_more_data', 'pending_outgoing_data', 'error_occured']),
    isr_fields=dict(kind='fields', file=N52, scope=RB, names=['adv_timeout_', 'adv_received_', 'evt_timeout_', 'end_evt_', 'state_', 'receive_buffer_', 'response_data_', 'empty_receive_', 'events_'],
                    type_map={'state': 'enum state', 'link_layer::read_buffer': 'struct rbuf', 'link_layer::write_buffer': 'struct wbuf', 'link_layer::connection_event_events': 'struct connection_event_events'}),
    md_flag=dict(kind='expr', file=N52, locate=r'static constexpr std::uint8_t\s+more_data_flag ='),
    isr=dict(file=N52, scope=RB, locate=r'void radio_interrupt_handler\(\)', pre=ISR_PRE, rules=ISR_RULES),
    rxbuf=dict(file=N52, scope=RB, locate=r'link_layer::read_buffer receive_buffer\(\)', pre=ISR_PRE, rules=ISR_RULES),
)
ISR_CODE = BITS_CODE + r"""
struct rbuf { {{rbuf_fields}} };
struct wbuf { {{wbuf_fields}} };
bool rbuf_empty(const struct rbuf* self) {{rbuf_empty}}
{{state_enum}};
struct connection_event_events { {{ev_fields}} };
struct isr { {{isr_fields}} };
#define more_data_flag ((uint8_t)({{md_flag}}))
/* Hardware:: (radio, timers) and the ll_data_pdu_buffer base class: abstract, calls are recorded */
enum { CALL_NONE = 0, CALL_NEXT_TRANSMIT = 1, CALL_RECEIVED = 2, CALL_ACKNOWLEDGE = 3 };
int G_calls, G_called; uint8_t* G_call_arg; bool G_valid_anchor, G_valid_pdu, G_valid_crc, G_scan_request; uint8_t G_trans[4];
int G_final_tx_calls; const uint8_t* G_final_tx; int G_stop_radio_calls; struct rbuf G_alloc;
static inline void hw_received_pdu(bool* a, bool* p, bool* c) { *a = G_valid_anchor; *p = G_valid_pdu; *c = G_valid_crc; }
static inline void hw_configure_receive_train(struct rbuf b) {}
static inline void hw_stop_timeout_timer(void) {}
static inline void hw_configure_final_transmit(struct wbuf b) { ++G_final_tx_calls; G_final_tx = b.buffer; }
static inline void hw_store_timer_anchor(int offset) {}
static inline void hw_stop_radio(void) { ++G_stop_radio_calls; }
static inline struct wbuf buf_next_transmit(void) { ++G_calls; G_called = CALL_NEXT_TRANSMIT; return (struct wbuf){ G_trans, 4 }; }
static inline struct wbuf buf_received(struct rbuf b) { ++G_calls; G_called = CALL_RECEIVED; G_call_arg = b.buffer; return (struct wbuf){ G_trans, 4 }; }
static inline struct wbuf buf_acknowledge(struct rbuf b) { ++G_calls; G_called = CALL_ACKNOWLEDGE; G_call_arg = b.buffer; return (struct wbuf){ G_trans, 4 }; }
static inline struct rbuf buf_allocate_receive_buffer(void) { return G_alloc; }
struct isr;
static inline bool is_valid_scan_request(const struct isr* self) { return G_scan_request; }

int W_state; bool W_va, W_vp, W_vc, W_full, W_scan;
uint8_t G_rx_mem[4];
#define ISR_PRE(self) (__CPROVER_is_fresh(self, sizeof(struct isr)) && (int)(self)->state_ == W_state && W_state >= state_adv_transmitting && W_state <= state_evt_transmiting_closing && W_state != state_adv_shutting_down_radio \
   && G_valid_anchor == W_va && G_valid_pdu == W_vp && G_valid_crc == W_vc && G_scan_request == W_scan && G_calls == 0 && G_final_tx_calls == 0 && G_stop_radio_calls == 0 \
   && (self)->receive_buffer_.size >= 3 && (W_full ? __CPROVER_pointer_equals((self)->receive_buffer_.buffer, &(self)->empty_receive_[0]) : __CPROVER_pointer_equals((self)->receive_buffer_.buffer, &G_rx_mem[0])))
#define EVT_REPLY (W_state == state_evt_wait_connect && W_va && (W_vp || W_vc))
void radio_interrupt_handler(struct isr* self)
__CPROVER_requires(ISR_PRE(self))
/* exactly one reply per received PDU, none otherwise */
__CPROVER_ensures(G_calls == (EVT_REPLY ? 1 : 0))
/* C15: no receive buffer could be allocated (PDU went into the 3 byte scratch area), or the CRC failed: nothing is acknowledged, the last PDU is repeated */
__CPROVER_ensures((EVT_REPLY && (W_full || !W_vc)) ==> G_called == CALL_NEXT_TRANSMIT)
/* stored and intact: handed to received(); C17: CRC ok but MIC not ok: acknowledge() only */
__CPROVER_ensures((EVT_REPLY && !W_full && W_vc && W_vp) ==> (G_called == CALL_RECEIVED && G_call_arg == &G_rx_mem[0]))
__CPROVER_ensures((EVT_REPLY && !W_full && W_vc && !W_vp) ==> (G_called == CALL_ACKNOWLEDGE && G_call_arg == &G_rx_mem[0]))
__CPROVER_ensures(EVT_REPLY ==> (G_final_tx_calls == 1 && G_final_tx == &G_trans[0] && self->state_ == state_evt_transmiting_closing))
__CPROVER_ensures((W_state == state_evt_wait_connect && !EVT_REPLY) ==> (self->events_.error_occured && self->evt_timeout_ && self->state_ == state_idle && G_final_tx_calls == 0))
/* C25 (advertising): a response is transmitted only to a PDU received intact that is a valid, permitted scan request; a connect request is only reported when received intact */
__CPROVER_ensures(W_state == state_adv_receiving ==> (G_final_tx_calls == ((W_va && W_vp && W_vc && W_scan) ? 1 : 0)))
__CPROVER_ensures((W_state == state_adv_receiving && self->adv_received_ && !__CPROVER_old(self->adv_received_)) ==> (W_va && W_vp && W_vc && !W_scan))
__CPROVER_ensures((W_state != state_adv_receiving && W_state != state_evt_wait_connect) ==> G_final_tx_calls == 0)
__CPROVER_assigns(self->state_, self->adv_received_, self->adv_timeout_, self->evt_timeout_, self->end_evt_, self->events_, G_calls, G_called, G_call_arg, G_final_tx_calls, G_final_tx, G_stop_radio_calls,
                  __CPROVER_object_upto(G_trans, 1))
{{isr}}
/* the buffer a PDU is received into: a real receive buffer, or the scratch area iff none could be allocated */
struct rbuf receive_buffer(struct isr* self)
__CPROVER_requires(__CPROVER_is_fresh(self, sizeof(struct isr)) && (G_alloc.buffer == 0 ? G_alloc.size == 0 : G_alloc.size >= 3))
__CPROVER_ensures(G_alloc.buffer != 0 ? (__CPROVER_return_value.buffer == G_alloc.buffer && __CPROVER_return_value.size == G_alloc.size)
                                      : (__CPROVER_return_value.buffer == &self->empty_receive_[0] && __CPROVER_return_value.size == 3))
__CPROVER_assigns()
{{rxbuf}}
#define SETUP struct isr* s; W_state = nondet_int(); W_va = nondet_bool(); W_vp = nondet_bool(); W_vc = nondet_bool(); W_full = nondet_bool(); W_scan = nondet_bool(); \
  G_valid_anchor = W_va; G_valid_pdu = W_vp; G_valid_crc = W_vc; G_scan_request = W_scan; G_calls = 0; G_final_tx_calls = 0; G_stop_radio_calls = 0; G_called = 0; BT_KNOWN_EXCLUDE()
void h_radio_interrupt_handler(void) { SETUP; radio_interrupt_handler(s); BT_CANARY(); }
void h_receive_buffer(void) { SETUP; uint8_t m[8]; if (nondet_bool()) { G_alloc.buffer = m; G_alloc.size = 8; } else { G_alloc.buffer = 0; G_alloc.size = 0; } receive_buffer(s); BT_CANARY(); }
"""
UNITS.append(dict(name='nrf52_isr', extracts=ISR_EX, code=ISR_CODE, object_bits=10,
                  enforce=['radio_interrupt_handler', 'receive_buffer'], replace=[]))

# the consumer: link_layer<>::handle_received_data hands each stored PDU to the upper layers exactly once and in order (contract in lle.py)
import lle
UNITS.append(lle.unit(['handle_received_data'], name='consumer', defines=['C15_CLAUSES'], replay=dict(src='replay/c15_consumer_replay.cpp', cxxflags=['-DNDEBUG', '-I/repo/tests/test_tools', '-I/repo/tests/link_layer'],
    repo_sources=['tests/test_tools/test_radio.cpp', 'tests/test_tools/test_servers.cpp', 'tests/test_tools/hexdump.cpp', 'tests/test_tools/buffer_io.cpp', 'tests/test_tools/address_io.cpp',
                  'bluetoe/link_layer/delta_time.cpp', 'bluetoe/link_layer/channel_map.cpp', 'bluetoe/link_layer/connection_details.cpp', 'bluetoe/utility/address.cpp'])))

META = dict(
    level='proof',
    explanation="Step contracts on the real ll_data_pdu_buffer member functions (received, acknowledge(bool), acknowledge(read_buffer), next_transmit, "
                "set_next_expected_sequence_number, commit_transmit_buffer, reset_pdu_buffer, constructor, allocate_receive_buffer; both PDU layouts' "
                "header functions) for every state (sequence numbers, pending empty PDU, stopped flag), every received header and every transmit "
                "queue (abstract FIFO of any length, the two oldest headers symbolic): a received PDU is new iff SN == next expected; a new PDU "
                "toggles NESN and is pushed to the receive ring iff it has payload and a valid LLID; a retransmission changes neither NESN nor the "
                "ring; the oldest transmit PDU is removed iff the central's NESN differs from its SN, otherwise it is sent again with the SN it was "
                "committed with; an internal empty PDU takes a fresh SN and is repeated until acknowledged; commit assigns alternating SNs in commit "
                "order; the reply always carries NESN == next expected. nRF52 ISR (radio_interrupt_handler, receive_buffer): a PDU that could not be "
                "stored (no receive buffer: 3 byte scratch area) or failed its CRC reaches next_transmit() only - nothing is acknowledged. Consumer "
                "(link_layer<>::handle_received_data, real body with a loop contract over a queue of any content): the stored PDUs are taken from the head of the queue in "
                "order; each is handed to exactly one handler - LL control PDUs to handle_ll_control_data, data PDUs to L2CAP - and freed exactly once, right after it was "
                "handled; a PDU L2CAP or the link layer cannot take NOW (no transmit buffer, L2CAP refuses, link disconnecting) stays at the head and is not freed; a PDU that is neither LL "
                "control nor the start of an L2CAP PDU is dropped - nothing blocks the queue for good.",
    assumptions=["whole-history reliability (every committed PDU is eventually delivered exactly once, in order, under any loss pattern) follows from "
                 "these step contracts by the alternating-bit argument (sender repeats until NESN != SN, receiver accepts iff SN == next expected); "
                 "that argument is on paper, each step is machine checked",
                 "the two pdu_ring_buffer members are represented by an abstract FIFO stub (next_end = oldest, pop_end removes it, more_than_one, "
                 "push_front appends) - the behaviour C18 proves for the real ring; the stub itself is hand written",
                 "the receive queue behind next_ll_l2cap_received / free_ll_l2cap_received (ll_l2cap_sdu_buffer, C19; ring, C18) is a ghost array of up to 5 PDUs with symbolic "
                 "content in the consumer unit; handle_ll_control_data / L2CAP input are abstract there with symbolic results per PDU",
                 "Radio::lock_guard (interrupt masking) is dropped; Hardware:: calls of the ISR are abstract and recorded",
                 "the ISR is assumed to fire only in the states it handles (its own assert)"],
    trusted_base=["nRF52 radio / timer / CCM hardware"],
)
