"""C01 ATT input handling is memory safe and well framed."""
import os, sys
sys.path.insert(0, os.path.dirname(__file__))
import importlib.util
from att import *

def _load(name):
    sp = importlib.util.spec_from_file_location(name, os.path.join(os.path.dirname(__file__), name + '.py'))
    m = importlib.util.module_from_spec(sp); sp.loader.exec_module(m); return m

TAB = r'template < std::size_t A, std::size_t B >\s*'
H_RULES = ATT_RULES + [
    (r'check_size_and_handle< (\d+) >\( input, in_size, output, \(\*out_size\), handle, index \)', r'check_size_and_handle_( self, \1, \1, input, in_size, output, out_size, &handle, &index )', '*'),
    (r'handle_write_request\( input, in_size, output, \(\*out_size\), cc \)', 'handle_write_request_( self, input, in_size, output, out_size, cc )', '*'),
]
EX = dict(ATT_EX,
    csh=srv_fn(r'bool ' + SQ + r'check_size_and_handle\( const std::uint8_t\* input, std::size_t in_size, std::uint8_t\* output, std::size_t& out_size, std::uint16_t& handle, std::size_t& index \)', tmpl=TS + TAB,
               rules=ATT_RULES + [(r'check_handle\( input, in_size, output, \(\*out_size\), handle, index \)', 'check_handle_( self, input, in_size, output, out_size, handle, index )', 1)]),
    read=srv_fn(r'void ' + SQ + r'handle_read_request\( const std::uint8_t\* input, std::size_t in_size, std::uint8_t\* output, std::size_t& out_size, ConnectionData& connection \)', tmpl=TC, rules=H_RULES),
    read_blob=srv_fn(r'void ' + SQ + r'handle_read_blob_request\( const std::uint8_t\* input, std::size_t in_size, std::uint8_t\* output, std::size_t& out_size, ConnectionData& connection \)', tmpl=TC, rules=H_RULES),
    write=srv_fn(r'void ' + SQ + r'handle_write_request\( const std::uint8_t\* input, std::size_t in_size, std::uint8_t\* output, std::size_t& out_size, ConnectionData& connection \)', tmpl=TC, rules=H_RULES),
    write_cmd=srv_fn(r'void ' + SQ + r'handle_write_command\( const std::uint8_t\* input, std::size_t in_size, std::uint8_t\* output, std::size_t& out_size, ConnectionData& cc \)', tmpl=TC, rules=H_RULES),
    read_multiple=srv_fn(r'void ' + SQ + r'handle_read_multiple_request\( const std::uint8_t\* input, std::size_t in_size, std::uint8_t\* const output, std::size_t& out_size, ConnectionData& cc \)', tmpl=TC,
                         rules=H_RULES + [(r'(const uint16_t handle = read_handle\( input \);)', r'size_t bt_oi = __CPROVER_POINTER_OFFSET(input); size_t bt_oo = __CPROVER_POINTER_OFFSET(out_ptr); BT_GHOST_REBIND(input, G_in0 + bt_oi); BT_GHOST_REBIND(out_ptr, output + bt_oo); \1', 1)],
                         loops=[dict(header=r'for \( const uint8_t\* const end_input = input \+ in_size; input != end_input; input \+= 2 \)',
                                     contract="""__CPROVER_assigns(input, out_ptr, __CPROVER_object_upto(output, W_out_size), G_ibh, G_acc, G_all_reads_ok)
                                     __CPROVER_loop_invariant(__CPROVER_same_object(input, G_in0) && __CPROVER_POINTER_OFFSET(input) >= 1 && __CPROVER_POINTER_OFFSET(input) <= W_in_size && ((W_in_size - __CPROVER_POINTER_OFFSET(input)) % 2 == 0)
                                         && __CPROVER_same_object(out_ptr, output) && __CPROVER_POINTER_OFFSET(out_ptr) >= 1 && __CPROVER_POINTER_OFFSET(out_ptr) <= W_out_size
                                         && G_acc_calls == (__CPROVER_POINTER_OFFSET(input) - 1) / 2 && G_all_reads_ok && output[0] == 0x0F)
                                     __CPROVER_decreases(W_in_size - __CPROVER_POINTER_OFFSET(input))""")]),
)

CODE = ATT_CODE + r'''
size_t W_in_size, W_out_size; uint8_t W_in[6]; bool W_enc; int W_ps; uint8_t* G_in0; bool G_all_reads_ok;
bool check_size_and_handle_(struct server* self, size_t A, size_t B, const uint8_t* input, size_t in_size, uint8_t* output, size_t* out_size, uint16_t* handle, size_t* index)
__CPROVER_requires(TABLE_OK && A >= 3 && B >= 3 && IN_OK(input, in_size) && OUT_OK(output, out_size) && __CPROVER_rw_ok(handle, 2) && __CPROVER_rw_ok(index, sizeof(size_t)))
__CPROVER_ensures((in_size != A && in_size != B) ==> (!__CPROVER_return_value && IS_ERROR(output, out_size, input[0], att_error_codes_invalid_pdu)))
__CPROVER_ensures((in_size != A && in_size != B) ==> G_ibh_calls == __CPROVER_old(G_ibh_calls))
__CPROVER_ensures((in_size == A || in_size == B) ==> (*handle == (uint16_t)(input[1] | (input[2] << 8))
      && G_ibh_calls == __CPROVER_old(G_ibh_calls) + (*handle != 0 ? 1 : 0) && (*handle != 0 ==> G_ibh_arg == *handle)
      && __CPROVER_return_value == (*handle != 0 && G_ibh_ret != invalid_attribute_index)
      && (__CPROVER_return_value ? (*index < G_N && *index == G_ibh_ret && *out_size == __CPROVER_old(*out_size))
                                 : IS_ERROR_H(output, out_size, input[0], *handle, att_error_codes_invalid_handle))))
__CPROVER_assigns(*handle, *index, *out_size, __CPROVER_object_upto(output, 5), G_ibh)
{{csh}}

/* what every flat handler has in common */
#define H_PRE(input, in_size, output, out_size, connection) (TABLE_OK && IN_OK(input, in_size) && in_size == W_in_size && OUT_OK(output, out_size) && *out_size == W_out_size \
    && input[0] == W_in[0] && (in_size < 2 || input[1] == W_in[1]) && (in_size < 3 || input[2] == W_in[2]) && (in_size < 4 || input[3] == W_in[3]) && (in_size < 5 || input[4] == W_in[4]) \
    && G_acc_calls == 0 && G_ibh_calls == 0 && G_conn_sec.is_encrypted == W_enc && (int)G_conn_sec.pairing_status == W_ps && W_ps >= 0 && W_ps <= 3)
#define HANDLE_IN ((uint16_t)(W_in[1] | (W_in[2] << 8)))
/* the one access: to the attribute the handle designates, with this connection's configuration store and security attributes */
#define ACC_ON_CONN(type) (G_acc_calls == 1 && G_acc_index == G_ibh_ret && G_ibh_arg == HANDLE_IN && G_acc_type == (type) && G_acc_enc == W_enc && G_acc_ps == W_ps && G_acc_cfg == G_conn_cfg.data_)
#define ERR_OF_RC(dflt) ((G_acc_rc & ~0xff) == 0 ? G_acc_rc : (dflt))
#define H_ASSIGNS *out_size, __CPROVER_object_upto(output, W_out_size), G_ibh, G_acc

void handle_read_request_(struct server* self, const uint8_t* input, size_t in_size, uint8_t* output, size_t* out_size, struct conn* connection)
__CPROVER_requires(H_PRE(input, in_size, output, out_size, connection))
__CPROVER_ensures(FRAMED(output, out_size, W_in[0], 0x0B, W_out_size))
__CPROVER_ensures(W_in_size != 3 ==> (IS_ERROR(output, out_size, W_in[0], att_error_codes_invalid_pdu) && G_acc_calls == 0))
__CPROVER_ensures((W_in_size == 3 && (HANDLE_IN == 0 || G_ibh_ret == invalid_attribute_index)) ==> (IS_ERROR_H(output, out_size, W_in[0], HANDLE_IN, att_error_codes_invalid_handle) && G_acc_calls == 0))
__CPROVER_ensures((W_in_size == 3 && HANDLE_IN != 0 && G_ibh_ret != invalid_attribute_index) ==> (ACC_ON_CONN(attribute_access_type_read) && G_acc_off == 0 && G_acc_buf == output + 1 && G_acc_size == W_out_size - 1
      && (G_acc_rc == 0 ? (*out_size == 1 + G_acc_out_size && output[0] == 0x0B) : IS_ERROR_H(output, out_size, W_in[0], HANDLE_IN, ERR_OF_RC(att_error_codes_read_not_permitted)))))
__CPROVER_assigns(H_ASSIGNS)
{{read}}
void handle_read_blob_request_(struct server* self, const uint8_t* input, size_t in_size, uint8_t* output, size_t* out_size, struct conn* connection)
__CPROVER_requires(H_PRE(input, in_size, output, out_size, connection))
__CPROVER_ensures(FRAMED(output, out_size, W_in[0], 0x0D, W_out_size))
__CPROVER_ensures(W_in_size != 5 ==> (IS_ERROR(output, out_size, W_in[0], att_error_codes_invalid_pdu) && G_acc_calls == 0))
__CPROVER_ensures((W_in_size == 5 && (HANDLE_IN == 0 || G_ibh_ret == invalid_attribute_index)) ==> (IS_ERROR_H(output, out_size, W_in[0], HANDLE_IN, att_error_codes_invalid_handle) && G_acc_calls == 0))
__CPROVER_ensures((W_in_size == 5 && HANDLE_IN != 0 && G_ibh_ret != invalid_attribute_index) ==> (ACC_ON_CONN(attribute_access_type_read) && G_acc_off == (size_t)(W_in[3] | (W_in[4] << 8)) && G_acc_buf == output + 1 && G_acc_size == W_out_size - 1
      && (G_acc_rc == 0 ? (*out_size == 1 + G_acc_out_size && output[0] == 0x0D) : IS_ERROR_H(output, out_size, W_in[0], HANDLE_IN, ERR_OF_RC(att_error_codes_read_not_permitted)))))
__CPROVER_assigns(H_ASSIGNS)
{{read_blob}}
#define WRITE_POST(rsp_expected) \
     (W_in_size < 3 ==> (IS_ERROR(output, out_size, W_in[0], att_error_codes_invalid_pdu) && G_acc_calls == 0)) \
  && ((W_in_size >= 3 && (HANDLE_IN == 0 || G_ibh_ret == invalid_attribute_index)) ==> (IS_ERROR_H(output, out_size, W_in[0], HANDLE_IN, att_error_codes_invalid_handle) && G_acc_calls == 0)) \
  && ((W_in_size >= 3 && HANDLE_IN != 0 && G_ibh_ret != invalid_attribute_index) ==> (ACC_ON_CONN(attribute_access_type_write) && G_acc_off == 0 && G_acc_buf == input + 3 && G_acc_size == W_in_size - 3 \
      && (G_acc_rc == 0 ? (*out_size == 1 && output[0] == 0x13) : IS_ERROR_H(output, out_size, W_in[0], HANDLE_IN, ERR_OF_RC(att_error_codes_write_not_permitted)))))
void handle_write_request_(struct server* self, const uint8_t* input, size_t in_size, uint8_t* output, size_t* out_size, struct conn* connection)
__CPROVER_requires(H_PRE(input, in_size, output, out_size, connection))
__CPROVER_ensures(FRAMED(output, out_size, W_in[0], 0x13, W_out_size))
__CPROVER_ensures(WRITE_POST(0x13))
__CPROVER_assigns(H_ASSIGNS)
{{write}}
/* a command: the same write, never any response */
void handle_write_command_(struct server* self, const uint8_t* input, size_t in_size, uint8_t* output, size_t* out_size, struct conn* cc)
__CPROVER_requires(H_PRE(input, in_size, output, out_size, cc))
__CPROVER_ensures(*out_size == 0)
__CPROVER_ensures((W_in_size >= 3 && HANDLE_IN != 0 && G_ibh_ret != invalid_attribute_index) ? (ACC_ON_CONN(attribute_access_type_write) && G_acc_off == 0 && G_acc_buf == input + 3 && G_acc_size == W_in_size - 3) : G_acc_calls == 0)
__CPROVER_assigns(H_ASSIGNS)
{{write_cmd}}
void handle_read_multiple_request_(struct server* self, const uint8_t* input, size_t in_size, uint8_t* const output, size_t* out_size, struct conn* cc)
__CPROVER_requires(H_PRE(input, in_size, output, out_size, cc) && __CPROVER_pointer_equals(G_in0, input) && G_all_reads_ok)
__CPROVER_ensures(FRAMED(output, out_size, W_in[0], 0x0F, W_out_size))
__CPROVER_ensures((W_in_size < 5 || W_in_size % 2 == 0) ==> (IS_ERROR(output, out_size, W_in[0], att_error_codes_invalid_pdu) && G_acc_calls == 0))
/* success means: every listed handle was read, in order, each with this connection's security attributes */
__CPROVER_ensures((*out_size >= 1 && output[0] == 0x0F) ==> (W_in_size >= 5 && G_acc_calls == (W_in_size - 1) / 2))
__CPROVER_ensures(G_all_reads_ok)
__CPROVER_assigns(H_ASSIGNS, G_all_reads_ok)
{{read_multiple}}

#define SETUP struct server srv; struct server* self = &srv; W_in_size = nondet_size(); W_out_size = nondet_size(); for (int k = 0; k < 6; ++k) W_in[k] = nondet_u8(); struct conn c; c.client_mtu_ = 23; \
  __CPROVER_assume(W_in_size >= 1 && W_in_size <= MTU_MAX && W_out_size >= 23 && W_out_size <= MTU_MAX); uint8_t* in = malloc(W_in_size); uint8_t* out = malloc(W_out_size); __CPROVER_assume(in && out); \
  for (int k = 0; k < 5; ++k) if (W_in_size > k) in[k] = W_in[k]; size_t os = W_out_size; G_N = nondet_size(); G_acc_calls = 0; G_ibh_calls = 0; W_enc = nondet_bool(); W_ps = nondet_int(); \
  __CPROVER_assume(W_ps >= 0 && W_ps <= 3); G_conn_sec.is_encrypted = W_enc; G_conn_sec.pairing_status = W_ps; G_in0 = in; G_all_reads_ok = 1; BT_KNOWN_EXCLUDE()
void h_handle_read_request_(void) { SETUP; handle_read_request_(self, in, W_in_size, out, &os, &c); BT_CANARY(); }
void h_handle_read_blob_request_(void) { SETUP; handle_read_blob_request_(self, in, W_in_size, out, &os, &c); BT_CANARY(); }
void h_handle_write_request_(void) { SETUP; handle_write_request_(self, in, W_in_size, out, &os, &c); BT_CANARY(); }
void h_handle_write_command_(void) { SETUP; handle_write_command_(self, in, W_in_size, out, &os, &c); BT_CANARY(); }
void h_handle_read_multiple_request_(void) { SETUP; handle_read_multiple_request_(self, in, W_in_size, out, &os, &c); BT_CANARY(); }
void h_check_size_and_handle_(void) { SETUP; uint16_t h; size_t ix; size_t A = nondet_size(), B = nondet_size(); __CPROVER_assume(A >= 3 && B >= 3); check_size_and_handle_(self, A, B, in, W_in_size, out, &os, &h, &ix); BT_CANARY(); }
void h_check_handle_(void) { SETUP; uint16_t h; size_t ix; __CPROVER_assume(W_in_size >= 3); check_handle_(self, in, W_in_size, out, &os, &h, &ix); BT_CANARY(); }
void h_access_result_to_att_code(void) { SETUP; access_result_to_att_code(nondet_int(), nondet_int()); BT_CANARY(); }
'''
UNITS = [
    dict(name='flat_handlers', extracts=EX, code=CODE, object_bits=10,
         enforce=['handle_read_request_', 'handle_read_blob_request_', 'handle_write_request_', 'handle_write_command_', 'handle_read_multiple_request_',
                  'check_size_and_handle_', 'check_handle_', 'access_result_to_att_code'],
         replace=['ACCESS', 'index_by_handle', 'check_handle_', 'check_size_and_handle_', 'access_result_to_att_code', 'error_response5_', 'error_response4_']),
]
# l2cap_input: dispatch, clipping and the framing rule (contract stated in C08.py, framing clauses switched on here)
_c08 = _load('C08')
UNITS += [dict(u, name='dispatch', defines=list(u.get('defines', [])) + ['FRAMING_CLAUSES'], enforce=['l2cap_input', 'error_response5_', 'error_response4_'],
               replay=dict(src='replay/c08_replay.cpp')) for u in _c08.UNITS if u['name'] == 'mtu']
# Read By Type: collect_attributes, all_attributes and the handler (contracts stated in C02.py)
_c02 = _load('C02')
UNITS += [dict(u) for u in _c02.UNITS]
_c11 = _load('C11')
UNITS += [dict(u) for u in _c11.UNITS if u['name'] == 'confirmation']
# Prepare Write / Execute Write handlers and the write queue (contracts stated in C07.py)
UNITS += [dict(u) for u in _load('C07').UNITS]
META = dict(
    level='proof',
    explanation="server.hpp, real bodies: l2cap_input (opcode dispatch, clipping of the response room to the negotiated MTU), both error_response "
                "overloads, check_handle, check_size_and_handle<A,B>, access_result_to_att_code, handle_read_request, handle_read_blob_request, "
                "handle_write_request, handle_write_command, handle_read_multiple_request (loop contract over the pointer loop), "
                "handle_value_confirmation, handle_exchange_mtu_request - each for every PDU length 1..MTU_MAX and content (input is a heap object of "
                "exactly in_size bytes: any read past the PDU fails a pointer check), every output room 23..MTU_MAX (frame: only output[0..room) and "
                "*out_size), every table size, every link security state: response length <= room <= negotiated MTU; response opcode = request "
                "opcode + 1 or Error Response naming the request opcode and, where a handle is involved, that handle; wrong length -> invalid PDU; "
                "handle 0 or unknown -> invalid handle; exactly one access to the attribute the handle designates with offset / data taken from the "
                "PDU and with this connection's CCCD store and security attributes; no response for Write Command, Error Response, confirmation.",
    assumptions=["known finding F-C01 (witness class excluded): unsupported commands and client-sent notifications get an Error Response",
                 "under contract too, with the same memory model (request = heap object of exactly in_size octets, response room = the output buffer): Read By Type (handler, all_attributes, "
                 "collect_attributes, check_size_and_handle_range; units of C02.py: MTU <= 48 / 12 attributes and MTU <= 300 / 4 attributes in the quick tier), Find Information (handler "
                 "and collect_handle_uuid_tuples with a loop contract; C02fi.py), Prepare Write / Execute Write and the write queue (C07.py), the functors of Find By Type Value and Read "
                 "By Group Type (constructors, each< Service >(), value filter, group collector, read_primary_service_response; C03.py). The two handler bodies handle_find_by_type_value_request / "
                 "handle_read_by_group_type_request are under contract in unit group_handlers (C01gh.py: framing, sizes, error codes, response length) over a SUMMARY of what "
                 "details::for_< services >::each( functor ) does to the output buffer; that summary is proved: for Find By Type Value in unit group_iteration (real bodies of the group "
                 "collector, services_by_group::each and all_services_by_group; for_<>::each as a loop with a loop contract over a symbolic list of up to 5 services - that "
                 "for_<>::each IS that loop is the one fact taken from the type level); for Read By Group Type in unit group_iteration_rbgt (real bodies of the constructor and of "
                 "collect_primary_services::each in the same kind of loop; read_primary_service_response by its contract, restated relationally from C03.py)",
                 "abstract attribute table: index_by_handle returns an index below number_of_attributes or invalid_attribute_index (C04); "
                 "attribute_at(i).access is any function satisfying the ACCESS contract (writes at most buffer_size bytes of a read buffer, never "
                 "grows buffer_size) - proved for the value, CCCD and declaration access functions in C06 / C09, assumed for service, include and "
                 "descriptor attributes and for user handlers",
                 "enum class att_error_codes : std::uint8_t - a static_cast to it is modelled as truncation to 8 bits (extraction rule)"],
    trusted_base=[],
)
