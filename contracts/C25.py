"""C25 Only properly addressed and permitted requests are answered while advertising."""
import os, sys
sys.path.insert(0, os.path.dirname(__file__))
import importlib.util
from common import BITS_EXTRACTS, BITS_CODE, COPY_RULE
def _load(name):
    sp = importlib.util.spec_from_file_location(name, os.path.join(os.path.dirname(__file__), name + '.py'))
    m = importlib.util.module_from_spec(sp); sp.loader.exec_module(m); return m
_c26, _c15 = _load('C26'), _load('C15')
ADV = 'bluetoe/link_layer/include/bluetoe/advertising.hpp'
AH = 'bluetoe/utility/include/bluetoe/address.hpp'
AC = 'bluetoe/utility/address.cpp'
DL = 'bluetoe/link_layer/include/bluetoe/default_pdu_layout.hpp'
NRF = 'bluetoe/bindings/nordic/include/bluetoe/nrf.hpp'
BUF = 'bluetoe/link_layer/include/bluetoe/buffer.hpp'
N52 = 'bluetoe/bindings/nordic/nrf52/include/bluetoe/nrf52.hpp'
N51 = 'bluetoe/bindings/nordic/nrf51/nrf51.cpp'
BASE = r'struct advertising_type_base\s*(?=\{)'
def TYPE(n): return [r'(?:struct|class) %s\s*(?=\{)' % n, r'class impl\b']
R = [(r'\breceive\.', 'receive->', '*'), (r'(?:Layout|layout_t)::data_channel_pdu_memory_size\(', 'layout_mem_size(', '*'),
     (r'(?:Layout|layout_t)::header\( receive \)', 'layout_header_rb( *receive )', '*'), (r'(?:Layout|layout_t)::body\( receive \)', 'layout_body_rb( *receive )', '*'),
     (r'std::equal\( &body\[ address_length \], &body\[ 2 \* address_length \], addr\.begin\(\) \)', 'bt_equal_bytes( &body[ address_length ], address_length, addr->value_ )', '*'),
     (r'std::equal\( &body\[ 0 \], &body\[ address_length \], self->addr_\.begin\(\) \)', 'bt_equal_bytes( &body[ 0 ], address_length, self->addr_.value_ )', '*'),
     (r'addr\.is_random\(\)', 'dev_is_random( addr )', '*'), (r'self->addr_\.is_random\(\)', 'dev_is_random( &self->addr_ )', '*'),
     (r'using layout_t = typename pdu_layout_by_radio< typename LinkLayer::radio_t >::pdu_layout;', '', '*'),
     (r'details::advertising_type_base::is_valid_connect_request< layout_t >\( receive, link_layer\(\)\.local_address\(\) \)', 'is_valid_connect_request( receive, &G_local_address )', '*'),
     (r'self->is_valid_connect_request\( receive \)', 'adv_is_valid_connect_request( self, &receive )', '*'),
     (r'self->is_valid_connect_request\( receive, ([\w>-]+) \)', r'multi_is_valid_connect_request( self, &receive, \1 )', '*'),
     (r'remote_address = device_address\( &body\[ 0 \], header & 0x40 \);', 'dev_ctor( remote_address, &body[ 0 ], header & 0x40 );', '*'),
     (r'self->base_link_layer\(\)\.is_connection_request_in_filter\( remote_address \)', 'll_is_connection_request_in_filter( remote_address )', '*'),
     (r'(?<!void )\bhandle_adv_timeout\(\);', 'handle_adv_timeout( self );', '*')]
RV = [(r'layout_t::body\( receive \)', 'layout_body_rb( receive )', '*'), (r'layout_t::header\( receive \)', 'layout_header_rb( receive )', '*')] + R
CONSTS = ['header_txaddr_field', 'header_rxaddr_field', 'address_length']
EX = dict(BITS_EXTRACTS, **_c26.ADDR_EX,
    rbuf_fields=dict(kind='fields', file=BUF, scope=r'struct read_buffer\b', names=['buffer', 'size']),
    lay_hdr_rb=dict(file=DL, scope=r'struct layout_base\b', locate=r'static std::uint16_t header\( const read_buffer& pdu \)',
                    rules=[(r'Base::data_channel_pdu_memory_size\( 0 \)', 'layout_mem_size( 0 )', '*'), (r'Base::header\( pdu\.buffer \)', 'base_header( pdu.buffer )', 1)]),
    hdr_default=dict(file=DL, scope=r'struct default_pdu_layout\s*:', locate=r'static std::uint16_t header\( const std::uint8_t\* pdu \)', rules=[(r'::bluetoe::details::read_16bit', 'read_16bit', 1)]),
    hdr_nrf=dict(file=NRF, scope=r'struct encrypted_pdu_layout\s*:', locate=r'static std::uint16_t header\( const std::uint8_t\* pdu \)', rules=[(r'::bluetoe::details::read_16bit', 'read_16bit', 1)]),
    body_default=dict(file=DL, scope=r'struct default_pdu_layout\s*:', locate=r'static std::pair< std::uint8_t\*, std::uint8_t\* > body\( const read_buffer& pdu \)',
                      rules=[(r'return \{', 'return (struct pair_ptr){', 1)]),
    body_nrf=dict(file=NRF, scope=r'struct encrypted_pdu_layout\s*:', locate=r'static std::pair< std::uint8_t\*, std::uint8_t\* > body\( const link_layer::read_buffer& pdu \)',
                  rules=[(r'return \{', 'return (struct pair_ptr){', 1)]),
    mem_default=dict(file=DL, scope=r'struct default_pdu_layout\s*:', locate=r'static constexpr std::size_t data_channel_pdu_memory_size\( std::size_t payload_size \)'),
    mem_nrf=dict(file=NRF, scope=r'struct encrypted_pdu_layout\s*:', locate=r'static constexpr std::size_t data_channel_pdu_memory_size\( std::size_t payload_size \)'),
    hs_default=dict(kind='expr', file=DL, scope=r'struct default_pdu_layout\s*:', locate=r'static constexpr std::size_t header_size ='),
    hs_nrf=dict(kind='expr', file=NRF, scope=r'struct encrypted_pdu_layout\s*:', locate=r'static constexpr std::size_t header_size ='),
    dev_is_random=dict(file=AH, scope=r'class device_address : public address', locate=r'bool is_random\(\) const'),
    addr_ctor=dict(file=AC, locate=r'address::address\( const std::uint8_t\* initial_values \)', rules=[COPY_RULE(1)]),
    dev_ctor=dict(file=AH, scope=r'class device_address : public address', locate=r'device_address\( const std::uint8_t\* initial_values, bool is_random \)', init_list=True,
                  rules=[(r'\baddress = initial_values;', 'addr_ctor( self, initial_values );', 1)]),
    base_connect=dict(file=ADV, scope=BASE, locate=r'static bool is_valid_connect_request\( const read_buffer& receive, const device_address& addr \)', rules=R),
    directed_fields=dict(kind='fields', file=ADV, scope=TYPE('connectable_directed_advertising'), names=['addr_', 'addr_valid_'], type_map={'device_address': 'struct device_address'}),
    und_connect=dict(file=ADV, scope=TYPE('connectable_undirected_advertising'), locate=r'bool is_valid_connect_request\( const read_buffer& receive \) const', rules=R),
    dir_connect=dict(file=ADV, scope=TYPE('connectable_directed_advertising'), locate=r'bool is_valid_connect_request\( const read_buffer& receive \) const', rules=R),
    scn_connect=dict(file=ADV, scope=TYPE('scannable_undirected_advertising'), locate=r'bool is_valid_connect_request\( const read_buffer& \) const'),
    non_connect=dict(file=ADV, scope=TYPE('non_connectable_undirected_advertising'), locate=r'bool is_valid_connect_request\( const read_buffer& \) const'),
    handle_adv_receive=dict(file=ADV, scope=r'class advertiser< LinkLayer, std::tuple< Options\.\.\. >, std::tuple< Advertising > >', locate=r'bool handle_adv_receive\( read_buffer receive, device_address& remote_address \)', rules=RV),
    multi_fields=dict(kind='fields', file=ADV, scope=r'class advertiser< LinkLayer, std::tuple< Options\.\.\. >, std::tuple< FirstAdv, SecondAdv, Advertisings\.\.\. > >', names=['selected_', 'proposal_']),
    multi_handle_adv_receive=dict(file=ADV, scope=r'class advertiser< LinkLayer, std::tuple< Options\.\.\. >, std::tuple< FirstAdv, SecondAdv, Advertisings\.\.\. > >', locate=r'bool handle_adv_receive\( read_buffer receive, device_address& remote_address \)', rules=RV),
    **{k: dict(kind='expr', file=ADV, scope=BASE, locate=r'static constexpr std::(?:uint8_t|size_t)\s+%s\s*=' % k) for k in CONSTS},
)
HEAD = BITS_CODE + _c26.ADDR_CODE + r'''
struct rbuf { {{rbuf_fields}} };
struct pair_ptr { uint8_t* first; uint8_t* second; };
#define header_txaddr_field ((uint8_t)({{header_txaddr_field}}))
#define header_rxaddr_field ((uint8_t)({{header_rxaddr_field}}))
#define address_length ((size_t)({{address_length}}))
bool G_layout_nrf;     /* pdu_layout_by_radio< Radio >::pdu_layout: default_pdu_layout, or the nRF5x encrypted_pdu_layout (one octet gap behind the header) */
#define GAP ((size_t)(G_layout_nrf ? 1 : 0))
#define header_size ((size_t)({{hs_default}}))
static inline size_t mem_default(size_t payload_size) {{mem_default}}
static inline struct pair_ptr body_default(struct rbuf pdu) {{body_default}}
static inline uint16_t hdr_default(const uint8_t* pdu) {{hdr_default}}
#undef header_size
#define header_size ((size_t)({{hs_nrf}}))
static inline size_t mem_nrf(size_t payload_size) {{mem_nrf}}
static inline struct pair_ptr body_nrf(struct rbuf pdu) {{body_nrf}}
static inline uint16_t hdr_nrf(const uint8_t* pdu) {{hdr_nrf}}
#undef header_size
/* template instantiation glue (Layout:: selects one of the two real layouts) */
static inline size_t layout_mem_size(size_t n) { return G_layout_nrf ? mem_nrf(n) : mem_default(n); }
static inline struct pair_ptr layout_body_rb(struct rbuf pdu) { return G_layout_nrf ? body_nrf(pdu) : body_default(pdu); }
static inline uint16_t base_header(const uint8_t* p) { return G_layout_nrf ? hdr_nrf(p) : hdr_default(p); }
/* layout_base< Base >::header( const read_buffer& ) with the authors' assert (checked) */
static inline uint16_t layout_header_rb(struct rbuf pdu) {{lay_hdr_rb}}
static inline bool dev_is_random(const struct device_address* self) {{dev_is_random}}
'''
CODE = HEAD + r'''
/* advertising_receive_buffer(): layout::data_channel_pdu_memory_size( maximum_adv_request_size = 34 ) */
#define CAP (2 + GAP + 34)
struct device_address G_local_address;  /* link_layer().local_address() */
/* witnesses: the received PDU's size, header and the two addresses; the local address; the directed advertising target */
size_t W_size; uint8_t W_h0, W_h1, W_a[12]; struct device_address W_local, W_target; bool W_target_valid; int W_adv_type; bool W_in_filter;
#define RX_OK(r) (__CPROVER_is_fresh(r, sizeof(struct rbuf)) && (r)->size >= 2 + GAP && (r)->size <= CAP && (r)->size == W_size && __CPROVER_is_fresh((r)->buffer, 37) && RX_TIE((r)->buffer))
#define RX_TIE(b) ((b)[0] == W_h0 && (b)[1] == W_h1 && (b)[2+GAP] == W_a[0] && (b)[3+GAP] == W_a[1] && (b)[4+GAP] == W_a[2] && (b)[5+GAP] == W_a[3] && (b)[6+GAP] == W_a[4] && (b)[7+GAP] == W_a[5] \
   && (b)[8+GAP] == W_a[6] && (b)[9+GAP] == W_a[7] && (b)[10+GAP] == W_a[8] && (b)[11+GAP] == W_a[9] && (b)[12+GAP] == W_a[10] && (b)[13+GAP] == W_a[11])
/* ---- the property's own words: a correctly sized CONNECT_IND (type 5, length 34) whose AdvA / RxAdd are this device's address / address type */
#define BYTES6(p, a) ((p)[0] == (a).value_[0] && (p)[1] == (a).value_[1] && (p)[2] == (a).value_[2] && (p)[3] == (a).value_[3] && (p)[4] == (a).value_[4] && (p)[5] == (a).value_[5])
#define CONNECT_FOR_ME (W_size == 2 + GAP + 34 && (W_h0 & 0x0f) == 5 && (W_h1 & 0x3f) == 34 && BYTES6(&W_a[6], W_local) && ((W_h0 & 0x80) != 0) == W_local.is_random_)
#define FROM_TARGET    (W_target_valid && BYTES6(&W_a[0], W_target) && ((W_h0 & 0x40) != 0) == W_target.is_random_)
void addr_ctor(struct device_address* self, const uint8_t* initial_values) {{addr_ctor}}
void dev_ctor(struct device_address* self, const uint8_t* initial_values, bool is_random)
__CPROVER_requires(__CPROVER_rw_ok(self, sizeof(*self)) && __CPROVER_r_ok(initial_values, 6))
/* G_pre_j: ghost index standing for every octet */
__CPROVER_ensures((G_pre_j < 6 ==> self->value_[G_pre_j] == initial_values[G_pre_j]) && self->is_random_ == is_random)
__CPROVER_assigns(__CPROVER_object_whole(self))
{{dev_ctor}}
bool is_valid_connect_request(const struct rbuf* receive, const struct device_address* addr)
__CPROVER_requires(RX_OK(receive) && __CPROVER_is_fresh(addr, sizeof(*addr)) && SAME(*addr, W_local))
__CPROVER_ensures(__CPROVER_return_value == CONNECT_FOR_ME)
__CPROVER_assigns()
{{base_connect}}
/* ---- the advertising types */
struct adv { {{directed_fields}} {{multi_fields}} };
#define ADV_OK(self) (__CPROVER_is_fresh(self, sizeof(struct adv)) && SAME((self)->addr_, W_target) && (self)->addr_valid_ == W_target_valid && SAME(G_local_address, W_local))
bool und_is_valid_connect_request(const struct adv* self, const struct rbuf* receive)
__CPROVER_requires(RX_OK(receive) && ADV_OK(self)) __CPROVER_ensures(__CPROVER_return_value == CONNECT_FOR_ME) __CPROVER_assigns()
{{und_connect}}
bool dir_is_valid_connect_request(const struct adv* self, const struct rbuf* receive)
__CPROVER_requires(RX_OK(receive) && ADV_OK(self))
/* directed advertising: additionally InitA / TxAdd are the device the advertising is directed to */
__CPROVER_ensures(__CPROVER_return_value == (CONNECT_FOR_ME && FROM_TARGET)) __CPROVER_assigns()
{{dir_connect}}
bool scn_is_valid_connect_request(const struct adv* self, const struct rbuf* receive) __CPROVER_ensures(!__CPROVER_return_value) __CPROVER_assigns()
{{scn_connect}}
bool non_is_valid_connect_request(const struct adv* self, const struct rbuf* receive) __CPROVER_ensures(!__CPROVER_return_value) __CPROVER_assigns()
{{non_connect}}
/* template instantiation glue: Advertising::impl selected by the advertising type option */
enum { ADV_UNDIRECTED = 0, ADV_DIRECTED = 1, ADV_SCANNABLE = 2, ADV_NON_CONNECTABLE = 3 };
int G_adv_type;
bool adv_is_valid_connect_request(const struct adv* self, const struct rbuf* receive)
__CPROVER_requires(RX_OK(receive) && ADV_OK(self) && G_adv_type == W_adv_type && W_adv_type >= 0 && W_adv_type <= 3)
__CPROVER_ensures(__CPROVER_return_value == ((W_adv_type == ADV_UNDIRECTED && CONNECT_FOR_ME) || (W_adv_type == ADV_DIRECTED && CONNECT_FOR_ME && FROM_TARGET)))
__CPROVER_assigns()
{ switch (G_adv_type) { case ADV_UNDIRECTED: return und_is_valid_connect_request(self, receive); case ADV_DIRECTED: return dir_is_valid_connect_request(self, receive);
    case ADV_SCANNABLE: return scn_is_valid_connect_request(self, receive); default: return non_is_valid_connect_request(self, receive); } }
/* the white list (C26) and the continuation of advertising: abstract, calls recorded */
struct { size_t filter_calls, timeout_calls; struct device_address filter_arg; } G_r;
bool ll_is_connection_request_in_filter(const struct device_address* a)
__CPROVER_requires(__CPROVER_r_ok(a, sizeof(*a)))
__CPROVER_ensures(__CPROVER_return_value == W_in_filter && G_r.filter_calls == __CPROVER_old(G_r.filter_calls) + 1 && SAME(G_r.filter_arg, *a)) __CPROVER_assigns(G_r.filter_calls, G_r.filter_arg);
void handle_adv_timeout(struct adv* self) __CPROVER_ensures(G_r.timeout_calls == __CPROVER_old(G_r.timeout_calls) + 1) __CPROVER_assigns(G_r.timeout_calls);
#define ACCEPTABLE ((W_adv_type == ADV_UNDIRECTED && CONNECT_FOR_ME) || (W_adv_type == ADV_DIRECTED && CONNECT_FOR_ME && FROM_TARGET))
bool handle_adv_receive(struct adv* self, struct rbuf receive, struct device_address* remote_address)
__CPROVER_requires(receive.size >= 2 + GAP && receive.size <= CAP && receive.size == W_size && __CPROVER_is_fresh(receive.buffer, 37) && RX_TIE(receive.buffer) && ADV_OK(self) && G_adv_type == W_adv_type && W_adv_type >= 0 && W_adv_type <= 3)
__CPROVER_requires(__CPROVER_is_fresh(remote_address, sizeof(struct device_address)) && G_r.filter_calls == 0 && G_r.timeout_calls == 0)
/* a connection is entered exactly for a connect request that is addressed to this device (and comes from the target of directed advertising) and whose initiator passes the connection filter */
__CPROVER_ensures(__CPROVER_return_value == (ACCEPTABLE && W_in_filter))
/* the filter is asked about the initiator: InitA with the address type of TxAdd; that is also the remote address reported */
__CPROVER_ensures(__CPROVER_return_value ==> (G_r.filter_calls == 1 && (G_pre_j < 6 ==> (G_r.filter_arg.value_[G_pre_j] == W_a[G_pre_j] && remote_address->value_[G_pre_j] == W_a[G_pre_j]))
    && G_r.filter_arg.is_random_ == ((W_h0 & 0x40) != 0) && remote_address->is_random_ == ((W_h0 & 0x40) != 0) && G_r.timeout_calls == 0))
/* anything else: advertising goes on */
__CPROVER_ensures(!__CPROVER_return_value ==> G_r.timeout_calls == 1)
__CPROVER_assigns(__CPROVER_object_whole(remote_address), G_r)
{{handle_adv_receive}}

/* ---- several advertising types (advertiser< ..., std::tuple< FirstAdv, SecondAdv, ... > >): selected_ is the type of the PDU on air, proposal_ the one asked for next */
#define N_TYPES 4
int G_types[N_TYPES], W_types[N_TYPES]; unsigned W_selected, W_proposal;
#define ACCEPTABLE_T(t) (((t) == ADV_UNDIRECTED && CONNECT_FOR_ME) || ((t) == ADV_DIRECTED && CONNECT_FOR_ME && FROM_TARGET))
#define TYPES_OK (G_types[0] == W_types[0] && G_types[1] == W_types[1] && G_types[2] == W_types[2] && G_types[3] == W_types[3])
/* template instantiation glue: multipl_advertiser_base< ... >::is_valid_connect_request( b, selected ) walks the type list to the selected type */
bool multi_is_valid_connect_request(const struct adv* self, const struct rbuf* receive, unsigned selected)
__CPROVER_requires(RX_OK(receive) && ADV_OK(self) && TYPES_OK && selected < N_TYPES)
__CPROVER_ensures(__CPROVER_return_value == ACCEPTABLE_T(W_types[selected]))
__CPROVER_assigns()
{ switch (G_types[selected]) { case ADV_UNDIRECTED: return und_is_valid_connect_request(self, receive); case ADV_DIRECTED: return dir_is_valid_connect_request(self, receive);
    case ADV_SCANNABLE: return scn_is_valid_connect_request(self, receive); default: return non_is_valid_connect_request(self, receive); } }
bool multi_handle_adv_receive(struct adv* self, struct rbuf receive, struct device_address* remote_address)
__CPROVER_requires(receive.size >= 2 + GAP && receive.size <= CAP && receive.size == W_size && __CPROVER_is_fresh(receive.buffer, 37) && RX_TIE(receive.buffer) && ADV_OK(self) && TYPES_OK)
__CPROVER_requires(self->selected_ == W_selected && self->proposal_ == W_proposal && W_selected < N_TYPES && W_proposal < N_TYPES)
__CPROVER_requires(__CPROVER_is_fresh(remote_address, sizeof(struct device_address)) && G_r.filter_calls == 0 && G_r.timeout_calls == 0)
/* what counts is the advertising type of the PDU that is on air (selected_), not the one proposed for the next advertising event */
__CPROVER_ensures(__CPROVER_return_value == (ACCEPTABLE_T(W_types[W_selected]) && W_in_filter))
__CPROVER_ensures(__CPROVER_return_value ==> (G_r.filter_calls == 1 && (G_pre_j < 6 ==> (G_r.filter_arg.value_[G_pre_j] == W_a[G_pre_j] && remote_address->value_[G_pre_j] == W_a[G_pre_j]))
    && G_r.filter_arg.is_random_ == ((W_h0 & 0x40) != 0) && remote_address->is_random_ == ((W_h0 & 0x40) != 0) && G_r.timeout_calls == 0))
__CPROVER_ensures(!__CPROVER_return_value ==> G_r.timeout_calls == 1)
__CPROVER_assigns(__CPROVER_object_whole(remote_address), G_r)
{{multi_handle_adv_receive}}
#define SETUP for (int k = 0; k < N_TYPES; ++k) { W_types[k] = nondet_int(); __CPROVER_assume(W_types[k] >= 0 && W_types[k] <= 3); G_types[k] = W_types[k]; } W_selected = nondet_uint(); W_proposal = nondet_uint(); \
  W_size = nondet_size(); W_h0 = nondet_u8(); W_h1 = nondet_u8(); for (int k = 0; k < 12; ++k) W_a[k] = nondet_u8(); for (int k = 0; k < 6; ++k) { W_local.value_[k] = nondet_u8(); W_target.value_[k] = nondet_u8(); } \
  W_local.is_random_ = nondet_bool(); W_target.is_random_ = nondet_bool(); W_target_valid = nondet_bool(); W_adv_type = nondet_int(); W_in_filter = nondet_bool(); G_layout_nrf = nondet_bool(); G_adv_type = W_adv_type; \
  G_local_address = W_local; G_r.filter_calls = 0; G_r.timeout_calls = 0; G_pre_j = nondet_size(); struct rbuf* r; struct adv* a; struct device_address* d; BT_KNOWN_EXCLUDE()
void h_dev_ctor(void) { SETUP; struct device_address x; uint8_t m[6]; dev_ctor(&x, m, nondet_bool()); BT_CANARY(); }
void h_is_valid_connect_request(void) { SETUP; is_valid_connect_request(r, d); BT_CANARY(); }
void h_und_is_valid_connect_request(void) { SETUP; und_is_valid_connect_request(a, r); BT_CANARY(); }
void h_dir_is_valid_connect_request(void) { SETUP; dir_is_valid_connect_request(a, r); BT_CANARY(); }
void h_scn_is_valid_connect_request(void) { SETUP; scn_is_valid_connect_request(a, r); BT_CANARY(); }
void h_non_is_valid_connect_request(void) { SETUP; non_is_valid_connect_request(a, r); BT_CANARY(); }
void h_adv_is_valid_connect_request(void) { SETUP; adv_is_valid_connect_request(a, r); BT_CANARY(); }
void h_handle_adv_receive(void) { SETUP; struct rbuf x; x.size = W_size; handle_adv_receive(a, x, d); BT_CANARY(); }
void h_multi_is_valid_connect_request(void) { SETUP; multi_is_valid_connect_request(a, r, W_selected); BT_CANARY(); }
void h_multi_handle_adv_receive(void) { SETUP; struct rbuf x; x.size = W_size; multi_handle_adv_receive(a, x, d); BT_CANARY(); }
'''
UNITS = [
    dict(name='connect_request', extracts=EX, code=CODE, defines=['BT_NEED_COPY'],
         enforce=['dev_ctor', 'is_valid_connect_request', 'und_is_valid_connect_request', 'dir_is_valid_connect_request', 'scn_is_valid_connect_request', 'non_is_valid_connect_request',
                  'adv_is_valid_connect_request', 'handle_adv_receive', 'multi_is_valid_connect_request', 'multi_handle_adv_receive'],
         replace=['bt_copy_u8', 'll_is_connection_request_in_filter', 'handle_adv_timeout', 'is_valid_connect_request', 'und_is_valid_connect_request', 'dir_is_valid_connect_request', 'scn_is_valid_connect_request', 'non_is_valid_connect_request', 'adv_is_valid_connect_request', 'multi_is_valid_connect_request', 'dev_ctor']),

]

# ------------------------------------------------------------------ scan requests: decided in the radio bindings' interrupt context
RB = r'class nrf52_radio_base : public Buffer'
N51H = 'bluetoe/bindings/nordic/nrf51/include/bluetoe/nrf51.hpp'
SR_PRE = [(r'static_cast< const CallBacks\* >\( this \)->is_scan_request_in_filter\( scanner \)', 'cb_is_scan_request_in_filter( &scanner )', '*'),
          (r'callbacks_\.is_scan_request_in_filter_callback\( scanner \)', 'cb_is_scan_request_in_filter( &scanner )', '*'),
          (r'Hardware::(\w+)\(', r'hw_\1(', '*'), (r'(?<!hw_)\bpdu_gap_required_by_encryption\(\)', 'hw_pdu_gap_required_by_encryption()', '*'),
          (r'while \( !nrf_aar->EVENTS_END \)\s*;', 'hw_aar_wait_end();', '*'), (r'nrf_aar->EVENTS_NOTRESOLVED', 'hw_aar_not_resolved()', '*'),
          (r'\bidentity_resolving_enabled\b', 'G_identity_resolving_enabled', '*'),
          (r'std::equal\( &receive_buffer_\.buffer\[ pdu_header_size \+ addr_size \+ pdu_gap \], &receive_buffer_\.buffer\[ pdu_header_size \+ 2 \* addr_size \+ pdu_gap \],\s*&response_data_\.buffer\[ pdu_header_size \+ pdu_gap \] \)',
           'bt_equal_bytes( &receive_buffer_.buffer[ pdu_header_size + addr_size + pdu_gap ], addr_size, &response_data_.buffer[ pdu_header_size + pdu_gap ] )', 1),
          (r'const link_layer::device_address scanner\( (&receive_buffer_\.buffer\[ pdu_header_size \+ pdu_gap \]), ([^;]*?) \);', r'struct device_address scanner; dev_ctor( &scanner, \1, \2 );', 1)]
SR_EX = dict(BITS_EXTRACTS, **_c26.ADDR_EX,
    rbuf_fields=EX['rbuf_fields'], wbuf_fields=dict(kind='fields', file=BUF, scope=r'struct write_buffer\b', names=['buffer', 'size']),
    dev_is_random=EX['dev_is_random'], addr_ctor=EX['addr_ctor'], dev_ctor=EX['dev_ctor'],
    radio52_fields=dict(kind='fields', file=N52, scope=RB, names=['receive_buffer_', 'response_data_'], type_map={'link_layer::read_buffer': 'struct rbuf', 'link_layer::write_buffer': 'struct wbuf'}),
    radio51_fields=dict(kind='fields', file=N51H, scope=r'class scheduled_radio_base\b', names=['receive_buffer_', 'response_data_'], type_map={'link_layer::read_buffer': 'struct rbuf', 'link_layer::write_buffer': 'struct wbuf'}),
    scan52=dict(file=N52, scope=RB, locate=r'bool is_valid_scan_request\(\) const', pre=SR_PRE),
    scan51=dict(file=N51, locate=r'bool scheduled_radio_base::is_valid_scan_request\(\) const', pre=SR_PRE),
)
SR_CODE = BITS_CODE + _c26.ADDR_CODE + r"""
struct rbuf { {{rbuf_fields}} };
struct wbuf { {{wbuf_fields}} };
static inline bool dev_is_random(const struct device_address* self) {{dev_is_random}}
void addr_ctor(struct device_address* self, const uint8_t* initial_values) {{addr_ctor}}
void dev_ctor(struct device_address* self, const uint8_t* initial_values, bool is_random)
__CPROVER_requires(__CPROVER_rw_ok(self, sizeof(*self)) && __CPROVER_r_ok(initial_values, 6))
__CPROVER_ensures((G_pre_j < 6 ==> self->value_[G_pre_j] == initial_values[G_pre_j]) && self->is_random_ == is_random)
__CPROVER_assigns(__CPROVER_object_whole(self))
{{dev_ctor}}
struct radio52 { {{radio52_fields}} };
struct radio51 { {{radio51_fields}} };
/* hardware and call backs: abstract */
bool W_gap, W_resolving_invalid, W_has_response, W_in_filter; uint8_t W_rx[15], W_rsp[9]; bool G_identity_resolving_enabled;
struct { size_t filter_calls; struct device_address filter_arg; } G_r;
static inline int hw_pdu_gap_required_by_encryption(void) { return W_gap ? 1 : 0; }
static inline bool hw_resolving_address_invalid(void) { return W_resolving_invalid; }
static inline void hw_aar_wait_end(void) {}
static inline bool hw_aar_not_resolved(void) { return W_resolving_invalid; }
bool cb_is_scan_request_in_filter(const struct device_address* a)
__CPROVER_requires(__CPROVER_r_ok(a, sizeof(*a)))
__CPROVER_ensures(__CPROVER_return_value == W_in_filter && G_r.filter_calls == __CPROVER_old(G_r.filter_calls) + 1 && SAME(G_r.filter_arg, *a)) __CPROVER_assigns(G_r.filter_calls, G_r.filter_arg);
#define GAP ((size_t)(W_gap ? 1 : 0))
/* receive buffer: header, [gap], ScanA, AdvA; scan response PDU: header, [gap], AdvA (the local address, C14 / fill_scan_response_data), data */
#define RX_TIE(b) ((b)[0] == W_rx[0] && (b)[1] == W_rx[1] && (b)[2+GAP] == W_rx[2] && (b)[3+GAP] == W_rx[3] && (b)[4+GAP] == W_rx[4] && (b)[5+GAP] == W_rx[5] && (b)[6+GAP] == W_rx[6] && (b)[7+GAP] == W_rx[7] \
   && (b)[8+GAP] == W_rx[8] && (b)[9+GAP] == W_rx[9] && (b)[10+GAP] == W_rx[10] && (b)[11+GAP] == W_rx[11] && (b)[12+GAP] == W_rx[12] && (b)[13+GAP] == W_rx[13])
#define RSP_TIE(b) ((b)[0] == W_rsp[0] && (b)[1] == W_rsp[1] && (b)[2+GAP] == W_rsp[2] && (b)[3+GAP] == W_rsp[3] && (b)[4+GAP] == W_rsp[4] && (b)[5+GAP] == W_rsp[5] && (b)[6+GAP] == W_rsp[6] && (b)[7+GAP] == W_rsp[7])
#define RADIO_OK(self, T) (__CPROVER_is_fresh(self, sizeof(struct T)) && __CPROVER_is_fresh((self)->receive_buffer_.buffer, 15) && RX_TIE((self)->receive_buffer_.buffer) \
   && (W_has_response ? (__CPROVER_is_fresh((self)->response_data_.buffer, 9) && RSP_TIE((self)->response_data_.buffer)) : (self)->response_data_.buffer == 0) \
   && G_r.filter_calls == 0)
/* ---- the property's own words: SCAN_REQ (type 3, length 12) whose AdvA / RxAdd are this device's address / address type; the scanner is ScanA with the type of TxAdd */
#define SCAN_FOR_ME ((W_rx[0] & 0x0f) == 3 && W_rx[1] == 12 && W_rx[8] == W_rsp[2] && W_rx[9] == W_rsp[3] && W_rx[10] == W_rsp[4] && W_rx[11] == W_rsp[5] && W_rx[12] == W_rsp[6] && W_rx[13] == W_rsp[7] \
   && ((W_rx[0] & 0x80) != 0) == ((W_rsp[0] & 0x40) != 0))
#define SCAN_CONTRACT \
/* a scan request is answered only if the advertising type has a scan response at all, the request is addressed to this device, and the scanner passes the scan filter */ \
__CPROVER_ensures(__CPROVER_return_value ==> (W_has_response && SCAN_FOR_ME && W_in_filter && G_r.filter_calls == 1)) \
/* the filter is asked about the scanner: ScanA with the address type the request carries in TxAdd */ \
__CPROVER_ensures(__CPROVER_return_value ==> ((G_pre_j < 6 ==> G_r.filter_arg.value_[G_pre_j] == W_rx[2 + G_pre_j]) && G_r.filter_arg.is_random_ == ((W_rx[0] & 0x40) != 0))) \
/* and such a request is answered (no identity resolving configured, or the address resolved) */ \
__CPROVER_ensures((W_has_response && SCAN_FOR_ME && W_in_filter && !W_resolving_invalid) ==> __CPROVER_return_value) \
__CPROVER_assigns(G_r.filter_calls, G_r.filter_arg)
#ifndef NO_52
bool is_valid_scan_request_52(const struct radio52* self)
__CPROVER_requires(RADIO_OK(self, radio52))
SCAN_CONTRACT
{{scan52}}
#endif
#ifndef NO_51
bool is_valid_scan_request_51(const struct radio51* self)
__CPROVER_requires(RADIO_OK(self, radio51) && (W_resolving_invalid ==> G_identity_resolving_enabled))
SCAN_CONTRACT
{{scan51}}
#endif
#define SETUP W_gap = nondet_bool(); W_resolving_invalid = nondet_bool(); W_has_response = nondet_bool(); W_in_filter = nondet_bool(); for (int k = 0; k < 15; ++k) W_rx[k] = nondet_u8(); for (int k = 0; k < 9; ++k) W_rsp[k] = nondet_u8(); \
  G_identity_resolving_enabled = nondet_bool(); G_r.filter_calls = 0; G_pre_j = nondet_size(); BT_KNOWN_EXCLUDE()
#ifndef NO_52
void h_is_valid_scan_request_52(void) { SETUP; struct radio52* r; is_valid_scan_request_52(r); BT_CANARY(); }
#endif
#ifndef NO_51
void h_is_valid_scan_request_51(void) { SETUP; struct radio51* r; is_valid_scan_request_51(r); BT_CANARY(); }
#endif
void h_dev_ctor(void) { SETUP; struct device_address x; uint8_t m[6]; dev_ctor(&x, m, nondet_bool()); BT_CANARY(); }
"""
_STUB = os.path.join(os.path.dirname(os.path.dirname(os.path.abspath(__file__))), 'replay')
UNITS.append(dict(name='scan_request_nrf52', extracts={k: v for k, v in SR_EX.items() if k not in ('scan51', 'radio51_fields')},
                  code=SR_CODE.replace('{{scan51}}', ';').replace('{{radio51_fields}}', 'int unused_;'), defines=['BT_NEED_COPY', 'NO_51'],
                  enforce=['is_valid_scan_request_52', 'dev_ctor'], replace=['bt_copy_u8', 'cb_is_scan_request_in_filter', 'dev_ctor'],
                  replay=dict(src='replay/c25_replay.cpp', repo_sources=['bluetoe/utility/address.cpp'], repo_includes=['bluetoe/bindings/nordic/nrf52/include'],
                              cxxflags=['-fpermissive', '-DNDEBUG', '-I' + os.path.join(_STUB, 'nrf_stub')])))
UNITS.append(dict(name='scan_request_nrf51', extracts={k: v for k, v in SR_EX.items() if k not in ('scan52', 'radio52_fields')},
                  code=SR_CODE.replace('{{scan52}}', ';').replace('{{radio52_fields}}', 'int unused_;'), defines=['BT_NEED_COPY', 'NO_52'],
                  enforce=['is_valid_scan_request_51'], replace=['bt_copy_u8', 'cb_is_scan_request_in_filter', 'dev_ctor'],
                  replay=dict(src='replay/c25_nrf51_replay.cpp', repo_sources=['bluetoe/utility/address.cpp', 'bluetoe/link_layer/delta_time.cpp'], c_sources=['bluetoe/bindings/nordic/uECC/uECC.c'],
                              repo_includes=['bluetoe/bindings/nordic/nrf51/include', 'bluetoe/bindings/nordic/uECC'],
                              cxxflags=['-fpermissive', '-DNDEBUG', '-I' + os.path.join(_STUB, 'nrf51_stub')])))
# the interrupt handler that acts on the answer (contract stated in C15.py: a response is transmitted only to a PDU received intact for which is_valid_scan_request() holds)
UNITS += [dict(u, enforce=['radio_interrupt_handler']) for u in _c15.UNITS if u['name'] == 'nrf52_isr']
META = dict(
    level='proof',
    explanation="Connect requests (advertising.hpp, real bodies, both PDU layouts, every PDU size / header / addresses, every local and target address): "
                "advertising_type_base::is_valid_connect_request returns true exactly for a PDU of the memory size of a 34 octet payload with PDU type 5, "
                "length 34, AdvA == local address and RxAdd == local address type; the directed advertising variant additionally requires InitA / TxAdd "
                "== the (valid) target address; scannable and non connectable advertising accept none; advertiser::handle_adv_receive (single advertising type, and the variant for several types, which must judge by selected_ - the type on air) returns true "
                "exactly when that holds and is_connection_request_in_filter( ( InitA, TxAdd ) ) does, reports that address as remote address, and "
                "otherwise continues advertising (handle_adv_timeout exactly once). Scan requests are decided in the radio bindings' interrupt context: "
                "nrf52_radio_base::is_valid_scan_request (nrf52.hpp) and scheduled_radio_base::is_valid_scan_request (nrf51.cpp) return true only if the "
                "advertising type has a scan response, the PDU has type 3 and length 12, AdvA equals the address in the scan response PDU, RxAdd equals "
                "its TxAdd, and is_scan_request_in_filter( ( ScanA, TxAdd of the request ) ) holds - and conversely; the nRF52 ISR transmits a response "
                "only to a PDU received intact for which that function returned true (contract in C15.py). The filter functions themselves "
                "(white_list.hpp) are proved in C26.",
    assumptions=["the dispatch over the advertising type (Advertising::impl selected by the option list) and over the PDU layout is hand written glue "
                 "(adv_is_valid_connect_request, layout_*); the type list walk of multipl_advertiser_base (is_valid_connect_request( b, selected )) is represented by an array of up to 4 type codes",
                 "the radio reports at least the 2 (+gap) header octets of a received PDU and at most the advertising receive buffer "
                 "(nrf52.hpp: size = min( capacity, length + 2 + gap ))",
                 "the address in the scan response PDU is the local address (written by fill_scan_response_data, C14 area)",
                 "the is_valid_scan_request members of the advertising types in advertising.hpp are never instantiated (they would not compile: "
                 "body.begin) and are not part of the mechanism",
                 "nRF51 ISR (adv_radio_interrupt) not extracted; identity resolving hardware (AAR) abstract"],
    trusted_base=["radio hardware (CRC check, AAR), Hardware:: functions of the nRF52 binding"],
)
