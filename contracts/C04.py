"""C04 Attribute handles are consistent with the declared database (the run-time mapping functions of attribute_handle.hpp, by induction over the declaration lists)."""
import os, sys
sys.path.insert(0, os.path.dirname(__file__))
AH = 'bluetoe/attribute_handle.hpp'
CIM = r'struct characteristic_index_mapping\s*(?=\{)'
ICM0 = r'struct interate_characteristic_index_mappings< StartHandle, StartIndex, std::tuple<> >\s*(?=\{)'
ICM = r'struct interate_characteristic_index_mappings< StartHandle, StartIndex, std::tuple< ::bluetoe::characteristic< Options\.\.\. >, Chars\.\.\. > >'
SIM = r'struct service_index_mapping\s*:'
ISM0 = r'struct interate_service_index_mappings< StartHandle, StartIndex, std::tuple<> >\s*(?=\{)'
ISM = r'struct interate_service_index_mappings< StartHandle, StartIndex, std::tuple< ::bluetoe::service< Options\.\.\. >, Services\.\.\. > >'
HIM = r'struct handle_index_mapping< ::bluetoe::server< Options\.\.\. > >'
R = [(r'attribute_handles_t::(declaration|value|cccd)_handle', r'G_\1_handle', '*'), (r'characteristic_t::number_of_attributes', 'G_n', '*'), (r'service_t::number_of_attributes', 'G_n', '*'),
     (r'\bStartIndex\b', 'G_start_index', '*'), (r'\bStartHandle\b', 'G_start_handle', '*'),
     (r'next::end_index', 'CHAR_END_INDEX', '*'), (r'next::end_handle', 'CHAR_END_HANDLE', '*'),
     (r'next::characteristic_attribute_(handle_by_index|index_by_handle)\(', r'characteristic_attribute_\1(', '*'),
     (r'next_characteristic_mapping< G_start_handle, G_start_index, std::tuple< Chars\.\.\. >, Options\.\.\. >::attribute_(handle_by_index|index_by_handle)\(', r'tail_attribute_\1(', '*'),
     (r'next_char_mapping< G_start_handle, G_start_index, Options\.\.\. >::attribute_(handle_by_index|index_by_handle)\(', r'chars_attribute_\1(', '*'),
     (r'service_index_mapping< G_start_handle, G_start_index, Options\.\.\. >::end_index', 'SERVICE_END_INDEX', '*'), (r'service_index_mapping< G_start_handle, G_start_index, Options\.\.\. >::end_handle', 'G_service_end_handle', '*'),
     (r'service_index_mapping< G_start_handle, G_start_index, Options\.\.\. >::characteristic_(handle_by_index|first_index_by_handle)\(', r'service_characteristic_\1(', '*'),
     (r'next_service_mapping< G_start_handle, G_start_index, std::tuple< Services\.\.\. >, Options\.\.\. >::service_(handle_by_index|first_index_by_handle)\(', r'tail_service_\1(', '*'),
     (r'iterator::service_(handle_by_index|first_index_by_handle)\(', r'services_\1(', '*'),
     (r'\bservice_handle\b', 'G_service_handle', '*'),
     (r'(?<![\w:])(declaration|value|cccd)_position\b', r'\1_position', '*')]
def F(scope, sig, **kw):
    d = dict(file=AH, scope=scope, locate=sig, rules=R); d.update(kw); return d
EX = dict(
    inv_handle=dict(kind='expr', file=AH, locate=r'static constexpr std::uint16_t invalid_attribute_handle =(?= 0;)'),
    inv_index=dict(kind='expr', file=AH, locate=r'static constexpr std::size_t\s+invalid_attribute_index\s*=(?=\s*~)'),
    char_end_handle=dict(kind='expr', file=AH, scope=CIM, locate=r'static constexpr std::uint16_t end_handle\s*=', rules=R),
    char_end_index=dict(kind='expr', file=AH, scope=CIM, locate=r'static constexpr std::uint16_t end_index\s*=', rules=R),
    pos_decl=dict(kind='expr', file=AH, scope=CIM, locate=r'static constexpr std::size_t declaration_position ='),
    pos_value=dict(kind='expr', file=AH, scope=CIM, locate=r'static constexpr std::size_t value_position\s*='),
    pos_cccd=dict(kind='expr', file=AH, scope=CIM, locate=r'static constexpr std::size_t cccd_position\s*='),
    char_h=F(CIM, r'static std::uint16_t characteristic_attribute_handle_by_index\( std::size_t index \)'),
    char_i=F(CIM, r'static std::size_t characteristic_attribute_index_by_handle\( std::uint16_t handle \)'),
    chars0_h=F(ICM0, r'static std::uint16_t attribute_handle_by_index\( std::size_t \)'), chars0_i=F(ICM0, r'static std::size_t attribute_index_by_handle\( std::uint16_t \)'),
    chars_h=F(ICM, r'static std::uint16_t attribute_handle_by_index\( std::size_t index \)'), chars_i=F(ICM, r'static std::size_t attribute_index_by_handle\( std::uint16_t handle \)'),
    svc_end_index=dict(kind='expr', file=AH, scope=SIM, locate=r'static constexpr std::uint16_t end_index\s*=', rules=R),
    svc_h=F(SIM, r'static std::uint16_t characteristic_handle_by_index\( std::size_t index \)'), svc_i=F(SIM, r'static std::size_t characteristic_first_index_by_handle\( std::uint16_t handle \)'),
    svcs0_h=F(ISM0, r'static std::uint16_t service_handle_by_index\( std::size_t \)'), svcs0_i=F(ISM0, r'static std::size_t service_first_index_by_handle\( std::uint16_t \)'),
    svcs_h=F(ISM, r'static std::uint16_t service_handle_by_index\( std::size_t index \)'), svcs_i=F(ISM, r'static std::size_t service_first_index_by_handle\( std::uint16_t handle \)'),
    top_h=F(HIM, r'static std::uint16_t handle_by_index\( std::size_t index \)'), top_f=F(HIM, r'static std::size_t first_index_by_handle\( std::uint16_t handle \)'),
    top_i=F(HIM, r'static std::size_t index_by_handle\( std::uint16_t handle \)'),
)
COMMON = r'''
#define invalid_attribute_handle ((uint16_t)({{inv_handle}}))
#define invalid_attribute_index ((size_t)({{inv_index}}))
/* ---- the data base as a whole (ghost): attribute i has handle UH(i), N attributes. UH is DEFINED segment by segment by the template constants (see the units); the ghost table G_H stands for
        the parts other segments define. G_i is a ghost index standing for 'any attribute'. */
#ifndef N_MAX
#define N_MAX 64
#endif
size_t G_N; uint16_t G_H[N_MAX]; size_t G_i;
size_t G_end;   /* the index behind the last attribute of the list under consideration (a service's characteristics end with the service; the list of services ends with the data base) */
#define SHAPE (G_N >= 1 && G_N <= N_MAX && G_i < N_MAX && G_end <= G_N)
/* induction hypotheses about the context of a list that starts at ( start index, start handle ): everything in front of it lies below its start handle */
#define FRONT(si, sh) (G_i < (size_t)(si) ==> UH(G_i) < (sh))
/* contract of 'handle by index' of a list: the data base's handle for every index of the list and behind, 0 behind the last attribute; every handle of the list is >= its start handle (so: non-zero) */
#define LIST_HBI(ret, index, sh) ((ret) == ((index) < G_end ? UH(index) : invalid_attribute_handle) && ((index) < G_end ==> (ret) >= (sh)))
/* contract of 'first index by handle' of a list starting at si: the least index whose handle is >= handle - stated with the ghost index: everything in front of the result is smaller, the result
   and everything behind it is not; invalid iff every handle is smaller */
#define LIST_FIBH(ret, handle, si) ((ret) == invalid_attribute_index ? (G_i < G_end ==> UH(G_i) < (handle)) \
    : ((ret) >= (size_t)(si) && (ret) < G_end && UH(ret) >= (handle) && (G_i < (ret) ==> UH(G_i) < (handle)) && ((G_i >= (ret) && G_i < G_end) ==> UH(G_i) >= (handle)) \
       && ((G_i > (ret) && G_i < G_end) ==> UH(G_i) > UH(ret))))   /* handles increase strictly: every attribute behind the result has a larger handle than the result */
'''
CHARS = COMMON + r'''
#define declaration_position ((size_t)({{pos_decl}}))
#define value_position ((size_t)({{pos_value}}))
#define cccd_position ((size_t)({{pos_cccd}}))
/* ---- one characteristic: template constants StartHandle, StartIndex, number_of_attributes and the three handles selected by select_attribute_handles<> (static_asserts of attribute_handles<>:
        declaration < value < CCCD; of characteristic_index_mapping: declaration >= StartHandle) */
uint16_t G_start_handle, G_start_index, G_declaration_handle, G_value_handle, G_cccd_handle; size_t G_n;
static inline uint16_t char_end_handle(void) { return (uint16_t)(
{{char_end_handle}}
); }
static inline uint16_t char_end_index(void) { return (uint16_t)(
{{char_end_index}}
); }
#define CHAR_END_HANDLE char_end_handle()
#define CHAR_END_INDEX  char_end_index()
#define CHAR_CONSTS_OK (G_n >= 2 && G_n <= N_MAX && G_start_handle >= 1 && G_declaration_handle >= G_start_handle && G_declaration_handle < G_value_handle && G_value_handle < G_cccd_handle && G_cccd_handle <= 0xff00 \
    && (size_t)G_start_index + G_n <= G_end)
/* the handle of the characteristic's attribute number rel: declaration, value, CCCD, then the descriptors counting on from the CCCD handle */
#define CHAR_H(rel) ((rel) == 0 ? G_declaration_handle : (rel) == 1 ? G_value_handle : (uint16_t)(G_cccd_handle + ((rel) - 2)))
/* the characteristic's attributes ARE the attributes StartIndex .. StartIndex + n - 1 of the data base */
#define UH(i) (((i) >= G_start_index && (i) < (size_t)G_start_index + G_n) ? CHAR_H((i) - G_start_index) : G_H[i])
uint16_t characteristic_attribute_handle_by_index(size_t index)
__CPROVER_requires(CHAR_CONSTS_OK && index >= G_start_index && index - G_start_index < G_n)
__CPROVER_ensures(__CPROVER_return_value == CHAR_H(index - G_start_index))
/* unique, non-zero, increasing within the characteristic, below the end handle the next one starts at */
__CPROVER_ensures(__CPROVER_return_value >= G_declaration_handle && __CPROVER_return_value < CHAR_END_HANDLE && (index - G_start_index + 1 < G_n ==> __CPROVER_return_value < CHAR_H(index - G_start_index + 1)))
__CPROVER_assigns()
{{char_h}}
size_t characteristic_attribute_index_by_handle(uint16_t handle)
__CPROVER_requires(CHAR_CONSTS_OK && handle < CHAR_END_HANDLE)
/* the least attribute of the characteristic whose handle is >= handle */
__CPROVER_ensures(__CPROVER_return_value >= G_start_index && __CPROVER_return_value - G_start_index < G_n && CHAR_H(__CPROVER_return_value - G_start_index) >= handle
    && (__CPROVER_return_value > G_start_index ==> CHAR_H(__CPROVER_return_value - G_start_index - 1) < handle))
__CPROVER_assigns()
{{char_i}}
/* ---- the list of characteristics of a service: induction step (one characteristic, then the rest) and base (empty list). Hypotheses about the rest: it starts at this characteristic's end index / end
        handle (next_characteristic_mapping<>), every attribute behind this characteristic has a handle >= that end handle, and the rest meets the list contract */
#define BACK (((G_i >= (size_t)G_start_index + G_n) && G_i < G_end) ==> G_H[G_i] >= CHAR_END_HANDLE)
uint16_t tail_attribute_handle_by_index(size_t index) __CPROVER_requires(index >= CHAR_END_INDEX && FRONT(CHAR_END_INDEX, CHAR_END_HANDLE)) __CPROVER_ensures(LIST_HBI(__CPROVER_return_value, index, CHAR_END_HANDLE)) __CPROVER_assigns();
size_t tail_attribute_index_by_handle(uint16_t handle) __CPROVER_requires(handle >= CHAR_END_HANDLE && FRONT(CHAR_END_INDEX, CHAR_END_HANDLE)) __CPROVER_ensures(LIST_FIBH(__CPROVER_return_value, handle, CHAR_END_INDEX)) __CPROVER_assigns();
uint16_t chars_attribute_handle_by_index(size_t index)
__CPROVER_requires(SHAPE && CHAR_CONSTS_OK && FRONT(G_start_index, G_start_handle) && BACK && index >= G_start_index)
__CPROVER_ensures(LIST_HBI(__CPROVER_return_value, index, G_start_handle))
__CPROVER_assigns()
{{chars_h}}
size_t chars_attribute_index_by_handle(uint16_t handle)
__CPROVER_requires(SHAPE && CHAR_CONSTS_OK && FRONT(G_start_index, G_start_handle) && BACK && (handle >= G_start_handle || G_start_index == 0))
__CPROVER_ensures(LIST_FIBH(__CPROVER_return_value, handle, G_start_index))
__CPROVER_assigns()
{{chars_i}}
/* the empty list: its domain is empty (G_end == its start index) */
uint16_t chars0_attribute_handle_by_index(size_t index) __CPROVER_requires(SHAPE && G_end == G_start_index && index >= G_start_index) __CPROVER_ensures(LIST_HBI(__CPROVER_return_value, index, G_start_handle)) __CPROVER_assigns()
{{chars0_h}}
size_t chars0_attribute_index_by_handle(uint16_t handle) __CPROVER_requires(SHAPE && G_end == G_start_index && FRONT(G_start_index, G_start_handle) && handle >= G_start_handle) __CPROVER_ensures(LIST_FIBH(__CPROVER_return_value, handle, G_start_index)) __CPROVER_assigns()
{{chars0_i}}
#define SETUP G_N = nondet_size(); G_end = nondet_size(); G_i = nondet_size(); G_start_handle = nondet_u16(); G_start_index = nondet_u16(); G_declaration_handle = nondet_u16(); G_value_handle = nondet_u16(); G_cccd_handle = nondet_u16(); G_n = nondet_size(); \
  __CPROVER_assume(G_N >= 1 && G_N <= N_MAX && G_start_index < N_MAX); BT_KNOWN_EXCLUDE()
void h_characteristic_attribute_handle_by_index(void) { SETUP; characteristic_attribute_handle_by_index(nondet_size()); BT_CANARY(); }
void h_characteristic_attribute_index_by_handle(void) { SETUP; characteristic_attribute_index_by_handle(nondet_u16()); BT_CANARY(); }
void h_chars_attribute_handle_by_index(void) { SETUP; chars_attribute_handle_by_index(nondet_size()); BT_CANARY(); }
void h_chars_attribute_index_by_handle(void) { SETUP; chars_attribute_index_by_handle(nondet_u16()); BT_CANARY(); }
void h_chars0_attribute_handle_by_index(void) { SETUP; chars0_attribute_handle_by_index(nondet_size()); BT_CANARY(); }
void h_chars0_attribute_index_by_handle(void) { SETUP; chars0_attribute_index_by_handle(nondet_u16()); BT_CANARY(); }
'''
CH_KEYS = ('inv_handle', 'inv_index', 'char_end_handle', 'char_end_index', 'pos_decl', 'pos_value', 'pos_cccd', 'char_h', 'char_i', 'chars0_h', 'chars0_i', 'chars_h', 'chars_i')
UNITS = [
    dict(name='characteristics', extracts={k: EX[k] for k in CH_KEYS}, code=CHARS,
         enforce=['characteristic_attribute_handle_by_index', 'characteristic_attribute_index_by_handle', 'chars_attribute_handle_by_index', 'chars_attribute_index_by_handle', 'chars0_attribute_handle_by_index', 'chars0_attribute_index_by_handle'],
         replace=['tail_attribute_handle_by_index', 'tail_attribute_index_by_handle', 'characteristic_attribute_handle_by_index', 'characteristic_attribute_index_by_handle'],
         replay=dict(src='replay/c04_replay.cpp', cxxflags=['-DNDEBUG'])),
]

SERVICES = COMMON + r'''
/* ---- one service: template constants StartHandle, StartIndex, number_of_attributes, the service's start handle (service_start_handle<>: an attribute_handle<> option or StartHandle; static_assert:
        >= StartHandle) and its end handle (last_characteristic_end_handle of its characteristic list) */
uint16_t G_start_handle, G_start_index, G_service_handle, G_service_end_handle; size_t G_n;
static inline uint16_t service_end_index(void) { return (uint16_t)(
{{svc_end_index}}
); }
#define SERVICE_END_INDEX service_end_index()
#define SVC_CONSTS_OK (G_n >= 1 && G_n <= N_MAX && G_start_handle >= 1 && G_service_handle >= G_start_handle && G_service_handle < G_service_end_handle && (size_t)G_start_index + G_n <= G_end)
/* the service declaration IS attribute StartIndex with the service's start handle; the following n - 1 attributes are defined by its characteristic list (next_char_mapping<>: starts at handle + 1, index + 1) */
#define UH(i) ((i) == G_start_index ? G_service_handle : G_H[i])
/* hypotheses about the characteristic list (proved for it in unit characteristics, with the list ending where the service ends): it meets the list contract; all its handles lie between the
   service handle and the service's end handle */
#define CHARS_IN (((G_i > G_start_index) && G_i < (size_t)G_start_index + G_n) ==> (G_H[G_i] > G_service_handle && G_H[G_i] < G_service_end_handle))
#define IN_SERVICE(x) ((x) >= G_start_index && (x) < (size_t)G_start_index + G_n)
uint16_t chars_attribute_handle_by_index(size_t index) __CPROVER_requires(index > G_start_index)
__CPROVER_ensures(__CPROVER_return_value == (index < (size_t)G_start_index + G_n ? UH(index) : invalid_attribute_handle) && (index < (size_t)G_start_index + G_n ==> (__CPROVER_return_value > G_service_handle && __CPROVER_return_value < G_service_end_handle))) __CPROVER_assigns();
size_t chars_attribute_index_by_handle(uint16_t handle) __CPROVER_requires(handle > G_service_handle)
__CPROVER_ensures(__CPROVER_return_value == invalid_attribute_index ? ((G_i > G_start_index && G_i < (size_t)G_start_index + G_n) ==> UH(G_i) < handle)
    : (__CPROVER_return_value > G_start_index && __CPROVER_return_value < (size_t)G_start_index + G_n && UH(__CPROVER_return_value) >= handle && UH(__CPROVER_return_value) < G_service_end_handle
       && ((G_i > G_start_index && G_i < __CPROVER_return_value) ==> UH(G_i) < handle) && ((G_i >= __CPROVER_return_value && G_i < (size_t)G_start_index + G_n) ==> UH(G_i) >= handle)
       && ((G_i > __CPROVER_return_value && G_i < (size_t)G_start_index + G_n) ==> UH(G_i) > UH(__CPROVER_return_value))))
__CPROVER_ensures(handle < G_service_end_handle ==> __CPROVER_return_value != invalid_attribute_index) __CPROVER_assigns();
uint16_t service_characteristic_handle_by_index(size_t index)
__CPROVER_requires(SHAPE && SVC_CONSTS_OK && CHARS_IN && IN_SERVICE(index))
__CPROVER_ensures(__CPROVER_return_value == UH(index) && __CPROVER_return_value >= G_service_handle && __CPROVER_return_value < G_service_end_handle)
__CPROVER_assigns()
{{svc_h}}
size_t service_characteristic_first_index_by_handle(uint16_t handle)
__CPROVER_requires(SHAPE && SVC_CONSTS_OK && CHARS_IN && handle < G_service_end_handle)
/* the least attribute of the service whose handle is >= handle */
__CPROVER_ensures(IN_SERVICE(__CPROVER_return_value) && UH(__CPROVER_return_value) >= handle && UH(__CPROVER_return_value) < G_service_end_handle && ((IN_SERVICE(G_i) && G_i < __CPROVER_return_value) ==> UH(G_i) < handle)
    && ((IN_SERVICE(G_i) && G_i >= __CPROVER_return_value) ==> UH(G_i) >= handle) && ((IN_SERVICE(G_i) && G_i > __CPROVER_return_value) ==> UH(G_i) > UH(__CPROVER_return_value)))
__CPROVER_assigns()
{{svc_i}}
/* ---- the list of services: induction step and base, as for the characteristics (next_service_mapping<>: the rest starts at this service's end index / end handle) */
#define BACK (((G_i >= (size_t)G_start_index + G_n) && G_i < G_end) ==> G_H[G_i] >= G_service_end_handle)
uint16_t tail_service_handle_by_index(size_t index) __CPROVER_requires(index >= SERVICE_END_INDEX && FRONT(SERVICE_END_INDEX, G_service_end_handle)) __CPROVER_ensures(LIST_HBI(__CPROVER_return_value, index, G_service_end_handle)) __CPROVER_assigns();
size_t tail_service_first_index_by_handle(uint16_t handle) __CPROVER_requires(handle >= G_service_end_handle && FRONT(SERVICE_END_INDEX, G_service_end_handle)) __CPROVER_ensures(LIST_FIBH(__CPROVER_return_value, handle, SERVICE_END_INDEX)) __CPROVER_assigns();
uint16_t services_handle_by_index(size_t index)
__CPROVER_requires(SHAPE && SVC_CONSTS_OK && CHARS_IN && FRONT(G_start_index, G_start_handle) && BACK && index >= G_start_index)
__CPROVER_ensures(LIST_HBI(__CPROVER_return_value, index, G_start_handle))
__CPROVER_assigns()
{{svcs_h}}
size_t services_first_index_by_handle(uint16_t handle)
__CPROVER_requires(SHAPE && SVC_CONSTS_OK && CHARS_IN && FRONT(G_start_index, G_start_handle) && BACK && (handle >= G_start_handle || G_start_index == 0))
__CPROVER_ensures(LIST_FIBH(__CPROVER_return_value, handle, G_start_index))
__CPROVER_assigns()
{{svcs_i}}
uint16_t services0_handle_by_index(size_t index) __CPROVER_requires(SHAPE && G_end == G_start_index && index >= G_start_index) __CPROVER_ensures(LIST_HBI(__CPROVER_return_value, index, G_start_handle)) __CPROVER_assigns()
{{svcs0_h}}
size_t services0_first_index_by_handle(uint16_t handle) __CPROVER_requires(SHAPE && G_end == G_start_index && FRONT(G_start_index, G_start_handle) && handle >= G_start_handle) __CPROVER_ensures(LIST_FIBH(__CPROVER_return_value, handle, G_start_index)) __CPROVER_assigns()
{{svcs0_i}}
#define SETUP G_N = nondet_size(); G_end = nondet_size(); G_i = nondet_size(); G_start_handle = nondet_u16(); G_start_index = nondet_u16(); G_service_handle = nondet_u16(); G_service_end_handle = nondet_u16(); G_n = nondet_size(); \
  __CPROVER_assume(G_N >= 1 && G_N <= N_MAX && G_start_index < N_MAX); BT_KNOWN_EXCLUDE()
void h_service_characteristic_handle_by_index(void) { SETUP; service_characteristic_handle_by_index(nondet_size()); BT_CANARY(); }
void h_service_characteristic_first_index_by_handle(void) { SETUP; service_characteristic_first_index_by_handle(nondet_u16()); BT_CANARY(); }
void h_services_handle_by_index(void) { SETUP; services_handle_by_index(nondet_size()); BT_CANARY(); }
void h_services_first_index_by_handle(void) { SETUP; services_first_index_by_handle(nondet_u16()); BT_CANARY(); }
void h_services0_handle_by_index(void) { SETUP; services0_handle_by_index(nondet_size()); BT_CANARY(); }
void h_services0_first_index_by_handle(void) { SETUP; services0_first_index_by_handle(nondet_u16()); BT_CANARY(); }
'''
TOP = COMMON + r'''
/* ---- handle_index_mapping< server >: the list of all services, starting at handle 1, index 0, ending with the data base */
#define UH(i) G_H[i]
uint16_t services_handle_by_index(size_t index) __CPROVER_requires(SHAPE) __CPROVER_ensures(LIST_HBI(__CPROVER_return_value, index, 1)) __CPROVER_assigns();
size_t services_first_index_by_handle(uint16_t handle) __CPROVER_requires(SHAPE) __CPROVER_ensures(LIST_FIBH(__CPROVER_return_value, handle, 0)) __CPROVER_assigns();
#define TOP_PRE (SHAPE && G_end == G_N)
/* every attribute has a non-zero handle, and it is the handle under which it is found */
uint16_t handle_by_index(size_t index) __CPROVER_requires(TOP_PRE) __CPROVER_ensures(LIST_HBI(__CPROVER_return_value, index, 1) && (index < G_N ==> __CPROVER_return_value != 0)) __CPROVER_assigns()
{{top_h}}
size_t first_index_by_handle(uint16_t handle) __CPROVER_requires(TOP_PRE) __CPROVER_ensures(LIST_FIBH(__CPROVER_return_value, handle, 0)) __CPROVER_assigns()
{{top_f}}
/* index_by_handle: the attribute with exactly that handle, or invalid if no attribute has it */
size_t index_by_handle(uint16_t handle) __CPROVER_requires(TOP_PRE)
__CPROVER_ensures(__CPROVER_return_value == invalid_attribute_index ? (G_i < G_N ==> UH(G_i) != handle) : (__CPROVER_return_value < G_N && UH(__CPROVER_return_value) == handle))
__CPROVER_assigns()
{{top_i}}
#define SETUP G_N = nondet_size(); G_end = nondet_size(); G_i = nondet_size(); __CPROVER_assume(G_N >= 1 && G_N <= N_MAX); BT_KNOWN_EXCLUDE()
void h_handle_by_index(void) { SETUP; handle_by_index(nondet_size()); BT_CANARY(); }
void h_first_index_by_handle(void) { SETUP; first_index_by_handle(nondet_u16()); BT_CANARY(); }
void h_index_by_handle(void) { SETUP; index_by_handle(nondet_u16()); BT_CANARY(); }
'''
UNITS += [
    dict(name='services', extracts={k: EX[k] for k in ('inv_handle', 'inv_index', 'svc_end_index', 'svc_h', 'svc_i', 'svcs0_h', 'svcs0_i', 'svcs_h', 'svcs_i')}, code=SERVICES,
         enforce=['service_characteristic_handle_by_index', 'service_characteristic_first_index_by_handle', 'services_handle_by_index', 'services_first_index_by_handle', 'services0_handle_by_index', 'services0_first_index_by_handle'],
         replace=['chars_attribute_handle_by_index', 'chars_attribute_index_by_handle', 'tail_service_handle_by_index', 'tail_service_first_index_by_handle', 'service_characteristic_handle_by_index', 'service_characteristic_first_index_by_handle'],
         replay=dict(src='replay/c04_replay.cpp', cxxflags=['-DNDEBUG'])),
    dict(name='mapping', extracts={k: EX[k] for k in ('inv_handle', 'inv_index', 'top_h', 'top_f', 'top_i')}, code=TOP,
         enforce=['handle_by_index', 'first_index_by_handle', 'index_by_handle'], replace=['services_handle_by_index', 'services_first_index_by_handle', 'handle_by_index', 'first_index_by_handle'],
         replay=dict(src='replay/c04_replay.cpp', cxxflags=['-DNDEBUG'])),
]
META = dict(
    level='other',
    explanation="The run-time half of the handle assignment, attribute_handle.hpp, real bodies with the template constants symbolic, by induction over the declaration lists. One "
                "characteristic (characteristic_attribute_handle_by_index / _index_by_handle, with the real end_handle / end_index expressions): attribute rel has handle declaration / "
                "value / CCCD + ( rel - 2 ), these are >= the declaration handle, strictly increasing and below end_handle; index_by_handle returns the least attribute with handle >= h. "
                "List of characteristics (interate_characteristic_index_mappings, step and empty list) and list of services (service_index_mapping, "
                "interate_service_index_mappings, step and empty list): IF the rest of the list meets the list contract for the domain that starts at this element's end index / "
                "end handle, THEN the whole list meets it - 'handle by index' yields the data base's handle for every index of the list, 0 behind it, and every handle is >= the "
                "list's start handle (so non-zero); 'first index by handle' yields the least index whose handle is >= h, with everything in front smaller, everything behind not "
                "smaller and everything behind the result strictly larger than the result's handle (handles are unique and increase in declaration order), invalid iff all are "
                "smaller. handle_index_mapping< server > (handle_by_index, first_index_by_handle, index_by_handle): the list of all services from handle 1 / index 0; "
                "index_by_handle returns the attribute with exactly that handle and invalid iff no attribute has it - the contract the ATT handlers (C01, C02, C07, C08) assume. "
                "Fixed handles: the handle of an element's first attribute IS the requested one (service_start_handle<> / select_attribute_handles<> constant), >= the running "
                "start handle by the library's static_assert.",
    assumptions=["NOT decided (evaluated by the C++ compiler, no function body): that next_characteristic_mapping<> / next_char_mapping<> / next_service_mapping<> hand each element's "
                 "end_handle / end_index on as the next StartHandle / StartIndex, that last_characteristic_end_handle is the end handle of the last characteristic, that "
                 "select_attribute_handles<> / service_start_handle<> pick the requested fixed handles, and the static_asserts 'declaration < value < CCCD', 'handle >= StartHandle' "
                 "(taken as preconditions: a declaration violating them does not compile); the native replay compares the three functions on real servers for all 65536 handles",
                 "NOT decided here: that a characteristic declaration names its own value handle (the declaration access function is under contract in C06, where the value "
                 "handle is handle_by_index( index + 1 )) and that include declarations name the included service's real range and UUID (service_handles<>: type level)",
                 "the induction itself (base + step => every finite list) is the usual argument; each step is machine checked for every position, size and handle value (N_MAX 64 "
                 "bounds the ghost table only)"],
    trusted_base=[],
)
