"""C04 Attribute handles are consistent with the declared database (the run-time mapping functions of attribute_handle.hpp, by induction over the declaration lists)."""
import os, sys
sys.path.insert(0, os.path.dirname(__file__))
AH = 'bluetoe/attribute_handle.hpp'
CIM = r'struct characteristic_index_mapping\s*(?=\{)'
ICM0 = r'struct interate_characteristic_index_mappings< StartHandle, StartIndex, std::tuple<> >\s*(?=\{)'
ICM = r'struct interate_characteristic_index_mappings< StartHandle, StartIndex, std::tuple< ::bluetoe::characteristic< Options\.\.\. >, Chars\.\.\. > >'
SIM = r'struct service_index_mapping\s*:'
ISM0 = r'struct interate_service_index_mappings< StartHandle, StartIndex, std::tuple<> >\s*(?=\{)'
ISM = r'struct interate_service_index_mappings< StartHandle, StartIndex, std::tuple< ::bluetoe::service< Options\.\.\. >, Services\.\.\. > >'
HIM = r'struct handle_index_mapping< ::bluetoe::server< Options\.\.\. > >'
R = [(r'attribute_handles_t::(declaration|value|cccd)_handle', r'G_\1_handle', '*'), (r'characteristic_t::number_of_attributes', 'G_n', '*'), (r'service_t::number_of_attributes', 'G_n', '*'),
     (r'\bStartIndex\b', 'G_start_index', '*'), (r'\bStartHandle\b', 'G_start_handle', '*'),
     (r'next::end_index', 'CHAR_END_INDEX', '*'), (r'next::end_handle', 'CHAR_END_HANDLE', '*'),
     (r'next::characteristic_attribute_(handle_by_index|index_by_handle)\(', r'characteristic_attribute_\1(', '*'),
     (r'next_characteristic_mapping< G_start_handle, G_start_index, std::tuple< Chars\.\.\. >, Options\.\.\. >::attribute_(handle_by_index|index_by_handle)\(', r'tail_attribute_\1(', '*'),
     (r'next_char_mapping< G_start_handle, G_start_index, Options\.\.\. >::attribute_(handle_by_index|index_by_handle)\(', r'chars_attribute_\1(', '*'),
     (r'service_index_mapping< G_start_handle, G_start_index, Options\.\.\. >::end_index', 'SERVICE_END_INDEX', '*'), (r'service_index_mapping< G_start_handle, G_start_index, Options\.\.\. >::end_handle', 'G_service_end_handle', '*'),
     (r'service_index_mapping< G_start_handle, G_start_index, Options\.\.\. >::characteristic_(handle_by_index|first_index_by_handle)\(', r'service_characteristic_\1(', '*'),
     (r'next_service_mapping< G_start_handle, G_start_index, std::tuple< Services\.\.\. >, Options\.\.\. >::service_(handle_by_index|first_index_by_handle)\(', r'tail_service_\1(', '*'),
     (r'iterator::service_(handle_by_index|first_index_by_handle)\(', r'services_\1(', '*'),
     (r'\bservice_handle\b', 'G_service_handle', '*'), (r'(?<![\w:])number_of_service_attributes\b', 'G_nsa', '*'),
     (r'(?<![\w:])(declaration|value|cccd)_position\b', r'\1_position', '*')]
def F(scope, sig, **kw):
    d = dict(file=AH, scope=scope, locate=sig, rules=R); d.update(kw); return d
EX = dict(
    inv_handle=dict(kind='expr', file=AH, locate=r'static constexpr std::uint16_t invalid_attribute_handle =(?= 0;)'),
    inv_index=dict(kind='expr', file=AH, locate=r'static constexpr std::size_t\s+invalid_attribute_index\s*=(?=\s*~)'),
    char_end_handle=dict(kind='expr', file=AH, scope=CIM, locate=r'static constexpr std::uint16_t end_handle\s*=', rules=R),
    char_end_index=dict(kind='expr', file=AH, scope=CIM, locate=r'static constexpr std::uint16_t end_index\s*=', rules=R),
    pos_decl=dict(kind='expr', file=AH, scope=CIM, locate=r'static constexpr std::size_t declaration_position ='),
    pos_value=dict(kind='expr', file=AH, scope=CIM, locate=r'static constexpr std::size_t value_position\s*='),
    pos_cccd=dict(kind='expr', file=AH, scope=CIM, locate=r'static constexpr std::size_t cccd_position\s*='),
    char_h=F(CIM, r'static std::uint16_t characteristic_attribute_handle_by_index\( std::size_t index \)'),
    char_i=F(CIM, r'static std::size_t characteristic_attribute_index_by_handle\( std::uint16_t handle \)'),
    chars0_h=F(ICM0, r'static std::uint16_t attribute_handle_by_index\( std::size_t \)'), chars0_i=F(ICM0, r'static std::size_t attribute_index_by_handle\( std::uint16_t \)'),
    chars_h=F(ICM, r'static std::uint16_t attribute_handle_by_index\( std::size_t index \)'), chars_i=F(ICM, r'static std::size_t attribute_index_by_handle\( std::uint16_t handle \)'),
    svc_end_index=dict(kind='expr', file=AH, scope=SIM, locate=r'static constexpr std::uint16_t end_index\s*=', rules=R),
    svc_h=F(SIM, r'static std::uint16_t characteristic_handle_by_index\( std::size_t index \)'), svc_i=F(SIM, r'static std::size_t characteristic_first_index_by_handle\( std::uint16_t handle \)'),
    svcs0_h=F(ISM0, r'static std::uint16_t service_handle_by_index\( std::size_t \)'), svcs0_i=F(ISM0, r'static std::size_t service_first_index_by_handle\( std::uint16_t \)'),
    svcs_h=F(ISM, r'static std::uint16_t service_handle_by_index\( std::size_t index \)'), svcs_i=F(ISM, r'static std::size_t service_first_index_by_handle\( std::uint16_t handle \)'),
    top_h=F(HIM, r'static std::uint16_t handle_by_index\( std::size_t index \)'), top_f=F(HIM, r'static std::size_t first_index_by_handle\( std::uint16_t handle \)'),
    top_i=F(HIM, r'static std::size_t index_by_handle\( std::uint16_t handle \)'),
)

# the alias templates that thread ( start handle, start index ) through the lists: their two leading arguments as expressions
def _alias_args(text, anchor='='):
    i = text.index('<', text.index(anchor)); depth = 0; args = []; cur = ''
    for ch in text[i + 1:]:
        if ch == '<': depth += 1
        if ch == '>':
            if depth == 0: break
            depth -= 1
        if ch == ',' and depth == 0: args.append(cur.strip()); cur = ''
        else: cur += ch
    args.append(cur.strip())
    return args
def ARG(loc, which, rules):
    # keep only argument number `which` (0 or 1) of the alias' template argument list (split at top level commas)
    pick = (r'(?s)^using .*$', lambda m: _alias_args(m.group(0))[which], 1)
    return dict(kind='text', body='text', file=AH, locate=loc, no_members=True, pre=[pick], rules=rules)
ALIAS_R = [(r'service_start_handle< StartHandle, StartIndex, Options\.\.\. >::value', 'G_service_handle', '*'), (r'::bluetoe::service< Options\.\.\. >::number_of_service_attributes', 'G_nsa', '*'),
           (r'characteristic_index_mapping< StartHandle, StartIndex, Options\.\.\. >::end_handle', 'CHAR_END_HANDLE', '*'), (r'characteristic_index_mapping< StartHandle, StartIndex, Options\.\.\. >::end_index', 'CHAR_END_INDEX', '*'),
           (r'service_index_mapping< StartHandle, StartIndex, Options\.\.\. >::end_handle', 'G_service_end_handle', '*'), (r'service_index_mapping< StartHandle, StartIndex, Options\.\.\. >::end_index', 'SERVICE_END_INDEX', '*'),
           (r'\bStartIndex\b', 'G_start_index', '*'), (r'\bStartHandle\b', 'G_start_handle', '*')]
NCM = r'using next_char_mapping = interate_characteristic_index_mappings<[^;]*;'
NXC = r'using next_characteristic_mapping = interate_characteristic_index_mappings<[^;]*;'
NXS = r'using next_service_mapping = interate_service_index_mappings<[^;]*;'
EX.update(ncm_handle=ARG(NCM, 0, ALIAS_R), ncm_index=ARG(NCM, 1, ALIAS_R), nxc_handle=ARG(NXC, 0, ALIAS_R), nxc_index=ARG(NXC, 1, ALIAS_R), nxs_handle=ARG(NXS, 0, ALIAS_R), nxs_index=ARG(NXS, 1, ALIAS_R))
COMMON = r'''
#define invalid_attribute_handle ((uint16_t)({{inv_handle}}))
#define invalid_attribute_index ((size_t)({{inv_index}}))
/* ---- the data base as a whole (ghost): attribute i has handle UH(i), N attributes. UH is DEFINED segment by segment by the template constants (see the units); the ghost table G_H stands for
        the parts other segments define. G_i is a ghost index standing for 'any attribute'. */
#ifndef N_MAX
#define N_MAX 64
#endif
size_t G_N; uint16_t G_H[N_MAX]; size_t G_i;
size_t G_end;   /* the index behind the last attribute of the list under consideration (a service's characteristics end with the service; the list of services ends with the data base) */
#define SHAPE (G_N >= 1 && G_N <= N_MAX && G_i < N_MAX && G_end <= G_N)
/* induction hypotheses about the context of a list that starts at ( start index, start handle ): everything in front of it lies below its start handle */
#define FRONT(si, sh) (G_i < (size_t)(si) ==> UH(G_i) < (sh))
/* contract of 'handle by index' of a list: the data base's handle for every index of the list and behind, 0 behind the last attribute; every handle of the list is >= its start handle (so: non-zero) */
#define LIST_HBI(ret, index, sh) ((ret) == ((index) < G_end ? UH(index) : invalid_attribute_handle) && ((index) < G_end ==> (ret) >= (sh)))
/* contract of 'first index by handle' of a list starting at si: the least index whose handle is >= handle - stated with the ghost index: everything in front of the result is smaller, the result
   and everything behind it is not; invalid iff every handle is smaller */
#define LIST_FIBH(ret, handle, si) ((ret) == invalid_attribute_index ? (G_i < G_end ==> UH(G_i) < (handle)) \
    : ((ret) >= (size_t)(si) && (ret) < G_end && UH(ret) >= (handle) && (G_i < (ret) ==> UH(G_i) < (handle)) && ((G_i >= (ret) && G_i < G_end) ==> UH(G_i) >= (handle)) \
       && ((G_i > (ret) && G_i < G_end) ==> UH(G_i) > UH(ret))))   /* handles increase strictly: every attribute behind the result has a larger handle than the result */
'''
CHARS = COMMON + r'''
#define declaration_position ((size_t)({{pos_decl}}))
#define value_position ((size_t)({{pos_value}}))
#define cccd_position ((size_t)({{pos_cccd}}))
/* ---- one characteristic: template constants StartHandle, StartIndex, number_of_attributes and the three handles selected by select_attribute_handles<> (static_asserts of attribute_handles<>:
        declaration < value < CCCD; of characteristic_index_mapping: declaration >= StartHandle) */
uint16_t G_start_handle, G_start_index, G_declaration_handle, G_value_handle, G_cccd_handle; size_t G_n;
static inline uint16_t char_end_handle(void) { return (uint16_t)(
{{char_end_handle}}
); }
static inline uint16_t char_end_index(void) { return (uint16_t)(
{{char_end_index}}
); }
#define CHAR_END_HANDLE char_end_handle()
#define CHAR_END_INDEX  char_end_index()
#define CHAR_CONSTS_OK (G_n >= 2 && G_n <= N_MAX && G_start_handle >= 1 && G_declaration_handle >= G_start_handle && G_declaration_handle < G_value_handle && G_value_handle < G_cccd_handle && G_cccd_handle <= 0xff00 \
    && (size_t)G_start_index + G_n <= G_end)
/* the handle of the characteristic's attribute number rel: declaration, value, CCCD, then the descriptors counting on from the CCCD handle */
#define CHAR_H(rel) ((rel) == 0 ? G_declaration_handle : (rel) == 1 ? G_value_handle : (uint16_t)(G_cccd_handle + ((rel) - 2)))
/* the characteristic's attributes ARE the attributes StartIndex .. StartIndex + n - 1 of the data base */
#define UH(i) (((i) >= G_start_index && (i) < (size_t)G_start_index + G_n) ? CHAR_H((i) - G_start_index) : G_H[i])
uint16_t characteristic_attribute_handle_by_index(size_t index)
__CPROVER_requires(CHAR_CONSTS_OK && index >= G_start_index && index - G_start_index < G_n)
__CPROVER_ensures(__CPROVER_return_value == CHAR_H(index - G_start_index))
/* unique, non-zero, increasing within the characteristic, below the end handle the next one starts at */
__CPROVER_ensures(__CPROVER_return_value >= G_declaration_handle && __CPROVER_return_value < CHAR_END_HANDLE && (index - G_start_index + 1 < G_n ==> __CPROVER_return_value < CHAR_H(index - G_start_index + 1)))
__CPROVER_assigns()
{{char_h}}
size_t characteristic_attribute_index_by_handle(uint16_t handle)
__CPROVER_requires(CHAR_CONSTS_OK && handle < CHAR_END_HANDLE)
/* the least attribute of the characteristic whose handle is >= handle */
__CPROVER_ensures(__CPROVER_return_value >= G_start_index && __CPROVER_return_value - G_start_index < G_n && CHAR_H(__CPROVER_return_value - G_start_index) >= handle
    && (__CPROVER_return_value > G_start_index ==> CHAR_H(__CPROVER_return_value - G_start_index - 1) < handle))
__CPROVER_assigns()
{{char_i}}
/* ---- the list of characteristics of a service: induction step (one characteristic, then the rest) and base (empty list). Hypotheses about the rest: it starts at this characteristic's end index / end
        handle (next_characteristic_mapping<>), every attribute behind this characteristic has a handle >= that end handle, and the rest meets the list contract */
#define BACK (((G_i >= (size_t)G_start_index + G_n) && G_i < G_end) ==> G_H[G_i] >= CHAR_END_HANDLE)
uint16_t tail_attribute_handle_by_index(size_t index) __CPROVER_requires(index >= CHAR_END_INDEX && FRONT(CHAR_END_INDEX, CHAR_END_HANDLE)) __CPROVER_ensures(LIST_HBI(__CPROVER_return_value, index, CHAR_END_HANDLE)) __CPROVER_assigns();
size_t tail_attribute_index_by_handle(uint16_t handle) __CPROVER_requires(handle >= CHAR_END_HANDLE && FRONT(CHAR_END_INDEX, CHAR_END_HANDLE)) __CPROVER_ensures(LIST_FIBH(__CPROVER_return_value, handle, CHAR_END_INDEX)) __CPROVER_assigns();
uint16_t chars_attribute_handle_by_index(size_t index)
__CPROVER_requires(SHAPE && CHAR_CONSTS_OK && FRONT(G_start_index, G_start_handle) && BACK && index >= G_start_index)
__CPROVER_ensures(LIST_HBI(__CPROVER_return_value, index, G_start_handle))
__CPROVER_assigns()
{{chars_h}}
size_t chars_attribute_index_by_handle(uint16_t handle)
__CPROVER_requires(SHAPE && CHAR_CONSTS_OK && FRONT(G_start_index, G_start_handle) && BACK && (handle >= G_start_handle || G_start_index == 0))
__CPROVER_ensures(LIST_FIBH(__CPROVER_return_value, handle, G_start_index))
__CPROVER_assigns()
{{chars_i}}
/* the empty list: its domain is empty (G_end == its start index) */
uint16_t chars0_attribute_handle_by_index(size_t index) __CPROVER_requires(SHAPE && G_end == G_start_index && index >= G_start_index) __CPROVER_ensures(LIST_HBI(__CPROVER_return_value, index, G_start_handle)) __CPROVER_assigns()
{{chars0_h}}
size_t chars0_attribute_index_by_handle(uint16_t handle) __CPROVER_requires(SHAPE && G_end == G_start_index && FRONT(G_start_index, G_start_handle) && handle >= G_start_handle) __CPROVER_ensures(LIST_FIBH(__CPROVER_return_value, handle, G_start_index)) __CPROVER_assigns()
{{chars0_i}}
#define SETUP G_N = nondet_size(); G_end = nondet_size(); G_i = nondet_size(); G_start_handle = nondet_u16(); G_start_index = nondet_u16(); G_declaration_handle = nondet_u16(); G_value_handle = nondet_u16(); G_cccd_handle = nondet_u16(); G_n = nondet_size(); \
  __CPROVER_assume(G_N >= 1 && G_N <= N_MAX && G_start_index < N_MAX); BT_KNOWN_EXCLUDE()
/* next_characteristic_mapping<>: the rest of the list is instantiated with this characteristic's end handle / end index as its start (alias template arguments, compared as expressions) */
void next_characteristic_mapping_args(void) __CPROVER_requires(CHAR_CONSTS_OK) __CPROVER_ensures((uint16_t)(
{{nxc_handle}}
) == CHAR_END_HANDLE && (uint16_t)(
{{nxc_index}}
) == CHAR_END_INDEX) __CPROVER_assigns() { }
void h_next_characteristic_mapping_args(void) { SETUP; next_characteristic_mapping_args(); BT_CANARY(); }
void h_characteristic_attribute_handle_by_index(void) { SETUP; characteristic_attribute_handle_by_index(nondet_size()); BT_CANARY(); }
void h_characteristic_attribute_index_by_handle(void) { SETUP; characteristic_attribute_index_by_handle(nondet_u16()); BT_CANARY(); }
void h_chars_attribute_handle_by_index(void) { SETUP; chars_attribute_handle_by_index(nondet_size()); BT_CANARY(); }
void h_chars_attribute_index_by_handle(void) { SETUP; chars_attribute_index_by_handle(nondet_u16()); BT_CANARY(); }
void h_chars0_attribute_handle_by_index(void) { SETUP; chars0_attribute_handle_by_index(nondet_size()); BT_CANARY(); }
void h_chars0_attribute_index_by_handle(void) { SETUP; chars0_attribute_index_by_handle(nondet_u16()); BT_CANARY(); }
'''
CH_KEYS = ('inv_handle', 'inv_index', 'char_end_handle', 'char_end_index', 'pos_decl', 'pos_value', 'pos_cccd', 'char_h', 'char_i', 'chars0_h', 'chars0_i', 'chars_h', 'chars_i', 'nxc_handle', 'nxc_index')
UNITS = [
    dict(name='characteristics', extracts={k: EX[k] for k in CH_KEYS}, code=CHARS,
         enforce=['next_characteristic_mapping_args', 'characteristic_attribute_handle_by_index', 'characteristic_attribute_index_by_handle', 'chars_attribute_handle_by_index', 'chars_attribute_index_by_handle', 'chars0_attribute_handle_by_index', 'chars0_attribute_index_by_handle'],
         replace=['tail_attribute_handle_by_index', 'tail_attribute_index_by_handle', 'characteristic_attribute_handle_by_index', 'characteristic_attribute_index_by_handle'],
         replay=dict(src='replay/c04_replay.cpp', cxxflags=['-DNDEBUG'])),
]

SERVICES = COMMON + r'''
/* ---- one service: template constants StartHandle, StartIndex, number_of_attributes, the service's start handle (service_start_handle<>: an attribute_handle<> option or StartHandle; static_assert:
        >= StartHandle) and its end handle (last_characteristic_end_handle of its characteristic list) */
uint16_t G_start_handle, G_start_index, G_service_handle, G_service_end_handle; size_t G_n;
size_t G_nsa;   /* service< Options... >::number_of_service_attributes: the service declaration and one include declaration per include_service<> */
static inline uint16_t service_end_index(void) { return (uint16_t)(
{{svc_end_index}}
); }
#define SERVICE_END_INDEX service_end_index()
#define SVC_CONSTS_OK (G_n >= 1 && G_n <= N_MAX && G_nsa >= 1 && G_nsa <= G_n && G_start_handle >= 1 && G_service_handle >= G_start_handle && G_service_handle <= 0xff00 && G_service_handle + G_nsa <= G_service_end_handle && (size_t)G_start_index + G_n <= G_end)
/* the service declaration IS attribute StartIndex with the service's start handle, the include declarations follow with the next handles; the remaining attributes are defined by its characteristic list
   (next_char_mapping<>: starts at handle + number_of_service_attributes, index + number_of_service_attributes) */
#define UH(i) (((i) >= G_start_index && (i) < (size_t)G_start_index + G_nsa) ? (uint16_t)(G_service_handle + ((i) - G_start_index)) : G_H[i])
/* hypotheses about the characteristic list (proved for it in unit characteristics, with the list ending where the service ends): it meets the list contract; all its handles lie between the
   service handle and the service's end handle */
#define CHARS_IN (((G_i >= (size_t)G_start_index + G_nsa) && G_i < (size_t)G_start_index + G_n) ==> (G_H[G_i] >= G_service_handle + G_nsa && G_H[G_i] < G_service_end_handle))
#define IN_SERVICE(x) ((x) >= G_start_index && (x) < (size_t)G_start_index + G_n)
uint16_t chars_attribute_handle_by_index(size_t index) __CPROVER_requires(index >= (size_t)G_start_index + G_nsa)
__CPROVER_ensures(__CPROVER_return_value == (index < (size_t)G_start_index + G_n ? UH(index) : invalid_attribute_handle) && (index < (size_t)G_start_index + G_n ==> (__CPROVER_return_value >= G_service_handle + G_nsa && __CPROVER_return_value < G_service_end_handle))) __CPROVER_assigns();
#define FIRST_CHAR ((size_t)G_start_index + G_nsa)
size_t chars_attribute_index_by_handle(uint16_t handle) __CPROVER_requires(handle >= G_service_handle + G_nsa)
__CPROVER_ensures(__CPROVER_return_value == invalid_attribute_index ? ((G_i >= FIRST_CHAR && G_i < (size_t)G_start_index + G_n) ==> UH(G_i) < handle)
    : (__CPROVER_return_value >= FIRST_CHAR && __CPROVER_return_value < (size_t)G_start_index + G_n && UH(__CPROVER_return_value) >= handle && UH(__CPROVER_return_value) < G_service_end_handle
       && ((G_i >= FIRST_CHAR && G_i < __CPROVER_return_value) ==> UH(G_i) < handle) && ((G_i >= __CPROVER_return_value && G_i < (size_t)G_start_index + G_n) ==> UH(G_i) >= handle)
       && ((G_i > __CPROVER_return_value && G_i < (size_t)G_start_index + G_n) ==> UH(G_i) > UH(__CPROVER_return_value))))
__CPROVER_ensures(handle < G_service_end_handle ==> __CPROVER_return_value != invalid_attribute_index) __CPROVER_assigns();
uint16_t service_characteristic_handle_by_index(size_t index)
__CPROVER_requires(SHAPE && SVC_CONSTS_OK && CHARS_IN && IN_SERVICE(index))
__CPROVER_ensures(__CPROVER_return_value == UH(index) && __CPROVER_return_value >= G_service_handle && __CPROVER_return_value < G_service_end_handle)
__CPROVER_assigns()
{{svc_h}}
size_t service_characteristic_first_index_by_handle(uint16_t handle)
__CPROVER_requires(SHAPE && SVC_CONSTS_OK && CHARS_IN && handle < G_service_end_handle)
/* the least attribute of the service whose handle is >= handle */
__CPROVER_ensures(IN_SERVICE(__CPROVER_return_value) && UH(__CPROVER_return_value) >= handle && UH(__CPROVER_return_value) < G_service_end_handle && ((IN_SERVICE(G_i) && G_i < __CPROVER_return_value) ==> UH(G_i) < handle)
    && ((IN_SERVICE(G_i) && G_i >= __CPROVER_return_value) ==> UH(G_i) >= handle) && ((IN_SERVICE(G_i) && G_i > __CPROVER_return_value) ==> UH(G_i) > UH(__CPROVER_return_value)))
__CPROVER_assigns()
{{svc_i}}
/* ---- the list of services: induction step and base, as for the characteristics (next_service_mapping<>: the rest starts at this service's end index / end handle) */
#define BACK (((G_i >= (size_t)G_start_index + G_n) && G_i < G_end) ==> G_H[G_i] >= G_service_end_handle)
uint16_t tail_service_handle_by_index(size_t index) __CPROVER_requires(index >= SERVICE_END_INDEX && FRONT(SERVICE_END_INDEX, G_service_end_handle)) __CPROVER_ensures(LIST_HBI(__CPROVER_return_value, index, G_service_end_handle)) __CPROVER_assigns();
size_t tail_service_first_index_by_handle(uint16_t handle) __CPROVER_requires(handle >= G_service_end_handle && FRONT(SERVICE_END_INDEX, G_service_end_handle)) __CPROVER_ensures(LIST_FIBH(__CPROVER_return_value, handle, SERVICE_END_INDEX)) __CPROVER_assigns();
uint16_t services_handle_by_index(size_t index)
__CPROVER_requires(SHAPE && SVC_CONSTS_OK && CHARS_IN && FRONT(G_start_index, G_start_handle) && BACK && index >= G_start_index)
__CPROVER_ensures(LIST_HBI(__CPROVER_return_value, index, G_start_handle))
__CPROVER_assigns()
{{svcs_h}}
size_t services_first_index_by_handle(uint16_t handle)
__CPROVER_requires(SHAPE && SVC_CONSTS_OK && CHARS_IN && FRONT(G_start_index, G_start_handle) && BACK && (handle >= G_start_handle || G_start_index == 0))
__CPROVER_ensures(LIST_FIBH(__CPROVER_return_value, handle, G_start_index))
__CPROVER_assigns()
{{svcs_i}}
uint16_t services0_handle_by_index(size_t index) __CPROVER_requires(SHAPE && G_end == G_start_index && index >= G_start_index) __CPROVER_ensures(LIST_HBI(__CPROVER_return_value, index, G_start_handle)) __CPROVER_assigns()
{{svcs0_h}}
size_t services0_first_index_by_handle(uint16_t handle) __CPROVER_requires(SHAPE && G_end == G_start_index && FRONT(G_start_index, G_start_handle) && handle >= G_start_handle) __CPROVER_ensures(LIST_FIBH(__CPROVER_return_value, handle, G_start_index)) __CPROVER_assigns()
{{svcs0_i}}
#define SETUP G_N = nondet_size(); G_end = nondet_size(); G_i = nondet_size(); G_start_handle = nondet_u16(); G_start_index = nondet_u16(); G_service_handle = nondet_u16(); G_service_end_handle = nondet_u16(); G_n = nondet_size(); G_nsa = nondet_size(); \
  __CPROVER_assume(G_N >= 1 && G_N <= N_MAX && G_start_index < N_MAX); BT_KNOWN_EXCLUDE()
/* next_char_mapping<>: a service's characteristics start behind its service and include declarations; next_service_mapping<>: the rest of the services starts at this service's end handle / end index */
void next_char_mapping_args(void) __CPROVER_requires(SVC_CONSTS_OK) __CPROVER_ensures((uint16_t)(
{{ncm_handle}}
) == (uint16_t)(G_service_handle + G_nsa) && (size_t)(
{{ncm_index}}
) == FIRST_CHAR) __CPROVER_assigns() { }
void h_next_char_mapping_args(void) { SETUP; next_char_mapping_args(); BT_CANARY(); }
void next_service_mapping_args(void) __CPROVER_requires(SVC_CONSTS_OK) __CPROVER_ensures((uint16_t)(
{{nxs_handle}}
) == G_service_end_handle && (uint16_t)(
{{nxs_index}}
) == SERVICE_END_INDEX) __CPROVER_assigns() { }
void h_next_service_mapping_args(void) { SETUP; next_service_mapping_args(); BT_CANARY(); }
void h_service_characteristic_handle_by_index(void) { SETUP; service_characteristic_handle_by_index(nondet_size()); BT_CANARY(); }
void h_service_characteristic_first_index_by_handle(void) { SETUP; service_characteristic_first_index_by_handle(nondet_u16()); BT_CANARY(); }
void h_services_handle_by_index(void) { SETUP; services_handle_by_index(nondet_size()); BT_CANARY(); }
void h_services_first_index_by_handle(void) { SETUP; services_first_index_by_handle(nondet_u16()); BT_CANARY(); }
void h_services0_handle_by_index(void) { SETUP; services0_handle_by_index(nondet_size()); BT_CANARY(); }
void h_services0_first_index_by_handle(void) { SETUP; services0_first_index_by_handle(nondet_u16()); BT_CANARY(); }
'''
TOP = COMMON + r'''
/* ---- handle_index_mapping< server >: the list of all services, starting at handle 1, index 0, ending with the data base */
#define UH(i) G_H[i]
uint16_t services_handle_by_index(size_t index) __CPROVER_requires(SHAPE) __CPROVER_ensures(LIST_HBI(__CPROVER_return_value, index, 1)) __CPROVER_assigns();
size_t services_first_index_by_handle(uint16_t handle) __CPROVER_requires(SHAPE) __CPROVER_ensures(LIST_FIBH(__CPROVER_return_value, handle, 0)) __CPROVER_assigns();
#define TOP_PRE (SHAPE && G_end == G_N)
/* every attribute has a non-zero handle, and it is the handle under which it is found */
uint16_t handle_by_index(size_t index) __CPROVER_requires(TOP_PRE) __CPROVER_ensures(LIST_HBI(__CPROVER_return_value, index, 1) && (index < G_N ==> __CPROVER_return_value != 0)) __CPROVER_assigns()
{{top_h}}
size_t first_index_by_handle(uint16_t handle) __CPROVER_requires(TOP_PRE) __CPROVER_ensures(LIST_FIBH(__CPROVER_return_value, handle, 0)) __CPROVER_assigns()
{{top_f}}
/* index_by_handle: the attribute with exactly that handle, or invalid if no attribute has it */
size_t index_by_handle(uint16_t handle) __CPROVER_requires(TOP_PRE)
__CPROVER_ensures(__CPROVER_return_value == invalid_attribute_index ? (G_i < G_N ==> UH(G_i) != handle) : (__CPROVER_return_value < G_N && UH(__CPROVER_return_value) == handle))
__CPROVER_assigns()
{{top_i}}
#define SETUP G_N = nondet_size(); G_end = nondet_size(); G_i = nondet_size(); __CPROVER_assume(G_N >= 1 && G_N <= N_MAX); BT_KNOWN_EXCLUDE()
void h_handle_by_index(void) { SETUP; handle_by_index(nondet_size()); BT_CANARY(); }
void h_first_index_by_handle(void) { SETUP; first_index_by_handle(nondet_u16()); BT_CANARY(); }
void h_index_by_handle(void) { SETUP; index_by_handle(nondet_u16()); BT_CANARY(); }
'''
UNITS += [
    dict(name='services', extracts={k: EX[k] for k in ('inv_handle', 'inv_index', 'svc_end_index', 'svc_h', 'svc_i', 'svcs0_h', 'svcs0_i', 'svcs_h', 'svcs_i', 'ncm_handle', 'ncm_index', 'nxs_handle', 'nxs_index')}, code=SERVICES,
         enforce=['next_char_mapping_args', 'next_service_mapping_args', 'service_characteristic_handle_by_index', 'service_characteristic_first_index_by_handle', 'services_handle_by_index', 'services_first_index_by_handle', 'services0_handle_by_index', 'services0_first_index_by_handle'],
         replace=['chars_attribute_handle_by_index', 'chars_attribute_index_by_handle', 'tail_service_handle_by_index', 'tail_service_first_index_by_handle', 'service_characteristic_handle_by_index', 'service_characteristic_first_index_by_handle'],
         replay=dict(src='replay/c04_replay.cpp', cxxflags=['-DNDEBUG'])),
    dict(name='mapping', extracts={k: EX[k] for k in ('inv_handle', 'inv_index', 'top_h', 'top_f', 'top_i')}, code=TOP,
         enforce=['handle_by_index', 'first_index_by_handle', 'index_by_handle'], replace=['services_handle_by_index', 'services_first_index_by_handle', 'handle_by_index', 'first_index_by_handle'],
         replay=dict(src='replay/c04_replay.cpp', cxxflags=['-DNDEBUG'])),
]

# ---- include declarations (service.hpp): service_handles<> (type level, its expressions as lemmas) and the two access functions of the include attribute
SV = 'bluetoe/service.hpp'
SHM = r'struct service_handles< std::tuple< Service, Ss\.\.\. >, Service, Handle >'
SHS = r'struct service_handles< std::tuple< S, Ss\.\.\. >, Service, Handle >'
INC16 = r'struct generate_attribute< include_service< service_uuid16< UUID > >, CCCDIndices, ClientCharacteristicIndex, ServiceUUID, Server, Options\.\.\. >\s*(?=\{)'
INC128 = r'struct generate_attribute< include_service< service_uuid< A, B, C, D, E > >, CCCDIndices, ClientCharacteristicIndex, ServiceUUID, Server, Options\.\.\. >\s*(?=\{)'
SH_R = [(r'\bHandle\b', 'G_handle', '*'), (r'\bService::number_of_attributes\b', 'G_inc_n', '*'), (r'\bS::number_of_attributes\b', 'G_n', '*'), (r'\bnext::service_attribute_handle\b', 'G_next_first', '*'),
        (r'\bnext::end_service_handle\b', 'G_next_end', '*')]
ACC_R = [(r'typedef interate_service_index_mappings< 1u, 0u, service_list > mapping;', '', '*'), (r'\bmapping::service_handle_by_index\(', 'services_handle_by_index(', '*'),
         (r'\bhandles::service_attribute_handle\b', 'SH_FIRST', '+'), (r'\bhandles::end_service_handle\b', 'SH_END', '+'), (r'\bUUID\b', 'G_uuid', '*'), (r'\bargs\b', 'access_args', '*')]
def SHX(scope, name): return dict(kind='expr', file=SV, scope=scope, locate=r'static constexpr std::uint16_t %s\s*=' % name, rules=SH_R, no_members=True)
ACC = r'static details::attribute_access_result access\( attribute_access_arguments& args, std::size_t \)'
EX.update(sh_first=SHX(SHM, 'service_attribute_handle'), sh_end=SHX(SHM, 'end_service_handle'), sh_step_first=SHX(SHS, 'service_attribute_handle'), sh_step_end=SHX(SHS, 'end_service_handle'),
          sh_default=dict(kind='text', body='text', file=SV, locate=r'(?<=typename Service, std::uint16_t Handle = )\w+(?= >\s*struct service_handles;)', no_members=True),
          sh_next=dict(kind='text', body='text', file=SV, scope=SHS, locate=r'typedef service_handles<[^;]*> next;', no_members=True,
                       pre=[(r'(?s)^typedef .*$', lambda m: _alias_args(m.group(0), 'typedef')[2], 1)], rules=SH_R),
          inc16=dict(file=SV, scope=INC16, locate=ACC, rules=ACC_R, no_members=True), inc128=dict(file=SV, scope=INC128, locate=ACC, rules=ACC_R[:-2] + ACC_R[-1:], no_members=True))
INCLUDE = COMMON + r"""
/* ---- include declarations: the included service's attributes are the attributes G_inc_first .. G_inc_first + G_inc_n - 1 of the data base */
#define UH(i) G_H[i]
size_t G_inc_first, G_inc_n, G_n, G_start_index; uint16_t G_handle, G_next_first, G_next_end, G_uuid;
#define INC_OK (SHAPE && G_end == G_N && G_inc_n >= 1 && G_inc_n <= N_MAX && G_inc_first < N_MAX && G_inc_first + G_inc_n <= G_N)
/* service_handles< list, Service, Handle >: the invariant of the recursion is Handle == ( index of the first attribute of the list ) + 1. The list that starts with the wanted service: */
static inline uint16_t sh_first(void) { return (uint16_t)(
{{sh_first}}
); }
static inline uint16_t sh_end(void) { return (uint16_t)(
{{sh_end}}
); }
#define SH_FIRST sh_first()
#define SH_END sh_end()
void service_handles_found(void) __CPROVER_requires(INC_OK && G_handle == G_inc_first + 1)
__CPROVER_ensures((size_t)SH_FIRST - 1 == G_inc_first && (size_t)SH_END - 1 == G_inc_first + G_inc_n - 1) __CPROVER_assigns() { }
/* a list that starts with another service S (G_n attributes from index G_start_index on): the rest is searched with Handle + S::number_of_attributes, its results are handed through */
void service_handles_step(void) __CPROVER_requires(SHAPE && G_n >= 1 && G_n <= N_MAX && G_start_index < N_MAX && G_start_index + G_n <= G_N && G_handle == G_start_index + 1)
__CPROVER_ensures((uint16_t)(
{{sh_next}}
) == G_start_index + G_n + 1 && (uint16_t)(
{{sh_step_first}}
) == G_next_first && (uint16_t)(
{{sh_step_end}}
) == G_next_end) __CPROVER_assigns() { }
/* the recursion starts with the whole list: index 0 */
void service_handles_start(void) __CPROVER_ensures((uint16_t)(
{{sh_default}}
) == 0 + 1) __CPROVER_assigns() { }
/* the access functions of the include attribute: the value handed to attribute_value_read_only_access() */
struct { size_t calls, size; uint8_t b[6]; } G_v;
int attribute_value_read_only_access(void *a, const uint8_t *p, size_t n)
{ G_v.calls++; G_v.size = n; if (n > 0) G_v.b[0] = p[0]; if (n > 1) G_v.b[1] = p[1]; if (n > 2) G_v.b[2] = p[2]; if (n > 3) G_v.b[3] = p[3]; if (n > 4) G_v.b[4] = p[4]; if (n > 5) G_v.b[5] = p[5]; return nondet_int(); }
/* handle by index of the list of all services (proved in units services / mapping) */
uint16_t services_handle_by_index(size_t index) __CPROVER_requires(SHAPE) __CPROVER_ensures(LIST_HBI(__CPROVER_return_value, index, 1)) __CPROVER_assigns();
#define LE16(k, x) (G_v.b[k] == ((x) & 0xff) && G_v.b[(k) + 1] == ((x) >> 8))
#define NAMES_RANGE (G_v.calls == 1 && LE16(0, UH(G_inc_first)) && LE16(2, UH(G_inc_first + G_inc_n - 1)))
void *access_args;
int include16_access(void) __CPROVER_requires(INC_OK && G_handle == G_inc_first + 1 && G_v.calls == 0)
/* the include declaration names the real first and last handle of the included service, and the 16 bit UUID */
__CPROVER_ensures(NAMES_RANGE && G_v.size == 6 && LE16(4, G_uuid))
__CPROVER_assigns(G_v)
{{inc16}}
int include128_access(void) __CPROVER_requires(INC_OK && G_handle == G_inc_first + 1 && G_v.calls == 0)
__CPROVER_ensures(NAMES_RANGE && G_v.size == 4)
__CPROVER_assigns(G_v)
{{inc128}}
#define SETUP G_N = nondet_size(); G_end = nondet_size(); G_i = nondet_size(); G_inc_first = nondet_size(); G_inc_n = nondet_size(); G_n = nondet_size(); G_start_index = nondet_size(); G_handle = nondet_u16(); \
  G_next_first = nondet_u16(); G_next_end = nondet_u16(); G_uuid = nondet_u16(); G_v.calls = 0; __CPROVER_assume(G_N >= 1 && G_N <= N_MAX); BT_KNOWN_EXCLUDE()
void h_service_handles_found(void) { SETUP; service_handles_found(); BT_CANARY(); }
void h_service_handles_step(void) { SETUP; service_handles_step(); BT_CANARY(); }
void h_service_handles_start(void) { SETUP; service_handles_start(); BT_CANARY(); }
void h_include16_access(void) { SETUP; include16_access(); BT_CANARY(); }
void h_include128_access(void) { SETUP; include128_access(); BT_CANARY(); }
"""
UNITS += [
    dict(name='include', extracts={k: EX[k] for k in ('inv_handle', 'inv_index', 'sh_first', 'sh_end', 'sh_step_first', 'sh_step_end', 'sh_default', 'sh_next', 'inc16', 'inc128')}, code=INCLUDE,
         enforce=['service_handles_found', 'service_handles_step', 'service_handles_start', 'include16_access', 'include128_access'], replace=['services_handle_by_index'],
         replay=dict(src='replay/c04_replay.cpp', cxxflags=['-DNDEBUG'])),
]
META = dict(
    level='other',
    explanation="The run-time half of the handle assignment, attribute_handle.hpp, real bodies with the template constants symbolic, by induction over the declaration lists. One "
                "characteristic (characteristic_attribute_handle_by_index / _index_by_handle, with the real end_handle / end_index expressions): attribute rel has handle declaration / "
                "value / CCCD + ( rel - 2 ), these are >= the declaration handle, strictly increasing and below end_handle; index_by_handle returns the least attribute with handle >= h. "
                "List of characteristics (interate_characteristic_index_mappings, step and empty list) and list of services (service_index_mapping, "
                "interate_service_index_mappings, step and empty list): IF the rest of the list meets the list contract for the domain that starts at this element's end index / "
                "end handle, THEN the whole list meets it - 'handle by index' yields the data base's handle for every index of the list, 0 behind it, and every handle is >= the "
                "list's start handle (so non-zero); 'first index by handle' yields the least index whose handle is >= h, with everything in front smaller, everything behind not "
                "smaller and everything behind the result strictly larger than the result's handle (handles are unique and increase in declaration order), invalid iff all are "
                "smaller. handle_index_mapping< server > (handle_by_index, first_index_by_handle, index_by_handle): the list of all services from handle 1 / index 0; "
                "index_by_handle returns the attribute with exactly that handle and invalid iff no attribute has it - the contract the ATT handlers (C01, C02, C07, C08) assume. "
                "Fixed handles: the handle of an element's first attribute IS the requested one (service_start_handle<> / select_attribute_handles<> constant), >= the running "
                "start handle by the library's static_assert. A service's own attributes are its declaration and one include declaration per include_service<> "
                "(number_of_service_attributes), its characteristics start behind them. Include declarations (service.hpp, both access functions): the value handed out is the "
                "handle of the included service's first and of its last attribute (taken from the list contract of 'handle by index'), little endian, followed by the 16 bit "
                "UUID; service_handles<> yields ( index of the first / last attribute ) + 1 (recursion invariant Handle == start index + 1, start 1).",
    assumptions=["the alias templates that thread ( start handle, start index ) through the lists (next_characteristic_mapping<>, next_char_mapping<>, next_service_mapping<>) and the "
                 "recursion of service_handles<> are evaluated by the C++ compiler; their argument expressions are extracted as text and compared with the induction hypotheses in the "
                 "lemma functions *_args / service_handles_*; NOT decided: that last_characteristic_end_handle is the end handle of the last characteristic, that "
                 "select_attribute_handles<> / service_start_handle<> pick the requested fixed handles, that find_service_by_uuid<> picks the service with the included UUID, and the "
                 "static_asserts 'declaration < value < CCCD', 'handle >= StartHandle' (taken as preconditions: a declaration violating them does not compile); the native replay "
                 "compares the three functions on real servers for all 65536 handles and reads the include declarations",
                 "NOT decided here: that a characteristic declaration names its own value handle (the declaration access function is under contract in C06, where the value "
                 "handle is handle_by_index( index + 1 ))",
                 "attribute_value_read_only_access() is replaced by a stand-in that records the value it is handed (its real body is under contract in C06)",
                 "the induction itself (base + step => every finite list) is the usual argument; each step is machine checked for every position, size and handle value (N_MAX 64 "
                 "bounds the ghost table only)"],
    trusted_base=[],
)
