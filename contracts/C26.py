"""C26 White list behaves as a bounded set."""
WL = 'bluetoe/link_layer/include/bluetoe/white_list.hpp'
AH = 'bluetoe/utility/include/bluetoe/address.hpp'
AC = 'bluetoe/utility/address.cpp'
SW = r'class white_list_implementation< Size, true, Radio, LinkLayer >'
HW = r'class white_list_implementation< Size, false, Radio, LinkLayer >'

ADDR_EX = dict(
    addr_size=dict(kind='expr', file=AH, scope=r'class address\b', locate=r'static constexpr std::size_t address_size_in_bytes\s*='),
    addr_fields=dict(kind='fields', file=AH, scope=r'class address\b', names=['value_']),
    dev_fields=dict(kind='fields', file=AH, scope=r'class device_address : public address', names=['is_random_']),
    addr_eq=dict(file=AC, locate=r'bool address::operator==\( const address& rhs \) const',
                 rules=[(r'std::equal\( std::begin\( self->value_ \), std::end\( self->value_ \), std::begin\( rhs\.value_ \) \)',
                         'bt_equal_bytes( self->value_, address_size_in_bytes, rhs->value_ )', 1)]),
    dev_eq=dict(file=AC, locate=r'bool device_address::operator==\( const device_address& rhs \) const',
                rules=[(r'\(\(const address&\)\( \*this \)\) == rhs', 'address_eq( self, rhs )', 1), (r'rhs\.is_random_', 'rhs->is_random_', 1)]),
)
ADDR_CODE = r'''
#define address_size_in_bytes ((size_t)({{addr_size}}))
/* class device_address : public address  ->  base members first */
struct device_address { {{addr_fields}} {{dev_fields}} };
/* std::equal over two byte ranges of constant length (stand-in, constant bound, fully unwound) */
bool bt_equal_bytes(const uint8_t* a, size_t n, const uint8_t* b)
{
    bool eq = true;
    for (size_t i = 0; i != n; ++i)
    __CPROVER_assigns(i, eq)
    __CPROVER_loop_invariant(i <= n && n == 6 && eq == ((i < 1 || a[0] == b[0]) && (i < 2 || a[1] == b[1]) && (i < 3 || a[2] == b[2]) && (i < 4 || a[3] == b[3]) && (i < 5 || a[4] == b[4]) && (i < 6 || a[5] == b[5])))
    __CPROVER_decreases(n - i)
    { if (a[i] != b[i]) eq = false; }
    return eq;
}
bool address_eq(const struct device_address* self, const struct device_address* rhs) {{addr_eq}}
bool device_address_eq(const struct device_address* self, const struct device_address* rhs) {{dev_eq}}
/* specification-level equality (what 'the same device address' means) */
#define SAME(a, b) ((a).value_[0] == (b).value_[0] && (a).value_[1] == (b).value_[1] && (a).value_[2] == (b).value_[2] && (a).value_[3] == (b).value_[3] \
                 && (a).value_[4] == (b).value_[4] && (a).value_[5] == (b).value_[5] && (a).is_random_ == (b).is_random_)
'''

SW_EX = dict(ADDR_EX,
    fields=dict(kind='fields', file=WL, scope=SW, names=['active_', 'free_size_', 'addresses_', 'connection_filter_', 'scan_filter_'],
                rules=[(r'device_address\s+addresses_\[ Size \]', 'struct device_address addresses_[WL_MAX]', '*')]),
)
SW_HEAD = ADDR_CODE + r'''
#ifndef WL_MAX
#define WL_MAX 8
#endif
size_t G_Size;
#define Size G_Size
struct wl { {{fields}} };
size_t W_Size, W_free, W_p, W_q; struct device_address W_addr, W_at_p, W_at_q; bool W_cf, W_sf, W_b;
size_t G_p, G_q, G_pos;           /* ghost positions: stand for 'every position' / 'every pair of positions' */
size_t G_found_at;         /* ghost output of the search: where the address was found */
struct device_address G_old_p;
#define N(self)        (Size - (self)->free_size_)
#define SIZE_OK        (G_Size >= 1 && G_Size <= WL_MAX && G_Size == W_Size)
/* representation invariant: free_size_ <= Size and the stored addresses are pairwise distinct */
#define WL_SHAPE(self) (__CPROVER_is_fresh(self, sizeof(struct wl)) && (self)->free_size_ <= Size && (self)->free_size_ == W_free)
#define DISTINCT(self) ((G_p < G_q && G_q < N(self)) ==> !SAME((self)->addresses_[G_p], (self)->addresses_[G_q]))
/* the invariant itself (all pairs); WL_MAX is a constant, so the quantifier has constant bounds */
#define DISTINCT_ALL(self) __CPROVER_forall { size_t qi; (qi < WL_MAX) ==> __CPROVER_forall { size_t qj; (qj < WL_MAX) ==> ((qi < qj && qj < N(self)) ==> !SAME((self)->addresses_[qi], (self)->addresses_[qj])) } }
#define GHOST_OK(self) (G_p < WL_MAX && G_q < WL_MAX && G_p == W_p && G_q == W_q && SAME((self)->addresses_[G_p], W_at_p) && SAME((self)->addresses_[G_q], W_at_q))
#define ADDR_OK(addr)  (__CPROVER_is_fresh(addr, sizeof(struct device_address)) && SAME(*(addr), W_addr))

/* std::find over addresses_[0..n) (stand-in for <algorithm>; its own body is enforced in unit prelude_find) */
size_t wl_find(const struct device_address* first, size_t n, const struct device_address* addr)
__CPROVER_requires(n <= WL_MAX && __CPROVER_r_ok(first, n * sizeof(struct device_address)) && __CPROVER_r_ok(addr, sizeof(struct device_address)))
__CPROVER_ensures(__CPROVER_return_value <= n)
__CPROVER_ensures(__CPROVER_return_value < n ==> SAME(first[__CPROVER_return_value], *addr))
__CPROVER_ensures((G_p < __CPROVER_return_value && G_p < n) ==> !SAME(first[G_p], *addr))
__CPROVER_ensures((G_q < __CPROVER_return_value && G_q < n) ==> !SAME(first[G_q], *addr))
__CPROVER_ensures(G_found_at == __CPROVER_return_value)
__CPROVER_assigns(G_found_at)
'''
WL_FIND_BODY = r'''
{
    size_t i = 0;
    for (; i != n; ++i)
    __CPROVER_assigns(i)
    __CPROVER_loop_invariant(i <= n && ((G_p < i) ==> !SAME(first[G_p], *addr)) && ((G_q < i) ==> !SAME(first[G_q], *addr)))
    __CPROVER_decreases(n - i)
    { if (device_address_eq(&first[i], addr)) break; }
    G_found_at = i;
    return i;
}
'''
ITER_RULES = [
    # iterators into the member array are represented by their index
    (r'\*pos = \*\( end - 1 \);', 'self->addresses_[ pos ] = self->addresses_[ end - 1 ];', '*'),
    (r'std::begin\( self->addresses_ \) \+ \( Size - self->free_size_ \)', '( Size - self->free_size_ )', 1),
    (r'std::find\( std::begin\( self->addresses_ \), end, addr \)', 'wl_find( self->addresses_, end, addr )', 1),
]
IS_IN_DECL = r'''
bool is_in_white_list(const struct wl* self, const struct device_address* addr)
__CPROVER_requires(SIZE_OK && __CPROVER_r_ok(self, sizeof(struct wl)) && self->free_size_ <= Size && __CPROVER_r_ok(addr, sizeof(struct device_address)))
__CPROVER_requires(G_p < WL_MAX && G_q < WL_MAX)
__CPROVER_ensures(__CPROVER_return_value ==> (G_found_at < N(self) && SAME(self->addresses_[G_found_at], *addr)))
__CPROVER_ensures(!__CPROVER_return_value ==> ((G_p < N(self) ==> !SAME(self->addresses_[G_p], *addr)) && (G_q < N(self) ==> !SAME(self->addresses_[G_q], *addr))))
__CPROVER_assigns(G_found_at)
'''
SETUP = r'''
#define SETUP struct wl* w; struct device_address* a; W_Size = nondet_size(); G_Size = W_Size; W_free = nondet_size(); W_p = nondet_size(); W_q = nondet_size(); \
  G_p = W_p; G_q = W_q; G_pos = nondet_size(); W_cf = nondet_bool(); W_sf = nondet_bool(); W_b = nondet_bool(); \
  for (int k = 0; k < 6; ++k) { W_addr.value_[k] = nondet_u8(); W_at_p.value_[k] = nondet_u8(); W_at_q.value_[k] = nondet_u8(); } \
  W_addr.is_random_ = nondet_bool(); W_at_p.is_random_ = nondet_bool(); W_at_q.is_random_ = nondet_bool(); BT_KNOWN_EXCLUDE()
'''


FILTER_GETSET = r"""
void set_connection_request_filter(struct wl* self, bool b)
__CPROVER_requires(WL_SHAPE(self) && b == W_b)
__CPROVER_ensures(self->connection_filter_ == b && self->scan_filter_ == __CPROVER_old(self->scan_filter_) && self->free_size_ == W_free)
__CPROVER_assigns(self->connection_filter_)
{{set_cf}}
bool get_connection_request_filter(const struct wl* self)
__CPROVER_requires(WL_SHAPE(self) && self->connection_filter_ == W_cf)
__CPROVER_ensures(__CPROVER_return_value == W_cf)
__CPROVER_assigns()
{{get_cf}}
void set_scan_request_filter(struct wl* self, bool b)
__CPROVER_requires(WL_SHAPE(self) && b == W_b)
__CPROVER_ensures(self->scan_filter_ == b && self->connection_filter_ == __CPROVER_old(self->connection_filter_) && self->free_size_ == W_free)
__CPROVER_assigns(self->scan_filter_)
{{set_sf}}
bool get_scan_request_filter(const struct wl* self)
__CPROVER_requires(WL_SHAPE(self) && self->scan_filter_ == W_sf)
__CPROVER_ensures(__CPROVER_return_value == W_sf)
__CPROVER_assigns()
{{get_sf}}
"""

UNITS = [
    dict(name='prelude_find', extracts=dict(SW_EX),
         code=SW_HEAD + WL_FIND_BODY + SETUP + r"""
void h_wl_find(void) { SETUP; struct device_address arr[WL_MAX]; size_t n = nondet_size(); __CPROVER_assume(n <= WL_MAX); wl_find(arr, n, &W_addr); BT_CANARY(); }
""", enforce=['wl_find'], extra_loops=1),

    dict(name='is_in_white_list',
         extracts=dict(SW_EX, is_in=dict(file=WL, scope=SW, locate=r'bool is_in_white_list\( const device_address& addr \) const', rules=ITER_RULES)),
         code=SW_HEAD + ';' + IS_IN_DECL + '{{is_in}}' + SETUP + r"""
void h_is_in_white_list(void) { SETUP; __CPROVER_assume(SIZE_OK); struct wl wv; struct device_address av; wv.free_size_ = W_free; __CPROVER_assume(W_free <= Size);
  is_in_white_list(&wv, &av); BT_CANARY(); }
""", enforce=['is_in_white_list'], replace=['wl_find']),

    dict(name='add_remove_clear',
         extracts=dict(SW_EX,
                       add=dict(file=WL, scope=SW, locate=r'bool add_to_white_list\( const device_address& addr \)',
                                rules=[(r'is_in_white_list\( addr \)', 'is_in_white_list( self, addr )', 1), (r'= addr;', '= *addr;', 1)]),
                       remove=dict(file=WL, scope=SW, locate=r'bool remove_from_white_list\( const device_address& addr \)', rules=ITER_RULES),
                       clear=dict(file=WL, scope=SW, locate=r'void clear_white_list\(\)'),
                       free=dict(file=WL, scope=SW, locate=r'std::size_t white_list_free_size\(\) const'),
                       ctor=dict(file=WL, scope=SW, locate=r'white_list_implementation\(\)', init_list=True)),
         code=SW_HEAD + ';' + IS_IN_DECL + ';' + SETUP + r"""
/* add: idempotent, fails only when full; afterwards the address is in the set, every other member stays, the set stays duplicate free */
bool add_to_white_list(struct wl* self, const struct device_address* addr)
__CPROVER_requires(SIZE_OK && WL_SHAPE(self) && ADDR_OK(addr) && GHOST_OK(self))
__CPROVER_requires(DISTINCT_ALL(self))
__CPROVER_requires(G_old_p.is_random_ == self->addresses_[G_p].is_random_ && SAME(G_old_p, self->addresses_[G_p]))
__CPROVER_ensures(!__CPROVER_return_value ==> (W_free == 0 && self->free_size_ == 0 && (G_p < Size ==> !SAME(G_old_p, W_addr))))
__CPROVER_ensures(__CPROVER_return_value ==> (self->free_size_ == W_free || self->free_size_ + 1 == W_free))
/* already a member: nothing changes */
__CPROVER_ensures((__CPROVER_return_value && self->free_size_ == W_free) ==> (G_found_at < Size - W_free && SAME(self->addresses_[G_found_at], W_addr)))
/* new member: stored at the end; it was not a member before */
__CPROVER_ensures((__CPROVER_return_value && self->free_size_ + 1 == W_free) ==>
        (SAME(self->addresses_[Size - W_free], W_addr) && (G_p < Size - W_free ==> !SAME(G_old_p, W_addr))))
/* every old member is still there, the set stays duplicate free, the filters are untouched */
__CPROVER_ensures(G_p < Size - W_free ==> SAME(self->addresses_[G_p], G_old_p))
__CPROVER_ensures(DISTINCT(self))
__CPROVER_ensures(self->connection_filter_ == __CPROVER_old(self->connection_filter_) && self->scan_filter_ == __CPROVER_old(self->scan_filter_))
__CPROVER_assigns(self->free_size_, __CPROVER_object_upto(self->addresses_, sizeof(struct device_address) * WL_MAX), G_found_at)
{{add}}
/* remove: deletes exactly the given address.  Representation of 'every other member stays': the member at position
   G_p is afterwards found at G_p, or - if it was the last one - at the position the removed address had. */
bool remove_from_white_list(struct wl* self, const struct device_address* addr)
__CPROVER_requires(SIZE_OK && WL_SHAPE(self) && ADDR_OK(addr) && GHOST_OK(self))
__CPROVER_requires(DISTINCT_ALL(self))
__CPROVER_requires(G_old_p.is_random_ == self->addresses_[G_p].is_random_ && SAME(G_old_p, self->addresses_[G_p]))
__CPROVER_ensures(!__CPROVER_return_value ==> (self->free_size_ == W_free && (G_p < Size - W_free ==> (!SAME(G_old_p, W_addr) && SAME(self->addresses_[G_p], G_old_p)))))
__CPROVER_ensures(__CPROVER_return_value ==> (W_free < Size && self->free_size_ == W_free + 1))
/* the removed address is no longer a member */
__CPROVER_ensures((__CPROVER_return_value && G_p < Size - self->free_size_) ==> !SAME(self->addresses_[G_p], W_addr))
/* every other member still is */
__CPROVER_ensures((__CPROVER_return_value && G_p < Size - W_free && !SAME(G_old_p, W_addr)) ==>
        (G_p < Size - self->free_size_ ? SAME(self->addresses_[G_p], G_old_p)
                                       : (G_found_at < Size - self->free_size_ && SAME(self->addresses_[G_found_at], G_old_p))))
__CPROVER_ensures(DISTINCT(self))
__CPROVER_assigns(self->free_size_, __CPROVER_object_upto(self->addresses_, sizeof(struct device_address) * WL_MAX), G_found_at)
{{remove}}
void clear_white_list(struct wl* self)
__CPROVER_requires(SIZE_OK && WL_SHAPE(self))
__CPROVER_ensures(self->free_size_ == Size)
__CPROVER_assigns(self->free_size_)
{{clear}}
size_t white_list_free_size(const struct wl* self)
__CPROVER_requires(SIZE_OK && WL_SHAPE(self))
__CPROVER_ensures(__CPROVER_return_value == W_free)
__CPROVER_assigns()
{{free}}
void wl_ctor(struct wl* self)
__CPROVER_requires(SIZE_OK && __CPROVER_is_fresh(self, sizeof(struct wl)))
__CPROVER_ensures(self->free_size_ == Size && !self->connection_filter_ && !self->scan_filter_)
__CPROVER_assigns(self->active_, self->free_size_, self->connection_filter_, self->scan_filter_)
{{ctor}}
void h_add_to_white_list(void) { SETUP; add_to_white_list(w, a); BT_CANARY(); }
void h_remove_from_white_list(void) { SETUP; remove_from_white_list(w, a); BT_CANARY(); }
void h_clear_white_list(void) { SETUP; clear_white_list(w); BT_CANARY(); }
void h_white_list_free_size(void) { SETUP; white_list_free_size(w); BT_CANARY(); }
void h_wl_ctor(void) { SETUP; wl_ctor(w); BT_CANARY(); }
""", enforce=['add_to_white_list', 'remove_from_white_list', 'clear_white_list', 'white_list_free_size', 'wl_ctor'],
         replace=['is_in_white_list', 'wl_find'], quick_defines=['WL_MAX=4'], thorough_defines=['WL_MAX=8'], timeout=900,
         replay=dict(src='replay/c26_replay.cpp', repo_sources=['bluetoe/utility/address.cpp'])),

    dict(name='filters',
         extracts=dict(SW_EX,
                       set_cf=dict(file=WL, scope=SW, locate=r'void connection_request_filter\( bool b \)'),
                       get_cf=dict(file=WL, scope=SW, locate=r'bool connection_request_filter\(\) const'),
                       set_sf=dict(file=WL, scope=SW, locate=r'void scan_request_filter\( bool b \)'),
                       get_sf=dict(file=WL, scope=SW, locate=r'bool scan_request_filter\(\) const'),
                       conn_in=dict(file=WL, scope=SW, locate=r'bool is_connection_request_in_filter\( const device_address& addr \) const',
                                    rules=[(r'is_in_white_list\( addr \)', 'is_in_white_list( self, addr )', 1)]),
                       scan_in=dict(file=WL, scope=SW, locate=r'bool is_scan_request_in_filter\( const device_address& addr \) const',
                                    rules=[(r'is_in_white_list\( addr \)', 'is_in_white_list( self, addr )', 1)])),
         code=SW_HEAD + ';' + IS_IN_DECL + ';' + SETUP + FILTER_GETSET + r"""
/* accept exactly when filtering is off or the address is a member */
bool is_connection_request_in_filter(const struct wl* self, const struct device_address* addr)
__CPROVER_requires(SIZE_OK && WL_SHAPE(self) && ADDR_OK(addr) && GHOST_OK(self) && self->connection_filter_ == W_cf)
__CPROVER_ensures(!W_cf ==> __CPROVER_return_value)
__CPROVER_ensures((W_cf && __CPROVER_return_value) ==> (G_found_at < Size - W_free && SAME(self->addresses_[G_found_at], W_addr)))
__CPROVER_ensures((W_cf && !__CPROVER_return_value && G_p < Size - W_free) ==> !SAME(self->addresses_[G_p], W_addr))
__CPROVER_assigns(G_found_at)
{{conn_in}}
bool is_scan_request_in_filter(const struct wl* self, const struct device_address* addr)
__CPROVER_requires(SIZE_OK && WL_SHAPE(self) && ADDR_OK(addr) && GHOST_OK(self) && self->scan_filter_ == W_sf)
__CPROVER_ensures(!W_sf ==> __CPROVER_return_value)
__CPROVER_ensures((W_sf && __CPROVER_return_value) ==> (G_found_at < Size - W_free && SAME(self->addresses_[G_found_at], W_addr)))
__CPROVER_ensures((W_sf && !__CPROVER_return_value && G_p < Size - W_free) ==> !SAME(self->addresses_[G_p], W_addr))
__CPROVER_assigns(G_found_at)
{{scan_in}}
void h_set_connection_request_filter(void) { SETUP; set_connection_request_filter(w, W_b); BT_CANARY(); }
void h_get_connection_request_filter(void) { SETUP; get_connection_request_filter(w); BT_CANARY(); }
void h_set_scan_request_filter(void) { SETUP; set_scan_request_filter(w, W_b); BT_CANARY(); }
void h_get_scan_request_filter(void) { SETUP; get_scan_request_filter(w); BT_CANARY(); }
void h_is_connection_request_in_filter(void) { SETUP; is_connection_request_in_filter(w, a); BT_CANARY(); }
void h_is_scan_request_in_filter(void) { SETUP; is_scan_request_in_filter(w, a); BT_CANARY(); }
""", enforce=['set_connection_request_filter', 'get_connection_request_filter', 'set_scan_request_filter', 'get_scan_request_filter',
              'is_connection_request_in_filter', 'is_scan_request_in_filter'], replace=['is_in_white_list', 'wl_find']),
]

# radio-backed variant: every operation is the radio's operation (forwarding shims)
_SHIMS = [  # (name, C return type, parameter C decl, call args, locate regex)
    ('white_list_free_size', 'size_t', '', '', r'std::size_t white_list_free_size\(\) const'),
    ('clear_white_list', 'void', '', '', r'void clear_white_list\(\)'),
    ('add_to_white_list', 'bool', 'const struct device_address* addr', 'addr', r'bool add_to_white_list\( const device_address& addr \)'),
    ('is_in_white_list', 'bool', 'const struct device_address* addr', 'addr', r'bool is_in_white_list\( const device_address& addr \) const'),
    ('remove_from_white_list', 'bool', 'const struct device_address* addr', 'addr', r'bool remove_from_white_list\( const device_address& addr \)'),
    ('is_connection_request_in_filter', 'bool', 'const struct device_address* addr', 'addr', r'bool is_connection_request_in_filter\( const device_address& addr \) const'),
    ('is_scan_request_in_filter', 'bool', 'const struct device_address* addr', 'addr', r'bool is_scan_request_in_filter\( const device_address& addr \) const'),
]
_code = ADDR_CODE + "size_t W_ret; int G_calls; const void* G_arg;\n"
_ex = dict(ADDR_EX)
_enf = []
for name, rt, par, args, loc in _SHIMS:
    _ex['s_' + name] = dict(file=WL, scope=HW, locate=loc, rules=[(r'this_to_radio\(\)\.', '', 1)], no_members=True)
    ret_clause = '' if rt == 'void' else ' && __CPROVER_return_value == (%s)W_ret' % rt
    _code += "%s radio_%s(%s) __CPROVER_ensures(G_calls == __CPROVER_old(G_calls) + 1 && G_arg == (const void*)%s%s) __CPROVER_assigns(G_calls, G_arg);\n" % (
        rt, name, par or 'void', args or '0', ret_clause)
    _code += "%s hw_%s(%s)\n__CPROVER_requires(G_calls == 0)\n__CPROVER_ensures(G_calls == 1 && G_arg == (const void*)%s%s)\n__CPROVER_assigns(G_calls, G_arg)\n{{s_%s}}\n" % (
        rt, name, par or 'void', args or '0', ret_clause, name)
    _code += "void h_hw_%s(void) { W_ret = nondet_size(); G_calls = 0; struct device_address a; BT_KNOWN_EXCLUDE(); hw_%s(%s); BT_CANARY(); }\n" % (name, name, '&a' if par else '')
    _enf.append('hw_' + name)
UNITS.append(dict(name='radio_backed', extracts=_ex, code=_code, enforce=_enf, replace=['radio_' + n for n, *_ in _SHIMS]))

META = dict(
    level='proof',
    explanation="The software white list (white_list_implementation<Size,true,...>) is extracted with device_address::operator== and proved against "
                "set semantics over the view addresses_[0..Size-free_size_): representation invariant (free_size_ <= Size, members pairwise "
                "distinct) preserved by every operation; add is idempotent, fails only when full, keeps every other member; remove deletes "
                "exactly the given address and keeps every other member; the filters accept exactly when filtering is off or the address is a "
                "member. Size symbolic (1..8); 'every member' / 'every pair' are ghost positions.",
    assumptions=["Size symbolic in [1,8] (add/remove/clear: quick [1,4], thorough [1,8])", "std::find and std::equal are represented by stand-ins (wl_find is proved against its contract; bt_equal_bytes is a 6-iteration loop)",
                 "the radio-backed variant forwards every call to the radio (radio_* functions); no binding in the repository implements them "
                 "(radio_maximum_white_list_entries == 0 for nRF51/52), so its set behaviour is outside the code base - not claimed"],
    trusted_base=[],
)
