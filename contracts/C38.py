"""C38 Generated passkeys are six-digit values."""
import os, sys
sys.path.insert(0, os.path.dirname(__file__))
from common import BITS32_EXTRACTS, BITS32_CODE

NRF52 = 'bluetoe/bindings/nordic/nrf52/security_tool_box.cpp'
NRF51 = 'bluetoe/bindings/nordic/nrf51/nrf51.cpp'

RULES = [
    (r'(?:const\s+)?bluetoe::details::uint128_t\s+(\w+)\s*\{\{', r'struct uint128 \1 = {{', '*'),
    (r'bluetoe::details::write_32bit', 'write_32bit', '*'),
    (r'\b(\w+)\.data\(\)', r'\1.v', '*'),
    (r'\b(\w+)\.begin\(\)', r'\1.v', '*'),
]
# the rejection loop: any draw may be rejected, so termination holds with probability 1 only and is not a proof
# obligation (no decreases clause); the invariant is what every exit of the loop guarantees together with !cond
LOOP = dict(header=r'^do while\s*\(',
            contract='__CPROVER_assigns(passkey, G_rng_n, __CPROVER_object_whole(W_rng)) __CPROVER_loop_invariant(1)')


def extracts(file, cls):
    return dict(BITS32_EXTRACTS,
        rnd16=dict(file=file, locate=r'std::uint16_t random_number16\(\)'),
        rnd32=dict(file=file, locate=r'std::uint32_t random_number32\(\)'),
        create=dict(file=file, locate=r'bluetoe::details::uint128_t ' + cls + r'::create_passkey\(\)', rules=RULES,
                    loops=[LOOP], loops_optional=True),
    )


CODE = BITS32_CODE + r'''
struct uint128 { uint8_t v[16]; };   /* bluetoe::details::uint128_t == std::array< std::uint8_t, 16 > */
/* the RNG peripheral (random_number8 busy-waits on NRF_RNG and returns its VALUE register): any byte, on every call.  Each byte
   drawn is recorded in the ring W_rng (ghost), so that a counterexample names the last 8 bytes the RNG delivered. */
uint8_t W_rng[8]; unsigned G_rng_n;
uint8_t random_number8(void)
__CPROVER_ensures(G_rng_n == __CPROVER_old(G_rng_n) + 1u)
__CPROVER_ensures(W_rng[__CPROVER_old(G_rng_n) & 7u] == __CPROVER_return_value)
__CPROVER_assigns(G_rng_n, W_rng[G_rng_n & 7u]);
uint16_t random_number16(void) {{rnd16}}
uint32_t random_number32(void) {{rnd32}}

/* the value the security manager displays (pairing_numeric_output reads the key with read_32bit) and uses as the
   128 bit temporary key of legacy passkey entry */
#define PASSKEY_OF(r) ((uint32_t)(r).v[0] | ((uint32_t)(r).v[1] << 8) | ((uint32_t)(r).v[2] << 16) | ((uint32_t)(r).v[3] << 24))
struct uint128 create_passkey(void)
__CPROVER_ensures(PASSKEY_OF(__CPROVER_return_value) <= 999999u)
__CPROVER_ensures(__CPROVER_return_value.v[4] == 0 && __CPROVER_return_value.v[5] == 0 && __CPROVER_return_value.v[6] == 0 && __CPROVER_return_value.v[7] == 0
               && __CPROVER_return_value.v[8] == 0 && __CPROVER_return_value.v[9] == 0 && __CPROVER_return_value.v[10] == 0 && __CPROVER_return_value.v[11] == 0
               && __CPROVER_return_value.v[12] == 0 && __CPROVER_return_value.v[13] == 0 && __CPROVER_return_value.v[14] == 0 && __CPROVER_return_value.v[15] == 0)
__CPROVER_assigns(G_rng_n, __CPROVER_object_whole(W_rng))
{{create}}

void h_create_passkey(void) { for (int k = 0; k < 8; ++k) W_rng[k] = nondet_u8(); G_rng_n = nondet_unsigned();
   BT_KNOWN_EXCLUDE(); create_passkey(); BT_CANARY(); }
'''

UNITS = [
    dict(name='nrf52_create_passkey', extracts=extracts(NRF52, 'security_tool_box'), code=CODE,
         enforce=['create_passkey'], replace=['random_number8'],
         replay=dict(src='replay/c38_replay.cpp', repo_sources=[NRF52, 'bluetoe/utility/address.cpp'], c_sources=['bluetoe/bindings/nordic/uECC/uECC.c'],
                     repo_includes=['bluetoe/bindings/nordic/nrf52/include', 'bluetoe/bindings/nordic/uECC'],
                     # -fpermissive: the binding casts a pointer to the 32 bit ECBDATAPTR register (an error on a 64 bit host)
                     cxxflags=['-fpermissive', '-DNDEBUG', '-I' + os.path.join(os.path.dirname(os.path.dirname(os.path.abspath(__file__))), 'replay', 'nrf_stub')])),
    dict(name='nrf51_create_passkey', extracts=extracts(NRF51, 'scheduled_radio_base_with_encryption_base'), code=CODE,
         enforce=['create_passkey'], replace=['random_number8']),
]

META = dict(
    level='proof',
    explanation="security_tool_box::create_passkey (nRF52 binding) and scheduled_radio_base_with_encryption_base::create_passkey (nRF51 binding, same "
                "code) are extracted together with the real random_number16/random_number32 and proved for every byte stream the RNG "
                "peripheral can deliver: the 32 bit value the security manager displays and uses as temporary key is <= 999999 and the other "
                "12 key bytes are zero. The rejection loop is closed by a loop contract (no unwinding); its exit condition is what bounds the value.",
    assumptions=["uniformity ('uniformly chosen') is a statement about a distribution and not about one call: not decided. What is proved is "
                 "the range; that the accepted draw is an unmodified 20 bit RNG value (so that all values are equally likely if the RNG bytes "
                 "are uniform) is visible in the extracted text but not a contract",
                 "termination of the rejection loop holds with probability 1 only (each draw is accepted with probability 0.954): no decreases clause",
                 "the legacy test toolbox (tests/security_manager/test_sm.hpp) returns a constant passkey and is not under contract"],
    trusted_base=["random_number8: the NRF_RNG peripheral is external hardware; its contract is 'any byte'"],
)
