"""C07 Prepared writes are deferred, per-client and applied in order."""
import os, sys
sys.path.insert(0, os.path.dirname(__file__))
from common import COPY_RULE
from att import *
WQ = 'bluetoe/write_queue.hpp'
WQC = r'class write_queue< shared_write_queue< S > >\s*(?=\{)'
TW = r'template < std::uint16_t S >\s*'
TWC = TW + r'template < typename ConData >\s*'
QW = r'write_queue< shared_write_queue< S > >::'
WR = [(r'&client\b', 'client', '*'), (r'std::make_pair\( (?:nullptr|0), 0 \)', '(struct pair_ptr_size){ 0, 0 }', '*'), (r'std::make_pair\( ([^;]*?), (read_size\([^;]*?\)) \)(?=\s*;)', r'(struct pair_ptr_size){ \1, \2 }', '*'),
      (r'(?<![\w>.])read_size\(', 'read_size( self, ', '*'), (r'\bS\b', 'G_S', '*')]
def wq(sig, tmpl=TWC, **kw):
    d = dict(file=WQ, locate=tmpl + sig, rules=WR); d.update(kw); return d
W_EX = dict(
    wq_fields=dict(kind='fields', file=WQ, scope=WQC, names=['current_client_', 'buffer_', 'buffer_end_'], rules=[(r'\[ S \]', '[S_MAX]', '*')]),
    wq_ctor=dict(file=WQ, locate=TW + QW + r'write_queue\(\)', init_list=True, rules=WR),
    wq_alloc=wq(r'std::uint8_t\* ' + QW + r'allocate_from_write_queue\( std::size_t size, ConData& client \)'),
    wq_free=wq(r'void ' + QW + r'free_write_queue\( ConData& client \)'),
    wq_first=wq(r'std::pair< std::uint8_t\*, std::size_t > ' + QW + r'first_write_queue_element\( ConData& client \)'),
    wq_next=wq(r'std::pair< std::uint8_t\*, std::size_t > ' + QW + r'next_write_queue_element\( std::uint8_t\* last, ConData& client \)'),
    wq_read_size=wq(r'std::size_t ' + QW + r'read_size\( std::uint8_t\* last \) const', tmpl=TW),
)
W_CODE = r'''
#ifndef S_MAX
#define S_MAX 64
#endif
uint16_t G_S;                                   /* shared_write_queue< S > */
struct pair_ptr_size { uint8_t* first; size_t second; };
struct wq { {{wq_fields}} };
size_t G_k;                                     /* ghost: one byte of the buffer */
uint16_t W_end, W_S; size_t W_n, W_k, W_off; bool W_owner_null, W_owner_me; uint8_t W_lo, W_hi, W_at_k;
void* G_me; void* G_other;
/* representation invariant: the filled part ends inside the buffer; the queue has an owner exactly while it holds data */
#define WQ_INV(self) ((self)->buffer_end_ <= G_S && (((self)->current_client_ == 0) == ((self)->buffer_end_ == 0)))
#define WQ_PRE(self) (__CPROVER_is_fresh(self, sizeof(struct wq)) && G_S >= 1 && G_S <= S_MAX && G_S == W_S && (self)->buffer_end_ == W_end && W_end <= G_S \
    && G_me != 0 && G_other != 0 && G_me != G_other && (self)->current_client_ == (W_owner_null ? (void*)0 : W_owner_me ? G_me : G_other) && (W_owner_null == (W_end == 0)) \
    && G_k < S_MAX && G_k == W_k && (self)->buffer_[G_k] == W_at_k)
void wq_ctor(struct wq* self)
__CPROVER_requires(__CPROVER_is_fresh(self, sizeof(struct wq)) && G_S >= 1 && G_S <= S_MAX)
__CPROVER_ensures(self->buffer_end_ == 0 && self->current_client_ == 0 && WQ_INV(self))
__CPROVER_assigns(self->buffer_end_, self->current_client_)
{{wq_ctor}}
size_t read_size(const struct wq* self, uint8_t* last)
__CPROVER_requires(__CPROVER_r_ok(last - 2, 2))
__CPROVER_ensures(__CPROVER_return_value == (size_t)last[-2] + (size_t)last[-1] * 256)
__CPROVER_assigns()
{{wq_read_size}}
/* appends exactly one record (16 bit length, then room for the data) for the owner, or returns null and changes nothing;
   null iff there is no room or the queue belongs to another client */
#define ALLOC_FAILS (W_n + 2 > (size_t)(W_S - W_end) || (!W_owner_null && !W_owner_me))
uint8_t* allocate_from_write_queue(struct wq* self, size_t size, void* client)
__CPROVER_requires(WQ_PRE(self) && size >= 1 && size <= 65535 && size == W_n && client == G_me)
__CPROVER_ensures(WQ_INV(self))
__CPROVER_ensures(ALLOC_FAILS ==> (__CPROVER_return_value == 0 && self->buffer_end_ == W_end && self->current_client_ == __CPROVER_old(self->current_client_) && self->buffer_[G_k] == W_at_k))
__CPROVER_ensures(!ALLOC_FAILS ==> (__CPROVER_return_value == &self->buffer_[W_end + 2] && self->buffer_end_ == W_end + W_n + 2 && self->current_client_ == G_me
    && self->buffer_[W_end] == (W_n & 0xff) && self->buffer_[W_end + 1] == (W_n >> 8) && (G_k < W_end ==> self->buffer_[G_k] == W_at_k)))
__CPROVER_assigns(self->buffer_end_, self->current_client_, self->buffer_[W_end], self->buffer_[W_end + 1])
{{wq_alloc}}
/* released by its owner only */
void free_write_queue(struct wq* self, void* client)
__CPROVER_requires(WQ_PRE(self) && (client == G_me || client == G_other))
__CPROVER_ensures(WQ_INV(self))
__CPROVER_ensures(__CPROVER_old(self->current_client_) == client ? (self->buffer_end_ == 0 && self->current_client_ == 0) : (self->buffer_end_ == W_end && self->current_client_ == __CPROVER_old(self->current_client_)))
__CPROVER_assigns(self->buffer_end_, self->current_client_)
{{wq_free}}
struct pair_ptr_size first_write_queue_element(struct wq* self, void* client)
__CPROVER_requires(WQ_PRE(self) && client == G_me && self->buffer_[0] == W_lo && self->buffer_[1] == W_hi)
__CPROVER_ensures((W_owner_null || !W_owner_me) ? (__CPROVER_return_value.first == 0 && __CPROVER_return_value.second == 0)
    : (__CPROVER_return_value.first == &self->buffer_[2] && __CPROVER_return_value.second == (size_t)W_lo + 256 * (size_t)W_hi))
__CPROVER_assigns()
{{wq_first}}
/* the record behind the one at 'last', or null when 'last' was the newest one */
struct pair_ptr_size next_write_queue_element(struct wq* self, uint8_t* last, void* client)
__CPROVER_requires(WQ_PRE(self) && client == G_me && !W_owner_null && W_owner_me && W_off >= 2 && W_off <= W_end && __CPROVER_pointer_equals(last, &self->buffer_[W_off])
    && self->buffer_[W_off - 2] == W_lo && self->buffer_[W_off - 1] == W_hi
    /* the record at 'last' is well formed: it ends inside the filled part, and another length field follows unless it ends exactly there */
    && W_off + (size_t)W_lo + 256 * (size_t)W_hi <= W_end && (W_off + (size_t)W_lo + 256 * (size_t)W_hi == W_end || W_off + (size_t)W_lo + 256 * (size_t)W_hi + 2 <= W_end))
__CPROVER_ensures(W_off + (size_t)W_lo + 256 * (size_t)W_hi == W_end ? (__CPROVER_return_value.first == 0 && __CPROVER_return_value.second == 0)
    : (__CPROVER_return_value.first == &self->buffer_[W_off + (size_t)W_lo + 256 * (size_t)W_hi + 2]
       && __CPROVER_return_value.second == (size_t)self->buffer_[W_off + (size_t)W_lo + 256 * (size_t)W_hi] + 256 * (size_t)self->buffer_[W_off + (size_t)W_lo + 256 * (size_t)W_hi + 1]))
__CPROVER_assigns()
{{wq_next}}
#define WSETUP struct wq* q; W_end = nondet_u16(); W_S = nondet_u16(); G_S = W_S; W_n = nondet_size(); W_k = nondet_size(); G_k = W_k; W_off = nondet_size(); W_owner_null = nondet_bool(); W_owner_me = nondet_bool(); \
  W_lo = nondet_u8(); W_hi = nondet_u8(); W_at_k = nondet_u8(); static int me_obj, other_obj; G_me = &me_obj; G_other = &other_obj; BT_KNOWN_EXCLUDE()
void h_wq_ctor(void) { WSETUP; wq_ctor(q); BT_CANARY(); }
void h_read_size(void) { WSETUP; uint8_t b[4]; struct wq x; read_size(&x, b + 2); BT_CANARY(); }
void h_allocate_from_write_queue(void) { WSETUP; allocate_from_write_queue(q, W_n, G_me); BT_CANARY(); }
void h_free_write_queue(void) { WSETUP; free_write_queue(q, nondet_bool() ? G_me : G_other); BT_CANARY(); }
void h_first_write_queue_element(void) { WSETUP; first_write_queue_element(q, G_me); BT_CANARY(); }
void h_next_write_queue_element(void) { WSETUP; uint8_t* l; next_write_queue_element(q, l, G_me); BT_CANARY(); }
'''
UNITS = [
    dict(name='write_queue', extracts=W_EX, code=W_CODE, object_bits=10, thorough_defines=['S_MAX=1024'],
         enforce=['wq_ctor', 'read_size', 'allocate_from_write_queue', 'free_write_queue', 'first_write_queue_element', 'next_write_queue_element'], replace=['read_size'],
         flags_off=['--pointer-overflow-check']),
]

# ------------------------------------------------------------------ server.hpp: Prepare Write / Execute Write (with a write queue) and client_disconnected
TQ = TS + r'template < typename Connection, typename WriteQueue >\s*'
TCN = TS + r'template < typename Connection >\s*'
def _guard(m):
    head, tail = m.group(1), m.group(2)
    tail = re.sub(r'return \(void\)error_response\(([^;]*)\);', r'{ error_response(\1); queue_guard_dtor( client ); return; }', tail)
    assert tail.rstrip().endswith('}')
    tail = tail.rstrip()[:-1] + ' queue_guard_dtor( client ); }'
    return head + '/* write_queue_guard constructed: its destructor frees the queue at every exit below */' + tail
import re
H_PRE = ATT_PRE + [(r'check_write\( this \)', 'check_write( self )', '*'), (r'this->allocate_from_write_queue\( in_size - 1, client \)', 'wq_alloc( in_size - 1, client )', '*'),
    (r'this->free_write_queue\( client \)', 'wq_free( client )', '*'),
    (r'this->first_write_queue_element\( client \)', 'wq_first( client )', '*'), (r'this->next_write_queue_element\( queue\.first, client \)', 'wq_next( queue.first, client )', '*'),
    (r'std::pair< std::uint8_t\*, std::size_t > queue', 'struct pair_ptr_size queue', '*'),
    (r'attribute_at\( attribute_index \)\.access\( write, attribute_index \)', 'ACCESS( &write, attribute_index )', '*')]
H_RULES = ATT_RULES + [COPY_RULE('*'),
    (r'(.*)details::write_queue_guard< connection_data, details::write_queue< write_queue_type > > queue_guard\( client, \(\*self\) \);(.*)', _guard, '*'),
    (r'(.*)details::write_queue_guard< connection_data, details::write_queue< write_queue_type > > queue_guard\( client, \*this \);(.*)', _guard, '*')]
H_EX = dict(ATT_EX,
    args_check_write=dict(file=ATTR, scope=ARGS, locate=r'static constexpr attribute_access_arguments check_write\( void\* server \)',
                          rules=ATT_RULES + [(r'return attribute_access_arguments\{', 'return (struct attribute_access_arguments){', 1), (r'client_characteristic_configuration\(\)', '(struct ccc){ 0 }', 1),
                                             (r'connection_security_attributes\(\)', 'default_security_attributes()', 1)]),
    sec_ctor=dict(file=PST, scope=r'struct connection_security_attributes\b', locate=r'constexpr connection_security_attributes\(\)', init_list=True, member_extra=['is_encrypted', 'pairing_status'],
                  rules=[(r'device_pairing_status::', 'device_pairing_status_', '*')]),
    prepare=srv_fn(r'void ' + SQ + r'handle_prepair_write_request\( const std::uint8_t\* input, std::size_t in_size, std::uint8_t\* output, std::size_t& out_size, Connection& client, const WriteQueue& \)', tmpl=TQ, pre=H_PRE, rules=H_RULES),
    execute=srv_fn(r'void ' + SQ + r'handle_execute_write_request\( const std::uint8_t\* input, std::size_t in_size, std::uint8_t\* output, std::size_t& out_size, Connection& client, const WriteQueue& \)', tmpl=TQ, pre=H_PRE,
        rules=H_RULES + [(r'(const uint16_t handle = read_handle\( queue\.first \);)', r'BT_GHOST_REBIND(queue.first, G_q_mem + G_q_idx * REC); \1', 1)],
        loops=[dict(header=r'for \( struct pair_ptr_size queue = wq_first\( client \); queue\.first; queue = wq_next\( queue\.first, client \) \)',
                    contract="""__CPROVER_assigns(queue, G_q_idx, G_acc, G_ibh, G_writes_ok)
                    __CPROVER_loop_invariant(G_q_idx <= G_q_n && G_acc_calls == G_q_idx && G_writes_ok && G_free_calls == 0
                        && (G_q_idx < G_q_n ? (queue.first == G_q_mem + G_q_idx * REC && queue.second == G_q_size[G_q_idx]) : queue.first == 0)
                        && (G_q_idx > 0 ==> LAST_WRITE_IS_RECORD(G_q_idx - 1)))
                    __CPROVER_decreases(G_q_n - G_q_idx)""")]),
    prepare_none=srv_fn(r'void ' + SQ + r'handle_prepair_write_request\( const std::uint8_t\* input, std::size_t, std::uint8_t\* output, std::size_t& out_size, Connection&, const details::no_such_type& \)', tmpl=TCN),
    execute_none=srv_fn(r'void ' + SQ + r'handle_execute_write_request\( const std::uint8_t\* input, std::size_t, std::uint8_t\* output, std::size_t& out_size, Connection&, const details::no_such_type& \)', tmpl=TCN),
    disconnected=srv_fn(r'void ' + SQ + r'client_disconnected\( Connection& client \)', tmpl=TCN, pre=[(r'this->free_write_queue\( client \)', 'wq_free( client )', 1)]),
)
for k in ('args_read',):
    H_EX.pop(k)
H_CODE = ATT_CODE.replace('{{args_read}}', '{ struct attribute_access_arguments a; return a; }') + r"""
struct pair_ptr_size { uint8_t* first; size_t second; };
static inline struct connection_security_attributes default_security_attributes(void) { struct connection_security_attributes s; struct connection_security_attributes* self = &s; {{sec_ctor}} return s; }
static inline struct attribute_access_arguments args_check_write(void* server) {{args_check_write}}
/* ---- abstract view of the write queue (what unit write_queue proves about the real one): a FIFO of G_q_n records owned by one client */
#define Q_MAX 4
#define REC 32
size_t G_q_n, G_q_idx; uint8_t G_q_mem[Q_MAX * REC]; size_t G_q_size[Q_MAX]; int G_free_calls; bool G_alloc_fails; size_t G_alloc_n; uint8_t G_alloc_mem[MTU_MAX]; bool G_writes_ok;
static inline uint8_t* wq_alloc(size_t n, struct conn* client) { G_alloc_n = n; return G_alloc_fails ? (uint8_t*)0 : &G_alloc_mem[0]; }
static inline void wq_free(struct conn* client) { ++G_free_calls; }
static inline struct pair_ptr_size wq_first(struct conn* client) { G_q_idx = 0; return G_q_n == 0 ? (struct pair_ptr_size){ 0, 0 } : (struct pair_ptr_size){ &G_q_mem[0], G_q_size[0] }; }
static inline struct pair_ptr_size wq_next(uint8_t* cur, struct conn* client) { __CPROVER_assert(G_q_idx < G_q_n && cur == &G_q_mem[G_q_idx * REC], "next_write_queue_element is called with the current record");
    ++G_q_idx; return G_q_idx == G_q_n ? (struct pair_ptr_size){ 0, 0 } : (struct pair_ptr_size){ &G_q_mem[G_q_idx * REC], G_q_size[G_q_idx] }; }
static inline void queue_guard_dtor(struct conn* client) { wq_free(client); }
size_t W_in_size, W_out_size; uint8_t W_in[6]; bool W_enc; int W_ps; bool W_full; size_t W_q_n; uint8_t W_flag;
/* the last access was the write queued as record i: its handle, its offset, its data, this connection's security attributes */
#define RECP(i) (G_q_mem + (i) * REC)
#define LAST_WRITE_IS_RECORD(i) (G_acc_type == attribute_access_type_write && G_acc_enc == W_enc && G_acc_ps == W_ps && G_acc_buf == RECP(i) + 4 && G_acc_size == G_q_size[i] - 4 \
    && G_acc_off == (size_t)(RECP(i)[2] | (RECP(i)[3] << 8)) && G_acc_index == G_ibh_ret && G_ibh_arg == (uint16_t)(RECP(i)[0] | (RECP(i)[1] << 8)) && G_acc_cfg == G_conn_cfg.data_)
#define H_PRE(input, in_size, output, out_size) (TABLE_OK && IN_OK(input, in_size) && in_size == W_in_size && OUT_OK(output, out_size) && *out_size == W_out_size \
    && input[0] == W_in[0] && (in_size < 2 || input[1] == W_in[1]) && (in_size < 3 || input[2] == W_in[2]) && (in_size < 4 || input[3] == W_in[3]) && (in_size < 5 || input[4] == W_in[4]) \
    && G_acc_calls == 0 && G_ibh_calls == 0 && G_free_calls == 0 && G_conn_sec.is_encrypted == W_enc && (int)G_conn_sec.pairing_status == W_ps && W_ps >= 0 && W_ps <= 3)
#define HANDLE_IN ((uint16_t)(W_in[1] | (W_in[2] << 8)))
#define H_ASSIGNS *out_size, __CPROVER_object_upto(output, W_out_size), G_ibh, G_acc, G_free_calls

/* Prepare Write: queues the request, never touches a value */
void handle_prepair_write_request_(struct server* self, const uint8_t* input, size_t in_size, uint8_t* output, size_t* out_size, struct conn* client)
__CPROVER_requires(H_PRE(input, in_size, output, out_size) && G_alloc_fails == W_full && G_pre_j < MTU_MAX && G_pre_j2 == G_pre_j && G_pre_j3 == G_pre_j)
__CPROVER_ensures(FRAMED(output, out_size, W_in[0], 0x17, W_out_size))
__CPROVER_ensures(W_in_size < 5 ==> (IS_ERROR(output, out_size, W_in[0], att_error_codes_invalid_pdu) && G_acc_calls == 0))
/* the only access is the permission probe: a write of zero octets - no value changes */
__CPROVER_ensures(G_acc_calls <= 1 && (G_acc_calls == 1 ==> (G_acc_type == attribute_access_type_write && G_acc_size == 0 && G_acc_index == G_ibh_ret)))
/* accepted exactly when a Write Request on this connection would be permitted: the probe carries this connection's security attributes */
__CPROVER_ensures(G_acc_calls == 1 ==> (G_acc_enc == W_enc && G_acc_ps == W_ps))
__CPROVER_ensures((G_acc_calls == 1 && G_acc_rc != 0) ==> IS_ERROR_H(output, out_size, W_in[0], HANDLE_IN, ((G_acc_rc & ~0xff) == 0 ? G_acc_rc : att_error_codes_write_not_permitted)))
/* queue owned by another client or full: Prepare Queue Full */
__CPROVER_ensures((G_acc_calls == 1 && G_acc_rc == 0 && W_full) ==> IS_ERROR_H(output, out_size, W_in[0], HANDLE_IN, att_error_codes_prepare_queue_full))
/* queued: handle, offset and value behind the opcode are stored and echoed */
__CPROVER_ensures((G_acc_calls == 1 && G_acc_rc == 0 && !W_full) ==> (output[0] == 0x17 && *out_size == BT_MIN(W_out_size, W_in_size) && G_alloc_n == W_in_size - 1
    && (G_pre_j < W_in_size - 1 ==> G_alloc_mem[G_pre_j] == input[1 + G_pre_j]) && (G_pre_j + 1 < *out_size ==> output[1 + G_pre_j] == input[1 + G_pre_j])))
__CPROVER_ensures(G_free_calls == 0)
__CPROVER_assigns(H_ASSIGNS, G_alloc_n, __CPROVER_object_upto(G_alloc_mem, MTU_MAX))
{{prepare}}
/* Execute Write */
void handle_execute_write_request_(struct server* self, const uint8_t* input, size_t in_size, uint8_t* output, size_t* out_size, struct conn* client)
__CPROVER_requires(H_PRE(input, in_size, output, out_size) && G_q_n <= Q_MAX && G_q_n == W_q_n && G_writes_ok)
/* every queued record was stored by Prepare Write: handle, offset and at least no data (4 octets or more), for a handle that designates an attribute */
__CPROVER_requires(G_ibh_valid_only && G_q_size[0] >= 4 && G_q_size[0] <= REC && G_q_size[1] >= 4 && G_q_size[1] <= REC && G_q_size[2] >= 4 && G_q_size[2] <= REC && G_q_size[3] >= 4 && G_q_size[3] <= REC)
__CPROVER_ensures(FRAMED(output, out_size, W_in[0], 0x19, W_out_size))
__CPROVER_ensures((W_in_size != 2 || W_in[1] > 1) ==> (IS_ERROR(output, out_size, W_in[0], att_error_codes_invalid_pdu) && G_acc_calls == 0 && G_free_calls == 0))
/* flag 0: the queued writes are discarded; flag 1: they are applied in queue order, each with the queued handle / offset / data and this connection's security attributes, until one fails */
__CPROVER_ensures((W_in_size == 2 && W_in[1] == 0) ==> (G_acc_calls == 0 && *out_size == 1 && output[0] == 0x19))
__CPROVER_ensures((W_in_size == 2 && W_in[1] == 1 && G_acc_calls >= 1) ==> LAST_WRITE_IS_RECORD(G_acc_calls - 1))
__CPROVER_ensures((W_in_size == 2 && W_in[1] == 1) ==> (G_writes_ok && G_acc_calls <= W_q_n && ((*out_size == 1 && output[0] == 0x19) ? G_acc_calls == W_q_n : (G_acc_calls >= 1 && G_acc_rc != 0))))
/* the queue is released in every case */
__CPROVER_ensures((W_in_size == 2 && W_in[1] <= 1) ==> G_free_calls >= 1)
__CPROVER_assigns(H_ASSIGNS, G_q_idx, G_writes_ok)
{{execute}}
/* without a write queue both requests are not supported */
void handle_prepair_write_request_none(struct server* self, const uint8_t* input, size_t in_size, uint8_t* output, size_t* out_size)
__CPROVER_requires(IN_OK(input, in_size) && OUT_OK(output, out_size))
__CPROVER_ensures(IS_ERROR(output, out_size, input[0], att_error_codes_request_not_supported))
__CPROVER_assigns(*out_size, __CPROVER_object_upto(output, 5))
{{prepare_none}}
void handle_execute_write_request_none(struct server* self, const uint8_t* input, size_t in_size, uint8_t* output, size_t* out_size)
__CPROVER_requires(IN_OK(input, in_size) && OUT_OK(output, out_size))
__CPROVER_ensures(IS_ERROR(output, out_size, input[0], att_error_codes_request_not_supported))
__CPROVER_assigns(*out_size, __CPROVER_object_upto(output, 5))
{{execute_none}}
void client_disconnected(struct server* self, struct conn* client)
__CPROVER_requires(G_free_calls == 0)
__CPROVER_ensures(G_free_calls == 1)
__CPROVER_assigns(G_free_calls)
{{disconnected}}
#define SETUP struct server srv; struct server* self = &srv; W_in_size = nondet_size(); W_out_size = nondet_size(); for (int k = 0; k < 6; ++k) W_in[k] = nondet_u8(); struct conn c; \
  __CPROVER_assume(W_in_size >= 1 && W_in_size <= MTU_MAX && W_out_size >= 23 && W_out_size <= MTU_MAX); uint8_t* in = malloc(W_in_size); uint8_t* out = malloc(W_out_size); __CPROVER_assume(in && out); \
  for (int k = 0; k < 5; ++k) if (W_in_size > k) in[k] = W_in[k]; size_t os = W_out_size; G_N = nondet_size(); G_acc_calls = 0; G_ibh_calls = 0; G_free_calls = 0; W_enc = nondet_bool(); W_ps = nondet_int(); \
  __CPROVER_assume(W_ps >= 0 && W_ps <= 3); G_conn_sec.is_encrypted = W_enc; G_conn_sec.pairing_status = W_ps; W_full = nondet_bool(); G_alloc_fails = W_full; W_q_n = nondet_size(); G_q_n = W_q_n; G_writes_ok = 1; G_ibh_valid_only = nondet_bool(); for (int k = 0; k < Q_MAX; ++k) G_q_size[k] = nondet_size(); \
  G_pre_j = nondet_size(); G_pre_j2 = G_pre_j; G_pre_j3 = G_pre_j; BT_KNOWN_EXCLUDE()
void h_handle_prepair_write_request_(void) { SETUP; handle_prepair_write_request_(self, in, W_in_size, out, &os, &c); BT_CANARY(); }
void h_handle_execute_write_request_(void) { SETUP; handle_execute_write_request_(self, in, W_in_size, out, &os, &c); BT_CANARY(); }
void h_handle_prepair_write_request_none(void) { SETUP; handle_prepair_write_request_none(self, in, W_in_size, out, &os); BT_CANARY(); }
void h_handle_execute_write_request_none(void) { SETUP; handle_execute_write_request_none(self, in, W_in_size, out, &os); BT_CANARY(); }
void h_client_disconnected(void) { SETUP; client_disconnected(self, &c); BT_CANARY(); }
"""
UNITS.append(dict(name='prepare_execute', extracts=H_EX, code=H_CODE, object_bits=10, defines=['BT_NEED_COPY', 'BT_BYTES_MAX=600'],
         enforce=['handle_prepair_write_request_', 'handle_execute_write_request_', 'handle_prepair_write_request_none', 'handle_execute_write_request_none', 'client_disconnected'],
         replace=['ACCESS', 'index_by_handle', 'check_handle_', 'access_result_to_att_code', 'error_response5_', 'error_response4_', 'bt_copy_u8']))

for u in UNITS:
    if u['name'] == 'prepare_execute':
        u['replay'] = dict(src='replay/c07_replay.cpp', cxxflags=['-DNDEBUG'])
META = dict(
    level='proof',
    explanation="write_queue< shared_write_queue< S > > (constructor, allocate_from_write_queue, free_write_queue, first / next_write_queue_element, "
                "read_size) for symbolic S, fill level, owner and request size: representation invariant (fill level <= S, owner set exactly while "
                "data is queued); allocation appends exactly one record (16 bit length + room) for the owner or returns null and changes nothing - "
                "null iff no room or another owner; earlier records are untouched (ghost index); only the owner releases the queue; first / next "
                "walk the records by their length fields. server.hpp handle_prepair_write_request / handle_execute_write_request (with and without "
                "queue) and client_disconnected against the abstract FIFO view of that queue: Prepare Write makes one zero-length write probe with "
                "this connection's security attributes and no other access - no value changes -, answers Prepare Queue Full when the queue refuses, "
                "otherwise stores and echoes handle, offset and value; Execute Write with flag 0 performs no access, with flag 1 writes the records "
                "in queue order, each with its queued handle, offset, data and this connection's security attributes, stops at the first failure; "
                "the queue is released on every execute path and on disconnect; malformed Execute Write -> Invalid PDU.",
    assumptions=["the handlers are verified against an abstract FIFO (records of 4..32 octets, at most 4 visible) whose behaviour is what unit "
                 "write_queue proves for the real queue; the tiling of the queue buffer by records (needed to chain next_write_queue_element) is "
                 "stated as the precondition 'the record at last is well formed', not as a proved global invariant",
                 "write_queue_guard (RAII): its destructor is modelled by the extraction rule 'free the queue at every exit behind its construction'",
                 "every queued handle still designates an attribute at execute time (the table is constant); index_by_handle is abstract",
                 "interleavings of two or more clients are sequences of calls, each covered by the per-call contracts with symbolic owner"],
    trusted_base=[],
)
